"""C05 — reverting to a version restores exactly the state that version recorded.

A session program builds a history; then for EVERY version row of every entity (first, middle,
last, delete versions; entity live or deleted) and for no relationship / each first-level
relationship, the history is replayed on a fresh database, `version.revert(relations=...)` is called
and committed, and the application rows before and after are handed to the Lean driver, which
evaluates `C05.TargetHolds`, `C05.O2MHolds` / `C05.M2MHolds` / the many-to-one clause and
`C05.FrameHolds`, computing what the version "shows" with the Lean relationship model (`Rel.lean`)
from the version tables — independently of the implementation's own relationship accessors.
"""
import json

from ..core import Prop, Outcome
from .. import envs, program, proggen

RELS = {
    'articles': {'Article': [('tags', 'o2m:1:1')], 'Tag': [('article', 'm2o:0:1')]},
    'm2m': {'Article': [('tags', 'm2m:1:0:1')], 'Tag': [('articles', 'm2m:0:0:0')]},
}
TID = {'Article': 0, 'Tag': 1}
# relationship numbers for the recursion model (class table / relationship number / specification)
RELNO = {'tags': 0, 'article': 1, 'articles': 1}
REG = {'articles': '0/0/o2m:1:1;1/1/m2o:0:1', 'm2m': '0/0/m2m:1:0:1;1/1/m2m:0:0:0'}
# dotted (two-level, cyclic) relationship paths per shape and class: they lead back to the class of the target
# (a call may name several paths, also paths sharing their first component: 'tags,tags.article' is
# revert(relations=['tags', 'tags.article']) - the relationship is restored ONCE)
DOTTED = {
    'articles': {'Article': [('tags', 'tags.article'), ('tags', 'tags,tags.article')],
                 'Tag': [('article', 'article.tags'), ('article', 'article.tags,article')]},
    'm2m': {'Article': [('tags', 'tags.articles'), ('tags', 'tags,tags.articles')],
            'Tag': [('articles', 'articles.tags'), ('articles', 'articles.tags,articles')]},
}


def visible_links(dump):
    """association rows both of whose ends exist.  SQLAlchemy itself leaves a dangling association row behind when
    a pair is linked and the parent deleted in one flush (also without continuum); such a row cannot be seen or
    removed through the relationship, so the relationship clause of C05 does not speak about it."""
    have = {(l.split(' ')[0], l.split(' ')[1]) for l in dump['live']}
    out = []
    for r in dump['links']:
        ends = r.split(' ')[1].split(',')
        if len(ends) == 2 and (str(TID['Article']), ends[0]) in have and (str(TID['Tag']), ends[1]) in have:
            out.append(r)
        elif len(ends) != 2:
            out.append(r)
    return out


def relates_then_deletes(prog):
    """is an entity made one end of a relationship (link / scalar assignment) and deleted later in the same
    transaction?  SQLAlchemy then leaves a dangling foreign key / association row behind (with or without continuum),
    i.e. the history hands the reverter an application database that is inconsistent already."""
    touched = set()
    for st in prog:
        if st[0] in ('link', 'unlink'):
            touched.add((st[1], tuple(st[2])))
            touched.add((st[4], tuple(st[5])))
        elif st[0] == 'setrel':
            touched.add((st[1], tuple(st[2])))
            if st[5] is not None:
                touched.add((st[4], tuple(st[5])))
        elif st[0] == 'del' and (st[1], tuple(st[2])) in touched:
            return True
        elif st[0] in ('commit', 'rollback'):
            touched.clear()
    return False


def make_spec(shape, strategy, exclude=(), variant=None):
    if shape == 'articles':
        spec = envs.shape_articles({'strategy': strategy}, exclude=list(exclude))
        if variant == 'o2o':
            # Article.tags is a scalar (uselist=False): a one-to-one relationship
            spec['classes'][1]['rels'][0]['backref_kw'] = {'uselist': False}
    else:
        spec = envs.shape_m2m({'strategy': strategy})
    spec['shape'] = shape
    return spec


def replay(case):
    env = envs.Env(case['spec'])
    r = program.ProgramRunner(env)
    obs = r.run(case['program'])
    return env, r, obs


def one_revert(case, target, rels):
    """fresh database, replay the history, revert `target` with `rels`, commit; before/after rows"""
    import sqlalchemy_continuum as sc
    import traceback
    env, r, obs = replay(case)
    try:
        if obs.get('error'):
            return {'history_error': obs['error']}
        cname, pk, tx = target
        V = sc.version_class(env.classes[cname])
        s = env.s
        vobj = s.get(V, (pk[0], tx))
        if vobj is None:
            return {'missing': True}
        t = r.tracer
        before = {'live': r.dump_livev(), 'links': t.dump_links(), 'raw': raw_tables(env)}
        versions = t.dump_versions()
        assoc = t.dump_assoc()
        err = None
        try:
            vobj.revert(relations=list(rels))
            s.commit()
        except Exception as e:
            err = {'type': type(e).__name__, 'msg': str(e)[:200],
                   'in_continuum': any('/sqlalchemy_continuum/' in f.filename for f in traceback.extract_tb(e.__traceback__))}
            s.rollback()
        after = {'live': r.dump_livev(), 'links': t.dump_links(), 'raw': raw_tables(env)}
        return {'before': before, 'after': after, 'versions': versions, 'assoc': assoc, 'error': err,
                'versions_after': t.dump_versions()}
    finally:
        env.close()


def repeated_revert(case, target):
    """one session: revert to V, commit, change the entity again, commit, revert to the SAME version object again"""
    import sqlalchemy_continuum as sc
    import traceback
    env, r, obs = replay(case)
    try:
        if obs.get('error'):
            return {'history_error': obs['error']}
        cname, pk, tx = target
        V = sc.version_class(env.classes[cname])
        s = env.s
        vobj = s.get(V, (pk[0], tx))
        if vobj is None:
            return {'missing': True}
        t = r.tracer
        versions = t.dump_versions()
        err = None
        try:
            vobj.revert()
            s.commit()
            obj = s.get(env.classes[cname], pk[0])
            attr = 'name'
            setattr(obj, attr, 's77')
            s.commit()
            before = {'live': r.dump_livev(), 'links': t.dump_links(), 'raw': raw_tables(env)}
            vobj.revert()
            s.commit()
        except Exception as e:
            err = {'type': type(e).__name__, 'msg': str(e)[:200],
                   'in_continuum': any('/sqlalchemy_continuum/' in f.filename for f in traceback.extract_tb(e.__traceback__))}
            s.rollback()
            before = {'live': [], 'links': [], 'raw': {}}
        after = {'live': r.dump_livev(), 'links': t.dump_links(), 'raw': raw_tables(env)}
        return {'before': before, 'after': after, 'versions': versions, 'assoc': t.dump_assoc(), 'error': err, 'repeated': True}
    finally:
        env.close()


def raw_tables(env):
    raw = env.conn.connection.dbapi_connection
    out = {}
    for c in env.spec['classes']:
        if c.get('table'):
            cols = [x['name'] for x in c['columns']]
            out[c['table']] = sorted([list(row) for row in raw.execute('SELECT %s FROM "%s"' % (', '.join('"%s"' % x for x in cols), c['table']))],
                                     key=repr)
    return out


class C05(Prop):
    id = 'C05'
    theorems = ['Continuum.c05_target', 'Continuum.c05_delete_target', 'Continuum.c05_target_frame', 'Continuum.c05_o2m',
                'Continuum.c05_o2m_frame', 'Continuum.c05_m2m', 'Continuum.c05_m2m_frame', 'Continuum.c05_m2m_idem_eq',
                'Continuum.c05_m2o', 'Continuum.c05_m2o_frame', 'Continuum.c05_target_nested', 'Continuum.c05_delete_target_nested',
                'Continuum.revertN_keeps_visited', 'Continuum.c05_every_level', 'Continuum.revertNL_erase',
                'Continuum.revertNL_log_nodup', 'Continuum.revertNL_target_logged', 'Continuum.c05_target_full',
                'Continuum.c05_delete_target_full', 'Continuum.revertF_visited_rows', 'Continuum.revertF_visited_mono',
                'Continuum.revertF_no_paths', 'Continuum.revertF_links_frame', 'Continuum.revertF_o2m_first_level_pk',
                'Continuum.revertF_m2m_first_level_pk', 'Continuum.revertF_m2o_first_level',
                'Continuum.revertF_second_level_links_corrected', 'Continuum.history_all']
    workers = 14
    chunk = 1
    rule = ('random histories on the Article 1-n Tag shape (optionally with an excluded column) and the many-to-many shape, both '
            'strategies; for EVERY version row of every entity as revert target (first / middle / last / DELETE versions; entity '
            'live or deleted) x {no relationship, each first-level relationship}: replay on a fresh database, revert, commit; '
            'C05.TargetHolds, the relationship clause (O2M / M2M / M2O) and C05.FrameHolds evaluated by the Lean driver on the rows '
            'before and after, the related set being computed by the Lean relationship model from the version tables; excluded '
            'columns must be unchanged; non-trivial = the target is not the newest version of a live entity (something is '
            'actually restored); distinct = (history, target, relationships)')
    assumptions = ['dotted paths: one cyclic two-level path per class and shape (not every path of every depth)',
                   'that the revert transaction is itself versioned correctly is C01/C02/C11 (history_all)']
    needs_tags = ['several_paths_one_prefix', 'variant:o2o', 'target_delete_version', 'entity_deleted_now', 'rel:o2m', 'rel:m2m', 'rel:m2o', 'middle_version', 'excluded_col',
                  'repeated_revert', 'dotted_path', 'dotted_second_level_entity']

    def counts(self, tier):
        return 20 if tier == "quick" else 500

    def gen(self, rng, tier):
        for _ in range(self.counts(tier)):
            shape = rng.choice(['articles', 'articles', 'm2m'])
            excl = ['secret'] if shape == 'articles' and rng.random() < 0.5 else []
            spec = make_spec(shape, rng.choice(['validity', 'subquery']), excl)
            prog = proggen.random_program(rng, spec, rng.choice([8, 12, 18]),
                                          weights={'commit': 8, 'flush': 2, 'rollback': 0, 'del': 3, 'setrel': 5, 'link': 6, 'unlink': 3,
                                                   'query': 0, 'set': 8}, nkeys=2)
            if relates_then_deletes(prog):
                # drop the deletes that would leave dangling references behind
                seen, out = set(), []
                for st in prog:
                    if st[0] in ('link', 'unlink'):
                        seen.update([(st[1], tuple(st[2])), (st[4], tuple(st[5]))])
                    elif st[0] == 'setrel':
                        seen.add((st[1], tuple(st[2])))
                        if st[5] is not None:
                            seen.add((st[4], tuple(st[5])))
                    elif st[0] in ('commit', 'rollback'):
                        seen.clear()
                    if st[0] == 'del' and (st[1], tuple(st[2])) in seen:
                        out.append(['commit'])       # the delete moves into a transaction of its own
                        seen.clear()
                    out.append(st)
                prog = out
            yield {'spec': spec, 'shape': shape, 'program': prog, 'excluded': excl}
        # one-to-one (scalar one-to-many): the child is replaced, removed or added between versions - reverting with the
        # relationship named restores the child the version shows and removes the one related now
        for _ in range(4 if tier == 'quick' else 60):
            spec = make_spec('articles', rng.choice(['validity', 'subquery']), variant='o2o')
            prog = [['add', 'Article', [1], {'name': 1}], ['commit']]
            cur = None
            for tno in range(rng.choice([2, 3, 4])):
                k = rng.random()
                if cur is None:
                    cur = 1 + tno
                    prog += [['add', 'Tag', [cur], {'name': tno}], ['setrel', 'Tag', [cur], 'article', 'Article', [1]]]
                elif k < 0.35:
                    prog += [['del', 'Tag', [cur]]]
                    cur = None
                elif k < 0.6:
                    prog += [['setrel', 'Tag', [cur], 'article', 'Article', None]]
                    cur = None
                elif k < 0.8:
                    prog += [['set', 'Tag', [cur], 'name', 5 + tno]]
                else:
                    prog += [['set', 'Article', [1], 'name', 5 + tno]]
                prog += [['commit']]
            yield {'spec': spec, 'shape': 'articles', 'program': prog, 'excluded': [], 'family': 'one_to_one', 'variant': 'o2o'}
        # a related entity shown by SEVERAL second-level parents and deleted since: it is re-created when the recursion
        # reaches it first and must be linked to every parent that shows it
        for _ in range(3 if tier == 'quick' else 40):
            spec = make_spec('m2m', rng.choice(['validity', 'subquery']))
            prog = [['add', 'Tag', [1], {'name': 1}], ['add', 'Tag', [2], {'name': 2}], ['add', 'Article', [1], {'name': 1}],
                    ['add', 'Article', [2], {'name': 2}]]
            pairs = [(1, 1), (1, 2), (2, 1), (2, 2)]
            rng.shuffle(pairs)
            for a, t in pairs[:rng.choice([3, 4, 4])]:
                prog.append(['link', 'Article', [a], 'tags', 'Tag', [t]])
            prog += [['commit']]
            if rng.random() < 0.5:
                prog += [['set', 'Article', [1], 'name', 5], ['commit']]
            prog += [rng.choice([['del', 'Tag', [2]], ['del', 'Article', [2]]]), ['commit']]
            if rng.random() < 0.4:
                prog += [['set', 'Tag', [1], 'name', 6], ['commit']]
            yield {'spec': spec, 'shape': 'm2m', 'program': prog, 'excluded': [], 'family': 'shared_deleted_child'}

    def run_case(self, case):
        env, r, obs = replay(case)
        try:
            if obs.get('error'):
                return {'history_error': obs['error'], 'results': []}
            versions = r.tracer.dump_versions()
        finally:
            env.close()
        targets = []
        for row in versions:
            f = row.split(' ')
            cname = 'Article' if f[0] == '0' else 'Tag'
            targets.append((cname, [int(f[1])], int(f[2]), int(f[4])))
        results = []
        # reverting twice to one version object (the version tables seen by the oracle are those before the first revert)
        for (cname, pk, tx, op) in [t for t in targets if t[3] != 2][:2]:
            res = repeated_revert(case, (cname, pk, tx))
            res.update({'target': [cname, pk, tx, op], 'rels': []})
            results.append(res)
        for (cname, pk, tx, op) in targets:
            options = [()] + [(name,) for name, _ in RELS[case['shape']][cname]]
            for rels in options:
                res = one_revert(case, (cname, pk, tx), rels)
                res.update({'target': [cname, pk, tx, op], 'rels': list(rels)})
                results.append(res)
            # dotted paths: the call names e.g. 'tags.article'; the target clause and the clause of the FIRST level are
            # judged (the second level leads back to other versions of entities already reverted; the frame is not judged)
            for first, path in DOTTED[case['shape']][cname]:
                res = one_revert(case, (cname, pk, tx), tuple(path.split(',')))
                res.update({'target': [cname, pk, tx, op], 'rels': [first], 'dotted': path})
                results.append(res)
        return {'results': results}

    def lean_lines(self, case, obs):
        lines = []
        for res in obs['results']:
            if 'before' not in res or res.get('error'):
                continue
            cname, pk, tx, op = res['target']
            for r in res['versions']:
                lines.append('c05v ' + r)
            for r in res['assoc']:
                lines.append('arow ' + r)
            for r in res['before']['live']:
                lines.append('c05b ' + r)
            for r in res['after']['live']:
                lines.append('c05a ' + r)
            for r in visible_links(res['after']):
                lines.append('c05l ' + r)
            for r in visible_links(res['before']):
                lines.append('c05lb ' + r)
            specs = dict(RELS[case['shape']][cname])
            rels = ';'.join(specs[n] for n in res['rels']) or '-'
            if res.get('dotted'):
                # every level of the path: the log of versions the recursion model reverts, C05.DeepHolds on the rows after
                lines.append('q05n %d %s %d %s %s' % (TID[cname], pk[0], tx, REG[case['shape']],
                                                     ','.join('.'.join(str(RELNO[n]) for n in p_.split('.')) for p_ in res['dotted'].split(','))))
                # ... and the WHOLE state: rows and links predicted by the recursion model revertF from the state before
                lines.append('q05f %d %s %d %s %s' % (TID[cname], pk[0], tx, REG[case['shape']],
                                                     ','.join('.'.join(str(RELNO[n]) for n in p_.split('.')) for p_ in res['dotted'].split(','))))
            lines.append('q05 %d %s %d %s' % (TID[cname], pk[0], tx, rels))
            lines.append('reset')
        return lines

    def judge(self, case, obs, answers):
        out = Outcome()
        out.tags.append('shape:' + case['shape'])
        if case.get('excluded'):
            out.tags.append('excluded_col')
        if case.get('variant'):
            out.tags.append('variant:' + case['variant'])
        if obs.get('history_error'):
            out.tags.append('history_error:' + obs['history_error']['type'])
            return out
        k = 0
        nontriv = 0
        for res in obs['results']:
            cname, pk, tx, op = res['target']
            if res.get('missing') or res.get('history_error'):
                continue
            if op == 2:
                out.tags.append('target_delete_version')
            live_now = any(l.split(' ')[:2] == [str(TID[cname]), str(pk[0])] for l in res['before']['live'])
            if not live_now:
                out.tags.append('entity_deleted_now')
            newest = max(int(v.split(' ')[2]) for v in res['versions'] if v.split(' ')[:2] == [str(TID[cname]), str(pk[0])])
            oldest = min(int(v.split(' ')[2]) for v in res['versions'] if v.split(' ')[:2] == [str(TID[cname]), str(pk[0])])
            if oldest < tx < newest:
                out.tags.append('middle_version')
            if tx != newest or not live_now:
                nontriv += 1
            for n in res['rels']:
                out.tags.append('rel:' + dict(RELS[case['shape']][cname])[n].split(':')[0])
            if res.get('error'):
                e = res['error']
                out.violations.append({'clause': 'C05.revert_raised:%s:%s' % (e['type'], 'delete_version' if op == 2 else 'version'),
                                       'detail': {'target': res['target'], 'rels': res['rels'], 'error': e, 'entity_live': live_now}})
                continue
            deep = None
            full = None
            if res.get('dotted'):
                deep = answers[k].split(' ')
                k += 1
                full = answers[k].split(' | ')
                k += 1
            ans = answers[k]
            k += 1
            target, relbits, frame, modelbits = ans.split(' ')
            det = {'target': res['target'], 'rels': res['rels'], 'before': res['before']['live'], 'after': res['after']['live'],
                   'links_after': res['after']['links']}
            if full is not None and op != 2 and full[0].split(' ')[2] != '1':
                # oracle (Lean predicate on the implementation's links): every second-level entity the target shows has
                # the many-to-many links ITS version shows
                out.violations.append({'clause': 'C05.SecondLevelLinksHold:' + res['dotted'],
                                       'detail': {'target': res['target'], 'links_after': visible_links(res['after']),
                                                  'links_before': visible_links(res['before']), 'versions': res['versions'],
                                                  'assoc': res['assoc']}})
            if full is not None and op != 2 and full[0].split(' ')[:2] != ['1', '1']:
                # correspondence: the recursion model revertF (rows, links at every level) vs the implementation
                out.mismatches.append({'stream': 'revertF (whole recursion) vs implementation for %s %s (rows equal, links equal) = %s'
                                                 % (res['target'], res['dotted'], full[0]),
                                       'impl': {'live_after': res['after']['live'], 'links_after': visible_links(res['after'])},
                                       'model': {'live_after': full[1], 'links_after': full[2],
                                                 'live_before': res['before']['live'], 'links_before': visible_links(res['before'])}})
            if deep is not None and op != 2:
                # c05_every_level: every version the recursion reverts (second level included) has its entity at its values
                if int(deep[2]) >= 1:
                    out.tags.append('dotted_second_level_entity')
                if deep[0] != '1':
                    out.violations.append({'clause': 'C05.DeepHolds:' + res['dotted'],
                                           'detail': dict(det, reverted_versions=int(deep[1]), versions=res['versions'])})
            if target != '1':
                out.violations.append({'clause': 'C05.TargetHolds', 'detail': det})
            # a DELETE version has no related state to restore: the entity is simply absent afterwards
            if op != 2 and relbits != '-' and set(relbits) != {'1'}:
                out.violations.append({'clause': 'C05.relationship:' + '+'.join(res['rels']), 'detail': det})
            # correspondence: the model functions revertM2M / revertM2O run on the rows BEFORE the revert give the
            # implementation's links / related rows
            if op != 2 and modelbits != '-' and set(modelbits) != {'1'} and not res.get('dotted'):
                out.mismatches.append({'stream': 'revert model (revertM2M / revertM2O) vs implementation for %s %s' % (res['target'], res['rels']),
                                       'impl': {'links_after': res['after']['links'], 'live_after': res['after']['live']},
                                       'model': {'links_before': res['before']['links'], 'live_before': res['before']['live']}})
            if res.get('dotted'):
                out.tags.append('dotted_path')
                if ',' in res['dotted']:
                    out.tags.append('several_paths_one_prefix')
                frame = '1'
            if res.get('repeated'):
                out.tags.append('repeated_revert')
                frame = '1'      # the frame of the second revert is not judged (the entity was edited in between)
            if frame == '0':
                out.violations.append({'clause': 'C05.FrameHolds:' + ('+'.join(res['rels']) or 'none'), 'detail': det})
            # excluded columns are never altered by a revert (raw application table)
            if case.get('excluded') and cname == 'Article' and op != 2:
                b = {row[0]: row for row in res['before']['raw']['article']}
                a = {row[0]: row for row in res['after']['raw']['article']}
                # column order: id, name, content, secret
                if pk[0] in b and pk[0] in a and b[pk[0]][3] != a[pk[0]][3]:
                    out.violations.append({'clause': 'C05.excluded_column_altered', 'detail': {'target': res['target'], 'before': b[pk[0]], 'after': a[pk[0]]}})
        out.nontrivial = nontriv >= 1
        out.key = json.dumps([case['spec']['options'], case['program']], sort_keys=True)
        return out

    def signature(self, case, obs, v):
        return v['clause']

    def shrinks(self, case):
        prog = case['program']
        for i in range(len(prog)):
            c = dict(case)
            c['program'] = prog[:i] + prog[i + 1:]
            if c['program'] and c['program'][-1] != ['commit']:
                c['program'] = c['program'] + [['commit']]
            yield c
