"""C08, C15 (table part), C16, C19, C20: properties whose input is a version-table content.

The real accessor / tool is executed on a real continuum environment whose version table was
filled directly with the generated rows; the Lean driver computes the model's answer from the same
rows and evaluates the property's `Holds` predicate on the implementation's answer.
"""
import random

import sqlalchemy as sa

from ..core import Prop, Outcome
from .. import tablegen as tg


def _rows_sorted(rows):
    return sorted(rows, key=lambda r: (r[0], r[1]))


class TableProp(Prop):
    workers = 12
    chunk = 2

    def base_lines(self, case):
        lines = ['strategy %s' % case['shape'].get('strategy', 'validity')]
        for r in _rows_sorted(case['rows']):
            lines.append(tg.row_line('row', r))
        return lines

    def shrinks(self, case):
        rows = case['rows']
        # drop one row
        for i in range(len(rows)):
            c = dict(case)
            c['rows'] = rows[:i] + rows[i + 1:]
            if case['shape'].get('strategy', 'validity') == 'validity' and case.get('chain'):
                ends = tg.chain_ends(c['rows'])
                c['rows'] = [r[:2] + [e] + r[3:] for r, e in zip(c['rows'], ends)]
            keys = {tuple(r[0]) for r in c['rows']}
            c['live'] = [k for k in case.get('live', []) if tuple(k) in keys]
            yield c
        # simplify shape
        sh = case['shape']
        for k in ('tx_col', 'end_col', 'op_col'):
            if sh.get(k):
                c = dict(case)
                c['shape'] = {a: b for a, b in sh.items() if a not in ('tx_col', 'end_col', 'op_col')}
                yield c
                break
        # simplify values
        for i, r in enumerate(rows):
            for j, v in enumerate(r[4]):
                if v not in (None, 0):
                    c = dict(case)
                    nr = [list(x) for x in rows]
                    nr[i] = list(r)
                    nr[i][4] = list(r[4])
                    nr[i][4][j] = 0
                    c['rows'] = nr
                    yield c


# ------------------------------------------------------------------------------------------ C08

class C08(TableProp):
    id = 'C08'
    theorems = ['Continuum.c08_subquery', 'Continuum.c08_validity', 'Continuum.c08_strategies_agree',
                'Continuum.c08_index_no_key_filter_counterexample']
    rule = ('random version tables (1-4 entities with interleaved ids, int / composite / string keys, both '
            'strategies, custom column names; validity tables carry a well-formed chain) written directly '
            'into the real version table; .versions/.index/.next/.previous of every row of every live '
            'entity compared with the model and judged by C08.Holds; a case is non-trivial when some '
            'entity has >= 2 versions AND another entity has rows in the table; distinct = distinct '
            '(shape, rows)')
    assumptions = ['SQLite ORDER BY / aggregate semantics', 'validity-strategy tables are generated with a '
                   'well-formed chain (C03/C16 establish it for tables the code writes)']
    needs_tags = ['interleaved', 'composite', 'validity', 'subquery', 'has_deleted_op']

    def counts(self, tier):
        return 160 if tier == 'quick' else 4000

    def gen(self, rng, tier):
        for i in range(self.counts(tier)):
            shape = tg.random_shape(rng, mods=False, allow_alias=True)
            n = rng.choice([2, 3, 4, 5, 6, 8]) if tier == 'quick' else rng.choice([2, 3, 5, 8, 12, 20, 40])
            rows, keys = tg.random_rows(rng, shape, n)
            if shape['strategy'] == 'validity':
                ends = tg.chain_ends(rows)
                rows = [r[:2] + [e] + r[3:] for r, e in zip(rows, ends)]
            yield {'shape': shape, 'rows': rows, 'live': sorted({tuple(r[0]) for r in rows}), 'chain': True}
        if tier == 'thorough':
            # exhaustive small scope: every table with <= 4 rows over 2 keys x 3 ids (both strategies)
            for strategy in ('subquery', 'validity'):
                for rows in tg.all_small_tables(2, 3, 0, 4):
                    if strategy == 'validity':
                        ends = tg.chain_ends(rows)
                        rows = [r[:2] + [e] + r[3:] for r, e in zip(rows, ends)]
                    yield {'shape': {'key': 'int', 'ncols': 1, 'strategy': strategy, 'mods': False},
                           'rows': rows, 'live': sorted({tuple(r[0]) for r in rows}), 'chain': True}

    def run_case(self, case):
        te = tg.TableEnv(case['shape'])
        try:
            te.fill(case['rows'], [list(k) for k in case['live']])
            s = te.env.s
            out = []
            for obj in s.query(te.cls).all():
                key = te.key_of(obj)
                vs = obj.versions.all()
                ans = {'key': key, 'vs': [te.tx_of(v) for v in vs], 'idx': [], 'nxt': [], 'prv': []}
                for v in vs:
                    ans['idx'].append(v.index)
                    n, p = v.next, v.previous
                    ans['nxt'].append(None if n is None else te.tx_of(n))
                    ans['prv'].append(None if p is None else te.tx_of(p))
                    if n is not None and te.key_of(n) != key or p is not None and te.key_of(p) != key:
                        ans['foreign'] = True
                out.append(ans)
            out.sort(key=lambda a: a['key'])
            return {'answers': out}
        finally:
            te.close()

    def lean_lines(self, case, obs):
        lines = self.base_lines(case)
        for a in obs['answers']:
            lines.append('q08 %s %s %s %s %s' % (tg.fmt_list(a['key']), tg.fmt_list(a['vs']), tg.fmt_list(a['idx']),
                                                 tg.fmt_opt(a['nxt']), tg.fmt_opt(a['prv'])))
        return lines

    def judge(self, case, obs, answers):
        out = Outcome()
        sh = case['shape']
        rows = case['rows']
        per = {}
        for r in rows:
            per.setdefault(tuple(r[0]), []).append(r)
        out.tags.append(sh.get('strategy', 'validity'))
        out.tags.append(sh['key'])
        if len(per) > 1:
            out.tags.append('interleaved')
        if any(r[3] == 2 for r in rows):
            out.tags.append('has_deleted_op')
        if sh.get('tx_col'):
            out.tags.append('custom_columns')
        out.nontrivial = len(per) > 1 and any(len(v) >= 2 for v in per.values())
        for a, ans in zip(obs['answers'], answers):
            verdict, model = ans.split(' | ')
            impl = '%s %s %s %s' % (tg.fmt_list(a['vs']), tg.fmt_list(a['idx']), tg.fmt_opt(a['nxt']), tg.fmt_opt(a['prv']))
            if verdict != '1' or a.get('foreign'):
                out.violations.append({'clause': 'C08.Holds', 'detail': {'key': a['key'], 'implementation': impl,
                                                                          'expected': model}})
            if impl != model:
                out.mismatches.append({'stream': 'accessors(vs idx nxt prv) of key %s' % a['key'], 'impl': impl, 'model': model})
        return out


# ------------------------------------------------------------------------------------------ C16

class C16(TableProp):
    id = 'C16'
    theorems = ['Continuum.c16_contract', 'Continuum.c16_chain', 'Continuum.c16_chain_of_wiped',
                'Continuum.c16_idempotent', 'Continuum.c16_restores', 'Continuum.c16_chain_unique']
    rule = ('random version tables (interleaved entities sharing transaction ids, composite/string keys, custom '
            'column names; end column wiped, stale or already correct) handed to the real '
            'schema.update_end_tx_column, twice; result compared with the model backfillEnd and judged by '
            'C16.Holds (+ Chain when the newest rows were open, + idempotence); non-trivial = some entity has '
            '>= 2 rows and >= 2 entities share an id')
    assumptions = ['SQLite executes the correlated MIN sub-query and outer join with standard semantics']
    needs_tags = ['interleaved', 'shared_tx', 'composite', 'custom_columns', 'stale_end']

    def counts(self, tier):
        return 200 if tier == 'quick' else 5000

    def gen(self, rng, tier):
        for i in range(self.counts(tier)):
            shape = tg.random_shape(rng, strategy='validity', mods=False)
            n = rng.choice([2, 3, 4, 5, 6, 8]) if tier == 'quick' else rng.choice([2, 3, 5, 8, 12, 20, 40])
            rows, keys = tg.random_rows(rng, shape, n)
            mode = rng.choice(['wiped', 'wiped', 'stale', 'correct'])
            if mode == 'correct':
                rows = [r[:2] + [e] + r[3:] for r, e in zip(rows, tg.chain_ends(rows))]
            elif mode == 'stale':
                rows = [r[:2] + [rng.choice([None, r[1] + rng.randrange(0, 4)])] + r[3:] for r in rows]
            yield {'shape': shape, 'rows': rows, 'live': [], 'mode': mode}
        # dense composite family: every key of a small grid is written in the first transaction, random subsets later
        # (several entities with "crossing" key components superseded in one transaction)
        for i in range(60 if tier == 'quick' else 1500):
            shape = {'key': 'composite', 'ncols': 1, 'strategy': 'validity', 'mods': False}
            if rng.random() < 0.3:
                shape.update({'tx_col': 'tx_id', 'end_col': 'end_tx_id'})
            keys = [[a, b] for a in (1, 2) for b in (1, 2)]
            rows = [[list(k), 1, None, 0, [0], []] for k in keys]
            for tx in range(2, rng.choice([3, 4, 5]) + 1):
                for k in keys:
                    if rng.random() < 0.45:
                        rows.append([list(k), tx, None, 1, [tx % 3], []])
            rng.shuffle(rows)
            yield {'shape': shape, 'rows': rows, 'live': [], 'mode': 'wiped', 'family': 'dense_composite'}
        # wide transactions: k entities all changed in each of T transactions - the tool's self-join then yields
        # thousands of (row, successor) pairs, i.e. sizes at which batching / paging of the query would show
        wide = [(25, 4), (11, 11), (33, 3)] if tier == 'quick' else \
            [(rng.randrange(8, 41), rng.randrange(3, 14)) for _ in range(40)]
        for k, T in wide:
            shape = {'key': 'int', 'ncols': 1, 'strategy': 'validity', 'mods': False}
            rows = []
            for tx in range(1, T + 1):
                for e in range(1, k + 1):
                    if tx == 1 or rng.random() < 0.9:
                        rows.append([[e], tx, None, 0 if tx == 1 else 1, [tx % 3], []])
            yield {'shape': shape, 'rows': rows, 'live': [], 'mode': 'wiped', 'family': 'wide_transactions'}
        if tier == 'thorough':
            for rows in tg.all_small_tables(2, 4, 0, 5):
                yield {'shape': {'key': 'int', 'ncols': 1, 'strategy': 'validity', 'mods': False},
                       'rows': rows, 'live': [], 'mode': 'wiped'}

    def run_case(self, case):
        from sqlalchemy_continuum.schema import update_end_tx_column
        te = tg.TableEnv(case['shape'])
        try:
            te.fill(case['rows'], [])
            kw = {}
            if case['shape'].get('tx_col'):
                kw = {'end_tx_column_name': te.end_col, 'tx_column_name': te.tx_col}
            update_end_tx_column(te.vtable, conn=te.env.conn, **kw)
            te.env.conn.commit()
            once = te.dump()
            update_end_tx_column(te.vtable, conn=te.env.conn, **kw)
            te.env.conn.commit()
            twice = te.dump()
            return {'once': once, 'twice': twice}
        finally:
            te.close()

    def lean_lines(self, case, obs):
        lines = self.base_lines(case)
        for r in obs['once']:
            lines.append(tg.row_line('row2', r))
        lines.append('q16')
        return lines

    def judge(self, case, obs, answers):
        out = Outcome()
        rows = case['rows']
        per = {}
        bytx = {}
        for r in rows:
            per.setdefault(tuple(r[0]), []).append(r)
            bytx.setdefault(r[1], set()).add(tuple(r[0]))
        out.tags += [case['shape']['key'], case.get('mode', '?')]
        if len(per) > 1:
            out.tags.append('interleaved')
        if any(len(v) > 1 for v in bytx.values()):
            out.tags.append('shared_tx')
        if case['shape'].get('tx_col'):
            out.tags.append('custom_columns')
        if case.get('mode') == 'stale':
            out.tags.append('stale_end')
        out.nontrivial = any(len(v) >= 2 for v in per.values()) and 'shared_tx' in out.tags
        verdict, model = answers[0].split(' | ')
        holds, chain = verdict.split(' ')
        model_rows = tg.parse_rows(model)
        if holds != '1':
            out.violations.append({'clause': 'C16.Holds', 'detail': {'implementation': obs['once'], 'expected': model_rows}})
        if chain == '0':
            out.violations.append({'clause': 'C16.chain', 'detail': {'implementation': obs['once']}})
        if obs['once'] != obs['twice']:
            out.violations.append({'clause': 'C16.idempotent', 'detail': {'once': obs['once'], 'twice': obs['twice']}})
        if model_rows != obs['once']:
            out.mismatches.append({'stream': 'table after update_end_tx_column', 'impl': obs['once'], 'model': model_rows})
        return out


# ------------------------------------------------------------------------------------------ C19

class C19(TableProp):
    id = 'C19'
    theorems = ['Continuum.c19_holds', 'Continuum.c19_old_aba_counterexample',
                'Continuum.c19_old_composite_counterexample']
    rule = ('random version tables whose values drift and return to earlier values (A,B,A), DELETE rows between equal '
            'rows, first versions that are UPDATEs, composite keys sharing the first key column, interleaved entities, both strategies; '
            'real utils.vacuum, then the set of rows in session.deleted compared with the model pass and judged '
            'by C19.Holds; non-trivial = some entity has >= 3 rows or two entities share the first key column')
    assumptions = ['sqlalchemy_utils.naturally_equivalent compares every non-primary-key column (modelled as VRow.data)']
    needs_tags = ['aba', 'composite', 'some_deleted', 'first_is_update', 'joined', 'delete_between_equal']

    def counts(self, tier):
        return 220 if tier == 'quick' else 5000

    def gen(self, rng, tier):
        for i in range(self.counts(tier)):
            shape = tg.random_shape(rng, strategy=rng.choice(['subquery', 'subquery', 'subquery', 'validity']),
                                    mods=False, allow_alias=True)
            n = rng.choice([2, 3, 4, 5, 6, 8]) if tier == 'quick' else rng.choice([3, 5, 8, 12, 20])
            nvals = 2
            if rng.random() < 0.3:
                # integer columns whose values Python hashes alike (-1 / -2, 0 / 2**61-1)
                shape['valtype'] = 'int'
                nvals = 4
            # DELETE rows too ("all version-table contents"): a row after a DELETE row that repeats the row before it
            # differs from its immediate predecessor and stays
            ops = rng.choice([(1, 1, 1, 0), (1, 1, 1, 0), (1, 1, 0, 2), (1, 0, 2, 2)])
            rows, keys = tg.random_rows(rng, shape, n, nvals=nvals, ops=ops, p_null=0.15, p_repeat=0.8,
                                        nkeys=rng.choice([1, 1, 2, 3]))
            if shape['strategy'] == 'validity' and rng.random() < 0.5:
                rows = [r[:2] + [e] + r[3:] for r, e in zip(rows, tg.chain_ends(rows))]
            yield {'shape': shape, 'rows': rows, 'live': []}
        # an entity deleted and brought back with the data it had (INSERT a, DELETE a, INSERT a; UPDATE x, DELETE x, UPDATE x),
        # the DELETE row carrying the same values (subquery strategy: no end column differs)
        for i in range(12 if tier == 'quick' else 300):
            shape = tg.random_shape(rng, strategy='subquery', mods=False, allow_alias=True)
            keys = tg.random_keys(rng, shape, rng.choice([1, 2]))
            rows = []
            for k in keys:
                vals = [None if rng.random() < 0.15 else rng.randrange(2) for _ in range(shape.get('ncols', 2))]
                op = rng.choice([0, 1])
                pattern = rng.choice([[op, 2, op], [op, 2, op, op], [0, op, 2, op], [op, 2, 2, op]])
                txs = sorted(rng.sample(range(1, 9), len(pattern)))
                for tx, o in zip(txs, pattern):
                    rows.append([list(k), tx, None, o, list(vals), []])
            rng.shuffle(rows)
            yield {'shape': shape, 'rows': rows, 'live': [], 'family': 'delete_between_equal'}
        # joined inheritance: vacuum(session, TextItem) meets polymorphic ArticleVersion rows whose subclass-table
        # column is the only thing that changes (vals = [name, content])
        for i in range(50 if tier == 'quick' else 1200):
            shape = {'key': 'int', 'ncols': 2, 'strategy': 'subquery', 'mods': False, 'joined': True}
            rows, keys = tg.random_rows(rng, shape, rng.choice([3, 4, 6, 8]), nvals=2, ops=(1, 1, 1, 0), p_null=0.1, p_repeat=0.9,
                                        nkeys=rng.choice([1, 2]))
            yield {'shape': shape, 'rows': rows, 'live': []}
        if tier == 'thorough':
            for rows in tg.all_small_tables(2, 3, 2, 4):
                yield {'shape': {'key': 'int', 'ncols': 1, 'strategy': 'subquery', 'mods': False},
                       'rows': rows, 'live': []}

    def run_joined(self, case):
        from sqlalchemy_continuum import vacuum
        from .. import envs
        import sqlalchemy_continuum as sc
        env = envs.Env(envs.shape_joined({'strategy': 'subquery'}, 2))
        try:
            tv = sc.version_class(env.classes['TextItem']).__table__
            av = sc.version_class(env.classes['Article']).__table__
            for key, tx, end, op, vals, _ in case['rows']:
                env.conn.execute(tv.insert().values(id=key[0], name=tg.enc_val(vals[0]), kind='ar', transaction_id=tx, operation_type=op))
                env.conn.execute(av.insert().values(id=key[0], content=tg.enc_val(vals[1]), transaction_id=tx, operation_type=op))
            env.conn.commit()
            s = env.s
            vacuum(s, env.classes['TextItem'])
            deleted = sorted([[v.id], v.transaction_id] for v in s.deleted)
            s.rollback()
            return {'deleted': deleted}
        finally:
            env.close()

    def run_case(self, case):
        if case['shape'].get('joined'):
            return self.run_joined(case)
        from sqlalchemy_continuum import vacuum
        te = tg.TableEnv(case['shape'])
        try:
            te.fill(case['rows'], [])
            s = te.env.s
            vacuum(s, te.cls)
            deleted = sorted([te.key_of(v), te.tx_of(v)] for v in s.deleted)
            s.rollback()
            return {'deleted': deleted}
        finally:
            te.close()

    def lean_lines(self, case, obs):
        lines = self.base_lines(case)
        for k, tx in obs['deleted']:
            lines.append('del %s %d' % (tg.fmt_list(k), tx))
        lines.append('q19')
        return lines

    def judge(self, case, obs, answers):
        out = Outcome()
        rows = case['rows']
        per = {}
        for r in sorted(rows, key=lambda r: r[1]):
            per.setdefault(tuple(r[0]), []).append(r)
        out.tags += [case['shape']['key'], case['shape']['strategy']]
        if case['shape'].get('joined'):
            out.tags.append('joined')
        firsts = {}
        for k in per:
            firsts.setdefault(k[0], set()).add(k)
        shared_first = any(len(v) > 1 for v in firsts.values())
        for k, v in per.items():
            datas = [(tuple(r[4]), r[3], r[2]) for r in v]
            for i in range(2, len(datas)):
                if datas[i] == datas[i - 2] and datas[i] != datas[i - 1]:
                    out.tags.append('aba')
                    break
            if v[0][3] == 1:
                out.tags.append('first_is_update')
        if obs['deleted']:
            out.tags.append('some_deleted')
        for k, v in per.items():
            for i in range(2, len(v)):
                if v[i - 1][3] == 2 and v[i][3] != 2 and (tuple(v[i][4]), v[i][3], v[i][2]) == (tuple(v[i - 2][4]), v[i - 2][3], v[i - 2][2]):
                    out.tags.append('delete_between_equal')
                    break
        out.nontrivial = any(len(v) >= 3 for v in per.values()) or shared_first
        verdict, model = answers[0].split(' | ')
        model_del = []
        if model != '-':
            for item in model.split(';'):
                k, tx = item.split(':')
                model_del.append([[int(x) for x in k.split(',')], int(tx)])
        model_del.sort()
        if verdict != '1':
            out.violations.append({'clause': 'C19.Holds', 'detail': {'deleted_by_implementation': obs['deleted'],
                                                                      'deleted_by_model': model_del}})
        if model_del != obs['deleted']:
            out.mismatches.append({'stream': 'rows deleted by vacuum', 'impl': obs['deleted'], 'model': model_del})
        return out


# ------------------------------------------------------------------------------------------ C20

KEY_ALPHABET = ["a", "b", "'", '"', "\\", "%", ":", "\n", "é", " ", "x'y", ":p", "%s", "\\n", "日本", "", "_"]


class C20(Prop):
    id = 'C20'
    theorems = ['Continuum.c20_count']
    workers = 12
    chunk = 2
    rule = ("keys built from an alphabet with quotes, double quotes, backslashes, percent signs, colons, newlines, "
            "non-ASCII, the empty string and long strings (string keys), ints and composite keys, key attributes named "
            "differently from their columns, custom table-name options; 0..n versions per key written directly; real count_versions(obj) for every live object and "
            "for a transient one, compared with obj.versions.count(), the model count and judged by C20.Holds on "
            "the interned table; non-trivial = string key containing a character outside [a-z0-9] or composite "
            "key, with >= 1 version")
    assumptions = ['string keys are interned to integers for the Lean side (the model never inspects key contents; '
                   'the implementation gets the real strings)']
    needs_tags = ['quote', 'backslash', 'colon', 'percent', 'composite', 'custom_table_name', 'zero_versions', 'pk_constraint_order',
                  'aliased_key_attribute']

    def counts(self, tier):
        return 150 if tier == 'quick' else 4000

    def gen(self, rng, tier):
        for i in range(self.counts(tier)):
            kind = rng.choice(['str', 'str', 'str', 'int', 'composite', 'composite_rev'])
            tname = rng.choice([None, None, '%s_history', 'v_%s'])
            nkeys = rng.choice([1, 2, 3, 4])
            keys = []
            for j in range(nkeys):
                if kind == 'str':
                    k = ''.join(rng.choice(KEY_ALPHABET) for _ in range(rng.choice([1, 1, 2, 3, 5])))
                    if rng.random() < 0.05:
                        k = k * 40
                    keys.append([k])
                elif kind == 'int':
                    keys.append([rng.choice([0, 1, 2, 7, -3, 10 ** 9])])
                else:
                    keys.append([rng.choice([0, 1, 2]), rng.choice([0, 1, 2])])
                    if rng.random() < 0.5 and keys[-1][0] != keys[-1][1]:
                        keys.append([keys[-1][1], keys[-1][0]])     # the same components swapped
            uniq = []
            for k in keys:
                if k not in uniq:
                    uniq.append(k)
            counts = [rng.choice([0, 1, 1, 2, 3, 5]) for _ in uniq]
            # key attributes named differently from their columns (`ident = Column('id', ...)`, one or both parts of a
            # composite key; an upper-case attribute name renders quoted and SQLite reads an unknown quoted name as a string)
            alias = {}
            if rng.random() < 0.35:
                if kind in ('str', 'int'):
                    alias = {'id': rng.choice(['ident', 'ISO'])}
                else:
                    alias = rng.choice([{'a': 'first'}, {'b': 'Second'}, {'a': 'first', 'b': 'second'}])
            yield {'kind': kind, 'table_name': tname, 'keys': uniq, 'counts': counts,
                   'strategy': rng.choice(['validity', 'subquery']), 'key_alias': alias}

    def run_case(self, case):
        from sqlalchemy_continuum import count_versions
        from .. import envs
        opts = {'strategy': case['strategy']}
        if case.get('table_name'):
            opts['table_name'] = case['table_name']
        if case['kind'] in ('composite', 'composite_rev'):
            spec = envs.shape_composite(opts, extra_cols=1)
            if case['kind'] == 'composite_rev':
                # PRIMARY KEY (b, a) on a class that declares a before b
                spec['classes'][0]['pk_constraint'] = ['b', 'a']
            kc = ['a', 'b']
        else:
            spec = envs.shape_flat(opts, key='int' if case['kind'] == 'int' else 'str', extra_cols=1)
            kc = ['id']
        ka = [case.get('key_alias', {}).get(c, c) for c in kc]      # attribute names of the key columns
        for c in spec['classes'][0]['columns']:
            if c['name'] in case.get('key_alias', {}):
                c['attr'] = case['key_alias'][c['name']]
        env = envs.Env(spec)
        try:
            cls = env.cls('Article')
            vt = env.version_cls('Article').__table__
            conn = env.conn
            def by_name(table, d):
                return {next(c for c in table.columns if c.name == name): v for name, v in d.items()}
            for k, n in zip(case['keys'], case['counts']):
                conn.execute(cls.__table__.insert().values(by_name(cls.__table__, dict(zip(kc, k)))))
                for tx in range(1, n + 1):
                    d = dict(zip(kc, k))
                    d.update({'transaction_id': tx, 'operation_type': 1})
                    conn.execute(vt.insert().values(by_name(vt, d)))
            conn.commit()
            s = env.s
            res = []
            for k in case['keys']:
                obj = s.query(cls).filter_by(**dict(zip(ka, k))).one()
                try:
                    n = count_versions(obj)
                    err = None
                except Exception as e:
                    n = None
                    err = type(e).__name__
                    s.rollback()
                    obj = s.query(cls).filter_by(**dict(zip(ka, k))).one()
                res.append({'key': k, 'count': n, 'error': err, 'versions_count': obj.versions.count()})
            transient = count_versions(cls())
            return {'results': res, 'transient': transient}
        finally:
            env.close()

    def lean_lines(self, case, obs):
        lines = []
        intern = {}
        for k in case['keys']:
            intern[tuple(k)] = len(intern) + 1
        for k, n in zip(case['keys'], case['counts']):
            for tx in range(1, n + 1):
                lines.append('row %d %d N 1 - -' % (intern[tuple(k)], tx))
        for r in obs['results']:
            lines.append('q20 %d %d' % (intern[tuple(r['key'])], r['count'] if r['count'] is not None else 999999))
        return lines

    def judge(self, case, obs, answers):
        out = Outcome()
        out.tags.append('composite' if case['kind'].startswith('composite') else case['kind'])
        if case['kind'] == 'composite_rev':
            out.tags.append('pk_constraint_order')
        if case.get('table_name'):
            out.tags.append('custom_table_name')
        if case.get('key_alias'):
            out.tags.append('aliased_key_attribute')
        allk = ''.join(str(x) for k in case['keys'] for x in k) if case['kind'] == 'str' else ''
        for ch, tag in (("'", 'quote'), ('"', 'dquote'), ('\\', 'backslash'), (':', 'colon'), ('%', 'percent'), ('\n', 'newline')):
            if ch in allk:
                out.tags.append(tag)
        if 0 in case['counts']:
            out.tags.append('zero_versions')
        special = case['kind'].startswith('composite') or any(not ch.isalnum() for ch in allk)
        out.nontrivial = special and any(c > 0 for c in case['counts'])
        out.key = repr((case['kind'], case['keys'], case['counts'], case.get('table_name')))
        if obs['transient'] != 0:
            out.violations.append({'clause': 'C20.transient', 'detail': obs['transient']})
        for r, ans, expected in zip(obs['results'], answers, case['counts']):
            verdict, model = ans.split(' | ')
            if r['error'] is not None:
                out.violations.append({'clause': 'C20.error', 'detail': r, 'sigkey': r['key']})
            elif verdict != '1' or r['count'] != r['versions_count']:
                out.violations.append({'clause': 'C20.Holds', 'detail': dict(r, expected=expected), 'sigkey': r['key']})
            if r['count'] != int(model):
                out.mismatches.append({'stream': 'count_versions of key %r' % (r['key'],), 'impl': r['count'], 'model': int(model)})
        return out

    def shrinks(self, case):
        n = len(case['keys'])
        for i in range(n):
            if n > 1:
                c = dict(case)
                c['keys'] = case['keys'][:i] + case['keys'][i + 1:]
                c['counts'] = case['counts'][:i] + case['counts'][i + 1:]
                yield c
        for i, k in enumerate(case['keys']):
            if case['kind'] == 'str' and len(k[0]) > 1:
                for j in range(len(k[0])):
                    c = dict(case)
                    c['keys'] = [list(x) for x in case['keys']]
                    c['keys'][i] = [k[0][:j] + k[0][j + 1:]]
                    if c['keys'][i] not in c['keys'][:i] + c['keys'][i + 1:]:
                        yield c
        for i, cnt in enumerate(case['counts']):
            if cnt > 1:
                c = dict(case)
                c['counts'] = list(case['counts'])
                c['counts'][i] = 1
                yield c
        if case.get('table_name'):
            c = dict(case)
            c['table_name'] = None
            yield c


# ------------------------------------------------------------------------------------------ C15

class C15Tables(TableProp):
    """table half of C15: `version.changeset` of every row and `update_property_mod_flags`"""
    id = 'C15'
    theorems = ['Continuum.c15_changeset_mem', 'Continuum.c15_changeset_nodup', 'Continuum.c15_changeset_validity',
                'Continuum.c15_changeset_subquery', 'Continuum.c15_backfill',
                'Continuum.c15_backfill_sql_ne_counterexample']

    def gen_tables(self, rng, tier, n):
        for i in range(n):
            kind = rng.choice(['changeset', 'backfill'])
            if kind == 'changeset':
                shape = tg.random_shape(rng, mods=rng.random() < 0.4, allow_alias=True)
            else:
                shape = tg.random_shape(rng, strategy='validity', mods=True)
            nrows = rng.choice([2, 3, 4, 5, 6, 8]) if tier == 'quick' else rng.choice([2, 3, 5, 8, 12, 20])
            rows, keys = tg.random_rows(rng, shape, nrows, nvals=2, p_null=0.4, p_repeat=0.7)
            if shape['strategy'] == 'validity':
                rows = [r[:2] + [e] + r[3:] for r, e in zip(rows, tg.chain_ends(rows))]
            yield {'kind': kind, 'shape': shape, 'rows': rows, 'live': [], 'chain': True}

    def run_table_case(self, case):
        te = tg.TableEnv(case['shape'])
        try:
            te.fill(case['rows'], [])
            vc, kc = tg.val_cols(case['shape']), tg.key_attrs(case['shape'])
            if case['kind'] == 'changeset':
                s = te.env.s
                res = []
                for v in s.query(te.vcls).all():
                    cs = v.changeset
                    item = {'key': te.key_of(v), 'tx': te.tx_of(v), 'cs': [], 'pk': [], 'other': []}
                    for k, (old, new) in sorted(cs.items()):
                        if k in vc:
                            item['cs'].append([vc.index(k), tg.dec_val(old), tg.dec_val(new)])
                        elif k in kc:
                            item['pk'].append([k, old is None, new is not None])
                        else:
                            item['other'].append(k)
                    item['cs'].sort()
                    res.append(item)
                res.sort(key=lambda x: (x['key'], x['tx']))
                return {'changesets': res}
            else:
                from sqlalchemy_continuum.schema import update_property_mod_flags
                kw = {}
                if case['shape'].get('tx_col'):
                    kw = {'end_tx_column_name': te.end_col, 'tx_column_name': te.tx_col}
                update_property_mod_flags(te.vtable, vc, conn=te.env.conn, **kw)
                te.env.conn.commit()
                return {'table': te.dump()}
        finally:
            te.close()

    def table_lines(self, case, obs):
        lines = self.base_lines(case)
        if case['kind'] == 'changeset':
            for it in obs['changesets']:
                cs = ','.join('%d:%s:%s' % (i, 'N' if o is None else o, 'N' if n is None else n)
                              for i, o, n in it['cs']) or '-'
                lines.append('q15cs %s %d %s' % (tg.fmt_list(it['key']), it['tx'], cs))
        else:
            for r in obs['table']:
                lines.append(tg.row_line('row2', r))
            lines.append('q15bf')
        return lines

    def judge_table(self, case, obs, answers):
        out = Outcome()
        rows = case['rows']
        per = {}
        for r in sorted(rows, key=lambda r: r[1]):
            per.setdefault(tuple(r[0]), []).append(r)
        out.tags += [case['kind'], case['shape']['strategy'], case['shape']['key']]
        nulltrans = False
        for v in per.values():
            for a, b in zip(v, v[1:]):
                for x, y in zip(a[4], b[4]):
                    if (x is None) != (y is None):
                        nulltrans = True
        if nulltrans:
            out.tags.append('null_transition')
        out.nontrivial = any(len(v) >= 2 for v in per.values())
        if case['kind'] == 'changeset':
            firsts = {(k, v[0][1]) for k, v in per.items()}
            for it, ans in zip(obs['changesets'], answers):
                verdict, model = ans.split(' | ')
                impl = ','.join('%d:%s:%s' % (i, 'N' if o is None else o, 'N' if n is None else n)
                                for i, o, n in it['cs']) or '-'
                is_first = (tuple(it['key']), it['tx']) in firsts
                pk_ok = (len(it['pk']) == len(tg.key_cols(case['shape'])) and all(a and b for _, a, b in it['pk'])) \
                    if is_first else it['pk'] == []
                if verdict != '1' or not pk_ok or it['other']:
                    out.violations.append({'clause': 'C15.ChangesetHolds',
                                           'detail': {'row': [it['key'], it['tx']], 'implementation': impl,
                                                      'expected': model, 'pk_part': it['pk'], 'other_keys': it['other']}})
                if impl != model:
                    out.mismatches.append({'stream': 'changeset of %s@%d' % (it['key'], it['tx']), 'impl': impl, 'model': model})
        else:
            verdict, model = answers[0].split(' | ')
            model_rows = tg.parse_rows(model)
            if verdict != '1':
                out.violations.append({'clause': 'C15.BackfillHolds' + ('.null' if nulltrans else ''),
                                       'detail': {'implementation': obs['table'], 'model': model_rows}})
            if model_rows != obs['table']:
                out.mismatches.append({'stream': 'table after update_property_mod_flags', 'impl': obs['table'], 'model': model_rows})
        return out
