"""C12 — the version schema is derived correctly for every model configuration.

For every sampled configuration the REAL builder's output (MetaData after configure_mappers) is
serialised per version table, (1) compared with the Lean model `deriveTable`, (2) judged by the
decidable statement `SchemaOK` in the driver, (3) written as a Lean term into a generated file where
`example : SchemaOK cfg actual := by decide` is kernel-checked (translation validation of the real
output), (4) created on SQLite and filled with a NULL row, (5) version_class / parent_class are
checked to be inverse bijections.
"""
import os

import sqlalchemy as sa

from ..core import Prop, Outcome
from .. import envs, lean

T_BIG, T_SMALL, T_BOOL = 1000001, 1000002, 1000003


def nm(s):
    return '.'.join(str(ord(ch)) for ch in s) if s else '-'


def onm(s):
    return 'N' if s is None else nm(s)


def b(x):
    return '1' if x else '0'


def lean_name(s):
    return '[' + ', '.join(str(ord(ch)) for ch in s) + ']'


def lean_oname(s):
    return 'none' if s is None else '(some %s)' % lean_name(s)


def lb(x):
    return 'true' if x else 'false'


def random_config(rng, allow_tblname_finding=False):
    shape = rng.choice(['articles', 'articles', 'composite', 'joined', 'single', 'm2m', 'schema', 'aliased'])
    opts = {'strategy': rng.choice(['validity', 'subquery'])}
    if rng.random() < 0.4:
        opts['transaction_column_name'] = 'tx_id'
    if rng.random() < 0.4:
        opts['end_transaction_column_name'] = 'end_tx'
    if rng.random() < 0.3:
        opts['operation_type_column_name'] = 'op_type'
    if rng.random() < 0.3:
        opts['table_name'] = rng.choice(['%s_history', 'v_%s', 'h_%s_x'])
    plugins = ['mod_tracker'] if rng.random() < 0.4 else []
    if shape in ('articles', 'schema', 'aliased'):
        ex = [c for c in ('name', 'content', 'secret') if rng.random() < 0.3]
        inc = [c for c in ex if rng.random() < 0.3]
        if shape == 'aliased':
            ex = ['name_' if c == 'name' else c for c in ex]
            inc = ['name_' if c == 'name' else c for c in inc]
        spec = envs.shape_articles(opts, exclude=ex, include=inc, aliased=shape == 'aliased', plugins=plugins,
                                   key=rng.choice(['int', 'str']))
        if shape == 'schema':
            for c in spec['classes']:
                c['schema'] = 'other'
            for c in spec['classes'][1]['columns']:
                if c.get('fk'):
                    c['fk'] = 'other.' + c['fk']
    elif shape == 'composite':
        spec = envs.shape_composite_t(opts, plugins=plugins)
    elif shape == 'joined':
        spec = envs.shape_joined(opts, rng.choice([2, 3]), plugins=plugins)
    elif shape == 'single':
        spec = envs.shape_single(opts, plugins=plugins)
    else:
        spec = envs.shape_m2m(opts, plugins=plugins)
    # random column attributes on non-key columns
    for c in spec['classes']:
        for colspec in c['columns']:
            if colspec.get('pk') or colspec.get('discriminator') or colspec.get('fk'):
                continue
            if rng.random() < 0.3:
                colspec['unique'] = True
            if rng.random() < 0.3:
                colspec['index'] = True
            if rng.random() < 0.3:
                colspec['nullable'] = False
                colspec['default'] = 's0' if colspec.get('type', 'str') == 'str' else 0
            if rng.random() < 0.2:
                colspec['onupdate'] = 's1' if colspec.get('type', 'str') == 'str' else 1
            if rng.random() < 0.2:
                colspec['server_default'] = 'x'
        for colspec in c['columns']:
            if colspec.get('pk') and rng.random() < 0.2:
                colspec['unique'] = True
            if colspec.get('pk') and rng.random() < 0.15:
                colspec['index'] = True
        for colspec in c['columns']:
            if colspec.get('pk') and colspec.get('type') == 'int' and not colspec.get('fk') and rng.random() < 0.3 \
                    and sum(1 for x in c['columns'] if x.get('pk')) == 1:
                colspec['autoincrement'] = True
    spec['shape'] = shape
    return spec


class C12(Prop):
    id = 'C12'
    theorems = ['Continuum.Schema.c12_derive_ok', 'Continuum.Schema.c13_no_column',
                'Continuum.Schema.include_beats_exclude', 'Continuum.Alias.byName_reflects', 'Continuum.Alias.aliasNew_none',
                'Continuum.Alias.byKey_finds_other']
    workers = 12
    chunk = 2
    rule = ('sampled products of strategy x column-name options x table-name format x schema x include/exclude sets x '
            'column attributes (nullable, unique, index, autoincrement, default, onupdate, server_default, aliased name, '
            'foreign key) x key shapes (int, string, composite) x inheritance kinds (joined 2-3 levels, single table) x '
            'association tables x tracker plugin; per version table of the real MetaData: compared with the Lean '
            'derivation, judged by SchemaOK (driver) and kernel-checked as a generated Lean example; create_all + '
            'NULL-row round trip; version_class/parent_class inverse maps; non-trivial = configuration with at least '
            'one non-default option or stripped attribute; distinct = distinct spec')
    assumptions = ['type identity is compared through repr(column.type)', 'SQLite for the create_all round trip',
                   'single-table-inheritance children extend the parent\'s version table (the extension step adds only '
                   'flag columns that already exist; covered by comparing the final table)']
    needs_tags = ['shape:joined', 'shape:single', 'shape:m2m', 'shape:schema', 'mod_tracker', 'excluded', 'custom_table_name',
                  'subquery', 'validity']

    def counts(self, tier):
        return 60 if tier == 'quick' else 1500

    def gen(self, rng, tier):
        for _ in range(self.counts(tier)):
            yield {'spec': random_config(rng)}

    # -- real code ------------------------------------------------------------------------------
    def run_case(self, case):
        from sqlalchemy_utils import get_column_key
        import sqlalchemy_continuum as sc
        from sqlalchemy_continuum import versioning_manager as m
        try:
            env = envs.Env(case['spec'])
        except Exception as e:
            return {'configure_error': '%s: %s' % (type(e).__name__, str(e)[:200]), 'tables': [], 'maps_ok': True}
        try:
            types = {}

            def tcode(t):
                return types.setdefault(repr(t), len(types) + 1)
            tables = []
            md = env.Base.metadata
            # class tables: first class (definition order) mapping each parent table
            seen = set()
            items = []
            for c in case['spec']['classes']:
                cls = env.classes[c['name']]
                if not envs.is_versioned_class(case['spec'], c['name']):
                    continue
                pt = cls.__table__
                if pt.key in seen:
                    continue
                seen.add(pt.key)
                items.append((pt, cls))
            for t in m.association_tables:
                items.append((t, None))
            for pt, cls in items:
                def opt(name):
                    return m.option(cls, name) if cls is not None else m.options[name]
                fmt = opt('table_name')
                vname = fmt % pt.name
                vkey = (pt.schema + '.' + vname) if pt.schema else vname
                vt = md.tables.get(vkey)
                tx, en, op = opt('transaction_column_name'), opt('end_transaction_column_name'), opt('operation_type_column_name')
                inp = {'name': pt.name, 'schema': pt.schema, 'hasModel': cls is not None,
                       'single': bool(cls is not None and sa.inspect(cls).single),
                       'exclude': list(opt('exclude')) if cls is not None else [],
                       'include': list(opt('include')) if cls is not None else [],
                       'fmt': fmt.split('%s'), 'validity': opt('strategy') == 'validity', 'tx': tx, 'end': en, 'op': op,
                       'mod': 'mod_tracker' in (case['spec'].get('plugins') or []), 'cols': []}
                for c in pt.c:
                    key = None
                    if cls is not None:
                        try:
                            key = get_column_key(cls, c)
                        except Exception:
                            key = None
                    inp['cols'].append({'name': c.name, 'typ': tcode(c.type), 'pk': bool(c.primary_key), 'nullable': bool(c.nullable),
                                        'unique': bool(c.unique), 'autoinc': bool(c.autoincrement), 'onupdate': c.onupdate is not None,
                                        'fk': bool(c.foreign_keys), 'index': bool(c.index), 'key': key})
                out = None
                if vt is not None:
                    out = {'name': vt.name, 'schema': vt.schema, 'cols': []}
                    for c in vt.c:
                        if c.name in (tx, en) and isinstance(c.type, sa.BigInteger):
                            typ = T_BIG
                        elif c.name == op and isinstance(c.type, sa.SmallInteger):
                            typ = T_SMALL
                        elif c.name.endswith('_mod') and isinstance(c.type, sa.Boolean):
                            typ = T_BOOL
                        else:
                            typ = tcode(c.type)
                        out['cols'].append({'name': c.name, 'typ': typ, 'pk': bool(c.primary_key), 'nullable': bool(c.nullable),
                                            'unique': bool(c.unique), 'autoinc': c.autoincrement is True,
                                            'onupdate': c.onupdate is not None, 'fk': bool(c.foreign_keys), 'index': bool(c.index)})
                # NULL-filled insert round trip
                rt = None
                if vt is not None:
                    try:
                        vals = {}
                        for c in vt.c:
                            if c.primary_key or not c.nullable:
                                vals[c.name] = (1 if isinstance(c.type, (sa.Integer, sa.Boolean)) else 'x')
                            else:
                                vals[c.name] = None
                        env.conn.execute(vt.insert().values(**{vt.c[k].key if k in vt.c else k: v for k, v in vals.items()})
                                         if False else vt.insert().values({c: vals[c.name] for c in vt.c}))
                        n = env.conn.execute(sa.select(sa.func.count()).select_from(vt)).scalar()
                        env.conn.rollback()
                        rt = 'ok' if n == 1 else 'count=%r' % n
                    except Exception as e:
                        rt = 'error: %s' % str(e)[:200]
                        env.conn.rollback()
                # the version table must be FOUND from its parent table (utils.version_table: what the association
                # tracking and the relationship queries use)
                try:
                    found = sc.utils.version_table(pt)
                    lk = 'ok' if found is vt else 'other table %r' % getattr(found, 'name', found)
                except Exception as e:
                    lk = 'error: %s: %s' % (type(e).__name__, str(e)[:100])
                tables.append({'in': inp, 'out': out, 'roundtrip': rt, 'lookup': lk})
            # class maps
            vm, pm = m.version_class_map, m.parent_class_map
            maps_ok = (len(vm) == len(pm) and all(pm.get(v) is k for k, v in vm.items())
                       and all(vm.get(p) is v for v, p in pm.items()) and len(set(vm.values())) == len(vm))
            vers = [c['name'] for c in case['spec']['classes'] if envs.is_versioned_class(case['spec'], c['name'])]
            maps_cover = sorted(k.__name__ for k in vm) == sorted(vers)
            api_ok = all(sc.parent_class(sc.version_class(env.classes[n])) is env.classes[n] for n in vers)
            return {'tables': tables, 'maps_ok': bool(maps_ok and maps_cover and api_ok)}
        finally:
            env.close()

    # -- lean -----------------------------------------------------------------------------------
    def table_lines(self, t):
        i = t['in']
        lines = ['s12in %s %s %s %s %s %s %s %s %s %s %s %s %s' % (
            nm(i['name']), onm(i['schema']), b(i['hasModel']), b(i['single']),
            ','.join(nm(x) for x in i['exclude']) or '-', ','.join(nm(x) for x in i['include']) or '-',
            nm(i['fmt'][0]), nm(i['fmt'][1]), b(i['validity']), nm(i['tx']), nm(i['end']), nm(i['op']), b(i['mod']))]
        for c in i['cols']:
            lines.append('s12c %s %d %s %s %s %s %s %s %s %s' % (nm(c['name']), c['typ'], b(c['pk']), b(c['nullable']), b(c['unique']),
                                                               b(c['autoinc']), b(c['onupdate']), b(c['fk']), b(c['index']), onm(c['key'])))
        o = t['out']
        lines.append('s12out %s %s' % (nm(o['name']), onm(o['schema'])))
        for c in o['cols']:
            lines.append('s12o %s %d %s %s %s %s %s %s %s' % (nm(c['name']), c['typ'], b(c['pk']), b(c['nullable']), b(c['unique']),
                                                            b(c['autoinc']), b(c['onupdate']), b(c['fk']), b(c['index'])))
        lines.append('q12')
        return lines

    def lean_lines(self, case, obs):
        lines = []
        for t in obs['tables']:
            if t['out'] is not None:
                lines += self.table_lines(t)
        return lines

    def judge(self, case, obs, answers):
        out = Outcome()
        spec = case['spec']
        out.tags.append('shape:' + spec.get('shape', '?'))
        out.tags.append(spec['options'].get('strategy', 'validity'))
        if 'mod_tracker' in (spec.get('plugins') or []):
            out.tags.append('mod_tracker')
        if 'table_name' in spec['options']:
            out.tags.append('custom_table_name')
        if any(t['in']['exclude'] for t in obs['tables']):
            out.tags.append('excluded')
        out.nontrivial = True
        if obs.get('configure_error'):
            kind = obs['configure_error'].split(':')[0]
            tn = 'custom_table_name' if 'table_name' in spec['options'] else 'default_table_name'
            out.violations.append({'clause': 'C12.configure_error:%s:%s:%s' % (kind, spec.get('shape'), tn),
                                   'detail': obs['configure_error']})
            return out
        if not obs['maps_ok']:
            out.violations.append({'clause': 'C12.maps', 'detail': 'version_class / parent_class are not inverse bijections'})
        k = 0
        for t in obs['tables']:
            if t['out'] is None:
                out.violations.append({'clause': 'C12.missing_table', 'detail': t['in']['name']})
                continue
            verdict, mname, mcols = answers[k].split(' | ')
            k += 1
            ok, inok = verdict.split(' ')
            if inok != '1':
                out.tags.append('in_not_ok')
                continue
            actual = ';'.join('%s %d %s %s %s %s %s %s' % (nm(c['name']), c['typ'], b(c['pk']), b(c['nullable']), b(c['unique']),
                                                          b(c['autoinc']), b(c['onupdate']), b(c['fk'])) for c in t['out']['cols'])
            if ok != '1':
                out.violations.append({'clause': 'C12.SchemaOK', 'detail': {'table': t['out']['name'], 'actual': t['out'], 'config': t['in']}})
            if t['roundtrip'] != 'ok':
                out.violations.append({'clause': 'C12.roundtrip', 'detail': {'table': t['out']['name'], 'result': t['roundtrip']}})
            if t.get('lookup', 'ok') != 'ok':
                out.violations.append({'clause': 'C12.version_table_lookup', 'detail': {'parent': t['in']['name'], 'result': t['lookup']}})
            if actual != mcols or nm(t['out']['name']) != mname:
                out.mismatches.append({'stream': 'columns of %s' % t['out']['name'], 'impl': actual, 'model': mcols})
        return out

    def shrinks(self, case):
        spec = case['spec']
        for ci, c in enumerate(spec['classes']):
            for k, colspec in enumerate(c['columns']):
                for attr in ('unique', 'index', 'nullable', 'default', 'onupdate', 'server_default', 'autoincrement'):
                    if attr in colspec:
                        import copy
                        s2 = copy.deepcopy(spec)
                        del s2['classes'][ci]['columns'][k][attr]
                        if attr == 'nullable':
                            s2['classes'][ci]['columns'][k].pop('default', None)
                        yield {'spec': s2}
        for o in list(spec['options']):
            if o != 'strategy':
                import copy
                s2 = copy.deepcopy(spec)
                del s2['options'][o]
                yield {'spec': s2}
        if spec.get('plugins'):
            import copy
            s2 = copy.deepcopy(spec)
            s2['plugins'] = []
            yield {'spec': s2}

    # -- generated Lean (translation validation of the real output, kernel-checked) --------------
    def extra_obligations(self, runner):
        import random
        rng = random.Random(runner.seed + 12)
        n = 12 if runner.tier == 'quick' else 120
        cases = [{'spec': random_config(rng)} for _ in range(n)]
        body = ['import Continuum.Schema', 'open Continuum.Schema', '']
        count = 0
        for ci, case in enumerate(cases):
            obs = self.run_case(case)
            for ti, t in enumerate(obs['tables']):
                if t['out'] is None:
                    continue
                i, o = t['in'], t['out']
                body.append('def in_%d_%d : TblIn :=' % (ci, ti))
                body.append('  { name := %s, schema := %s, hasModel := %s, single := %s,' % (lean_name(i['name']), lean_oname(i['schema']), lb(i['hasModel']), lb(i['single'])))
                body.append('    exclude := [%s], includ := [%s], fmt := (%s, %s), validity := %s,' % (
                    ', '.join(lean_name(x) for x in i['exclude']), ', '.join(lean_name(x) for x in i['include']),
                    lean_name(i['fmt'][0]), lean_name(i['fmt'][1]), lb(i['validity'])))
                body.append('    txCol := %s, endCol := %s, opCol := %s, modTracker := %s,' % (lean_name(i['tx']), lean_name(i['end']), lean_name(i['op']), lb(i['mod'])))
                body.append('    cols := [' + ',\n      '.join('⟨%s, %d, %s, %s, %s, %s, %s, %s, %s, %s⟩' % (
                    lean_name(c['name']), c['typ'], lb(c['pk']), lb(c['nullable']), lb(c['unique']), lb(c['autoinc']), lb(c['onupdate']),
                    lb(c['fk']), lb(c['index']), lean_oname(c['key'])) for c in i['cols']) + '] }')
                body.append('def out_%d_%d : TblOut :=' % (ci, ti))
                body.append('  { name := %s, schema := %s,' % (lean_name(o['name']), lean_oname(o['schema'])))
                body.append('    cols := [' + ',\n      '.join('⟨%s, %d, %s, %s, %s, %s, %s, %s, %s⟩' % (
                    lean_name(c['name']), c['typ'], lb(c['pk']), lb(c['nullable']), lb(c['unique']), lb(c['autoinc']), lb(c['onupdate']),
                    lb(c['fk']), lb(c['index'])) for c in o['cols']) + '] }')
                body.append('example : SchemaOK in_%d_%d out_%d_%d := by decide +kernel' % (ci, ti, ci, ti))
                body.append('')
                count += 1
        d = os.path.join(lean.WORK, 'C12', 'gen')
        os.makedirs(d, exist_ok=True)
        path = os.path.join(d, 'GeneratedSchemas.lean')
        with open(path, 'w') as fh:
            fh.write('\n'.join(body) + '\n')
        rc, outp = lean.check_file(path)
        if rc != 0:
            raise lean.ProofBroken('generated schema obligations do not check (%s)' % path, outp[-3000:])
        return count, count, ['%d generated obligations `SchemaOK cfg actual` on the real builder output (decide +kernel) in %s' % (
            count, os.path.relpath(path, lean.ROOT))]
