"""C04 — relationships of a version show the related entities as of that moment.

(a) table cases: arbitrary contents of parent / child / association version tables are written
    directly; every reflected relationship attribute of every version object is read with the real
    code and compared with the Lean model of the criteria (`Rel.lean`) and judged by `C04.*Holds`.
(b) history cases: a session program is executed, the live tables and links are snapshotted by SQL
    after every commit, and at the end every relationship of every version is compared with the
    reference reconstruction "entities related at the end of that version's transaction, each at
    its newest version not newer than that transaction" computed from the snapshots alone.
"""
import json

import sqlalchemy as sa

from ..core import Prop, Outcome
from .. import envs, program, proggen, tablegen as tg
from ..tracer import dec_val


def _fmt_ans(l):
    return ';'.join('%s:%d' % (tg.fmt_list(k), tx) for k, tx in l) or '-'


SHAPES = {
    # name: (spec builder, [(class, version cols)], relationships [(owner cls, attr, kind, remote cls, extra)])
    'articles': {
        'classes': {'Article': ['name', 'content', 'secret'], 'Tag': ['name', 'article_id']},
        'rels': [('Article', 'tags', 'o2m', 'Tag', {'fkIdx': 1}), ('Tag', 'article', 'm2o', 'Article', {'fkIdx': 1})],
    },
    'm2m': {
        'classes': {'Article': ['name'], 'Tag': ['name']},
        'rels': [('Article', 'tags', 'm2m', 'Tag', {'localFirst': True}), ('Tag', 'articles', 'm2m', 'Article', {'localFirst': False})],
    },
}


def make_spec(shape, strategy, variant=None):
    """variant (shape 'articles' only): 'dynamic' = Article.tags is lazy='dynamic'; 'o2o' = Article.tags is a
    scalar (uselist=False, one-to-one); 'nv' = a NON-versioned Comment class related to Article"""
    if shape == 'articles':
        spec = envs.shape_articles({'strategy': strategy}, with_comment=(variant == 'nv'))
        rel = spec['classes'][1]['rels'][0]
        if variant == 'dynamic':
            rel['backref_kw'] = {'lazy': 'dynamic'}
        elif variant == 'o2o':
            rel['backref_kw'] = {'uselist': False}
    else:
        spec = envs.shape_m2m({'strategy': strategy})
    if variant == 'aliaskeys':
        # key and foreign-key attributes named differently from their columns (ident = Column('id'), art = Column('article_id'))
        for c in spec['classes']:
            for column in c['columns']:
                if column['name'] in KEY_ALIAS:
                    column['attr'] = KEY_ALIAS[column['name']]
    spec['shape'] = shape
    return spec


KEY_ALIAS = {'id': 'ident', 'article_id': 'art'}


def _attr(variant, name):
    return KEY_ALIAS.get(name, name) if variant == 'aliaskeys' else name


def _by_name(table, d):
    return {next(c for c in table.columns if c.name == name): v for name, v in d.items()}


def read_relationships(env, shape, variant=None):
    """every reflected relationship of every version object -> canonical answers"""
    import sqlalchemy_continuum as sc
    info = SHAPES[shape]
    s = env.new_session()
    out = []
    ID, FK = _attr(variant, 'id'), _attr(variant, 'article_id')
    pk = lambda o: getattr(o, ID)
    for owner, attr, kind, remote, extra in info['rels']:
        V = sc.version_class(env.classes[owner])
        for v in s.query(V).order_by(getattr(V, ID), V.transaction_id).all():
            val = getattr(v, attr)
            if kind == 'm2o':
                ans = None if val is None else [[pk(val)], val.transaction_id]
            elif variant == 'dynamic' and kind == 'o2m':
                ans = sorted([[pk(x)], x.transaction_id] for x in val.all())      # a Query (lazy='dynamic')
            elif variant == 'o2o' and kind == 'o2m':
                ans = [] if val is None else [[[pk(val)], val.transaction_id]]    # a scalar (uselist=False)
            else:
                ans = sorted([[pk(x)], x.transaction_id] for x in val)
            out.append({'owner': owner, 'attr': attr, 'kind': kind, 'remote': remote, 'pk': [pk(v)], 'tx': v.transaction_id,
                        'fk': (None if getattr(v, FK, None) is None else [getattr(v, FK)]) if kind == 'm2o' else None,
                        'ans': ans})
    if variant == 'nv':
        # non-versioned target: the version shows the CURRENT related rows
        V = sc.version_class(env.classes['Article'])
        raw = env.conn.connection.dbapi_connection
        for v in s.query(V).order_by(V.id, V.transaction_id).all():
            got = sorted(c.id for c in v.comments)
            cur = sorted(r[0] for r in raw.execute('SELECT id FROM comment WHERE article_id = ?', (v.id,)))
            out.append({'owner': 'Article', 'attr': 'comments', 'kind': 'nv', 'remote': 'Comment', 'pk': [v.id],
                        'tx': v.transaction_id, 'fk': None, 'ans': got, 'current': cur})
    s.rollback()
    s.close()
    return out


def dump_version_rows(env, shape):
    import sqlalchemy_continuum as sc
    info = SHAPES[shape]
    rows = {}
    for cname, cols in info['classes'].items():
        vt = sc.version_class(env.classes[cname]).__table__
        rs = []
        for r in env.conn.execute(sa.select(vt)).mappings():
            rs.append([[r['id']], r['transaction_id'], r.get('end_transaction_id'), r['operation_type'],
                       [dec_val(r[c]) for c in cols], []])
        rs.sort(key=lambda x: (x[0], x[1]))
        rows[cname] = rs
    arows = []
    if shape == 'm2m':
        at = env.Base.metadata.tables['article_tag_version']
        for r in env.conn.execute(sa.select(at)).mappings():
            arows.append([0, [r['article_id'], r['tag_id']], r['transaction_id'], r['operation_type']])
        arows.sort()
    env.conn.rollback()
    return rows, arows


class C04(Prop):
    id = 'C04'
    theorems = ['Continuum.c04_m2o', 'Continuum.c04_o2m', 'Continuum.c04_m2m', 'Continuum.c04_stable_step',
                'Continuum.c04_stable_run', 'Continuum.c04_links_stable_step']
    workers = 14
    chunk = 2
    rule = ('(a) random contents of parent, child and association version tables (entities deleted and re-created, children '
            'moved between parents, links removed and re-added, NULL foreign keys) written directly -> every reflected '
            'relationship (one-to-many - also declared lazy=dynamic or as a one-to-one scalar -, many-to-one, many-to-many from both sides; key and foreign-key attributes named differently from their columns; a non-versioned target class shows its current rows) of every version object read with the '
            'real code, compared with the Lean criteria and judged by C04.Holds; (b) session programs that create, re-point, '
            'unlink and delete related entities across transactions -> every relationship of every version compared with '
            'the reconstruction from the per-commit SQL snapshots; non-trivial = a related entity has >= 2 versions and '
            'the owner has >= 2 versions; distinct = distinct case')
    assumptions = ['SQL semantics of the correlated EXISTS / GROUP BY / HAVING sub-queries (SQLite)',
                   'arbitrary custom primaryjoin rewriting (VersionExpressionReflector) is exercised only through the '
                   'standard foreign-key joins of the shapes used',
                   'single-column keys for relationship endpoints']
    needs_tags = ['kind:tables', 'kind:history', 'shape:articles', 'shape:m2m', 'deleted_remote', 'moved_child', 'relinked',
                  'variant:dynamic', 'variant:o2o', 'variant:nv', 'variant:aliaskeys', 'nv_related_rows', 'o2o_unique']

    def counts(self, tier):
        return (90, 50) if tier == 'quick' else (3000, 1500)

    def gen(self, rng, tier):
        nt, nh = self.counts(tier)
        for _ in range(nt):
            shape = rng.choice(['articles', 'm2m'])
            strategy = rng.choice(['validity', 'subquery'])
            rows = {}
            for cname, cols in SHAPES[shape]['classes'].items():
                n = rng.choice([1, 2, 3, 4, 6])
                keys = [[k] for k in range(1, 4)]
                pairs = [(tuple(k), tx) for k in keys for tx in range(1, 6)]
                rng.shuffle(pairs)
                rs = []
                for k, tx in sorted(pairs[:n], key=lambda p: (p[1], p[0])):
                    vals = []
                    for c in cols:
                        if c == 'article_id':
                            vals.append(rng.choice([None, 1, 2, 3, 1, 2]))
                        else:
                            vals.append(rng.choice([None, 0, 1]))
                    rs.append([list(k), tx, None, rng.choice([0, 1, 1, 2]), vals, []])
                if strategy == 'validity':
                    rs = [r[:2] + [e] + r[3:] for r, e in zip(rs, tg.chain_ends(rs))]
                rows[cname] = rs
            arows = []
            if shape == 'm2m':
                links = [(a, t, tx) for a in (1, 2, 3) for t in (1, 2, 3) for tx in range(1, 6)]
                rng.shuffle(links)
                for a, t, tx in links[:rng.choice([1, 2, 4, 6, 8])]:
                    arows.append([0, [a, t], tx, rng.choice([0, 0, 2])])
                arows.sort()
            variant = rng.choice([None, None, 'dynamic', 'o2o', 'aliaskeys']) if shape == 'articles' else rng.choice([None, None, 'aliaskeys'])
            yield {'kind': 'tables', 'shape': shape, 'strategy': strategy, 'rows': rows, 'arows': arows, 'variant': variant}
        for _ in range(nh):
            shape = rng.choice(['articles', 'm2m'])
            variant = rng.choice([None, 'dynamic', 'o2o', 'nv']) if shape == 'articles' else None
            spec = make_spec(shape, rng.choice(['validity', 'subquery']), variant)
            prog = proggen.random_program(rng, spec, rng.choice([15, 25, 40]),
                                          weights={'setrel': 7, 'link': 7 if variant != 'o2o' else 0, 'unlink': 5 if variant != 'o2o' else 0,
                                                   'commit': 7, 'del': 3, 'flush': 2, 'rollback': 0, 'set': 3})
            if variant == 'nv':
                prog = [['add', 'Article', [1], {'name': 1}], ['add', 'Comment', [1], {'text': 1}],
                        ['setrel', 'Comment', [1], 'article', 'Article', [1]], ['commit']] + prog
            yield {'kind': 'history', 'shape': shape, 'spec': spec, 'program': prog, 'autoflush': rng.random() < 0.3,
                   'variant': variant}

    # -- real code ------------------------------------------------------------------------------
    def run_case(self, case):
        if case['kind'] == 'tables':
            import sqlalchemy_continuum as sc
            env = envs.Env(make_spec(case['shape'], case['strategy'], case.get('variant')))
            try:
                for cname, cols in SHAPES[case['shape']]['classes'].items():
                    vt = sc.version_class(env.classes[cname]).__table__
                    for key, tx, end, op, vals, _ in case['rows'][cname]:
                        d = {'id': key[0], 'transaction_id': tx, 'operation_type': op}
                        if case['strategy'] == 'validity':
                            d['end_transaction_id'] = end
                        for c, v in zip(cols, vals):
                            d[c] = v if c == 'article_id' else (None if v is None else 's%d' % v)
                        env.conn.execute(vt.insert().values(_by_name(vt, d)))
                if case['shape'] == 'm2m':
                    at = env.Base.metadata.tables['article_tag_version']
                    for _, link, tx, op in case['arows']:
                        env.conn.execute(at.insert().values(article_id=link[0], tag_id=link[1], transaction_id=tx, operation_type=op))
                env.conn.commit()
                return {'answers': read_relationships(env, case['shape'], case.get('variant')), 'rows': case['rows'], 'arows': case['arows']}
            finally:
                env.close()
        else:
            env = envs.Env(case['spec'], autoflush=bool(case.get('autoflush')))
            try:
                r = program.ProgramRunner(env)
                obs = r.run(case['program'], snapshot_every_step=False)
                if obs.get('error'):
                    return {'error': obs['error'], 'answers': [], 'rows': {}, 'arows': [], 'snapshots': []}
                rows, arows = dump_version_rows(env, case['shape'])
                answers = read_relationships(env, case['shape'], case.get('variant'))
                snaps = [{'txs': m['txs'], 'live': m['live'], 'links': m['links']} for m in obs['markers'] if 'commit' in m['label']]
                return {'answers': answers, 'rows': rows, 'arows': arows, 'snapshots': snaps}
            finally:
                env.close()

    def lean_lines(self, case, obs):
        shape = case['shape']
        lines = []
        names = list(SHAPES[shape]['classes'])
        for i, cname in enumerate(names):
            for r in obs['rows'].get(cname, []):
                lines.append(tg.row_line('row' if i == 0 else 'row2', r))
        for tbl, link, tx, op in obs['arows']:
            lines.append('arow %d %s %d %d' % (tbl, tg.fmt_list(link), tx, op))
        sel = {names[0]: 't', names[1]: 't2'}
        rel = {(o, a): (k, r, e) for o, a, k, r, e in SHAPES[shape]['rels']}
        for a in obs['answers']:
            if a['kind'] == 'nv':
                continue
            kind, remote, extra = rel[(a['owner'], a['attr'])]
            w = sel[remote]
            if kind == 'm2o':
                lines.append('q04m2o %s %s %d %s' % (w, 'N' if a['fk'] is None else tg.fmt_list(a['fk']), a['tx'],
                                                     'N' if a['ans'] is None else '%s:%d' % (tg.fmt_list(a['ans'][0]), a['ans'][1])))
            elif kind == 'o2m':
                lines.append('q04o2m %s %d %s %d %s' % (w, extra['fkIdx'], tg.fmt_list(a['pk']), a['tx'], _fmt_ans(a['ans'])))
            else:
                lines.append('q04m2m %s 0 %d %s %d %s' % (w, 1 if extra['localFirst'] else 0, tg.fmt_list(a['pk']), a['tx'], _fmt_ans(a['ans'])))
        return lines

    # -- reference reconstruction from snapshots (history cases) ----------------------------------
    def reference(self, case, obs):
        """{(owner, attr, pk, tx): expected answer} for versions whose transaction was committed"""
        shape = case['shape']
        names = list(SHAPES[shape]['classes'])
        rows = obs['rows']

        def newest_alive(cname, key, T):
            best = None
            for r in rows[cname]:
                if r[0] == key and r[1] <= T and (best is None or r[1] > best[1]):
                    best = r
            if best is None or best[3] == 2:
                return None
            return [best[0], best[1]]
        exp = {}
        snap_at = {}
        prev = set()
        for sn in obs['snapshots']:
            for t in sn['txs']:
                if t not in prev:
                    snap_at[t] = sn
            prev = set(sn['txs'])
        tid = {n: i for i, n in enumerate(names)}
        for a in obs['answers']:
            sn = snap_at.get(a['tx'])
            if sn is None:
                continue
            live = {}
            for l in sn['live']:
                f = l.split(' ')
                live[(int(f[0]), f[1])] = f[2].split(',') if f[2] != '-' else []
            owner, attr = a['owner'], a['attr']
            if shape == 'articles':
                if attr == 'tags':
                    keys = sorted(int(k[1]) for k, v in live.items() if k[0] == tid['Tag'] and v[1] == str(a['pk'][0]))
                    e = [x for x in (newest_alive('Tag', [k], a['tx']) for k in keys) if x is not None]
                    exp[(owner, attr, tuple(a['pk']), a['tx'])] = sorted(e)
                else:
                    me = live.get((tid['Tag'], str(a['pk'][0])))
                    if me is None or me[1] == 'N':
                        # a removed owner shows no live row: the reference is the version's own stored foreign key
                        fk = a['fk']
                    else:
                        fk = [int(me[1])]
                    exp[(owner, attr, tuple(a['pk']), a['tx'])] = None if fk is None else newest_alive('Article', fk, a['tx'])
            else:
                links = set()
                for l in sn['links']:
                    f = l.split(' ')
                    x, y = f[1].split(',')
                    links.add((int(x), int(y)))
                if owner == 'Article':
                    keys = sorted(t for (x, t) in links if x == a['pk'][0])
                    e = [x for x in (newest_alive('Tag', [k], a['tx']) for k in keys) if x is not None]
                else:
                    keys = sorted(x for (x, t) in links if t == a['pk'][0])
                    e = [x for x in (newest_alive('Article', [k], a['tx']) for k in keys) if x is not None]
                exp[(owner, attr, tuple(a['pk']), a['tx'])] = sorted(e)
        return exp

    def judge(self, case, obs, answers):
        out = Outcome()
        out.tags += ['kind:' + case['kind'], 'shape:' + case['shape']]
        if obs.get('error'):
            out.tags.append('error:' + obs['error']['type'])
            return out
        rows = obs['rows']
        per = {}
        for cname, rs in rows.items():
            for r in rs:
                per.setdefault((cname, tuple(r[0])), []).append(r)
        if any(r[3] == 2 for rs in rows.values() for r in rs):
            out.tags.append('deleted_remote')
        for (cname, k), rs in per.items():
            if cname == 'Tag' and case['shape'] == 'articles':
                fks = [r[4][1] for r in sorted(rs, key=lambda r: r[1])]
                if len({f for f in fks if f is not None}) >= 2:
                    out.tags.append('moved_child')
        linkhist = {}
        for tbl, link, tx, op in obs['arows']:
            linkhist.setdefault(tuple(link), []).append((tx, op))
        if any(len(v) >= 3 or [o for _, o in sorted(v)][-2:] == [2, 0] for v in linkhist.values()):
            out.tags.append('relinked')
        out.nontrivial = sum(1 for v in per.values() if len(v) >= 2) >= 2
        out.key = json.dumps(case, sort_keys=True, default=str)
        variant = case.get('variant')
        if variant:
            out.tags.append('variant:' + variant)
        nv = [a for a in obs['answers'] if a['kind'] == 'nv']
        for a in nv:
            # non-versioned target: exactly the current related rows
            if a['ans'] != a['current']:
                out.violations.append({'clause': 'C04.nonversioned_target', 'detail': {'version': [a['owner'], a['pk'], a['tx']],
                                                                                      'implementation': a['ans'], 'current': a['current']}})
            if a['current']:
                out.tags.append('nv_related_rows')
        for a, ans in zip([x for x in obs['answers'] if x['kind'] != 'nv'], answers):
            verdict, model = ans.split(' | ')
            if variant == 'o2o' and a['kind'] == 'o2m':
                # one-to-one: the scalar must be ONE of the versions the criteria select (none iff there is none)
                mset = [] if model == '-' else model.split(';')
                impl1 = [] if not a['ans'] else ['%s:%d' % (tg.fmt_list(a['ans'][0][0]), a['ans'][0][1])]
                if (not impl1) != (not mset) or (impl1 and impl1[0] not in mset):
                    out.violations.append({'clause': 'C04.Holds.o2o', 'detail': {'version': [a['owner'], a['pk'], a['tx']], 'attr': a['attr'],
                                                                                 'implementation': impl1, 'expected_one_of': mset}})
                if len(mset) == 1:
                    out.tags.append('o2o_unique')
                continue
            if a['kind'] == 'm2o':
                impl = 'N' if a['ans'] is None else '%s:%d' % (tg.fmt_list(a['ans'][0]), a['ans'][1])
            else:
                impl = _fmt_ans(a['ans'])
            if verdict != '1':
                out.violations.append({'clause': 'C04.Holds.' + a['kind'], 'detail': {'version': [a['owner'], a['pk'], a['tx']], 'attr': a['attr'],
                                                                                     'implementation': impl, 'expected': model}})
            if a['kind'] != 'm2o':
                model = ';'.join(sorted(model.split(';'), key=lambda x: ([int(y) for y in x.split(':')[0].split(',')], int(x.split(':')[1])))) if model != '-' else '-'
            if impl != model:
                out.mismatches.append({'stream': '%s.%s of %s@%d' % (a['owner'], a['attr'], a['pk'], a['tx']), 'impl': impl, 'model': model})
        if case['kind'] == 'history':
            exp = self.reference(case, obs)
            for a in obs['answers']:
                k = (a['owner'], a['attr'], tuple(a['pk']), a['tx'])
                if a['kind'] == 'nv':
                    continue
                if variant == 'o2o' and a['kind'] == 'o2m':
                    if k in exp and ((not a['ans']) != (not exp[k]) or (a['ans'] and a['ans'][0] not in exp[k])):
                        out.violations.append({'clause': 'C04.reference.o2o',
                                               'detail': {'version': [a['owner'], a['pk'], a['tx']], 'attr': a['attr'],
                                                          'implementation': a['ans'], 'reference_one_of': exp[k]}})
                    continue
                if k in exp and exp[k] != a['ans']:
                    out.violations.append({'clause': 'C04.reference.' + a['kind'],
                                           'detail': {'version': [a['owner'], a['pk'], a['tx']], 'attr': a['attr'],
                                                      'implementation': a['ans'], 'reference': exp[k]}})
        return out

    def shrinks(self, case):
        if case['kind'] == 'tables':
            for cname in case['rows']:
                rs = case['rows'][cname]
                for i in range(len(rs)):
                    c = dict(case)
                    c['rows'] = dict(case['rows'])
                    nr = rs[:i] + rs[i + 1:]
                    if case['strategy'] == 'validity':
                        nr = [r[:2] + [e] + r[3:] for r, e in zip(nr, tg.chain_ends(nr))]
                    c['rows'][cname] = nr
                    yield c
            for i in range(len(case['arows'])):
                c = dict(case)
                c['arows'] = case['arows'][:i] + case['arows'][i + 1:]
                yield c
        else:
            prog = case['program']
            for i in range(len(prog)):
                c = dict(case)
                c['program'] = prog[:i] + prog[i + 1:]
                if c['program'] and c['program'][-1] != ['commit']:
                    c['program'] = c['program'] + [['commit']]
                yield c
