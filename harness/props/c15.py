"""C15 — changesets and modification flags equal the column-wise difference."""
from .tables import C15Tables


class C15(C15Tables):
    rule = ('(a) random version tables with values moving to and from NULL -> real version.changeset of every row '
            '(both strategies) and real schema.update_property_mod_flags, compared with the model and judged by '
            'C15.ChangesetHolds / C15.BackfillHolds; non-trivial = some entity has >= 2 versions')
    assumptions = ['SQLite three-valued logic for the backfill query', 'validity tables are generated with a well-formed chain']
    needs_tags = ['changeset', 'backfill', 'null_transition']

    def counts(self, tier):
        return 220 if tier == 'quick' else 5000

    def gen(self, rng, tier):
        for c in self.gen_tables(rng, tier, self.counts(tier)):
            yield c

    def run_case(self, case):
        return self.run_table_case(case)

    def lean_lines(self, case, obs):
        return self.table_lines(case, obs)

    def judge(self, case, obs, answers):
        return self.judge_table(case, obs, answers)
