"""History-level properties decided on transaction segments: C01 C02 C03 C11 C13 C17 (and the
database half of C06).

One runner: a generated session program is executed on the real code (SQLite) while `Tracer`
records the listener-level event stream and the database/manager state at every marker.  The same
stream is replayed through the Lean model (`step`), whose dumps are compared with the real ones
restricted to the observables of the property being checked, and the Lean `Cxx.Holds` predicate is
evaluated on the segments read from the REAL database.
"""
import json

from ..core import Prop, Outcome
from .. import program, proggen, tracecmp, envs

SEG_FIELDS = ['C01', 'C02', 'C03', 'C06db', 'C11', 'C17', 'C10']
C01_CLAUSES = ['newestIsLive', 'removedIsDelete', 'onlyRealChanges', 'changedHasRow', 'deleteVals', 'pastKept']


def marker_lines(mk):
    out = []
    for r in mk['versions']:
        out.append('iv ' + r)
    out.append('itx ' + (','.join(str(x) for x in mk['txs']) or '-'))
    for r in mk['assoc']:
        out.append('ia ' + r)
    for r in mk['changes']:
        out.append('ic ' + r)
    for r in mk['live']:
        out.append('il ' + r)
    for r in mk.get('links', []):
        out.append('ilk ' + r)
    return out


def weave(obs):
    """insert the implementation's observations and the segment queries after each qdump"""
    lines = []
    kinds = []          # per query line: ('dump', i) | ('seg', i) | ('chain', i)
    for l in obs['lines']:
        if l.startswith('qdump '):
            i = int(l.split(' ')[1])
            mk = obs['markers'][i]
            lines.append(l)
            kinds.append(('dump', i))
            lines.extend(marker_lines(mk))
            lab = mk['label']
            if 'commit' in lab and 'sp_' not in lab:
                lines.append('qseg commit')
                kinds.append(('seg', i))
            elif 'rollback' in lab and 'sp_' not in lab:
                lines.append('qseg rollback')
                kinds.append(('seg', i))
            elif lab == 'init':
                lines.append('qseg rollback')
                kinds.append(('seginit', i))
            else:
                lines.append('qchain')
                kinds.append(('chain', i))
        else:
            lines.append(l)
    return lines, kinds


class TraceProp(Prop):
    workers = 14
    chunk = 2
    sections = ('versions', 'txs')      # observables compared with the model
    seg_fields = ()                     # which verdict fields of qseg decide this property
    shapes = None
    plugins = None
    weights = None
    steps_quick = (8, 15, 25, 40)
    assumptions = ['SQLAlchemy unit of work / event ordering (the WF contract, monitored on every trace)',
                   'the DBMS applies commit and rollback atomically; transaction ids are fresh and increasing']

    def counts(self, tier):
        return 150 if tier == 'quick' else 4000

    def make_case(self, rng, tier):
        spec = proggen.random_spec(rng, shapes=self.shapes, plugins=self.pick_plugins(rng))
        n = rng.choice(self.steps_quick) if tier == 'quick' else rng.choice((10, 20, 40, 60))
        autoflush = rng.random() < 0.3
        prog = proggen.random_program(rng, spec, n, weights=self.weights, autoflush=autoflush)
        if spec.get('shape') == 'nvparent' and rng.random() < 0.7:
            # the flush-time change: a non-versioned parent with versioned children is deleted on its own
            pos = rng.randrange(0, len(prog) + 1)
            prog = ([['add', 'Category', [7], {'title': 1}], ['add', 'Article', [7], {'name': 1}],
                     ['setrel', 'Article', [7], 'category', 'Category', [7]], ['commit']] + prog[:pos] +
                    [['commit'], ['del', 'Category', [7]], ['commit']] + prog[pos:])
        if spec.get('shape') in ('joined', 'joined3') and rng.random() < 0.6:
            # row switches of joined-table subclass objects that leave a subclass-table column unset, with another
            # entity of the class earlier in the table
            pos = rng.randrange(0, len(prog) + 1)
            prog = ([['add', 'Article', [7], {'name': 1, 'content': 1}], ['add', 'Article', [8], {'name': 2, 'content': 2}],
                     ['add', 'Article', [9], {'name': 3, 'content': 3}], ['commit']] + prog[:pos] +
                    [['commit'], ['del', 'Article', [8]], ['add', 'Article', [8], {'name': 0}], ['commit'],
                     ['del', 'Article', [9]], ['add', 'Article', [9], {'content': 0}], ['commit']] + prog[pos:])
        if spec.get('shape') == 'aliased' and rng.random() < 0.8:
            # transactions that change ONLY the attribute whose name differs from its column name
            pos = rng.randrange(0, len(prog) + 1)
            # attribute names of the columns name / content (the 'clash' variant names them content / body)
            a1, a2 = [c.get('attr', c['name']) for c in spec['classes'][0]['columns'][1:3]]
            prog = ([['add', 'Article', [7], {a1: 1, a2: 1}], ['commit']] + prog[:pos] +
                    [['commit'], ['set', 'Article', [7], a1, 2], ['commit'], ['set', 'Article', [7], a2, 2], ['flush'],
                     ['set', 'Article', [7], a1, 3], ['commit']] + prog[pos:])
        case = {'spec': spec, 'autoflush': autoflush, 'program': prog}
        import os
        if rng.random() < float(os.environ.get('VERIF_JOIN_P', '0.1')):
            # session joined into an external connection-level transaction (SQLAlchemy's test-suite recipe)
            case['join_mode'] = 'create_savepoint'
        return case

    def pick_plugins(self, rng):
        return self.plugins

    def directed(self, case, obs, mismatch):
        """the history up to the point of disagreement (and the whole history), continued with more versioned work"""
        import re
        prog = case['program']
        m = re.search(r'\(step (\d+) ', mismatch.get('stream') or '')
        cut = int(m.group(1)) + 1 if m else len(prog)
        info = proggen.entity_info(case['spec'])
        out = []
        for cname in list(info)[:2]:
            pk = [7] * len(info[cname]['pk'])
            attrs = info[cname]['attrs']
            if not attrs:
                continue
            a = attrs[0][0]
            conts = [[['add', cname, pk, {a: 1}], ['commit']],
                     [['add', cname, pk, {a: 1}], ['flush'], ['set', cname, pk, a, 2], ['commit'], ['set', cname, pk, a, 3], ['commit']],
                     [['add', cname, pk, {a: 1}], ['flush'], ['rollback'], ['add', cname, pk, {a: 2}], ['commit'], ['set', cname, pk, a, 3], ['commit']]]
            for base in (prog[:cut], prog):
                for c in conts:
                    out.append(dict(case, program=base + c))
        return out

    def gen(self, rng, tier):
        for _ in range(self.counts(tier)):
            yield self.make_case(rng, tier)

    def run_case(self, case):
        return program.run_case(case)

    def lean_lines(self, case, obs):
        lines, kinds = weave(obs)
        obs['_kinds'] = kinds
        return lines

    def case_tags(self, case, obs, out):
        spec = case['spec']
        out.tags.append('shape:' + spec.get('shape', '?'))
        out.tags.append('strategy:' + spec['options'].get('strategy', 'validity'))
        for p in spec.get('plugins') or []:
            out.tags.append('plugin:' + p)
        if case.get('autoflush'):
            out.tags.append('autoflush')
        evs = [l for l in obs['lines'] if l.startswith('ev ')]
        kinds = {}
        for l in evs:
            k = l.split(' ')[1]
            kinds[k] = kinds.get(k, 0) + 1
        for k in kinds:
            out.tags.append('ev:' + k)
        # transactions with a versioned change, flushes per transaction
        ntx = len(obs['markers'][-1]['txs']) if obs['markers'] else 0
        flushes_in_tx = 0
        maxfl = 0
        for l in evs:
            if l.startswith('ev af'):
                flushes_in_tx += 1
                maxfl = max(maxfl, flushes_in_tx)
            elif l.startswith('ev commit') or l.startswith('ev rollback'):
                flushes_in_tx = 0
        if maxfl >= 2:
            out.tags.append('multi_flush_tx')
        if ntx >= 2:
            out.tags.append('multi_tx')
        keys = {}
        for r in (obs['markers'][-1]['versions'] if obs['markers'] else []):
            f = r.split(' ')
            keys.setdefault((f[0], f[1]), []).append(int(f[4]))
        if any(2 in ops[:-1] or (2 in ops and ops[-1] != 2) for ops in keys.values()):
            out.tags.append('key_reused_after_delete')
        if kinds.get('rollback'):
            out.tags.append('rollback')
        out.nontrivial = ntx >= 2 or maxfl >= 2
        out.key = json.dumps([spec.get('shape'), spec['options'], spec.get('plugins'), case.get('program')], sort_keys=True)

    def judge(self, case, obs, answers):
        out = Outcome()
        kinds = obs.pop('_kinds')
        self.case_tags(case, obs, out)
        if obs.get('error'):
            err = obs['error']
            out.tags.append('error:' + err['type'])
            self.on_error(case, obs, out)
        dumps = {}
        for (kind, i), ans in zip(kinds, answers):
            mk = obs['markers'][i]
            if kind == 'dump':
                dumps[i] = ans
            elif kind == 'seg':
                impl_part, model_part, wf_part = ans.split(' | ')
                f = impl_part.split(' ')
                verdict = dict(zip(SEG_FIELDS, f))
                wf_ok, wf_first, cfg_ok, once = wf_part.split(' ')
                if once != '1':
                    out.tags.append('link_changed_twice_in_tx')
                if wf_ok != '1':
                    out.tags.append('wf_violated:' + wf_first.split(':')[-1])
                if cfg_ok != '1':
                    out.tags.append('cfg_not_ok')
                if wf_ok == '1' and cfg_ok == '1':
                    # the model's own segment must satisfy every Holds (validates theorem statements)
                    mv = dict(zip(SEG_FIELDS, model_part.split(' ')))
                    for fld in self.seg_fields:
                        if set(mv[fld]) != {'1'}:
                            out.mismatches.append({'stream': 'MODEL segment violates %s.Holds (%s) at marker %d' % (fld, mv[fld], i),
                                                   'impl': impl_part, 'model': model_part})
                for fld in self.seg_fields:
                    v = verdict[fld]
                    if fld == 'C01':
                        for cl, bit in zip(C01_CLAUSES, v):
                            if bit != '1':
                                out.violations.append({'clause': 'C01.' + cl, 'detail': {'marker': mk['label'], 'index': i}})
                    elif fld == 'C10':
                        if v[0] != '1':
                            out.violations.append({'clause': 'C10.Holds', 'detail': {'marker': mk['label'], 'index': i}})
                        if v[1] != '1':
                            out.violations.append({'clause': 'C10.live_links_differ_from_statements', 'detail': {'marker': mk['label'], 'index': i}})
                    elif v != '1':
                        out.violations.append({'clause': fld + '.Holds', 'detail': {'marker': mk['label'], 'index': i}})
            elif kind == 'chain':
                if 'C03' in self.seg_fields and ans != '1':
                    out.violations.append({'clause': 'C03.Holds', 'detail': {'marker': mk['label'], 'index': i}})
        order = sorted(dumps)
        mm = tracecmp.compare([obs['markers'][i] for i in order], [dumps[i] for i in order], self.sections)
        for (j, sec, a, b) in mm[:3]:
            out.mismatches.append({'signature': self.mismatch_signature(case),
                                   'stream': '%s at marker %d (%s)' % (sec, order[j], obs['markers'][order[j]]['label']),
                                   'impl': a, 'model': b})
        self.extra_judge(case, obs, out)
        obs['_tags'] = list(out.tags)
        return out

    def on_error(self, case, obs, out):
        """A step that raised ends the program.  An error that comes out of continuum's own code means
        that the transaction could not be versioned at all (no version row, no transaction record for
        work the application did): reported as `<id>.continuum_raised:<Type>` with the program as the
        failing input, like an exception escaping the whole run.  Errors of the application / database
        (not passing through continuum) just end the case early (tagged in the distribution)."""
        err = obs['error']
        if err.get('in_continuum'):
            out.violations.append({'clause': '%s.continuum_raised:%s' % (self.id, err['type']), 'detail': err})

    def extra_judge(self, case, obs, out):
        pass

    def mismatch_signature(self, case):
        # a model / implementation difference on an input of the open finding F-DEFAULT (the model writes the NULL the
        # application stored, the implementation's version row holds the column default) belongs to that finding
        if any('default' in col or 'server_default' in col for c in case['spec']['classes'] for col in c['columns']):
            return 'C01.version_differs:column_default'
        return None

    def signature(self, case, obs, v):
        # SQLAlchemy's row switch (delete + insert of one key in ONE flush, delivered as an UPDATE whose
        # unchanged-flag columns do not hold the stored values) was the finding F-ROWSWITCH (fixed; the signature is kept for the pinned case): it shows
        # either in the program or as a violation of the W2 contract on an `upd` event of the trace
        # open finding F-DEFAULT: the version table copies a column's default / server_default, and the ORM leaves None
        # values out of the version row's INSERT: a NULL the application stored explicitly is the default in the version row
        if v['clause'].startswith('C01.') and any('default' in col or 'server_default' in col
                                                  for c in case['spec']['classes'] for col in c['columns']):
            return 'C01.version_differs:column_default'
        if v['clause'] == 'C01.newestIsLive' and (_row_switch_in(case.get('program') or []) or
                                                  'wf_violated:upd' in (obs.get('_tags') or [])):
            return 'C01.newestIsLive:row_switch'
        # open finding F-CLASSSWITCH-TX: a key deleted as one class of a hierarchy and re-created as ANOTHER class of
        # it within one transaction (different flushes) -> two version objects for one (key, transaction)
        if v['clause'].endswith('.continuum_raised:IntegrityError') and class_switch_in_tx(case, obs):
            return 'class_switch_in_tx:IntegrityError'
        return v['clause']

    def shrinks(self, case):
        prog = case['program']
        n = len(prog)
        # drop chunks, then single steps
        size = max(1, n // 2)
        while size >= 1:
            i = 0
            while i < n:
                cand = prog[:i] + prog[i + size:]
                if cand and cand != prog:
                    c = dict(case)
                    c['program'] = cand if cand[-1] == ['commit'] else cand + [['commit']]
                    yield c
                i += size
            size //= 2
        spec = case['spec']
        if spec.get('plugins'):
            for p in spec['plugins']:
                c = dict(case)
                c['spec'] = dict(spec, plugins=[x for x in spec['plugins'] if x != p])
                yield c
        if case.get('autoflush'):
            yield dict(case, autoflush=False)


class C03(TraceProp):
    id = 'C03'
    theorems = ['Continuum.c03_chain', 'Continuum.chain_writeVersion', 'Continuum.inv_step', 'Continuum.inv_run']
    sections = ('versions',)
    seg_fields = ('C03',)
    rule = ('random session programs (add/set/set-same/set-NULL/delete/re-add same key/link/flush/commit/rollback, '
            '8-40 steps, 1-3 keys per class so keys collide) over flat, composite, string-key, aliased, joined (2 and 3 '
            'levels), single-table and many-to-many shapes, both column-name option sets, autoflush on/off, under '
            'strategy=validity; after EVERY flush and commit the (table,key,tx,end) skeleton of every version table is '
            'compared with the model and C03.Holds (= Chain) is evaluated on the real tables; non-trivial = >= 2 '
            'transactions with a versioned change or >= 2 flushes in one transaction; distinct = distinct (spec, program)')
    needs_tags = ['multi_flush_tx', 'multi_tx', 'key_reused_after_delete', 'shape:joined', 'shape:composite', 'shape:concrete']

    def make_case(self, rng, tier):
        spec = proggen.random_spec(rng, strategy='validity', plugins=[])
        n = rng.choice(self.steps_quick) if tier == 'quick' else rng.choice((10, 20, 40, 60))
        autoflush = rng.random() < 0.3
        prog = proggen.random_program(rng, spec, n, weights={'del': 4, 'readd': 4}, allow_class_switch=True, autoflush=autoflush)
        return {'spec': spec, 'autoflush': autoflush, 'program': prog}

    def class_switch(self, case):
        """does the program re-create a key as another class of its hierarchy?"""
        seen = {}
        from .. import envs
        for st in case['program']:
            if st[0] == 'add':
                c = envs.class_spec(case['spec'], st[1])
                while c.get('parent'):
                    c = envs.class_spec(case['spec'], c['parent'])
                k = (c['name'], tuple(st[2]))
                if k in seen and seen[k] != st[1]:
                    return True
                seen[k] = st[1]
        return False

    # -- concrete-table inheritance: own tables, own key spaces (not a shape of the unit-of-work model: the rows of every
    #    version table are handed to the Lean `Chain` predicate after every commit) -----------------------------------
    def gen(self, rng, tier):
        for c in TraceProp.gen(self, rng, tier):
            yield c
        for _ in range(8 if tier == 'quick' else 200):
            prog = []
            alive = set()
            for _s in range(rng.choice([6, 10, 16])):
                cls = rng.choice(['TextItem', 'Article'])
                k = rng.choice([1, 1, 2])            # the two classes use the SAME key values
                r = rng.random()
                if (cls, k) not in alive:
                    prog.append(['add', cls, k, rng.randrange(5)])
                    alive.add((cls, k))
                elif r < 0.6:
                    prog.append(['set', cls, k, rng.randrange(5, 50)])
                elif r < 0.8:
                    prog.append(['del', cls, k])
                    alive.discard((cls, k))
                prog.append(rng.choice([['commit'], ['commit'], ['flush']]))
            prog.append(['commit'])
            yield {'kind': 'concrete', 'program': prog, 'spec': {'shape': 'concrete', 'options': {'strategy': 'validity'}}}

    def run_case(self, case):
        if case.get('kind') != 'concrete':
            return TraceProp.run_case(self, case)
        import sqlalchemy_continuum as sc
        env = envs.Env(envs.shape_concrete({'strategy': 'validity'}))
        try:
            s = env.s
            objs = {}
            dumps = []
            raw = lambda: env.conn.connection.dbapi_connection
            for st in case['program']:
                if st[0] == 'add':
                    o = env.classes[st[1]](id=st[2], name='s%d' % st[3])
                    objs[(st[1], st[2])] = o
                    s.add(o)
                elif st[0] == 'set':
                    objs[(st[1], st[2])].name = 's%d' % st[3]
                elif st[0] == 'del':
                    s.delete(objs.pop((st[1], st[2])))
                elif st[0] == 'flush':
                    s.flush()
                elif st[0] == 'commit':
                    s.commit()
                    rows = []
                    for tid, t in enumerate(['text_item_version', 'article_version']):
                        for r in raw().execute('SELECT id, transaction_id, end_transaction_id, operation_type FROM %s' % t):
                            rows.append('%d %d %d %s %d - -' % (tid, r[0], r[1], 'N' if r[2] is None else r[2], r[3]))
                    dumps.append(sorted(rows))
            return {'dumps': dumps}
        finally:
            env.close()

    def lean_lines(self, case, obs):
        if case.get('kind') != 'concrete':
            return TraceProp.lean_lines(self, case, obs)
        lines = ['cfg validity 0 0 0']
        for d in obs['dumps']:
            lines += ['iv ' + r for r in d] + ['qchain']
        return lines

    def judge(self, case, obs, answers):
        if case.get('kind') == 'concrete':
            out = Outcome()
            out.tags.append('shape:concrete')
            for i, a in enumerate(answers):
                if a != '1':
                    out.violations.append({'clause': 'C03.Holds', 'detail': {'commit': i, 'rows (table key tx end op)': obs['dumps'][i]}})
                    break
            out.nontrivial = len(obs['dumps']) >= 2
            out.key = json.dumps(case['program'])
            return out
        out = TraceProp.judge(self, case, obs, answers)
        if self.class_switch(case):
            out.tags.append('class_switch')
        return out

    def shrinks(self, case):
        if case.get('kind') == 'concrete':
            return iter(())
        return TraceProp.shrinks(self, case)


class DevAll(TraceProp):
    """development aid: every segment oracle at once"""
    id = 'DEV'
    theorems = []
    sections = ('versions', 'txs', 'assoc', 'changes', 'mgr')
    seg_fields = tuple(SEG_FIELDS)
    rule = 'dev'


def db_maintained_cases(rng, n):
    """a column the DATABASE maintains at UPDATE time (SQL expression `rev + 1`), several flushed updates per transaction"""
    from .. import envs as _envs
    for _ in range(n):
        spec = _envs.shape_articles({'strategy': rng.choice(['validity', 'subquery'])}, plugins=rng.choice([[], ['mod_tracker']]))
        spec['shape'] = 'articles'
        spec['classes'][0]['columns'].append({'name': 'rev', 'type': 'int', 'default': 0, 'onupdate_sql': 'rev + 1', 'auto': True})
        prog = [['add', 'Article', [1], {'name': 1}], ['commit']]
        for _t in range(rng.choice([1, 2])):
            for _f in range(rng.choice([2, 3])):
                prog += [['set', 'Article', [1], rng.choice(['name', 'content']), rng.randrange(1, 5)], ['flush']]
            prog += [['commit']]
        yield {'spec': spec, 'autoflush': False, 'program': prog, 'family': 'database_maintained_column'}


def class_switch_in_tx(case, obs):
    """from the steps that were actually executed: was a key deleted and then added as another class of its
    hierarchy before the transaction ended?"""
    from .. import envs
    spec = case['spec']

    def root(cname):
        c = envs.class_spec(spec, cname)
        while c.get('parent'):
            c = envs.class_spec(spec, c['parent'])
        return c['name']
    steps = obs.get('steps') or []
    cls_of, committed, deleted = {}, {}, {}
    for st, status in zip(case.get('program') or [], steps):
        if status != 'ok':
            if status == 'error':
                # the failing step itself: an add after a delete of another class counts
                if st[0] == 'add' and deleted.get((root(st[1]), tuple(st[2])), st[1]) != st[1]:
                    return True
            if st[0] in ('commit', 'flush', 'query') and status == 'error':
                pass
            if status != 'error':
                continue
        if st[0] == 'add':
            k = (root(st[1]), tuple(st[2]))
            if k in deleted and deleted[k] != st[1]:
                return True
            cls_of[k] = st[1]
        elif st[0] == 'del':
            k = (root(st[1]), tuple(st[2]))
            deleted[k] = cls_of.get(k, st[1])
        elif st[0] == 'commit' and status == 'ok':
            for k in deleted:
                if cls_of.get(k) == deleted[k] and k in cls_of:
                    pass
            committed = dict(cls_of)
            deleted = {}
        elif st[0] == 'rollback':
            cls_of = dict(committed)
            deleted = {}
    return False


def _row_switch_in(program):
    """does the program delete and re-add one key without a flush in between?"""
    pending = set()
    for st in program:
        if st[0] == 'del':
            pending.add(tuple(st[2]))
        elif st[0] == 'add' and tuple(st[2]) in pending:
            return True
        elif st[0] in ('flush', 'commit', 'rollback', 'query'):
            pending.clear()
    return False


class C01(TraceProp):
    id = 'C01'
    theorems = ['Continuum.c01_holds_corrected', 'Continuum.flushtime_sound', 'Continuum.liveInv_after_commit_corrected', 'Continuum.liveInv_after_rollback',
                'Continuum.liveInv_init', 'Continuum.inv_run', 'Continuum.c01_newestIsLive', 'Continuum.c01_removedIsDelete',
                'Continuum.c01_onlyRealChanges', 'Continuum.c01_changedHasRow', 'Continuum.c01_deleteVals', 'Continuum.c01_pastKept']
    sections = ('versions',)
    seg_fields = ('C01',)
    rule = ('random session programs (add / set incl. same value and NULL / delete / re-add of a deleted key / '
            'relationship changes / flush / commit / rollback / autoflushing query, 8-40 steps, 1-3 keys per class) '
            'over flat, composite, string-key, aliased, joined (2,3 levels), single-table, many-to-many and '
            'non-versioned-neighbour shapes, both strategies, custom column names, every subset of {null_delete, '
            'mod_tracker, tx_changes}, autoflush on/off; after every commit the whole version tables are compared '
            'with the model and the six clauses of C01.Holds are evaluated on the real version tables against the '
            'live tables read by SQL; non-trivial = >= 2 transactions with a versioned change or >= 2 flushes in '
            'one transaction; distinct = distinct (spec, program)')
    needs_tags = ['multi_flush_tx', 'multi_tx', 'key_reused_after_delete', 'shape:joined', 'shape:single',
                  'shape:composite', 'plugin:null_delete', 'strategy:subquery', 'autoflush', 'rollback', 'ev:sprollback']
    weights = {'sp_begin': 1, 'sp_commit': 1, 'sp_rollback': 2}

    def gen(self, rng, tier):
        for c in TraceProp.gen(self, rng, tier):
            yield c
        for c in db_maintained_cases(rng, 8 if tier == 'quick' else 150):
            yield c
        for _ in range(12 if tier == 'quick' else 400):
            yield proggen.sp_then_touch_case(rng)
        for _ in range(12 if tier == 'quick' else 300):
            yield proggen.same_value_inherited_case(rng)
        for _ in range(12 if tier == 'quick' else 300):
            yield proggen.repeated_takeover_case(rng)

    def pick_plugins(self, rng):
        return None


class C02(TraceProp):
    id = 'C02'
    theorems = ['Continuum.c02_holds', 'Continuum.inv_step', 'Continuum.inv_run', 'Continuum.inv_init', 'Continuum.boundary_after_end']
    sections = ('txs', 'mgr')
    seg_fields = ('C02',)
    shapes = ['articles', 'articles_excl', 'comment', 'comment', 'm2m', 'joined', 'composite']
    weights = {'manual_tx': 2, 'flush': 7, 'setrel': 4, 'link': 4, 'set_same': 4, 'sp_begin': 2, 'sp_commit': 3, 'sp_rollback': 2, 'commit': 8}
    rule = ('random session programs with versioned and non-versioned changes (non-versioned neighbour class, '
            'relationship-only changes, same-value sets, excluded-column-only changes) split arbitrarily into '
            'flushes and commits, with manual early creation of the transaction record; transaction table, the '
            'distinct ids in all version / association-version tables and the current transaction of the unit of '
            'work compared with the model after every step; C02.Holds evaluated on the real tables per database '
            'transaction; 40% of the cases add a harness plugin that supplies an attribute of the transaction record via '
            'Plugin.transaction_args: every record must carry a stamp handed out by the plugin, unshared and unchanged; '
            'non-trivial = >= 2 transactions with a versioned change or >= 2 flushes in one transaction')
    needs_tags = ['multi_flush_tx', 'multi_tx', 'ev:manualtx', 'shape:comment', 'no_record_tx', 'ev:spcommit', 'plugin:stamp']

    def gen(self, rng, tier):
        for c in TraceProp.gen(self, rng, tier):
            yield c
        for _ in range(8 if tier == 'quick' else 200):
            yield proggen.sp_then_touch_case(rng)
        # "every plugin set": the activity plugin, activities kept referenced across transactions that version nothing
        from .c18 import C18
        for _ in range(14 if tier == 'quick' else 300):
            c = C18().make_case(rng, tier)
            c['family'] = 'activity_plugin'
            yield c
        # ... and transactions that change only a non-versioned class / an excluded column / nothing (same value)
        # while the application still holds activities of earlier transactions
        from .. import envs as _e
        for _ in range(14 if tier == 'quick' else 300):
            spec = _e.shape_articles({'strategy': rng.choice(['validity', 'subquery'])}, exclude=['secret'], with_comment=True,
                                     plugins=['activity'])
            spec['shape'] = 'comment'
            prog = [['add', 'Article', [1], {'name': 1}], ['add', 'Comment', [1], {'text': 1}], ['commit'],
                    ['set', 'Article', [1], 'name', 2], ['flush'], ['activity', 1, 'Article', [1], None, None], ['commit']]
            for _t in range(rng.choice([1, 2, 3])):
                k = rng.random()
                if k < 0.4:
                    prog += [['set', 'Comment', [1], 'text', rng.randrange(2, 9)]]
                elif k < 0.6:
                    prog += [['add', 'Comment', [2 + _t], {'text': 1}]]
                elif k < 0.8:
                    prog += [['set', 'Article', [1], 'secret', rng.randrange(2, 9)]]
                else:
                    prog += [['set', 'Article', [1], 'name', 2], ['set', 'Comment', [1], 'text', 11 + _t]]
                if rng.random() < 0.5:
                    prog += [['flush']]
                prog += [['commit']]
            prog += [['set', 'Article', [1], 'name', 5], ['commit']]
            yield {'spec': spec, 'autoflush': False, 'program': prog, 'family': 'old_activity_and_non_versioned_changes'}

    def pick_plugins(self, rng):
        # None = random_spec's own choice of continuum plugins; 'stamp' is the harness plugin that supplies an
        # attribute of the transaction record through Plugin.transaction_args (what FlaskPlugin does)
        return None

    def make_case(self, rng, tier):
        case = TraceProp.make_case(self, rng, tier)
        if rng.random() < 0.4:
            case['spec'] = dict(case['spec'], plugins=list(case['spec'].get('plugins') or []) + ['stamp'])
        return case

    def extra_judge(self, case, obs, out):
        """clause "(carrying any plugin-supplied attributes)": every transaction record holds a stamp that the
        plugin handed out, no two records share one, and a record keeps its stamp for life"""
        seen = {}
        for mk in obs['markers']:
            ta = mk.get('tx_attrs')
            if not ta:
                continue
            stamps = [s for _, s in ta['rows']]
            for tid, s in ta['rows']:
                if s is None or s not in ta['issued']:
                    out.violations.append({'clause': 'C02.plugin_attribute_missing', 'detail': {'marker': mk['label'], 'tx': tid, 'value': s}})
                    return
                if 'commit' in mk['label'] and 'sp_' not in mk['label']:
                    if seen.setdefault(tid, s) != s:
                        out.violations.append({'clause': 'C02.plugin_attribute_changed', 'detail': {'marker': mk['label'], 'tx': tid, 'was': seen[tid], 'now': s}})
                        return
            if len(set(stamps)) != len(stamps):
                out.violations.append({'clause': 'C02.plugin_attribute_shared', 'detail': {'marker': mk['label'], 'rows': ta['rows']}})
                return

    def case_tags(self, case, obs, out):
        TraceProp.case_tags(self, case, obs, out)
        # a committed database transaction with flushes but without a new transaction record
        prev = None
        for mk in obs['markers']:
            if 'commit' in mk['label']:
                if prev is not None and mk['txs'] == prev:
                    out.tags.append('no_record_tx')
                prev = mk['txs']


class C11(TraceProp):
    id = 'C11'
    theorems = ['Continuum.c11_holds', 'Continuum.c11_pk_unique', 'Continuum.specOp_insert_first',
                'Continuum.specOp_snoc_ins', 'Continuum.specOp_snoc_del', 'Continuum.cacheComplete_run',
                'Continuum.fresh_version_object_safe']
    sections = ('versions', 'mgr')
    seg_fields = ('C11',)
    weights = {'flush': 12, 'commit': 1, 'rollback': 0, 'del': 5, 'readd': 5, 'add': 5, 'query': 2, 'sp_begin': 2, 'sp_commit': 3, 'sp_rollback': 2}
    rule = ('random programs dominated by ONE long transaction with many flush / autoflush points over insert / '
            'update / delete / re-insert of few keys, both strategies, with and without the tracker plugin; version '
            'rows, operations dictionary (key, type, processed) and version-object cache keys compared with the model '
            'after every flush; C11.Holds (one row, last state, operation type = specOp automaton, accumulated flags) '
            'evaluated on the real tables at commit; thorough tier enumerates ALL sequences of <= 6 steps over '
            '{add, set, set-same, delete, flush} for one key; non-trivial = >= 2 flushes in one transaction')
    needs_tags = ['multi_flush_tx', 'plugin:mod_tracker', 'key_reused_after_delete', 'ev:spcommit']

    def pick_plugins(self, rng):
        return rng.choice([[], ['mod_tracker'], ['mod_tracker', 'null_delete'], ['tx_changes']])

    def gen(self, rng, tier):
        for c in TraceProp.gen(self, rng, tier):
            yield c
        for c in db_maintained_cases(rng, 8 if tier == 'quick' else 150):
            yield c
        for _ in range(12 if tier == 'quick' else 400):
            yield proggen.sp_then_touch_case(rng)
        for _ in range(12 if tier == 'quick' else 300):
            yield proggen.repeated_takeover_case(rng)
        from .. import envs as _envs
        # a key deleted in one transaction and re-used in a later one whose row is written by several flushes
        for _ in range(6 if tier == 'quick' else 100):
            spec = _envs.shape_articles({'strategy': rng.choice(['validity', 'subquery'])}, plugins=['mod_tracker'])
            spec['shape'] = 'articles'
            prog = [['add', 'Article', [1], {'name': 1}], ['commit'], ['del', 'Article', [1]], ['commit'],
                    ['add', 'Article', [1], {'name': rng.randrange(4)}], ['flush'], ['set', 'Article', [1], 'content', rng.randrange(4)]]
            if rng.random() < 0.5:
                prog += [['flush'], ['del', 'Article', [1]], ['flush'], ['add', 'Article', [1], {'content': 1}]]
            prog += [['commit']]
            yield {'spec': spec, 'autoflush': False, 'program': prog, 'family': 'reuse_after_committed_delete'}
        if tier == 'thorough':
            import itertools
            from .. import envs
            alphabet = [['add', 'Article', [1], {'name': 1}], ['set', 'Article', [1], 'name', 2],
                        ['set', 'Article', [1], 'name', 1], ['del', 'Article', [1]], ['flush']]
            for strategy in ('validity', 'subquery'):
                spec = envs.shape_articles({'strategy': strategy}, plugins=['mod_tracker'])
                spec['shape'] = 'articles'
                for n in range(1, 7):
                    for seq in itertools.product(range(len(alphabet)), repeat=n):
                        prog = [alphabet[i] for i in seq]
                        yield {'spec': spec, 'autoflush': False, 'program': prog + [['commit']], 'exhaustive': True}


class C13(TraceProp):
    id = 'C13'
    theorems = ['Continuum.c01_holds_corrected', 'Continuum.c01_onlyRealChanges', 'Continuum.c02_holds',
                'Continuum.Schema.c13_no_column', 'Continuum.Schema.include_beats_exclude']
    sections = ('versions', 'txs')
    seg_fields = ('C01', 'C02')
    shapes = ['articles_excl', 'articles_excl', 'aliased', 'comment']
    weights = {'set': 12, 'set_same': 3, 'flush': 5, 'commit': 8, 'setrel': 6, 'add': 6}
    rule = ('random exclude / include sets over plain and aliased columns (include beats exclude) and histories mixing '
            'changes to excluded and versioned columns; version tables and transaction table compared with the model; '
            'the clauses "only real changes are captured" (C01.onlyRealChanges) and "no record without cause" (C02) '
            'are evaluated on the real tables; non-trivial = some transaction changed only excluded columns of an '
            'entity and another changed a versioned one')
    needs_tags = ['excluded_only_tx', 'multi_tx']

    def make_case(self, rng, tier):
        from .. import envs
        opts = {'strategy': rng.choice(['validity', 'subquery'])}
        cols = ['name', 'content', 'secret']
        ex = [c for c in cols if rng.random() < 0.5] or ['secret']
        inc = [c for c in ex if rng.random() < 0.25]
        aliased = rng.random() < 0.3
        if aliased:
            ex = ['name_' if c == 'name' else c for c in ex]
            inc = ['name_' if c == 'name' else c for c in inc]
        spec = envs.shape_articles(opts, exclude=ex, include=inc, aliased=aliased, with_comment=rng.random() < 0.3,
                                   plugins=rng.choice([[], ['mod_tracker'], ['tx_changes']]))
        # the child class: sometimes its foreign-key column (carrying the many-to-one relationship) or its name is excluded
        tex = rng.choice([[], [], ['article_id'], ['name'], ['article_id', 'name']])
        if tex:
            spec['classes'][1]['versioned'] = {'exclude': tex}
        spec['shape'] = 'articles_excl'
        n = rng.choice(self.steps_quick) if tier == 'quick' else rng.choice((10, 20, 40))
        prog = proggen.random_program(rng, spec, n, weights=self.weights)
        return {'spec': spec, 'autoflush': rng.random() < 0.3, 'program': prog}

    def case_tags(self, case, obs, out):
        TraceProp.case_tags(self, case, obs, out)
        # a committed transaction with an update event whose changed columns are all excluded
        prev = None
        saw_upd = False
        for l in obs['lines']:
            if l.startswith('ev upd 0 '):
                saw_upd = True
            if l.startswith('qdump '):
                mk = obs['markers'][int(l.split(' ')[1])]
                if 'commit' in mk['label']:
                    if prev is not None and mk['versions'] == prev and saw_upd:
                        out.tags.append('excluded_only_tx')
                    prev = mk['versions']
                    saw_upd = False
        out.nontrivial = out.nontrivial and 'excluded_only_tx' in out.tags


class C17(TraceProp):
    id = 'C17'
    theorems = ['Continuum.c17_holds']
    sections = ('changes', 'versions', 'mgr')
    seg_fields = ('C17',)
    plugins = ['tx_changes']
    shapes = ['articles', 'comment', 'joined', 'joined3', 'single', 'm2m', 'composite']
    weights = {'flush': 8, 'sp_begin': 2, 'sp_commit': 2, 'sp_rollback': 3, 'add': 8}
    rule = ('random programs touching random subsets of the versioned classes per transaction in 1-4 flushes '
            '(inheritance included) with the transaction-changes plugin; transaction_changes rows compared with the '
            'model and judged by C17.Holds at every commit; Transaction.changed_entities / entity_names of every '
            'transaction record compared with the version rows stamped with its id; non-trivial = >= 2 flushes in '
            'one transaction or >= 2 transactions')
    needs_tags = ['multi_flush_tx', 'multi_tx', 'shape:joined']

    def pick_plugins(self, rng):
        return rng.choice([['tx_changes'], ['tx_changes'], ['tx_changes', 'mod_tracker'], []])

    def run_case(self, case):
        return program.run_case(dict(case, probe='changed_entities'))

    def extra_judge(self, case, obs, out):
        probe = obs.get('probe')
        if not probe:
            return
        last = obs['markers'][-1]
        # base-table rows per transaction id
        base_tids = set(probe['base_tids'])
        expected = {}
        for r in last['versions']:
            f = r.split(' ')
            if int(f[0]) in base_tids:
                expected.setdefault(int(f[2]), set()).add((int(f[0]), f[1]))
        for tx in probe['txs']:
            got = set((a, b) for a, b in tx['versions'])
            exp = expected.get(tx['id'], set())
            if tx['bad'] or got != exp:
                out.violations.append({'clause': 'C17.changed_entities', 'detail': {'tx': tx['id'], 'got': sorted(got),
                                                                                     'expected': sorted(exp), 'bad': tx['bad']}})
            if tx['names'] is not None:
                exp_names = set(tx['expected_names'])
                if set(tx['names']) != exp_names or len(tx['names']) != len(set(tx['names'])):
                    out.violations.append({'clause': 'C17.entity_names', 'detail': {'tx': tx['id'], 'got': tx['names'],
                                                                                     'expected': sorted(exp_names)}})


class C10(TraceProp):
    id = 'C10'
    theorems = ['Continuum.c10_holds', 'Continuum.c10_linkInv_init', 'Continuum.c10_linkInv_after_commit', 'Continuum.history_c10', 'Continuum.linkInv_before', 'Continuum.afterFlush_processed_corrected',
                'Continuum.c10_linkInv_after_rollback', 'Continuum.c10_no_error', 'Continuum.c04_links_stable_step',
                'Continuum.c10_twice_counterexample']
    sections = ('assoc', 'versions', 'mgr')
    seg_fields = ('C10',)
    shapes = ['m2m', 'm2m', 'm2m_self']
    weights = {'link': 16, 'unlink': 8, 'commit': 4, 'flush': 8, 'add': 7, 'del': 1, 'set': 1, 'rollback': 1, 'setrel': 0,
               'set_same': 0, 'set_null': 0, 'query': 0, 'core_link': 3, 'sp_begin': 2, 'sp_commit': 1, 'sp_rollback': 2}
    steps_quick = (15, 25, 40)
    rule = ('random histories of linking and unlinking on a many-to-many shape (single and several pairs per transaction, from '
            'either side through the backref, pairs removed and re-added in later transactions, parents or targets deleted, '
            'rollbacks); association-version rows, pending statements and version rows compared with the model after every '
            'step; at every commit C10.Holds (replaying the rows yields exactly the live link set read by SQL, past rows kept, '
            'one row per touched link with the matching type, none for untouched links) is evaluated on the real tables; '
            'non-trivial = >= 2 transactions changed links; distinct = distinct (spec, program)')
    needs_tags = ['multi_tx', 'ev:assoc', 'relink_later_tx', 'unlink']

    def pick_plugins(self, rng):
        return rng.choice([[], [], ['tx_changes']])

    def make_case(self, rng, tier):
        case = TraceProp.make_case(self, rng, tier)
        case['autoflush'] = False
        return case

    def gen(self, rng, tier):
        for c in TraceProp.gen(self, rng, tier):
            yield c
        # structured family: all entities exist; every transaction changes several pairs in 2-3 flushes
        from .. import envs
        n = 40 if tier == 'quick' else 1500
        pairs = [(a, t) for a in (1, 2, 3) for t in (1, 2, 3)]
        for _ in range(n):
            spec = envs.shape_m2m({'strategy': rng.choice(['validity', 'subquery'])}, plugins=[])
            spec['shape'] = 'm2m'
            if rng.random() < 0.3:
                # key attributes named differently from their columns (ident = Column('id')): transactions that change
                # ONLY links must still be noticed
                for c in spec['classes'][:rng.choice([1, 2])]:
                    c['columns'][0]['attr'] = 'ident'
                spec['aliased_keys'] = True
            prog = [['add', 'Article', [i], {'name': i}] for i in (1, 2, 3)] + [['add', 'Tag', [i], {'name': i}] for i in (1, 2, 3)] + [['commit']]
            linked = set()
            for _tx in range(rng.choice([1, 2, 3])):
                for _fl in range(rng.choice([2, 2, 3])):
                    for (a, t) in rng.sample(pairs, rng.choice([1, 2, 2, 3])):
                        if (a, t) in linked:
                            if rng.random() < 0.5:
                                prog.append(['unlink', rng.choice([['Article', [a], 'tags', 'Tag', [t]], ['Tag', [t], 'articles', 'Article', [a]]])][1:][0])
                                prog[-1] = ['unlink'] + prog[-1]
                                linked.discard((a, t))
                        else:
                            side = rng.choice([['Article', [a], 'tags', 'Tag', [t]], ['Tag', [t], 'articles', 'Article', [a]]])
                            prog.append(['link'] + side)
                            linked.add((a, t))
                    prog.append(['flush'])
                prog.append(['commit'])
            yield {'spec': spec, 'autoflush': False, 'program': prog, 'family': 'multi_pair_multi_flush'}
        for _ in range(16 if tier == 'quick' else 400):
            yield proggen.core_sp_case(rng)
        for _ in range(10 if tier == 'quick' else 200):
            yield proggen.core_cancel_case(rng)

    def case_tags(self, case, obs, out):
        TraceProp.case_tags(self, case, obs, out)
        hist = {}
        for mk in obs['markers']:
            if 'commit' in mk['label']:
                for r in mk['assoc']:
                    f = r.split(' ')
                    hist.setdefault((f[0], f[1]), set()).add((int(f[2]), int(f[3])))
        for v in hist.values():
            ops = [o for _, o in sorted(v)]
            if 2 in ops:
                out.tags.append('unlink')
            if len(ops) >= 3 or ops[-2:] == [2, 0]:
                out.tags.append('relink_later_tx')
        ntx_links = len({t for v in hist.values() for t, _ in v})
        out.nontrivial = ntx_links >= 2

    def on_error(self, case, obs, out):
        err = obs['error']
        if err.get('in_continuum'):
            sig = 'C10.continuum_raised:' + err['type']
            if err['type'] == 'IntegrityError' and 'article_tag_version' in err.get('msg', ''):
                sig = 'C10.link_changed_twice_in_tx:IntegrityError'
            out.violations.append({'clause': sig, 'detail': err})

    def extra_judge(self, case, obs, out):
        # C10 verdict has two bits: Holds, and "live link table = statements replayed"
        pass
