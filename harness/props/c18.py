"""C18 — activities are stamped once and point at the as-of version.

Session programs with the activity plugin: activities about entities are added AFTER the entity's
changes were flushed, and the activity objects stay referenced by the application (and so in the
session) across later transactions that update, delete or ignore their entities.  The activity
table is dumped after every step; for every pair of consecutive dumps the Lean predicate
`C18.Holds` is evaluated with the version rows visible before the flush: stored activities must be
unchanged, new ones must carry the current transaction and the newest version of object and
target.  `C02.Holds` (no record without cause: old activities alone are no cause) is evaluated per
database transaction, and the trace is replayed through the unit-of-work model.
"""
import json

from ..core import Outcome
from .. import envs, proggen
from .traces import TraceProp


class C18(TraceProp):
    id = 'C18'
    theorems = ['Continuum.c18_flush', 'Continuum.c18_stable', 'Continuum.c18_points_as_of', 'Continuum.c18_no_spurious',
                'Continuum.c18_restamp_counterexample', 'Continuum.c02_holds']
    sections = ('txs', 'versions')
    seg_fields = ('C02',)
    rule = ('random session programs with the activity plugin on the Article/Tag shape (both strategies): entities are created, '
            'updated, deleted or left alone; activities (object, optional target) are added after a flush and kept referenced '
            'across later transactions; after every step the activity table is compared with the previous dump and judged by '
            'C18.Holds (stored rows unchanged; new rows: current transaction, newest version of object and target visible when '
            'the flush started); C02.Holds per transaction (old activities are no cause for a record); non-trivial = an activity '
            'survives at least one later committed transaction that versions its object; distinct = distinct program')
    needs_tags = ['activity_survives_later_tx', 'activity_with_target', 'tx_without_versioned_change_but_old_activity']

    def make_case(self, rng, tier):
        spec = envs.shape_articles({'strategy': rng.choice(['validity', 'subquery'])}, plugins=['activity'])
        for c in spec['classes']:
            for col in c['columns']:
                if col.get('pk'):
                    col['type'] = 'int'
        spec['shape'] = 'articles'
        n = rng.choice((10, 18, 28)) if tier == 'quick' else rng.choice((15, 30, 50))
        base = proggen.random_program(rng, spec, n, weights={'rollback': 1, 'commit': 6, 'flush': 4, 'del': 2, 'set': 9, 'sp_begin': 2, 'sp_rollback': 2, 'sp_commit': 1})
        prog = []
        verb = 0
        for st in base:
            prog.append(st)
            if rng.random() < 0.25:
                adds = [s for s in prog if s[0] == 'add']
                if adds:
                    a = rng.choice(adds)
                    t = rng.choice(adds) if rng.random() < 0.4 else None
                    verb += 1
                    prog.append(['flush'])
                    prog.append(['activity', verb, a[1], a[2], t[1] if t else None, t[2] if t else None])
            if rng.random() < 0.1:
                # a transaction that touches nothing versioned while old activities sit in the session
                prog.append(['commit'])
                prog.append(['flush'])
                prog.append(['commit'])
        prog.append(['commit'])
        return {'spec': spec, 'autoflush': False, 'program': prog}

    def gen(self, rng, tier):
        for c in TraceProp.gen(self, rng, tier):
            yield c
        # an entity versioned by an earlier flush of the transaction, a savepoint rolled back in between (the unit of
        # work forgets its cached version objects), then an activity about the entity
        for _ in range(10 if tier == 'quick' else 200):
            spec = envs.shape_articles({'strategy': rng.choice(['validity', 'subquery'])}, plugins=['activity'])
            for c in spec['classes']:
                for col in c['columns']:
                    if col.get('pk'):
                        col['type'] = 'int'
            spec['shape'] = 'articles'
            prog = [['add', 'Article', [1], {'name': 1}], ['add', 'Article', [2], {'name': 1}], ['commit'],
                    ['set', 'Article', [1], 'name', 2], ['flush'], ['sp_begin']]
            if rng.random() < 0.5:
                prog += [['set', 'Article', [2], 'name', 3], ['flush']]
            prog += [rng.choice([['sp_rollback'], ['sp_rollback'], ['sp_commit']]),
                     ['activity', 1, 'Article', [1], 'Article', [2]], ['flush'], ['commit'],
                     ['set', 'Article', [1], 'name', 4], ['commit']]
            yield {'spec': spec, 'autoflush': False, 'program': prog, 'family': 'activity_after_savepoint'}

    def lean_lines(self, case, obs):
        lines = TraceProp.lean_lines(self, case, obs)
        kinds = obs['_kinds']
        extra = []
        mks = obs['markers']
        for i in range(1, len(mks)):
            a, b = mks[i - 1].get('activities', []), mks[i].get('activities', [])
            if a == b and not b:
                continue
            if 'rollback' in mks[i]['label']:
                continue      # a rolled-back transaction takes its uncommitted activities with it (C06)
            T = max(mks[i]['txs']) if mks[i]['txs'] else 0
            for r in mks[i - 1]['versions']:
                extra.append('actv ' + r)
            for r in a:
                extra.append('actb ' + r)
            for r in b:
                extra.append('acta ' + r)
            extra.append('q18 %d' % T)
            kinds.append(('act', i))
        return lines + extra

    def judge(self, case, obs, answers):
        kinds = obs['_kinds']
        nact = sum(1 for k in kinds if k[0] == 'act')
        act_answers = answers[len(answers) - nact:] if nact else []
        act_kinds = [k for k in kinds if k[0] == 'act']
        obs['_kinds'] = [k for k in kinds if k[0] != 'act']
        out = TraceProp.judge(self, case, obs, answers[:len(answers) - nact] if nact else answers)
        for (_, i), ans in zip(act_kinds, act_answers):
            if ans != '1':
                mk = obs['markers'][i]
                out.violations.append({'clause': 'C18.Holds', 'detail': {'marker': mk['label'], 'before': obs['markers'][i - 1].get('activities'),
                                                                          'after': mk.get('activities'), 'txs': mk['txs']}})
        # tags
        mks = obs['markers']
        first_seen = {}
        for i, mk in enumerate(mks):
            for r in mk.get('activities', []):
                f = r.split(' ')
                first_seen.setdefault(f[0], (i, f))
        last_txs = mks[-1]['txs'] if mks else []
        for aid, (i, f) in first_seen.items():
            if f[2] != 'N':
                out.tags.append('activity_with_target')
            # later committed transaction versioning its object
            if f[1] != 'N':
                tid, pk = f[1].split(':')
                tx0 = int(f[3]) if f[3] != 'N' else 0
                for r in mks[-1]['versions']:
                    g = r.split(' ')
                    if g[0] == tid and g[1] == pk and int(g[2]) > tx0:
                        out.tags.append('activity_survives_later_tx')
        prev = None
        for mk in mks:
            if 'commit' in mk['label']:
                if prev is not None and mk['txs'] == prev['txs'] and prev.get('activities'):
                    out.tags.append('tx_without_versioned_change_but_old_activity')
                prev = mk
        out.nontrivial = 'activity_survives_later_tx' in out.tags
        return out

    def signature(self, case, obs, v):
        return v['clause']
