"""C14 — generated native triggers version rows like the object-based path.

PostgreSQL is not available in the sandbox, so the trigger cannot run natively.  Per sampled
configuration:

1. the REAL generator's text (`CreateTriggerFunctionSQL.for_manager`) is parsed into the trigger AST
   (`harness/trigparse.py`); a generated Lean file kernel-checks `WellFormed cfg prog` on the parsed
   program (translation validation of the real generator output);
2. a shim executes the ACTUAL generated data statements on SQLite for random row-event sequences:
   the validity UPDATE verbatim (NEW."c" / OLD."c" / transaction_id_value turned into bind
   parameters), the upsert CTE split into its UPDATE and its INSERT ... SELECT ... WHERE NOT EXISTS
   (exactly its PostgreSQL meaning), IS DISTINCT FROM as SQLite's IS NOT, the hstore difference
   computed in Python; the PL/pgSQL control flow (guards, TG_OP dispatch) is emulated;
3. the same sequences run through the real object-based path (ORM, same models without native
   versioning);
4. the Lean interpreter (`runOp`) runs the parsed program and the Lean `objectPath` the model.

shim vs Lean interpreter validates the modelled trigger semantics; shim vs real object path IS the
property (for sequences with at most one event per row per transaction; several events per row per
transaction are the open findings F-TRG1 / F-TRG2, pinned in the corpus).
"""
import json
import os
import re

import sqlalchemy as sa

from ..core import Prop, Outcome
from .. import envs, lean, trigparse
from .. import tablegen as tg


def random_config(rng, allow_op_col=False):
    key = rng.choice(['int', 'int', 'composite', 'str'])
    ncols = rng.choice([1, 2, 3])
    opts = {'strategy': rng.choice(['validity', 'validity', 'subquery'])}
    if rng.random() < 0.3:
        opts['transaction_column_name'] = 'tx_id'
        opts['end_transaction_column_name'] = 'end_tx_id'
    if rng.random() < 0.25:
        opts['operation_type_column_name'] = 'op_type'
    if rng.random() < 0.2:
        opts['table_name'] = '%s_history'
    names = ['name', 'content', 'extra'][:ncols]
    excl = [n for n in names if rng.random() < 0.25]
    if len(excl) == len(names):
        excl = excl[:-1]
    return {'key': key, 'ncols': ncols, 'options': opts, 'exclude': excl, 'mods': rng.random() < 0.5}


def build_spec(cfg):
    if cfg['key'] == 'composite':
        spec = envs.shape_composite(dict(cfg['options']), extra_cols=cfg['ncols'])
    else:
        spec = envs.shape_flat(dict(cfg['options']), key='int' if cfg['key'] == 'int' else 'str', extra_cols=cfg['ncols'],
                               exclude=cfg['exclude'])
    if cfg['key'] == 'composite' and cfg['exclude']:
        spec['classes'][0]['versioned']['exclude'] = list(cfg['exclude'])
    spec['plugins'] = ['mod_tracker'] if cfg['mods'] else []
    return spec


def cols_of(cfg):
    key_cols = ['a', 'b'] if cfg['key'] == 'composite' else ['id']
    all_vals = ['name', 'content', 'extra'][:cfg['ncols']]
    val_cols = [c for c in all_vals if c not in cfg['exclude']]
    return key_cols, all_vals, val_cols


def random_events(rng, cfg, multi=False):
    """list of transactions; each a list of row events over keys; at most one event per row per
    transaction unless `multi`"""
    key_cols, all_vals, val_cols = cols_of(cfg)
    nk = len(key_cols)
    live = {}
    txs = []
    for _t in range(rng.choice([2, 3, 4, 5])):
        evs = []
        touched = set()
        for _e in range(rng.choice([1, 2, 3])):
            k = tuple(rng.randrange(1, 3) for _ in range(nk))
            if k in touched and not multi:
                continue
            touched.add(k)
            if k not in live:
                vals = [rng.choice([None, 0, 1, 2]) for _ in all_vals]
                live[k] = vals
                evs.append(['ins', list(k), list(vals)])
            elif rng.random() < 0.3:
                evs.append(['del', list(k), list(live[k])])
                del live[k]
            else:
                old = live[k]
                new = list(old)
                j = rng.randrange(len(new))
                new[j] = rng.choice([None, 0, 1, 2])
                if rng.random() < 0.3:
                    j2 = rng.randrange(len(new))
                    new[j2] = rng.choice([None, 0, 1, 2])
                live[k] = new
                evs.append(['upd', list(k), list(old), list(new)])
        active = rng.random() > 0.12      # some transactions run without an active transaction record
        txs.append({'active': active, 'events': evs})
    return txs


def get_trigger_sql(env, cls):
    from sqlalchemy_continuum.dialects.postgresql import CreateTriggerFunctionSQL
    from sqlalchemy_continuum import versioning_manager as m
    return str(CreateTriggerFunctionSQL.for_manager(m, cls))


def names_of(cfg):
    o = cfg['options']
    return {'tx': o.get('transaction_column_name', 'transaction_id'), 'end': o.get('end_transaction_column_name', 'end_transaction_id'),
            'op': o.get('operation_type_column_name', 'operation_type')}


# -- the shim: the generated data statements on SQLite ------------------------------------------

class Shim(object):
    def __init__(self, sql, conn, cfg):
        self.conn = conn
        self.cfg = cfg
        self.key_cols, self.all_vals, self.val_cols = cols_of(cfg)
        i_ins = sql.index("IF (TG_OP = 'INSERT') THEN")
        i_upd = sql.index("ELSIF (TG_OP = 'UPDATE') THEN")
        i_del = sql.index("ELSIF (TG_OP = 'DELETE') THEN")
        i_end = sql.rindex('END IF;')
        self.sections = {'ins': sql[i_ins:i_upd], 'upd': sql[i_upd:i_del], 'del': sql[i_del:i_end]}
        self.excluded = [x.strip().strip("'") for x in re.search(r"ARRAY\[(.*?)\]::text\[\]", sql).group(1).split(',') if x.strip()]

    def _bind(self, text):
        text = re.sub(r'NEW\."([\w ]+)"', lambda m: ':new_' + m.group(1), text)
        text = re.sub(r'OLD\."([\w ]+)"', lambda m: ':old_' + m.group(1), text)
        text = text.replace('transaction_id_value', ':txid')
        text = text.replace('IS DISTINCT FROM', 'IS NOT')
        text = re.sub(r'\bTrue\b', '1', text)
        return text

    def fire(self, kind, old, new, txid):
        """old/new: dict column -> value (or None for the absent record)"""
        if txid is None:
            return
        if kind == 'upd':
            # hstore(NEW) - hstore(OLD) - excluded = '' -> RETURN NULL
            changed = [c for c in new if new[c] != old[c] and c not in self.excluded]
            if not changed:
                return
        text = self.sections[kind]
        params = {'txid': txid}
        for c in self.key_cols + self.all_vals:
            params['new_' + c] = None if new is None else new.get(c)
            params['old_' + c] = None if old is None else old.get(c)
        for m in trigparse.VALIDITY_RE.finditer(text):
            self.conn.execute(sa.text(self._bind(m.group(0).rstrip(';'))), params)
        m = trigparse.UPSERT_RE.search(text)
        upd = 'UPDATE %s SET %s WHERE %s = :txid AND %s' % (m.group('vt'), self._bind(m.group('set')), m.group('tx'), self._bind(m.group('crit')))
        r = self.conn.execute(sa.text(upd), params)
        if r.rowcount == 0:
            ins = 'INSERT INTO %s (%s) SELECT :txid, %s, %s' % (m.group('vt'), m.group('cols'), m.group('op'), self._bind(m.group('vals')))
            self.conn.execute(sa.text(ins), params)


def enc(cfg, c, v):
    if v is None:
        return None
    if c in ('a', 'b'):
        return v
    if c == 'id':
        return v if cfg['key'] == 'int' else 'k%d' % v
    return 's%d' % v


def run_config(case):
    cfg = case['config']
    key_cols, all_vals, val_cols = cols_of(cfg)
    names = names_of(cfg)
    spec = build_spec(cfg)
    out = {}
    # ---- the real object-based path first: it decides which transactions get a transaction record
    env = envs.Env(spec)
    try:
        cls = env.classes['Article']
        import sqlalchemy_continuum as sc
        vt = sc.version_class(cls).__table__
        s = env.s
        objs = {}
        tx_ids = []
        raw = env.conn.connection.dbapi_connection
        for tx in case['txs']:
            before = {r[0] for r in raw.execute('SELECT id FROM "transaction"')}
            if not tx['active']:
                # without an active transaction record the trigger writes nothing: replay the row changes with
                # versioning switched off for this transaction
                sc.versioning_manager.options['versioning'] = False
            try:
                for ev in tx['events']:
                    kind, k = ev[0], tuple(ev[1])
                    if kind == 'ins':
                        kw = {c: enc(cfg, c, x) for c, x in zip(key_cols, k)}
                        kw.update({c: enc(cfg, c, x) for c, x in zip(all_vals, ev[2])})
                        o = cls(**kw)
                        s.add(o)
                        objs[k] = o
                    elif kind == 'del':
                        s.delete(objs.pop(k))
                    else:
                        for c, x in zip(all_vals, ev[3]):
                            setattr(objs[k], c, enc(cfg, c, x))
                    s.flush()
                s.commit()
            finally:
                sc.versioning_manager.options['versioning'] = True
            after = {r[0] for r in raw.execute('SELECT id FROM "transaction"')}
            new_ids = sorted(after - before)
            tx_ids.append(new_ids[0] if new_ids else None)
        out['tx_ids'] = tx_ids
        out['object'] = dump_vt(env, vt, cfg, names)
    finally:
        env.close()
    # ---- trigger text and shim run, with the same transaction ids
    env = envs.Env(spec)
    try:
        cls = env.classes['Article']
        sql = get_trigger_sql(env, cls)
        out['sql'] = sql
        try:
            prog = trigparse.parse_function(sql, key_cols, val_cols, names, cfg['mods'])
            out['prog'] = prog
            out['parse_error'] = None
        except trigparse.ParseError as e:
            out['prog'] = None
            out['parse_error'] = str(e)
            return out
        import sqlalchemy_continuum as sc
        vt = sc.version_class(cls).__table__
        shim = Shim(sql, env.conn, cfg)
        for tx, txid in zip(case['txs'], tx_ids):
            for ev in tx['events']:
                kind = ev[0]
                k = ev[1]
                kd = {c: enc(cfg, c, x) for c, x in zip(key_cols, k)}
                if kind == 'ins':
                    new = dict(kd, **{c: enc(cfg, c, x) for c, x in zip(all_vals, ev[2])})
                    shim.fire('ins', None, new, txid)
                elif kind == 'del':
                    old = dict(kd, **{c: enc(cfg, c, x) for c, x in zip(all_vals, ev[2])})
                    shim.fire('del', old, None, txid)
                else:
                    old = dict(kd, **{c: enc(cfg, c, x) for c, x in zip(all_vals, ev[2])})
                    new = dict(kd, **{c: enc(cfg, c, x) for c, x in zip(all_vals, ev[3])})
                    shim.fire('upd', old, new, txid)
        env.conn.commit()
        out['shim'] = dump_vt(env, vt, cfg, names)
    finally:
        env.close()
    return out


def dump_vt(env, vt, cfg, names):
    key_cols, all_vals, val_cols = cols_of(cfg)
    validity = cfg['options']['strategy'] == 'validity'
    rows = []
    for r in env.conn.execute(sa.select(vt)).mappings():
        key = [tg.dec_keycomp({'key': cfg['key']}, r[c]) for c in key_cols]
        rows.append([key, r[names['tx']], r[names['end']] if validity else None, r[names['op']],
                     [tg.dec_val(r[c]) for c in val_cols],
                     [bool(r[c + '_mod']) for c in val_cols] if cfg['mods'] else []])
    env.conn.rollback()
    rows.sort(key=lambda x: (x[0], x[1]))
    return rows


def event_lines(case, tx_ids):
    cfg = case['config']
    key_cols, all_vals, val_cols = cols_of(cfg)
    idx = [all_vals.index(c) for c in val_cols]
    lines = []
    for tx, txid in zip(case['txs'], tx_ids):
        T = 'N' if txid is None else str(txid)
        for ev in tx['events']:
            k = tg.fmt_list(ev[1])
            if ev[0] == 'ins':
                lines.append('tev %s ins %s %s' % (T, k, tg.fmt_opt([ev[2][i] for i in idx])))
            elif ev[0] == 'del':
                lines.append('tev %s del %s %s' % (T, k, tg.fmt_opt([ev[2][i] for i in idx])))
            else:
                chg = any(ev[2][i] != ev[3][i] for i in idx)
                lines.append('tev %s upd %s %s %s %d' % (T, k, tg.fmt_opt([ev[2][i] for i in idx]), tg.fmt_opt([ev[3][i] for i in idx]),
                                                          1 if chg else 0))
    return lines


class C14(Prop):
    id = 'C14'
    theorems = ['Continuum.Trigger.c14_equiv_first_partial', 'Continuum.Trigger.c14_silent', 'Continuum.Trigger.sampleProg_wellFormed',
                'Continuum.Trigger.c14_second_event_counterexample', 'Continuum.Trigger.c14_delete_after_insert_counterexample',
                'Continuum.Trigger.c14_sync_excluded']
    workers = 12
    chunk = 2
    rule = ('sampled configurations (int / string / composite keys, 1-3 columns, excluded columns, custom column and table names, '
            'validity on/off, modification tracking on/off) x random row-event sequences grouped into transactions (inserts, '
            'updates incl. excluded-only and no-op updates, deletes, re-inserts in later transactions, transactions without an '
            'active transaction record; at most one event per row per transaction): the REAL generated trigger text is parsed, '
            'its data statements are executed on SQLite by a shim, the parsed program is interpreted in Lean, and the same events '
            'run through the real object-based path; shim = Lean interpreter, shim = real object path, WellFormed(parsed program); '
            'non-trivial = >= 2 transactions wrote versions of one row; distinct = (configuration, events)')
    assumptions = ['PARTIAL: PostgreSQL itself, PL/pgSQL control flow, the hstore difference and the CTE upsert are modelled / emulated, '
                   'never executed natively (no PostgreSQL in the sandbox)',
                   'flat models only (one table per class); several events on one row within a transaction are the open findings '
                   'F-TRG1 / F-TRG2 and are kept out of the random stream',
                   'delete-nullification and sync_trigger\'s rebuilt trigger (no validity, tracking forced on) are not compared']
    needs_tags = ['validity', 'subquery', 'mods', 'excluded', 'composite', 'custom_names', 'inactive_tx', 'noop_update']

    def counts(self, tier):
        return 70 if tier == 'quick' else 2500

    def gen(self, rng, tier):
        for _ in range(self.counts(tier)):
            cfg = random_config(rng)
            yield {'config': cfg, 'txs': random_events(rng, cfg)}

    def run_case(self, case):
        return run_config(case)

    def lean_lines(self, case, obs):
        if obs.get('prog') is None:
            return []
        cfg = case['config']
        lines = trigparse.prog_lines(obs['prog'])
        lines[0] += ' %d' % (1 if cfg['options']['strategy'] == 'validity' else 0)
        lines += event_lines(case, obs['tx_ids'])
        lines.append('qtrig')
        return lines

    def judge(self, case, obs, answers):
        out = Outcome()
        cfg = case['config']
        out.tags += [cfg['options']['strategy'], cfg['key']]
        if cfg['mods']:
            out.tags.append('mods')
        if cfg['exclude']:
            out.tags.append('excluded')
        if any(k in cfg['options'] for k in ('transaction_column_name', 'operation_type_column_name', 'table_name')):
            out.tags.append('custom_names')
        if any(not tx['active'] for tx in case['txs']):
            out.tags.append('inactive_tx')
        key_cols, all_vals, val_cols = cols_of(cfg)
        idx = [all_vals.index(c) for c in val_cols]
        for tx in case['txs']:
            for ev in tx['events']:
                if ev[0] == 'upd' and all(ev[2][i] == ev[3][i] for i in idx):
                    out.tags.append('noop_update')
        out.key = json.dumps(case, sort_keys=True)
        if obs.get('parse_error'):
            out.mismatches.append({'stream': 'generated trigger text no longer has the template shape', 'impl': obs['parse_error'],
                                   'model': 'trigparse template'})
            return out
        wf, trig, objm = answers[0].split(' | ')
        trig_rows = sorted(tg.parse_rows(trig), key=lambda x: (x[0], x[1]))
        obj_rows = sorted(tg.parse_rows(objm), key=lambda x: (x[0], x[1]))
        per = {}
        for r in obs['object']:
            per.setdefault(tuple(r[0]), []).append(r)
        out.nontrivial = any(len(v) >= 2 for v in per.values())
        multi = any(len([e for e in tx['events'] if tuple(e[1]) == k]) > 1 for tx in case['txs'] for k in {tuple(e[1]) for e in tx['events']})
        if wf != '1':
            out.violations.append({'clause': 'C14.WellFormed', 'detail': {'program': obs['prog']}})
        if obs['shim'] != obs['object']:
            out.violations.append({'clause': 'C14.trigger_differs_from_object_path' + (':multi_event' if multi else ''),
                                   'detail': {'trigger(shim)': obs['shim'], 'object_path': obs['object']}})
        if trig_rows != obs['shim']:
            out.mismatches.append({'stream': 'Lean interpreter of the parsed trigger vs the generated statements on SQLite',
                                   'impl': obs['shim'], 'model': trig_rows})
        if obj_rows != obs['object']:
            out.mismatches.append({'stream': 'Lean objectPath vs the real object-based path', 'impl': obs['object'], 'model': obj_rows})
        return out

    def shrinks(self, case):
        txs = case['txs']
        for i in range(len(txs)):
            yield dict(case, txs=txs[:i] + txs[i + 1:])
        for i, tx in enumerate(txs):
            for j in range(len(tx['events'])):
                t2 = [dict(t) for t in txs]
                t2[i] = dict(tx, events=tx['events'][:j] + tx['events'][j + 1:])
                yield dict(case, txs=t2)

    def extra_obligations(self, runner):
        import random
        rng = random.Random(runner.seed + 14)
        n = 10 if runner.tier == 'quick' else 150
        body = ['import Continuum.Trigger', 'open Continuum.Trigger', '']
        count = 0
        for ci in range(n):
            cfg = random_config(rng, allow_op_col=True)
            key_cols, all_vals, val_cols = cols_of(cfg)
            env = envs.Env(build_spec(cfg))
            try:
                sql = get_trigger_sql(env, env.classes['Article'])
            finally:
                env.close()
            try:
                prog = trigparse.parse_function(sql, key_cols, val_cols, names_of(cfg), cfg['mods'])
            except trigparse.ParseError as e:
                raise lean.ProofBroken('generated trigger text does not parse (%s)' % e, sql[-1500:])
            body.append('-- configuration: %s' % json.dumps(cfg, sort_keys=True))
            body.append(trigparse.lean_prog('prog_%d' % ci, prog))
            body.append('example : WellFormed %s prog_%d := by decide +kernel' % ('true' if cfg['options']['strategy'] == 'validity' else 'false', ci))
            body.append('')
            count += 1
        d = os.path.join(lean.WORK, 'C14', 'gen')
        os.makedirs(d, exist_ok=True)
        path = os.path.join(d, 'GeneratedTriggers.lean')
        with open(path, 'w') as fh:
            fh.write('\n'.join(body) + '\n')
        rc, outp = lean.check_file(path)
        if rc != 0:
            raise lean.ProofBroken('generated trigger obligations do not check (%s)' % path, outp[-3000:])
        return count, count, ['%d generated obligations `WellFormed cfg prog` on the parsed real trigger text in %s' % (
            count, os.path.relpath(path, lean.ROOT))]
