from . import tables, c15

REGISTRY = {
    'C08': tables.C08,
    'C15': c15.C15,
    'C16': tables.C16,
    'C19': tables.C19,
    'C20': tables.C20,
}
