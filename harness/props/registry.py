from . import tables, c15, traces, c12, c04, c06, c09, c07, c18, c05

REGISTRY = {
    'C01': traces.C01,
    'C02': traces.C02,
    'C03': traces.C03,
    'C09': c09.C09,
    'C10': traces.C10,
    'C11': traces.C11,
    'C12': c12.C12,
    'C13': traces.C13,
    'C17': traces.C17,
    'DEV': traces.DevAll,
    'C04': c04.C04,
    'C05': c05.C05,
    'C06': c06.C06,
    'C07': c07.C07,
    'C08': tables.C08,
    'C15': c15.C15,
    'C16': tables.C16,
    'C18': c18.C18,
    'C19': tables.C19,
    'C20': tables.C20,
}
