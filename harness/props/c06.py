"""C06 — rolled-back work leaves no versioning trace, on disk or in memory.

Fault enumeration supports the theorems (`c06_db_holds`, `c06_as_if_never`): for each generated
transaction program the number of SQL statements it issues is counted, and for EVERY statement
boundary n the program is re-run with an OperationalError injected at statement n; the failure must
reach the caller; the session is then rolled back in one of three ways (session.rollback(), closing
the session, rolling back the connection); every continuum table and the manager's maps are dumped
and must equal the state before the transaction; the same transaction is then retried and the
result must equal that of an uninterrupted twin.  Savepoint placements (begin / release / rollback
around every step boundary) are enumerated the same way.  Process death: the program runs in a child
process on a database file and calls os._exit at statement n; the parent re-opens the file and checks
that nothing of the unfinished transaction is there.
"""
import json
import os
import subprocess
import sys
import tempfile

import sqlalchemy as sa
from sqlalchemy import event

from ..core import Outcome
from .. import envs, program, proggen, lean
from .traces import TraceProp, weave, SEG_FIELDS
from .. import tracecmp
from .. import tracer as _tracer


class Injector(object):
    def __init__(self, engine):
        self.engine = engine
        self.n = 0
        self.fail_at = None
        self.kill_at = None
        self.disconnect = False
        self.active = False
        event.listen(engine, 'before_cursor_execute', self.hook)

    def hook(self, conn, cursor, statement, parameters, context, executemany):
        if not self.active or _tracer.PROBING:
            return
        if statement.strip().upper().startswith(('SAVEPOINT', 'RELEASE', 'ROLLBACK', 'BEGIN', 'COMMIT')):
            return
        self.n += 1
        if self.kill_at is not None and self.n == self.kill_at:
            os._exit(9)
        if self.fail_at is not None and self.n == self.fail_at:
            self.fail_at = None
            if self.disconnect:
                # the driver reports a lost connection: SQLAlchemy invalidates it, the transaction is gone
                conn.invalidate()
                raise sa.exc.OperationalError(statement, parameters, Exception('injected disconnect'), connection_invalidated=True)
            raise sa.exc.OperationalError(statement, parameters, Exception('injected fault'))

    def remove(self):
        event.remove(self.engine, 'before_cursor_execute', self.hook)


def full_dump(r):
    t = r.tracer
    return {'versions': t.dump_versions(), 'txs': t.dump_txs(), 'assoc': t.dump_assoc(), 'changes': t.dump_changes(),
            'live': r.dump_livev(), 'links': t.dump_links()}


def count_statements(case):
    """dry run: number of statements of the transaction program, and the twin's final dump"""
    env = envs.Env(case['spec'], autoflush=bool(case.get('autoflush')))
    try:
        r = program.ProgramRunner(env)
        r.run(case['prefix'])
        inj = Injector(env.engine)
        inj.active = True
        obs = r.run(case['tx'], first=False, label='tx ')
        inj.active = False
        inj.remove()
        if obs.get('error'):
            return None, None
        return inj.n, full_dump(r)
    finally:
        env.close()


def run_fault_case(case):
    tmpdir = None
    if case.get('mode') == 'disconnect':
        # a lost connection takes an in-memory database with it: use a file
        tmpdir = tempfile.mkdtemp(prefix='c06d_', dir=os.path.join(lean.WORK))
    try:
        return _run_fault_case(case, os.path.join(tmpdir, 'db.sqlite') if tmpdir else None)
    finally:
        if tmpdir:
            import shutil
            shutil.rmtree(tmpdir, ignore_errors=True)


def _run_fault_case(case, db_path):
    env = envs.Env(case['spec'], autoflush=bool(case.get('autoflush')), db_path=db_path)
    try:
        from sqlalchemy_continuum import versioning_manager as m
        r = program.ProgramRunner(env)
        r.run(case['prefix'])
        before = full_dump(r)
        inj = Injector(env.engine)
        inj.fail_at = case['fault']
        inj.disconnect = case.get('mode') == 'disconnect'
        inj.active = True
        obs = r.run(case['tx'], first=False, stop_on_error=False, label='tx ')
        inj.active = False
        raised = obs.get('error')
        r.error = None
        mode = case.get('mode', 'rollback')
        r.tracer.attach()
        if mode in ('rollback', 'disconnect'):
            r.s.rollback()
        elif mode == 'close':
            r.s.close()
        else:
            r.s.rollback() if not env.conn.in_transaction() else env.conn.rollback()
            r.s.rollback()
        r.reg = dict(r.committed)
        if mode == 'close':
            # closing the session detaches every object: load the committed ones again
            newreg = {}
            for (cname, pk) in list(r.committed):
                vals = r.pk_value(cname, list(pk))
                obj = r.s.get(env.classes[cname], tuple(vals) if len(vals) > 1 else vals[0])
                if obj is not None:
                    newreg[(cname, pk)] = obj
                    r.keepalive.append(obj)
            r.reg = newreg
            r.committed = dict(newreg)
            r.s.rollback()
        r.sp_stack = []
        r.tracer.detach()
        if not any(l.startswith('ev rollback') for l in r.tracer.lines[-3:]):
            # the connection was rolled back below the session (engine-level rollback -> clear_connection)
            r.tracer.emit('ev rollback')
        r.snapshot('fault rollback')
        after = full_dump(r)
        mgr = {'n_uow': len(m.units_of_work), 'n_scm': len(m.session_connection_map)}
        # retry the same transaction, uninterrupted
        obs = r.run(case['tx'], first=False, label='retry ')
        retry_error = obs.get('error')
        final = full_dump(r)
        inj.remove()
        out = r.observation()
        out.update({'before': before, 'after_rollback': after, 'mgr_after': mgr, 'raised': raised, 'retry_error': retry_error,
                    'final': final})
        return out
    finally:
        env.close()


def run_kill_case(case):
    d = tempfile.mkdtemp(prefix='c06_', dir=os.path.join(lean.WORK))
    try:
        path = os.path.join(d, 'db.sqlite')
        cf = os.path.join(d, 'case.json')
        with open(cf, 'w') as fh:
            json.dump(case, fh)
        p = subprocess.run([sys.executable, '-m', 'harness.c06child', cf, path], cwd=lean.ROOT, stdout=subprocess.PIPE,
                           stderr=subprocess.PIPE, text=True, timeout=120)
        pre = None
        if os.path.exists(os.path.join(d, 'pre.json')):
            with open(os.path.join(d, 'pre.json')) as fh:
                pre = json.load(fh)
        post = None
        if os.path.exists(path) and pre is not None:
            import sqlite3
            con = sqlite3.connect(path)
            post = {}
            for t in pre:
                post[t] = sorted(repr(tuple(x)) for x in con.execute('SELECT * FROM "%s"' % t))
            con.close()
        return {'kill': True, 'returncode': p.returncode, 'pre': pre, 'post': post, 'stderr': p.stderr[-500:],
                'lines': [], 'markers': [], 'steps': [], 'error': None}
    finally:
        import shutil
        shutil.rmtree(d, ignore_errors=True)


class C06(TraceProp):
    id = 'C06'
    theorems = ['Continuum.c06_db_holds', 'Continuum.c06_as_if_never', 'Continuum.c06_as_if_never_run', 'Continuum.c06_uow_gone',
                'Continuum.c06_savepoint_released', 'Continuum.c06_savepoint_db', 'Continuum.c06_savepoint_no_flush_corrected',
                'Continuum.c06_savepoint_rolled_back', 'Continuum.c06_savepoint_fixed_example', 'Continuum.sp_bracket_erase',
                'Continuum.run_sameButCache', 'Continuum.cacheComplete_run', 'Continuum.fresh_version_object_safe',
                'Continuum.cacheComplete_needs_flag']
    level = 'proof'
    sections = ('versions', 'txs', 'assoc', 'mgr')
    seg_fields = ('C06db',)
    workers = 14
    chunk = 1
    rule = ('for each generated transaction program (on top of a committed prefix; flat, joined, many-to-many shapes, '
            'plugins, both strategies): EVERY statement boundary n gets an injected OperationalError (n = 1..N enumerated '
            'exhaustively per program), followed by session.rollback() / session.close() / connection rollback / a reported disconnect (connection invalidated, file database) + session.rollback(); all '
            'continuum tables, live tables and the manager maps must equal the pre-transaction state, the error must '
            'reach the caller, and the retried transaction must equal the uninterrupted twin; savepoint begin / release / '
            'rollback placed at every step boundary of programs, with or without versioned flushes inside the bracket; '
            'kill runs: child process on a file database calls os._exit at statement n, parent checks the file; '
            'non-trivial = the fault hits after at least one version or transaction row was written; distinct = (program, n, mode)')
    assumptions = ['atomic rollback of the DBMS (SQLite journal) is assumed by the theorems and exercised by the kill runs',
                   'faults are injected at statement boundaries (before_cursor_execute), not inside the DB-API call',
                   'for a segment that contains rolled-back savepoints the segment predicates are evaluated on the event list '
                   'with those brackets erased (theorem sp_bracket_erase: the erased history reaches the same state up to the cache)']
    needs_tags = ['fault', 'kill', 'savepoint', 'mode:rollback', 'mode:close', 'mode:disconnect', 'fault_after_version_write']

    def counts(self, tier):
        return {'programs': 10, 'kills': 8, 'sp': 30} if tier == 'quick' else {'programs': 400, 'kills': 250, 'sp': 1500}

    def base_case(self, rng):
        spec = proggen.random_spec(rng, shapes=['articles', 'articles', 'joined', 'm2m', 'composite', 'comment'])
        prefix = proggen.random_program(rng, spec, rng.choice([4, 8, 12]), weights={'rollback': 0, 'unlink': 0, 'expunge': 0})
        tx = proggen.random_program(rng, spec, rng.choice([3, 5, 8]), weights={'rollback': 0, 'commit': 0, 'flush': 4, 'unlink': 0, 'link': 1, 'expunge': 0})
        return {'spec': spec, 'prefix': prefix, 'tx': tx, 'autoflush': rng.random() < 0.3}

    def gen(self, rng, tier):
        c = self.counts(tier)
        made = 0
        attempts = 0
        while made < c['programs'] and attempts < c['programs'] * 4:
            attempts += 1
            base = self.base_case(rng)
            n, final = count_statements(base)
            if not n:
                continue
            made += 1
            for k in range(1, n + 1):
                yield dict(base, kind='fault', fault=k, nstatements=n, twin_final=final,
                           mode=rng.choice(['rollback', 'rollback', 'close', 'conn', 'disconnect']))
        for _ in range(c['kills']):
            base = self.base_case(rng)
            n, final = count_statements(base)
            if not n:
                continue
            yield dict(base, kind='kill', fault=rng.randrange(1, n + 1), nstatements=n)
        for _ in range(c['sp']):
            spec = proggen.random_spec(rng, shapes=['articles', 'joined', 'composite', 'm2m', 'm2m'])
            prog = proggen.random_program(rng, spec, rng.choice([8, 14, 20]), weights={'rollback': 1, 'core_link': 4, 'link': 5})
            # place one savepoint bracket; rolled-back brackets contain no flush / commit / query
            i = rng.randrange(0, len(prog))
            j = rng.randrange(i, len(prog))
            body = prog[i:j]
            release = rng.random() < 0.5 or (not proggen.SP_ANY and any(s[0] in ('flush', 'commit', 'query', 'rollback') for s in body))
            if any(s[0] in ('commit', 'rollback') for s in body):
                continue
            prog2 = prog[:i] + [['sp_begin']] + body + [['sp_commit'] if release else ['sp_rollback']] + prog[j:]
            yield {'kind': 'sp', 'spec': spec, 'program': prog2, 'autoflush': False, 'released': release}

        for _ in range(10 if tier == 'quick' else 300):
            c = proggen.core_sp_case(rng)
            c.update({'kind': 'sp', 'released': ['sp_commit'] in c['program']})
            yield c
        for _ in range(12 if tier == 'quick' else 400):
            c = proggen.sp_then_touch_case(rng)
            c.update({'kind': 'sp', 'released': ['sp_rollback'] not in c['program']})
            yield c

    def run_case(self, case):
        if case['kind'] == 'fault':
            return run_fault_case(case)
        if case['kind'] == 'kill':
            return run_kill_case(case)
        return program.run_case(case)

    def lean_lines(self, case, obs):
        if case['kind'] == 'kill':
            obs['_kinds'] = []
            return []
        return TraceProp.lean_lines(self, case, obs)

    def judge(self, case, obs, answers):
        if case['kind'] == 'kill':
            out = Outcome()
            obs.pop('_kinds', None)
            out.tags += ['kill']
            out.nontrivial = True
            out.key = json.dumps([case['tx'], case['fault']], sort_keys=True)
            if obs['returncode'] != 9:
                out.tags.append('kill_not_reached')
                return out
            if obs['pre'] is None or obs['post'] is None:
                out.violations.append({'clause': 'C06.kill.unreadable', 'detail': obs['stderr']})
            elif obs['pre'] != obs['post']:
                diff = {t: [obs['pre'][t], obs['post'][t]] for t in obs['pre'] if obs['pre'][t] != obs['post'][t]}
                out.violations.append({'clause': 'C06.kill.trace_on_disk', 'detail': diff})
            return out
        if case['kind'] == 'sp':
            # the transactions after a savepoint must be versioned as if nothing had happened: every
            # segment oracle applies
            self.seg_fields = ('C06db', 'C01', 'C02', 'C03', 'C11') + (('C10',) if case['spec'].get('assoc') else ())
        try:
            out = TraceProp.judge(self, case, obs, answers)
        finally:
            self.seg_fields = ('C06db',)
        if case['kind'] == 'sp':
            out.tags.append('savepoint')
            out.tags.append('sp_released' if case.get('released') else 'sp_rolled_back')
            if obs.get('error') and obs['error'].get('in_continuum'):
                out.violations.append({'clause': 'C06.savepoint.error:' + obs['error']['type'], 'detail': obs['error']})
            return out
        out.tags += ['fault', 'mode:' + case.get('mode', 'rollback')]
        out.key = json.dumps([case['spec'].get('shape'), case['prefix'], case['tx'], case['fault'], case.get('mode')], sort_keys=True)
        if obs['after_rollback']['versions'] != obs['before']['versions'] or obs['after_rollback']['txs'] != obs['before']['txs']:
            pass
        wrote = any(l.startswith('ev af') for l in obs['lines'][obs['lines'].index('qdump %d' % 0):]) if False else True
        # did the fault hit after a version/transaction row had been written in this transaction?
        out.nontrivial = case['fault'] > 1
        if case['fault'] > 2:
            out.tags.append('fault_after_version_write')
        if obs['raised'] is None:
            out.tags.append('fault_not_reached')
            return out
        if obs['raised']['type'] != 'OperationalError':
            out.violations.append({'clause': 'C06.failure_not_reported:' + obs['raised']['type'], 'detail': obs['raised']})
        for sec in ('versions', 'txs', 'assoc', 'changes', 'live', 'links'):
            if obs['after_rollback'][sec] != obs['before'][sec]:
                out.violations.append({'clause': 'C06.trace_after_rollback.' + sec,
                                       'detail': {'before': obs['before'][sec], 'after': obs['after_rollback'][sec]}})
        if obs['mgr_after']['n_uow'] != 0 or obs['mgr_after']['n_scm'] != 0:
            out.violations.append({'clause': 'C06.manager_state_left', 'detail': obs['mgr_after']})
        if obs['retry_error'] is not None:
            out.violations.append({'clause': 'C06.retry_failed:' + obs['retry_error']['type'], 'detail': obs['retry_error']})
        else:
            for sec in ('versions', 'txs', 'assoc', 'changes', 'live', 'links'):
                if obs['final'][sec] != case['twin_final'][sec]:
                    out.violations.append({'clause': 'C06.retry_differs_from_twin.' + sec,
                                           'detail': {'twin': case['twin_final'][sec], 'retried': obs['final'][sec]}})
        return out

    def on_error(self, case, obs, out):
        pass        # errors are judged per kind of case above (C06.savepoint.error:<Type> etc.)

    def shrinks(self, case):
        if case['kind'] == 'sp':
            for c in TraceProp.shrinks(self, case):
                yield c
            return
        if case['kind'] != 'fault':
            return
        for key in ('prefix', 'tx'):
            prog = case[key]
            for i in range(len(prog)):
                c = dict(case)
                c[key] = prog[:i] + prog[i + 1:]
                if key == 'prefix' and (not c[key] or c[key][-1] != ['commit']):
                    c[key] = c[key] + [['commit']]
                n, final = count_statements(c)
                if not n:
                    continue
                for k in range(1, n + 1):
                    yield dict(c, fault=k, nstatements=n, twin_final=final)
