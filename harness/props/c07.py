"""C07 — versioning is transparent to the application's own data and outcomes.

Twin runs: every generated program (including a malformed stream that makes the database reject
statements, autoflush-triggered flushes, link + unlink of one pair in one transaction, deletes of
expired / partially loaded polymorphic objects) is executed twice on fresh state — once with
`make_versioned`, once without (the same models minus the effect of `__versioned__`) — and compared
step by step: outcome of every step (ok / exception class) and the contents of the application's
own tables.  An exception whose traceback passes through sqlalchemy_continuum and that the twin does
not raise is a violation.  Afterwards `remove_versioning()` is called, more work is done, and no
version / transaction row may appear and no continuum listener may remain registered.

The Lean side contributes only a model-level non-interference lemma (the model has no write path
from versioning state to application data); the property proper is relational over two runs of
Python code and is decided by this differential execution (level "other").
"""
import json
import traceback

import sqlalchemy as sa
from sqlalchemy.orm import Mapper, Session

from ..core import Prop, Outcome
from .. import envs, program, proggen
from ..tracer import CfgInfo


class NullTracer(object):
    def __init__(self):
        self.lines = []
        self.events = 0

    def attach(self):
        pass

    def detach(self):
        pass

    def emit(self, line):
        self.events += 1

    def cur_tx_id(self):
        return None


def live_dump(env):
    raw = env.conn.connection.dbapi_connection
    out = {}
    names = [c['table'] for c in env.spec['classes'] if c.get('table')] + [a['name'] for a in env.spec.get('assoc') or []]
    for n in sorted(set(names)):
        out[n] = sorted(repr(tuple(r)) for r in raw.execute('SELECT * FROM "%s"' % n))
    return out


class _Skip(Exception):
    pass


class TwinRunner(program.ProgramRunner):
    def __init__(self, env):
        info = CfgInfo(env)
        program.ProgramRunner.__init__(self, env, info, NullTracer(), env.s)
        self.outcomes = []
        self.dumps = []

    def run_twin(self, prog, decisions=None):
        for i, step in enumerate(prog):
            self.forced = None
            if decisions is not None and step[0] in ('link', 'unlink') and i < len(decisions):
                self.forced = 'skip' if decisions[i] == 'skip' else 'do'
            if step[0] == 'bad_dup':
                # malformed stream: a second object with an existing primary key
                _, cname, pk = step
                try:
                    cur = self.find(cname, pk)
                    pend_del = any(type(o).__name__ == cname and self.pk_value(cname, pk) == [getattr(o, k) for k in self.info.pk_attrs[cname]]
                                   for o in self.s.deleted)
                    if (cur is not None and sa.inspect(cur).pending) or pend_del:
                        # two NEW objects with one key (or a new one next to an unflushed delete of that key) in one flush:
                        # which of them SQLAlchemy lets take over the row depends on memory addresses, also without
                        # continuum - not a program whose outcome is defined
                        raise _Skip()
                    obj = self.make(cname, pk, {})
                    self.keepalive.append(obj)
                    self.s.add(obj)
                    self.s.flush()
                    res = 'ok'
                except _Skip:
                    res = 'skip'
                except Exception as e:
                    res = self._exc(e)
                    self.s.rollback()
                    self.reg = dict(self.committed)
            elif step[0] == 'expire_del':
                _, cname, pk = step
                try:
                    obj = self.find(cname, pk)
                    if obj is None:
                        res = 'skip'
                    else:
                        self.s.flush()
                        self.s.expire(obj)
                        self.s.delete(obj)
                        del self.reg[self.key_of(obj)]
                        self.s.flush()
                        res = 'ok'
                except Exception as e:
                    res = self._exc(e)
                    self.s.rollback()
                    self.reg = dict(self.committed)
            else:
                try:
                    res = self.do(step)
                except Exception as e:
                    res = self._exc(e)
                    try:
                        self.s.rollback()
                    except Exception:
                        pass
                    self.reg = dict(self.committed)
                    self.sp_stack = []
            self.outcomes.append(res)
            try:
                self.dumps.append(live_dump(self.env))
            except Exception as e:
                self.dumps.append({'dump_error': type(e).__name__})
        return self.outcomes, self.dumps

    def _exc(self, e):
        inc = any('/sqlalchemy_continuum/' in f.filename for f in traceback.extract_tb(e.__traceback__))
        return {'exc': type(e).__name__, 'in_continuum': inc, 'msg': str(e)[:200]}


def run_one(case, versioned, decisions=None, active_history=False):
    env = envs.Env(case['spec'], versioned=versioned, autoflush=bool(case.get('autoflush')), join_mode=case.get('join_mode'))
    try:
        if active_history:
            # what builder.enable_active_history does, without anything else of continuum
            for cname, cls in env.classes.items():
                if envs.is_versioned_class(case['spec'], cname):
                    for prop in sa.inspect(cls).iterate_properties:
                        getattr(cls, prop.key).impl.active_history = True
        r = TwinRunner(env)
        outcomes, dumps = r.run_twin(case['program'], decisions)
        extra = None
        if versioned:
            extra = after_remove(env, r, case)
        return {'outcomes': outcomes, 'dumps': dumps, 'after_remove': extra}
    finally:
        env.close()


def after_remove(env, r, case):
    """remove_versioning(), then more work: nothing versioned may happen any more"""
    import sqlalchemy_continuum as sc
    from sqlalchemy_continuum import versioning_manager as m
    raw = env.conn.connection.dbapi_connection
    try:
        r.s.rollback()
    except Exception:
        pass
    names = [x[0] for x in raw.execute("SELECT name FROM sqlite_master WHERE type='table'")]
    spec_tables = set([c['table'] for c in env.spec['classes'] if c.get('table')] + [a['name'] for a in env.spec.get('assoc') or []])
    vtables = [n for n in names if n not in spec_tables]
    before = {n: sorted(repr(tuple(x)) for x in raw.execute('SELECT * FROM "%s"' % n)) for n in vtables}
    listeners = [(Mapper, 'after_insert', m.track_inserts), (Mapper, 'after_update', m.track_updates),
                 (Mapper, 'after_delete', m.track_deletes), (Session, 'before_flush', m.before_flush),
                 (Session, 'after_flush', m.after_flush), (Session, 'before_commit', m.before_commit), (Session, 'after_commit', m.clear),
                 (Session, 'after_rollback', m.clear), (Session, 'after_transaction_create', m.track_savepoint),
                 (Session, 'after_soft_rollback', m.rollback_savepoint), (sa.engine.Engine, 'before_execute', m.track_association_operations),
                 (sa.engine.Engine, 'rollback', m.clear_connection)]
    sc.remove_versioning()
    env.versioned = False          # Env.close must not call remove_versioning a second time
    left = [name for tgt, name, fn in listeners if sa.event.contains(tgt, name, fn)]
    err = None
    try:
        # more work with the same classes and session
        c0 = [c for c in env.spec['classes'] if not c.get('parent')][0]
        info = proggen.entity_info(env.spec)[c0['name']]
        obj = r.make(c0['name'], [9] * len(info['pk']), {a: 1 for a, t in info['attrs'][:1]})
        r.s.add(obj)
        r.s.commit()
        for a, t in info['attrs'][:1]:
            setattr(obj, a, program.enc_val(2, t))
        r.s.commit()
        r.s.delete(obj)
        r.s.commit()
    except Exception as e:
        err = '%s: %s' % (type(e).__name__, str(e)[:200])
        try:
            r.s.rollback()
        except Exception:
            pass
    after = {n: sorted(repr(tuple(x)) for x in raw.execute('SELECT * FROM "%s"' % n)) for n in vtables}
    changed = [n for n in vtables if before[n] != after[n]]
    return {'listeners_left': left, 'version_tables_changed': changed, 'error': err,
            'maps_left': [len(m.units_of_work), len(m.session_connection_map)]}


def has_deferred(spec):
    return any(col.get('deferred') for c in spec['classes'] for col in c['columns'])


def deferred_autoflush_expunge(case):
    return bool(case.get('autoflush')) and has_deferred(case['spec']) and any(st[0] == 'expunge' for st in case['program'])


class C07(Prop):
    id = 'C07'
    level = 'other'
    theorems = ['Continuum.c07_appData_step', 'Continuum.c07_live_independent', 'Continuum.c07_live_independent_run']
    workers = 14
    chunk = 2
    rule = ('twin runs of random session programs (all shapes, both strategies, plugin sets, autoflush on/off; steps add / set / '
            'delete / relationship changes / link + unlink of one pair / flush / commit / rollback / autoflushing query / expire '
            '+ delete / duplicate-key inserts that make the database reject a statement) with and without make_versioned: '
            'outcome of every step and the application tables after every step must be identical and no exception may come '
            'out of sqlalchemy_continuum; then remove_versioning() + further work: no version/transaction row, no listener, no '
            'manager state left; non-trivial = the program has >= 2 committed transactions with changes and at least one flush '
            'inside a transaction; distinct = distinct (spec, program)')
    assumptions = ['differential execution decides this property; the Lean lemma c07_live_independent only states that the MODEL '
                   'has no write path from versioning state to application data',
                   'known open findings (savepoint rollback after a versioned flush, re-creating a key as another class of one '
                   'hierarchy within a transaction, delete-nullification of a polymorphic discriminator, custom table_name with '
                   'reflected relationships) are kept out of the random stream and pinned in corpus/C07']
    needs_tags = ['malformed', 'db_rejected', 'autoflush', 'shape:m2m', 'shape:joined', 'link_unlink_same_tx', 'expire_del']

    def counts(self, tier):
        return 140 if tier == 'quick' else 6000

    def gen(self, rng, tier):
        for _ in range(self.counts(tier)):
            spec = proggen.random_spec(rng)
            n = rng.choice((8, 15, 25, 40)) if tier == 'quick' else rng.choice((10, 20, 40, 60))
            prog = proggen.random_program(rng, spec, n)
            if spec.get('shape') == 'nvparent' and rng.random() < 0.7:
                # a non-versioned parent with versioned children is deleted on its own (the flush itself changes them)
                pos = rng.randrange(0, len(prog) + 1)
                prog = ([['add', 'Category', [7], {'title': 1}], ['add', 'Article', [7], {'name': 1}],
                         ['setrel', 'Article', [7], 'category', 'Category', [7]], ['commit']] + prog[:pos] +
                        [['commit'], ['del', 'Category', [7]], ['commit']] + prog[pos:])
            info = proggen.entity_info(spec)
            # malformed stream and special steps
            k = rng.random()
            if k < 0.35:
                adds = [s for s in prog if s[0] == 'add']
                if adds:
                    a = rng.choice(adds)
                    pos = rng.randrange(prog.index(a) + 1, len(prog) + 1)
                    prog.insert(pos, ['bad_dup', a[1], a[2]])
            if rng.random() < 0.25:
                adds = [s for s in prog if s[0] == 'add']
                if adds:
                    a = rng.choice(adds)
                    pos = rng.randrange(prog.index(a) + 1, len(prog) + 1)
                    prog.insert(pos, ['expire_del', a[1], a[2]])
            if spec['shape'] == 'm2m' and rng.random() < 0.5:
                prog = prog[:-1] + [['add', 'Article', [3], {'name': 1}], ['add', 'Tag', [3], {'name': 1}], ['commit'],
                                    ['link', 'Article', [3], 'tags', 'Tag', [3]], ['flush'],
                                    ['unlink', 'Article', [3], 'tags', 'Tag', [3]], ['commit']]
            autoflush = rng.random() < 0.4
            if autoflush and has_deferred(spec):
                # open finding F-LOADSTATE (pinned in corpus/C07): kept out of the random stream
                prog = [st for st in prog if st[0] != 'expunge']
            case = {'spec': spec, 'autoflush': autoflush, 'program': prog}
            if rng.random() < 0.1:
                case['join_mode'] = 'create_savepoint'     # session joined into an external transaction
            yield case
        for c in self.gen_m2m_family(rng, 30 if tier == 'quick' else 1000):
            yield c
        for _ in range(12 if tier == 'quick' else 400):
            yield proggen.sp_then_touch_case(rng)

    def gen_m2m_family(self, rng, n):
        """every transaction changes several pairs in 2-3 flushes, pairs are unlinked and re-linked within one transaction"""
        pairs = [(a, t) for a in (1, 2, 3) for t in (1, 2, 3)]
        for _ in range(n):
            spec = envs.shape_m2m({'strategy': rng.choice(['validity', 'subquery'])}, plugins=[])
            spec['shape'] = 'm2m'
            prog = [['add', 'Article', [i], {'name': i}] for i in (1, 2, 3)] + [['add', 'Tag', [i], {'name': i}] for i in (1, 2, 3)] + [['commit']]
            linked = set()
            for _tx in range(rng.choice([2, 3])):
                for _fl in range(rng.choice([2, 3, 4])):
                    for (a, t) in rng.sample(pairs, rng.choice([1, 2, 3])):
                        side = rng.choice([['Article', [a], 'tags', 'Tag', [t]], ['Tag', [t], 'articles', 'Article', [a]]])
                        if (a, t) in linked:
                            prog.append(['unlink'] + side)
                            linked.discard((a, t))
                        else:
                            prog.append(['link'] + side)
                            linked.add((a, t))
                    prog.append(['flush'])
                prog.append(['commit'])
            yield {'spec': spec, 'autoflush': False, 'program': prog, 'family': 'm2m_relink'}

    def signature(self, case, obs, violation):
        # Root-cause discrimination for the open finding F-AH: continuum switches `active_history` on for
        # every attribute of a versioned class (builder.enable_active_history).  A third run - NO continuum,
        # but active_history switched on for the same attributes - tells whether a divergence is exactly
        # that: if it behaves like the versioned run up to and including the diverging step, the difference
        # between the twins is attributable to active_history and to nothing else continuum does.
        if violation['clause'] in ('C07.application_tables_differ', 'C07.outcome_differs'):
            step = violation['detail']['step']
            v, h = obs['versioned'], obs.get('plain_ah')
            if h is not None:
                key = lambda o: o['exc'] if isinstance(o, dict) else 'ok'
                same = all(key(a) == key(b) for a, b in zip(v['outcomes'][:step + 1], h['outcomes'][:step + 1]))
                ends = [i for i in range(step + 1) if case['program'][i][0] in ('commit', 'rollback')]
                same = same and all(v['dumps'][i] == h['dumps'][i] for i in ends)
                if same:
                    return 'C07.differs_like_plain_active_history'
            if violation['clause'] == 'C07.application_tables_differ' and deferred_autoflush_expunge(case):
                return 'C07.application_tables_differ:deferred_autoflush_expunge'
        return violation['clause']

    def run_case(self, case):
        v = run_one(case, True)
        # the twin performs the same link / unlink operations the versioned run performed
        dec = [o if isinstance(o, str) else 'exc' for o in v['outcomes']]
        u = run_one(case, False, dec)
        h = run_one(case, False, dec, active_history=True)
        return {'versioned': v, 'plain': u, 'plain_ah': h}

    def lean_lines(self, case, obs):
        return []

    def judge(self, case, obs, answers):
        out = Outcome()
        spec = case['spec']
        prog = case['program']
        out.tags.append('shape:' + spec.get('shape', '?'))
        for p in spec.get('plugins') or []:
            out.tags.append('plugin:' + p)
        if case.get('autoflush'):
            out.tags.append('autoflush')
        if any(s[0] == 'bad_dup' for s in prog):
            out.tags.append('malformed')
        if any(s[0] == 'expire_del' for s in prog):
            out.tags.append('expire_del')
        links = [tuple(json.dumps(x) for x in s[1:]) for s in prog if s[0] == 'link']
        if any(s[0] == 'unlink' and tuple(json.dumps(x) for x in s[1:]) in links for s in prog):
            out.tags.append('link_unlink_same_tx')
        v, u = obs['versioned'], obs['plain']
        ncommit = sum(1 for s, o in zip(prog, v['outcomes']) if s[0] == 'commit' and o == 'ok')
        out.nontrivial = ncommit >= 2 and any(s[0] == 'flush' for s in prog)
        out.key = json.dumps([spec.get('shape'), spec['options'], spec.get('plugins'), prog], sort_keys=True)
        for i, (a, b) in enumerate(zip(v['outcomes'], u['outcomes'])):
            # 'skip' is the runner's own decision from in-memory ORM state (e.g. whether an unflushed backref
            # collection already reflects a scalar assignment, which active_history influences); the outcome
            # of an operation is "raised <class>" or "did not raise"
            ka = a['exc'] if isinstance(a, dict) else 'ok'
            kb = b['exc'] if isinstance(b, dict) else 'ok'
            if isinstance(b, dict):
                out.tags.append('db_rejected')
            if isinstance(a, dict) and a.get('in_continuum') and not isinstance(b, dict):
                out.violations.append({'clause': 'C07.continuum_raised:%s' % a['exc'], 'detail': {'step': i, 'op': prog[i], 'error': a}})
                break
            if ka != kb:
                out.violations.append({'clause': 'C07.outcome_differs', 'detail': {'step': i, 'op': prog[i], 'versioned': a, 'plain': b}})
                break
            # Application tables are compared where a database transaction ends: continuum switches
            # active_history on for versioned attributes, which may make an autoflush happen at an earlier
            # step than in the twin; the property speaks about what the tables "end up" with.
            if prog[i][0] in ('commit', 'rollback') and v['dumps'][i] != u['dumps'][i]:
                out.violations.append({'clause': 'C07.application_tables_differ',
                                       'detail': {'step': i, 'op': prog[i], 'versioned': v['dumps'][i], 'plain': u['dumps'][i]}})
                break
        ar = v.get('after_remove')
        if ar:
            if ar['listeners_left']:
                out.violations.append({'clause': 'C07.listeners_left_after_remove', 'detail': ar['listeners_left']})
            if ar['version_tables_changed']:
                out.violations.append({'clause': 'C07.versioning_rows_after_remove', 'detail': ar['version_tables_changed']})
            if ar['error']:
                out.violations.append({'clause': 'C07.error_after_remove', 'detail': ar['error']})
            if ar['maps_left'] != [0, 0]:
                out.violations.append({'clause': 'C07.manager_state_after_remove', 'detail': ar['maps_left']})
        return out

    def shrinks(self, case):
        prog = case['program']
        n = len(prog)
        size = max(1, n // 2)
        while size >= 1:
            i = 0
            while i < n:
                cand = prog[:i] + prog[i + size:]
                if cand and cand != prog:
                    yield dict(case, program=cand)
                i += size
            size //= 2
        spec = case['spec']
        for p in spec.get('plugins') or []:
            yield dict(case, spec=dict(spec, plugins=[x for x in spec['plugins'] if x != p]))
        if case.get('autoflush'):
            yield dict(case, autoflush=False)
