"""C09 — interleaved sessions never mix or leak unit-of-work state.

k sessions (k = 2, 3), each bound to its own connection to its own SQLite database, share the one
global `versioning_manager`.  Their step lists are interleaved by a schedule (sampled in the quick
tier, enumerated exhaustively for short programs in the thorough tier).  After every step the
per-connection tables and the manager's two maps are dumped and compared with the Lean manager
model (`Mgr.lean`, routing events to per-connection unit-of-work states); at the end each
session's tables must equal those of its solo run, and once a session's transaction has ended no
per-connection state for it may remain.  A second scenario re-uses ONE connection sequentially
for different sessions.
"""
import itertools
import json

import sqlalchemy as sa
from sqlalchemy import event
from sqlalchemy.orm import Session

from sqlalchemy_continuum import versioning_manager

from ..core import Prop, Outcome
from .. import envs, program, proggen, tracecmp
from ..tracer import CfgInfo, Tracer


class SessTracer(Tracer):
    """tracer of one session among several: shares the line stream, filters mapper events"""

    def __init__(self, env, info, session, conn, sid, cid, stream):
        Tracer.__init__(self, env, info, session)
        self.conn = conn
        self.sid = sid
        self.cid = cid
        self.stream = stream

    def emit(self, line):
        assert line.startswith('ev ')
        self.stream.append('mev %d %d %s' % (self.sid, self.cid, line[3:]))
        self.events += 1

    def attach(self):
        L = [(self.s, 'before_flush', self.on_before_flush), (self.s, 'after_flush', self.on_after_flush),
             (self.s, 'after_commit', self.on_commit), (self.s, 'after_rollback', self.on_rollback),
             (sa.orm.Mapper, 'after_insert', self._f(self.on_insert)), (sa.orm.Mapper, 'after_update', self._f(self.on_update)),
             (sa.orm.Mapper, 'after_delete', self._f(self.on_delete)),
             (self.conn.engine, 'before_execute', self.on_execute), (self.conn.engine, 'rollback', self.on_engine_rollback)]
        for tgt, name, fn in L:
            event.listen(tgt, name, fn)
            self.attached.append((tgt, name, fn))

    def on_engine_rollback(self, conn):
        # Engine-level rollback (also what session.close() amounts to): continuum's clear_connection
        self.stream.append('mengrb %d' % self.cid)
        self.events += 1

    def _f(self, fn):
        def g(mapper, connection, target):
            if sa.orm.object_session(target) is self.s:
                fn(mapper, connection, target)
        return g

    def raw(self):
        return self.conn.connection.dbapi_connection

    def _uow(self):
        return versioning_manager.units_of_work.get(self.conn)

    def manager_state(self):
        m = versioning_manager
        u = m.units_of_work.get(self.conn)
        d = {'n_uow': len(m.units_of_work), 'n_scm': len(m.session_connection_map)}
        if u is not None:
            saved = self.env.conn
            self.env.conn = self.conn
            try:
                d2 = Tracer.manager_state(self)
            finally:
                self.env.conn = saved
            d.update({k: v for k, v in d2.items() if k in ('cur', 'ops', 'vobjs', 'pending')})
        return d


class MultiRun(object):
    def __init__(self, spec, k, shared_conn=False):
        self.env = envs.Env(spec)
        self.info = CfgInfo(self.env)
        self.stream = []
        self.runners = []
        self.engines = []
        self.markers = []
        for i in range(k):
            if i == 0 or shared_conn:
                conn = self.env.conn
            else:
                eng = sa.create_engine('sqlite:///:memory:')

                @event.listens_for(eng, 'connect')
                def _c(dbapi, rec):
                    dbapi.isolation_level = None

                @event.listens_for(eng, 'begin')
                def _b(c):
                    c.exec_driver_sql('BEGIN')
                conn = eng.connect()
                self.env.Base.metadata.create_all(conn)
                conn.commit()
                self.engines.append((eng, conn))
            s = Session(bind=conn, autoflush=False)
            self.env._extra_sessions.append(s)
            tr = SessTracer(self.env, self.info, s, conn, i, 0 if shared_conn else i, self.stream)
            r = program.ProgramRunner(self.env, self.info, tr, s)
            tr.attach()
            self.runners.append(r)

    def snapshot(self, label):
        snap = {'label': label, 'conns': []}
        m = versioning_manager
        for r in self.runners:
            t = r.tracer
            snap['conns'].append({'versions': t.dump_versions(), 'txs': t.dump_txs(), 'assoc': t.dump_assoc(),
                                  'changes': t.dump_changes(), 'mgr': t.manager_state(), 'label': label})
        snap['n_uow'] = len(m.units_of_work)
        snap['n_scm'] = len(m.session_connection_map)
        self.markers.append(snap)
        for r in self.runners:
            self.stream.append('qmdump %d' % r.tracer.cid)

    def step(self, i, st):
        r = self.runners[i]
        if st[0] == 'close':
            r.s.close()
            r.reg = {}
            return 'ok'
        return r.do(st)

    def close(self):
        for r in self.runners:
            r.tracer.detach()
        for eng, conn in self.engines:
            try:
                conn.close()
                eng.dispose()
            except Exception:
                pass
        self.env.close()


def run_schedule(case):
    mr = MultiRun(case['spec'], len(case['programs']), shared_conn=bool(case.get('shared_conn')))
    try:
        pos = [0] * len(case['programs'])
        error = None
        mr.snapshot('init')
        for n, i in enumerate(case['schedule']):
            st = case['programs'][i][pos[i]]
            pos[i] += 1
            try:
                mr.step(i, st)
            except Exception as e:
                import traceback
                error = {'step': n, 'session': i, 'op': st, 'type': type(e).__name__, 'msg': str(e)[:300],
                         'in_continuum': any('/sqlalchemy_continuum/' in f.filename for f in traceback.extract_tb(e.__traceback__))}
                break
            mr.snapshot('s%d %s' % (i, st[0]))
        return {'lines': mr.info.cfg_lines() + mr.stream, 'markers': mr.markers, 'error': error}
    finally:
        mr.close()


def run_solo(spec, prog):
    mr = MultiRun(spec, 1)
    try:
        error = None
        for st in prog:
            try:
                mr.step(0, st)
            except Exception as e:
                error = type(e).__name__
                break
        t = mr.runners[0].tracer
        return {'versions': t.dump_versions(), 'txs': t.dump_txs(), 'assoc': t.dump_assoc(), 'changes': t.dump_changes(),
                'error': error}
    finally:
        mr.close()


def interleavings(lengths):
    """all interleavings of k sequences with the given lengths, as lists of indices"""
    total = sum(lengths)

    def rec(rem, acc):
        if len(acc) == total:
            yield list(acc)
            return
        for i, r in enumerate(rem):
            if r > 0:
                rem[i] -= 1
                acc.append(i)
                for x in rec(rem, acc):
                    yield x
                acc.pop()
                rem[i] += 1
    return rec(list(lengths), [])


class C09(Prop):
    id = 'C09'
    theorems = ['Continuum.c09_projection', 'Continuum.c09_frame', 'Continuum.c09_quiescent',
                'Continuum.c09_shared_connection_counterexample']
    workers = 14
    chunk = 2
    rule = ('k in {2,3} sessions, each on its own connection and SQLite database, sharing the global versioning_manager; '
            'short programs (add/set/delete/flush/commit/rollback/close) interleaved by sampled schedules (quick) or ALL '
            'interleavings of 2x4 and 3x3 step programs (thorough); per-connection version/transaction tables and both '
            'manager maps compared with the Lean manager model after EVERY step; at the end every session equals its solo '
            'run and no per-connection state remains once transactions ended; plus sequential re-use of one connection by '
            'different sessions; non-trivial = at least two sessions have an open versioned transaction at the same time; '
            'distinct = (programs, schedule)')
    assumptions = ['event-granularity interleaving (no thread preemption inside a listener; the code has no locks)',
                   'each session has its own database: isolation between uncommitted transactions on one database is the '
                   'DBMS\'s job', 'real threads are not used']
    needs_tags = ['k2', 'k3', 'overlap', 'rollback_step', 'close_step', 'sequential_reuse']

    def counts(self, tier):
        return 90 if tier == 'quick' else 1200

    def gen_programs(self, rng, spec, k, n):
        progs = []
        for i in range(k):
            p = proggen.random_program(rng, spec, n, weights={'commit': 3, 'rollback': 2, 'flush': 12, 'add': 10, 'query': 0,
                                                             'setrel': 0, 'link': 0, 'unlink': 0}, nkeys=2)
            p = p[:-1][:n]
            end = rng.choice([['commit'], ['commit'], ['rollback'], ['close']])
            progs.append(p + [end])
        return progs

    def gen(self, rng, tier):
        n = self.counts(tier)
        for j in range(n):
            spec = proggen.random_spec(rng, shapes=['articles', 'composite', 'joined'], plugins=rng.choice([[], ['tx_changes']]))
            k = rng.choice([2, 2, 3])
            progs = self.gen_programs(rng, spec, k, rng.choice([4, 6, 8]))
            sched = [i for i, p in enumerate(progs) for _ in p]
            rng.shuffle(sched)
            shared = False
            if j % 9 == 8:
                # sequential re-use of ONE connection by different sessions
                sched = [i for i, p in enumerate(progs) for _ in p]
                shared = True
            yield {'spec': spec, 'programs': progs, 'schedule': sched, 'shared_conn': shared}
        # structured family: every session flushes a versioned change (all transactions pending at once, registered in
        # a random order), then the sessions end - commit / rollback / close - in a random order, and work again
        import itertools
        ends = list(itertools.product([['commit'], ['rollback'], ['close']], repeat=2))
        for j in range(18 if tier == 'quick' else 300):
            spec = proggen.random_spec(rng, shapes=['articles', 'joined'], plugins=rng.choice([[], ['tx_changes']]))
            k = rng.choice([2, 2, 3])
            cname = [c['name'] for c in spec['classes'] if not c.get('parent')][0]
            progs = []
            for i in range(k):
                e = rng.choice([['commit'], ['rollback'], ['close']]) if k == 3 else ends[j % len(ends)][i]
                progs.append([['add', cname, [i + 1], {'name': i}], ['flush'], e,
                              ['add', cname, [i + 4], {'name': i}], ['commit']])
            first = list(range(k))
            rng.shuffle(first)
            order = list(range(k))
            rng.shuffle(order)
            sched = [i for i in first for _ in range(2)] + order + [i for i in order for _ in range(2)]
            yield {'spec': spec, 'programs': progs, 'schedule': sched, 'shared_conn': False, 'family': 'all_pending_then_end'}
        if tier == 'thorough':
            for (k, ln) in ((2, 4), (3, 3)):
                for rep in range(6):
                    spec = proggen.random_spec(rng, shapes=['articles'], plugins=[])
                    progs = self.gen_programs(rng, spec, k, ln - 1)
                    for sched in interleavings([len(p) for p in progs]):
                        yield {'spec': spec, 'programs': progs, 'schedule': sched, 'shared_conn': False, 'exhaustive': True}

    def run_case(self, case):
        obs = run_schedule(case)
        if not case.get('shared_conn'):
            obs['solo'] = [run_solo(case['spec'], p) for p in case['programs']]
        return obs

    def lean_lines(self, case, obs):
        return obs['lines']

    def judge(self, case, obs, answers):
        out = Outcome()
        k = len(case['programs'])
        out.tags.append('k%d' % k)
        if case.get('shared_conn'):
            out.tags.append('sequential_reuse')
        for p in case['programs']:
            if p[-1] == ['rollback']:
                out.tags.append('rollback_step')
            if p[-1] == ['close']:
                out.tags.append('close_step')
        out.key = json.dumps([case['programs'], case['schedule'], case.get('shared_conn')], sort_keys=True)
        if obs.get('error'):
            out.tags.append('error:' + obs['error']['type'])
            if obs['error'].get('in_continuum'):
                out.violations.append({'clause': 'C09.continuum_raised:' + obs['error']['type'], 'detail': obs['error']})
        # overlap: two connections with a current transaction at the same marker
        overlap = False
        for mk in obs['markers']:
            if sum(1 for c in mk['conns'] if c['mgr'].get('cur') is not None) >= 2:
                overlap = True
        if overlap:
            out.tags.append('overlap')
        out.nontrivial = overlap or bool(case.get('shared_conn'))
        # correspondence: per marker, per connection
        nconn = 1 if case.get('shared_conn') else k
        ai = 0
        for mi, mk in enumerate(obs['markers']):
            for ci in range(k):
                ans = answers[ai]
                ai += 1
                dump, scm, live = ans.rsplit(' | ', 2)
                md = tracecmp.parse_model_dump(dump)
                im = tracecmp.impl_sections(mk['conns'][ci])
                for sec in ('versions', 'txs', 'mgr'):
                    a, b = im[sec], md[sec]
                    if sec == 'mgr':
                        def norm(x):
                            if x is None or (x['cur'] is None and not x['ops'] and not x['vobjs'] and not x['pending']):
                                return 'idle'
                            return x
                        a, b = norm(a), norm(b)
                    if a != b:
                        out.mismatches.append({'stream': '%s of connection %d at marker %d (%s)' % (sec, ci, mi, mk['label']),
                                               'impl': a, 'model': b})
                if ci == k - 1:
                    n_scm_model = 0 if scm == '-' else len(scm.split(';'))
                    n_uow_model = 0 if live == '-' else len(live.split(','))
                    if n_scm_model != mk['n_scm']:
                        out.mismatches.append({'stream': 'len(session_connection_map) at marker %d (%s)' % (mi, mk['label']),
                                               'impl': mk['n_scm'], 'model': n_scm_model})
                    if n_uow_model != mk['n_uow']:
                        out.mismatches.append({'stream': 'len(units_of_work) at marker %d (%s)' % (mi, mk['label']),
                                               'impl': mk['n_uow'], 'model': n_uow_model})
        out.mismatches = out.mismatches[:3]
        # oracle 1: nothing left once every session ended its transaction
        last = obs['markers'][-1]
        if not obs.get('error') and (last['n_uow'] != 0 or last['n_scm'] != 0):
            out.violations.append({'clause': 'C09.state_left_at_quiescence', 'detail': {'n_uow': last['n_uow'], 'n_scm': last['n_scm']}})
        # oracle 1b: "once a session's transaction has ended no per-connection versioning state for it remains" - at
        # EVERY marker the manager holds state for at most the sessions that did something since they last ended a
        # transaction (markers[0] is the initial state, markers[n + 1] follows schedule step n)
        if not case.get('shared_conn'):
            active = set()
            pos = [0] * k
            for n, i in enumerate(case['schedule']):
                if n + 1 >= len(obs['markers']):
                    break
                st = case['programs'][i][pos[i]]
                pos[i] += 1
                if st[0] in ('commit', 'rollback', 'close'):
                    active.discard(i)
                else:
                    active.add(i)
                mk = obs['markers'][n + 1]
                if mk['n_scm'] > len(active) or mk['n_uow'] > len(active):
                    out.violations.append({'clause': 'C09.state_left_after_transaction_end',
                                           'detail': {'marker': mk['label'], 'step': n, 'sessions_in_transaction': sorted(active),
                                                      'n_uow': mk['n_uow'], 'n_scm': mk['n_scm']}})
                    break
        # oracle 2: each session's tables equal its solo run
        if not obs.get('error') and not case.get('shared_conn'):
            for i in range(k):
                solo = obs['solo'][i]
                got = last['conns'][i]
                for sec in ('versions', 'txs', 'assoc', 'changes'):
                    if solo[sec] != got[sec]:
                        out.violations.append({'clause': 'C09.differs_from_solo.' + sec,
                                               'detail': {'session': i, 'solo': solo[sec], 'interleaved': got[sec]}})
        return out

    def shrinks(self, case):
        # drop one step of one program (and its slot in the schedule)
        for i, p in enumerate(case['programs']):
            for j in range(len(p) - 1):
                progs = [list(x) for x in case['programs']]
                del progs[i][j]
                sched = list(case['schedule'])
                # remove the (j+1)-th occurrence of i
                cnt = 0
                for idx, s in enumerate(sched):
                    if s == i:
                        if cnt == j:
                            del sched[idx]
                            break
                        cnt += 1
                yield dict(case, programs=progs, schedule=sched)
