import sys
from .core import main
from .props import registry

if __name__ == '__main__':
    sys.exit(main(sys.argv[1:], registry.REGISTRY))
