#!/bin/bash
# usage: mutant.sh <patch.diff> <prop> [<prop> ...]   (env SEEDS="0 1 2", TIER=quick)
# applies the patch to /repo, runs the checks, undoes the patch
patch="$1"; shift
cd /repo || exit 2
if [ -n "$(git status --porcelain)" ]; then echo "/repo has uncommitted changes - refusing to run"; exit 2; fi
git apply "$patch" || { echo "patch does not apply"; exit 2; }
rm -rf /verif/.work/ev_backup; cp -r /verif/evidence /verif/.work/ev_backup
trap 'git -C /repo checkout -- . ; rm -rf /verif/evidence; mv /verif/.work/ev_backup /verif/evidence; rm -rf /verif/replays' EXIT
cd /verif
for p in "$@"; do
  for seed in ${SEEDS:-0}; do
    out=$(./check "$p" --tier ${TIER:-quick} --seed $seed 2>&1 | grep -E "VIOLATION|KNOWN-FINDING|quick:|thorough:|TROUBLE" | cut -c1-220)
    echo "[$p seed=$seed] $out"
  done
done
