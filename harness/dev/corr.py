import random, sys, json
from harness import envs, program, proggen, lean, tracecmp
rng = random.Random(int(sys.argv[1]))
n = int(sys.argv[2])
shapes = sys.argv[3].split(',') if len(sys.argv) > 3 else None
d = lean.Driver()
bad = 0
for i in range(n):
    spec = proggen.random_spec(rng, shapes=shapes)
    prog = proggen.random_program(rng, spec, rng.choice([8, 15, 25]))
    case = {'spec': spec, 'autoflush': rng.random() < 0.3, 'program': prog}
    try:
        obs = program.run_case(case)
    except Exception as e:
        import traceback; traceback.print_exc()
        print('CASE', json.dumps(case)); break
    lines = obs['lines']
    nq = sum(1 for l in lines if l.startswith('q'))
    ans = d.ask(['reset'] + lines, nq)
    if 'bad-op' in ans:
        print('bad-op', i); print('\n'.join(lines)); break
    mm = tracecmp.compare(obs['markers'], ans)
    if obs['error']:
        print(i, spec['shape'], 'ERROR', obs['error'])
    if mm:
        bad += 1
        print(i, spec['shape'], spec['plugins'], spec['options'], 'MISMATCH', mm[0])
        if bad <= 2:
            print(json.dumps(prog))
            print('\n'.join(lines[:60]))
        if bad > 5: break
print('done', n, 'bad', bad)
d.close()
