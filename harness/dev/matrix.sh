#!/bin/bash
# usage: matrix.sh [<seeded id> ...]   - runs every seeded regression against the check of its property
# (and prints one line per mutant: caught / MISSED); needs a clean /repo
cd /verif
ids="$@"; [ -z "$ids" ] && ids=$(cd seeded && ls -d */ | tr -d /)
for id in $ids; do
  prop=$(python3 -c "import json;print(json.load(open('seeded/$id/meta.json'))['property'])")
  out=$(SEEDS="${SEEDS:-0 1}" harness/dev/mutant.sh $PWD/seeded/$id/patch.diff $prop 2>&1)
  n=$(echo "$out" | grep -c "^VIOLATION\|\] VIOLATION")
  nf=$(echo "$out" | grep "VIOLATION" | grep -vc "no-failing-input-found")
  if [ "$n" -gt 0 ]; then echo "$id ($prop): caught ($n VIOLATION lines, $nf with a failing input)"; else echo "$id ($prop): MISSED"; echo "$out" | tail -3; fi
done
