"""Session-level programs: generation and execution on the real code.

A program is a list of steps (JSON lists):

    ["add", cls, pk, {attr: val}]      ["set", cls, pk, attr, val]     ["del", cls, pk]
    ["setrel", cls, pk, rel, tcls, tpk|None]        (scalar relationship)
    ["link", cls, pk, rel, tcls, tpk]  ["unlink", cls, pk, rel, tcls, tpk]   (collections)
    ["flush"] ["commit"] ["rollback"] ["query"] ["expire"] ["manual_tx"]
    ["sp_begin"] ["sp_commit"] ["sp_rollback"]

Values are small ints (interned); the runner encodes them for the column type.  `run_program`
executes the steps with the real sqlalchemy_continuum, records the listener-level trace with
`Tracer`, and takes a dump of everything continuum keeps (by raw SQL) after every step that
produced events or ended a transaction.
"""
import traceback

import sqlalchemy as sa

from sqlalchemy_continuum import versioning_manager

from . import envs
from .tracer import CfgInfo, Tracer, enc_val, dec_val


class StepError(Exception):
    pass


def _in_continuum(tb):
    return any('/sqlalchemy_continuum/' in fs.filename for fs in traceback.extract_tb(tb))


class ProgramRunner(object):
    def __init__(self, env, info=None, tracer=None, session=None):
        self.env = env
        self.s = session or env.s
        self.info = info or CfgInfo(env)
        self.tracer = tracer or Tracer(env, self.info, self.s)
        self.reg = {}            # (cls, pk tuple) -> object currently in the session (not deleted)
        self.committed = {}
        self.sp_stack = []       # [(savepoint, registry snapshot)]
        self.markers = []        # dumps
        self.step_log = []
        self.error = None
        self.keepalive = []      # strong refs to everything ever created

    def attr_type(self, cname, attr):
        i = self.info.attrs[cname].index(attr)
        return self.info.attr_types[cname][i]

    def pk_value(self, cname, pk):
        types = [self.attr_type(cname, a) for a in self.info.pk_attrs[cname]]
        vals = [('k%d' % v) if t == 'str' else v for v, t in zip(pk, types)]
        return vals

    def make(self, cname, pk, attrs):
        cls = self.env.classes[cname]
        kw = dict(zip(self.info.pk_attrs[cname], self.pk_value(cname, pk)))
        for a, v in (attrs or {}).items():
            kw[a] = enc_val(v, self.attr_type(cname, a))
        return cls(**kw)

    def snapshot(self, label):
        t = self.tracer
        snap = {'label': label, 'versions': t.dump_versions(), 'txs': t.dump_txs(), 'assoc': t.dump_assoc(),
                'changes': t.dump_changes(), 'live': self.dump_livev(), 'links': t.dump_links(),
                'mgr': t.manager_state()}
        if 'activity' in self.info.plugins:
            snap['activities'] = self.dump_activities()
        if 'stamp' in self.info.plugins:
            snap['tx_attrs'] = t.dump_tx_attrs()
        self.markers.append(snap)
        t.lines.append('qdump %d' % (len(self.markers) - 1))
        return snap

    def dump_activities(self):
        """activity rows 'id obj tgt tx objtx tgttx' with obj/tgt as 'tid:pk' of the base version table"""
        base = {}
        for cname in self.info.class_names:
            if self.info.tables[cname]:
                base[cname] = self.info.tables[cname][0][0]
        out = []
        q = 'SELECT id, transaction_id, object_type, object_id, object_tx_id, target_type, target_id, target_tx_id FROM activity'
        for (i, tx, ot, oi, otx, tt, ti, ttx) in self.tracer.q(q):
            def key(t, k):
                return 'N' if t is None or k is None else '%d:%d' % (base.get(t, 999), k)
            out.append('%d %s %s %s %s %s' % (i, key(ot, oi), key(tt, ti), 'N' if tx is None else tx,
                                              'N' if otx is None else otx, 'N' if ttx is None else ttx))
        out.sort(key=lambda r: int(r.split(' ')[0]))
        return out

    def dump_livev(self):
        """for every version table: the rows of its parent table projected on the version
        columns: 'tid pk vals' (raw SQL)"""
        t = self.tracer
        out = []
        for tid, vt in enumerate(self.info.vtables):
            pt = vt['parent_table']
            cols = vt['pk_cols'] + vt['cols']
            where = ''
            for r in t.q('SELECT %s FROM %s%s' % (', '.join('"%s"' % c for c in cols), t._tname(pt), where)):
                npk = len(vt['pk_cols'])
                out.append('%d %s %s' % (tid, ','.join(str(dec_val(x)) for x in r[:npk]),
                                         ','.join('N' if x is None else str(dec_val(x)) for x in r[npk:]) or '-'))
        out.sort()
        return out

    # -- steps ----------------------------------------------------------------------------------
    def do(self, step):
        s = self.s
        op = step[0]
        if op == 'add':
            _, cname, pk, attrs = step
            k = (cname, tuple(pk))
            rootk = self.root_key(cname, pk)
            if any(self.root_key(c, p) == rootk for (c, p) in self.reg):
                return 'skip'
            obj = self.make(cname, pk, attrs)
            self.keepalive.append(obj)
            s.add(obj)
            self.reg[k] = obj
        elif op == 'set':
            _, cname, pk, attr, val = step
            obj = self.find(cname, pk)
            if obj is None:
                return 'skip'
            setattr(obj, attr, enc_val(val, self.attr_type(type(obj).__name__, attr)))
        elif op == 'del':
            _, cname, pk = step
            obj = self.find(cname, pk)
            if obj is None:
                return 'skip'
            k = self.key_of(obj)
            # like a careful application: take the object out of its parents' collections first, otherwise the
            # save-update cascade of a parent still holding it re-attaches the "deleted" object during the flush
            for (rname, direction, loc, ex) in self.info.rels.get(type(obj).__name__, []):
                if direction == 'MANYTOONE' and getattr(obj, rname, None) is not None:
                    setattr(obj, rname, None)
            if sa.inspect(obj).pending:
                s.expunge(obj)
            else:
                s.delete(obj)
            del self.reg[k]
        elif op == 'setrel':
            _, cname, pk, rel, tcls, tpk = step
            obj = self.find(cname, pk)
            tgt = self.find(tcls, tpk) if tpk is not None else None
            if obj is None or (tpk is not None and tgt is None):
                return 'skip'
            setattr(obj, rel, tgt)
        elif op in ('link', 'unlink'):
            _, cname, pk, rel, tcls, tpk = step
            obj = self.find(cname, pk)
            tgt = self.find(tcls, tpk)
            if obj is None or tgt is None:
                return 'skip'
            coll = getattr(obj, rel)
            # `forced`: the decision the twin run took at this step (C07) - both runs must perform the SAME
            # session operations, and "is it in the collection already" is answered from in-memory ORM
            # state that continuum's active_history legitimately changes before a flush
            forced = getattr(self, 'forced', None)
            if op == 'link':
                if forced == 'skip' or (forced is None and tgt in coll):
                    return 'skip'
                coll.append(tgt)
            else:
                if forced == 'skip' or tgt not in coll:
                    return 'skip'
                coll.remove(tgt)
        elif op in ('core_link', 'core_unlink'):
            # a Core statement on the association table of a many-to-many relationship (no ORM collection involved)
            _, cname, pk, rel, tcls, tpk = step[:6]
            obj = self.find(cname, pk)
            tgt = self.find(tcls, tpk)
            if obj is None or tgt is None or sa.inspect(obj).pending or sa.inspect(tgt).pending:
                return 'skip'
            prop = getattr(type(obj), rel).property
            vals = {}
            for lc, ac in prop.synchronize_pairs:
                vals[ac.name] = getattr(obj, type(obj).__mapper__.get_property_by_column(lc).key)
            for rc, ac in prop.secondary_synchronize_pairs:
                vals[ac.name] = getattr(tgt, type(tgt).__mapper__.get_property_by_column(rc).key)
            t = prop.secondary
            style = step[6] if len(step) > 6 else 'params'
            if op == 'core_link':
                if style == 'values':
                    s.execute(t.insert().values(**vals))      # values inside the statement
                else:
                    s.execute(t.insert(), vals)               # values as execution parameters
            elif style == 'values':
                # the values are literals inside the WHERE clause of the statement
                s.execute(t.delete().where(sa.and_(*[t.c[k] == v for k, v in vals.items()])))
            else:
                s.execute(t.delete().where(sa.and_(*[t.c[k] == sa.bindparam(k) for k in vals])), vals)
        elif op == 'activity':
            _, verb, cname, pk, tcls, tpk = step
            obj = self.find(cname, pk)
            tgt = self.find(tcls, tpk) if tcls else None
            if obj is None or (tcls and tgt is None) or sa.inspect(obj).pending or (tgt is not None and sa.inspect(tgt).pending):
                return 'skip'
            Activity = versioning_manager.activity_cls
            act = Activity(verb='v%d' % verb, object=obj, target=tgt)
            s.add(act)
            self.keepalive.append(act)
        elif op == 'flush':
            s.flush()
        elif op == 'commit':
            s.commit()
            self.committed = dict(self.reg)
            self.sp_stack = []
        elif op == 'rollback':
            s.rollback()
            self.reg = dict(self.committed)
            self.sp_stack = []
        elif op == 'query':
            for cname in self.info.class_names[:1]:
                s.query(self.env.classes[cname]).all()
        elif op == 'expunge':
            # the object leaves the session: changes not flushed yet are lost, a pending object is gone; the
            # application goes on with a freshly loaded instance (if the row exists)
            _, cname, pk = step
            obj = self.find(cname, pk)
            if obj is None:
                return 'skip'
            if obj not in s:
                return 'skip'
            k = self.key_of(obj)
            was_pending = sa.inspect(obj).pending
            s.expunge(obj)
            del self.reg[k]
            if not was_pending:
                vals = self.pk_value(type(obj).__name__, list(k[1]))
                fresh = s.get(type(obj), tuple(vals) if len(vals) > 1 else vals[0])
                if fresh is not None:
                    self.reg[k] = fresh
                    self.keepalive.append(fresh)
        elif op == 'expire':
            s.expire_all()
        elif op == 'manual_tx':
            uow = versioning_manager.unit_of_work(s)
            if uow.current_transaction is not None:
                return 'skip'
            uow.create_transaction(s)
            self.tracer.emit('ev manualtx %d' % (self.tracer.cur_tx_id() or 0))
        elif op == 'sp_begin':
            sp = s.begin_nested()
            self.tracer.emit('ev spbegin')
            self.sp_stack.append((sp, dict(self.reg)))
        elif op == 'sp_commit':
            if not self.sp_stack:
                return 'skip'
            sp, _ = self.sp_stack.pop()
            sp.commit()
        elif op == 'sp_rollback':
            if not self.sp_stack:
                return 'skip'
            sp, reg = self.sp_stack.pop()
            sp.rollback()
            self.reg = reg
        else:
            raise ValueError('unknown step %r' % (step,))
        return 'ok'

    def root_key(self, cname, pk):
        c = envs.class_spec(self.env.spec, cname)
        while c.get('parent'):
            c = envs.class_spec(self.env.spec, c['parent'])
        return (c['name'], tuple(pk))

    def key_of(self, obj):
        for k, o in self.reg.items():
            if o is obj:
                return k
        return None

    def find(self, cname, pk):
        """object registered under (cname, pk) or under a subclass/superclass with the same root key"""
        if pk is None:
            return None
        k = (cname, tuple(pk))
        if k in self.reg:
            return self.reg[k]
        rk = self.root_key(cname, pk)
        for (c, p), o in self.reg.items():
            if self.root_key(c, p) == rk and isinstance(o, self.env.classes[cname]):
                return o
        return None

    def run(self, program, snapshot_every_step=False, first=True, stop_on_error=True, label=''):
        t = self.tracer
        t.attach()
        try:
            if first:
                self.snapshot('init')
            for i, step in enumerate(program):
                before = t.events
                try:
                    res = self.do(step)
                except Exception as e:  # the program step failed
                    self.error = {'step': i, 'op': step, 'type': type(e).__name__, 'msg': str(e)[:300],
                                  'in_continuum': _in_continuum(e.__traceback__)}
                    self.step_log.append('error')
                    if stop_on_error:
                        try:
                            self.s.rollback()
                        except Exception:
                            pass
                    break
                self.step_log.append(res)
                if t.events != before or step[0] in ('commit', 'rollback') or snapshot_every_step:
                    self.snapshot('%sstep %d %s' % (label, i, step[0]))
        finally:
            t.detach()
        return self.observation()

    def observation(self):
        return {'lines': self.info.cfg_lines() + self.tracer.lines, 'markers': self.markers,
                'steps': self.step_log, 'error': self.error}


def probe_changed_entities(env, info):
    """Transaction.changed_entities / entity_names of every transaction record, canonicalised"""
    import sqlalchemy_continuum as sc
    m = versioning_manager
    s = env.new_session()
    Tx = m.transaction_cls
    base_tid = {}
    for cname in info.class_names:
        if info.tables[cname]:
            base_tid[cname] = info.tables[cname][0][0]
    out = []
    roots = []
    for cname in info.class_names:
        if info.versioned[cname] and not envs.class_spec(env.spec, cname).get('parent'):
            roots.append(cname)
    for tx in s.query(Tx).order_by(Tx.id).all():
        bad = []
        seen = set()
        ents = tx.changed_entities
        for vcls, objs in ents.items():
            for o in objs:
                pc = sc.parent_class(type(o)).__name__
                if getattr(o, info.tx_col) != tx.id or not isinstance(o, vcls):
                    bad.append([vcls.__name__, pc])
                pk = [dec_val(getattr(o, k)) for k in info.pk_attrs[pc]]
                seen.add((base_tid[pc], ','.join(str(x) for x in pk)))
        names = None
        expected_names = set()
        if 'tx_changes' in info.plugins:
            names = list(tx.entity_names)
        for r in roots:
            V = sc.version_class(env.classes[r])
            for o in s.query(V).filter(getattr(V, info.tx_col) == tx.id).all():
                expected_names.add(sc.parent_class(type(o)).__name__)
        out.append({'id': tx.id, 'versions': sorted(list(x) for x in seen), 'bad': bad, 'names': names,
                    'expected_names': sorted(expected_names)})
    s.rollback()
    s.close()
    return {'txs': out, 'base_tids': sorted(set(base_tid.values()))}


def run_case(case):
    """case = {'spec': ..., 'autoflush': bool, 'program': [...]}"""
    env = envs.Env(case['spec'], autoflush=bool(case.get('autoflush')), join_mode=case.get('join_mode'))
    try:
        r = ProgramRunner(env)
        obs = r.run(case['program'])
        if case.get('probe') == 'changed_entities' and not obs.get('error'):
            obs['probe'] = probe_changed_entities(env, r.info)
        return obs
    finally:
        env.close()
