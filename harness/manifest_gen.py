"""Writes MANIFEST.json from the registry (run by hand after adding a check)."""
import json
import os
import sys

ROOT = os.path.dirname(os.path.dirname(os.path.abspath(__file__)))
sys.path.insert(0, ROOT)

from harness.props import registry  # noqa
from harness import manifest_data as md  # noqa

BASELINE = json.load(open('/root/.vp/BASELINE.json'))['cmd']


def main():
    props = [json.loads(l) for l in open(os.path.join(ROOT, 'properties.jsonl'))]
    checks = []
    na = []
    for p in props:
        pid = p['id']
        if pid in registry.REGISTRY and pid in md.CHECKS:
            d = md.CHECKS[pid]
            checks.append({
                'property_id': pid,
                'quick_cmd': './check %s --tier quick' % pid,
                'thorough_cmd': './check %s --tier thorough' % pid,
                'evidence_file': 'evidence/%s.json' % pid,
                'replay_cmd_template': './check %s --replay {path}' % pid,
                'engine': d.get('engine', 'lean-model'),
                'level_claimed': {'category': d.get('category', 'proof'), 'text': d['text'], 'design_ref': d.get('design_ref', 'DESIGN.md section 7 ' + pid)},
                'level_note': d['note'],
                'technique': d['technique'],
            })
        else:
            na.append({'property_id': pid, 'reason': md.NOT_APPLICABLE.get(pid, 'check not built yet (work in progress; see DESIGN.md section 7 for the design)')})
    m = {
        'version': 1,
        'setup_cmd': 'cd lean && lake build && cd .. && mkdir -p .work evidence replays',
        'hooks': {
            'guard': 'SQLALCHEMY_CONTINUUM_VERIF',
            'enable': 'no source hooks: every observation comes from public SQLAlchemy events and public attributes of versioning_manager; the editable install in /venv imports /repo\'s working tree directly',
            'baseline_off_cmd': BASELINE,
            'source_commits': [],
            'add_only': True,
        },
        'engines': md.ENGINES,
        'checks': checks,
        'notes': md.NOTES,
        'not_applicable': na,
    }
    with open(os.path.join(ROOT, 'MANIFEST.json'), 'w') as fh:
        json.dump(m, fh, indent=1)
    print('checks', len(checks), 'not_applicable', len(na))


if __name__ == '__main__':
    main()
