"""Comparing the model's dumps with the implementation's dumps, section by section."""


def parse_model_dump(line):
    parts = line.split(' | ')
    versions, txs, assoc, changes, mgr, err = parts
    d = {
        'versions': sorted([] if versions == '-' else versions.split(';')),
        'txs': [] if txs == '-' else sorted(int(x) for x in txs.split(',')),
        'assoc': sorted([] if assoc == '-' else assoc.split(';')),
        'changes': sorted([] if changes == '-' else changes.split(';')),
        'err': err == '1',
    }
    if mgr == 'nouow':
        d['mgr'] = None
    else:
        _, cur, ops, vobjs, pending, lookup = mgr.split(' ')
        d['mgr'] = {'cur': None if cur == 'N' else int(cur), 'ops': [] if ops == '-' else ops.split(';'),
                    'vobjs': sorted([] if vobjs == '-' else vobjs.split(';')), 'pending': int(pending),
                    'lookup': lookup == '1'}
    return d


def impl_sections(marker):
    m = marker['mgr']
    d = {'versions': marker['versions'], 'txs': marker['txs'], 'assoc': marker['assoc'], 'changes': marker['changes']}
    if 'cur' in m:
        d['mgr'] = {'cur': m['cur'], 'ops': m['ops'], 'vobjs': m['vobjs'], 'pending': m['pending'],
                    'lookup': bool(m.get('lookup'))}
    else:
        d['mgr'] = None
    return d


def compare(markers, answers, sections=('versions', 'txs', 'assoc', 'changes', 'mgr')):
    """returns [(marker index, section, impl, model)]"""
    out = []
    for i, (mk, ans) in enumerate(zip(markers, answers)):
        md = parse_model_dump(ans)
        im = impl_sections(mk)
        for sec in sections:
            a, b = im[sec], md[sec]
            if sec == 'mgr':
                # an idle unit of work (nothing recorded) is equivalent to none for this comparison
                def norm(x):
                    if x is None:
                        return None
                    if x['cur'] is None and not x['ops'] and not x['vobjs'] and not x['pending']:
                        return 'idle'
                    return x
                if (norm(a) or 'idle') != (norm(b) or 'idle'):
                    out.append((i, sec, a, b))
            elif a != b:
                out.append((i, sec, a, b))
    return out
