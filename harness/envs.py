"""Building real sqlalchemy-continuum environments from a declarative *spec*.

A spec is a plain dict (JSON-serialisable, so it can be stored in replays):

    {"classes": [ {"name": "Article", "table": "article", "parent": None, "inherit": None,
                   "versioned": {"exclude": [...], ...} | None,
                   "columns": [ {"name": "id", "attr": "id", "type": "int", "pk": True}, ...],
                   "rels": [ {"name": "tags", "target": "Tag", "kind": "o2m", "fk": "article_id",
                              "secondary": None, "backref": "article"} ] } ],
     "assoc": [ {"name": "article_tag", "cols": [["article_id","article.id"],["tag_id","tag.id"]], "pk": True} ],
     "options": {"strategy": "validity", ...},          # manager-level options
     "plugins": ["null_delete", "mod_tracker", "tx_changes", "tx_meta", "activity"],
     "native": False}

`Env(spec)` imports the package from /repo (editable install), builds the models on a fresh
declarative base, calls make_versioned, configures the mappers, and creates a SQLite database with
the pysqlite SAVEPOINT recipe.  `env.close()` undoes all of it.  The versioning manager is a
process-wide singleton whose options/plugins survive `remove_versioning()`, so every Env
re-initialises them from the defaults captured at import.
"""
import os
import warnings

import sqlalchemy as sa
from sqlalchemy import event
from sqlalchemy.orm import declarative_base, sessionmaker, configure_mappers, close_all_sessions, clear_mappers

import sqlalchemy_continuum as sc
from sqlalchemy_continuum import make_versioned, remove_versioning, versioning_manager
from sqlalchemy_continuum import plugins as scp

warnings.filterwarnings('ignore', category=sa.exc.SAWarning)

DEFAULT_OPTIONS = dict(versioning_manager.options)

TYPES = {
    'int': lambda: sa.Integer,
    'str': lambda: sa.Unicode(255),
    'text': lambda: sa.UnicodeText,
    'bool': lambda: sa.Boolean,
}

class StampPlugin(scp.base.Plugin):
    """a plugin of the harness that supplies an attribute for the transaction record (what FlaskPlugin does with
    the user and the remote address): every call hands out a fresh stamp and remembers it"""

    def __init__(self):
        self.issued = []

    def transaction_args(self, uow, session):
        s = 'stamp-%d' % (len(self.issued) + 1)
        self.issued.append(s)
        return {'remote_addr': s}


PLUGINS = {
    'stamp': lambda: StampPlugin(),
    'null_delete': lambda: scp.NullDeletePlugin(),
    'mod_tracker': lambda: scp.PropertyModTrackerPlugin(),
    'tx_changes': lambda: scp.TransactionChangesPlugin(),
    'tx_meta': lambda: scp.TransactionMetaPlugin(),
    'activity': lambda: scp.ActivityPlugin(),
}


class Env(object):
    def __init__(self, spec, versioned=True, db_path=None, autoflush=False, create=True, join_mode=None):
        self.spec = spec
        self.versioned = versioned
        self.classes = {}
        self.tables = {}
        self.plugins = {}
        self.closed = False
        self._extra_sessions = []
        opts = dict(spec.get('options') or {})
        self.Base = declarative_base()
        self.manager = versioning_manager
        if versioned:
            versioning_manager.options = dict(DEFAULT_OPTIONS)
            versioning_manager.transaction_cls = sc.TransactionFactory()
            plist = []
            for p in spec.get('plugins') or []:
                inst = PLUGINS[p]() if isinstance(p, str) else p
                self.plugins[p if isinstance(p, str) else type(p).__name__] = inst
                plist.append(inst)
            make_versioned(options=opts, plugins=plist, user_cls=None)
            versioning_manager.user_cls = None
        try:
            self._build_models()
            configure_mappers()
            self._make_engine(db_path)
            if create:
                self.Base.metadata.create_all(self.conn)
                self.conn.commit()
            if join_mode:
                # the "join a Session into an external transaction" recipe: every session-level
                # transaction is a SAVEPOINT of one connection-level transaction that is never committed
                self.outer = self.conn.begin()
                self.Session = sessionmaker(bind=self.conn, autoflush=autoflush, join_transaction_mode=join_mode)
            else:
                self.Session = sessionmaker(bind=self.conn, autoflush=autoflush)
            self.s = self.Session()
        except BaseException:
            self.close()
            raise

    # -- models ---------------------------------------------------------------------------
    def _build_models(self):
        spec = self.spec
        Base = self.Base
        for a in spec.get('assoc') or []:
            cols = []
            for cname, target in a['cols']:
                tgt_type = self._col_type_of(target)
                cols.append(sa.Column(cname, tgt_type, sa.ForeignKey(target),
                                      primary_key=bool(a.get('pk', True))))
            self.tables[a['name']] = sa.Table(a['name'], Base.metadata, *cols)
        for c in spec['classes']:
            attrs = {}
            parent = self.classes[c['parent']] if c.get('parent') else Base
            inherit = c.get('inherit')
            if inherit != 'single':
                attrs['__tablename__'] = c['table']
                targs = []
                if c.get('pk_constraint'):
                    # explicit PRIMARY KEY constraint whose column order differs from the declaration order
                    targs.append(sa.PrimaryKeyConstraint(*c['pk_constraint']))
                if c.get('schema'):
                    targs.append({'schema': c['schema']})
                if targs:
                    attrs['__table_args__'] = tuple(targs) if not isinstance(targs[-1], dict) or len(targs) > 1 else targs[0]
            if c.get('versioned') is not None and self.versioned:
                v = dict(c['versioned'])
                attrs['__versioned__'] = v
            margs = {}
            for col in c['columns']:
                args = [col['name'], TYPES[col.get('type', 'str')]()]
                if col.get('fk'):
                    args.append(sa.ForeignKey(col['fk']))
                kw = {}
                if col.get('pk') and not c.get('pk_constraint'):
                    kw['primary_key'] = True
                    kw['autoincrement'] = bool(col.get('autoincrement', False))
                elif col.get('pk'):
                    kw['autoincrement'] = False
                for k in ('nullable', 'unique', 'index'):
                    if k in col:
                        kw[k] = col[k]
                if 'default' in col:
                    kw['default'] = col['default']
                if 'onupdate' in col:
                    kw['onupdate'] = col['onupdate']
                if 'onupdate_sql' in col:
                    # maintained by the DATABASE at UPDATE time (a SQL expression): the attribute is expired after
                    # every flush that updates the row
                    kw['onupdate'] = sa.literal_column(col['onupdate_sql'])
                if 'server_default' in col:
                    kw['server_default'] = col['server_default']
                column = sa.Column(*args, **kw)
                attrs[col.get('attr', col['name'])] = sa.orm.deferred(column) if col.get('deferred') else column
                if col.get('discriminator'):
                    margs['polymorphic_on'] = column
            if inherit == 'concrete':
                margs['concrete'] = True
            if c.get('polymorphic_identity') is not None:
                margs['polymorphic_identity'] = c['polymorphic_identity']
            if c.get('with_polymorphic'):
                margs['with_polymorphic'] = c['with_polymorphic']
            if margs:
                attrs['__mapper_args__'] = margs
            cls = type(c['name'], (parent,), attrs)
            self.classes[c['name']] = cls
        # relationships after all classes exist
        for c in spec['classes']:
            cls = self.classes[c['name']]
            for r in c.get('rels') or []:
                kw = {}
                if r.get('secondary'):
                    kw['secondary'] = self.tables[r['secondary']]
                    if r.get('primaryjoin'):
                        kw['primaryjoin'] = r['primaryjoin']
                        kw['secondaryjoin'] = r['secondaryjoin']
                if r.get('backref'):
                    kw['backref'] = sa.orm.backref(r['backref'], **r['backref_kw']) if r.get('backref_kw') else r['backref']
                if r.get('uselist') is not None:
                    kw['uselist'] = r['uselist']
                if r.get('lazy'):
                    kw['lazy'] = r['lazy']
                if r.get('cascade'):
                    kw['cascade'] = r['cascade']
                if r.get('foreign_keys'):
                    kw['foreign_keys'] = [getattr(cls, k) if hasattr(cls, k) else
                                          getattr(self.classes[r['target']], k)
                                          for k in r['foreign_keys']]
                setattr(cls, r['name'], sa.orm.relationship(self.classes[r['target']], **kw))

    def _col_type_of(self, target):
        tname, cname = target.split('.')
        for c in self.spec['classes']:
            if c.get('table') == tname:
                for col in c['columns']:
                    if col['name'] == cname:
                        return TYPES[col.get('type', 'str')]()
        return sa.Integer

    # -- engine ---------------------------------------------------------------------------
    def _make_engine(self, db_path):
        url = 'sqlite:///%s' % db_path if db_path else 'sqlite:///:memory:'
        self.engine = sa.create_engine(url)
        schemas = sorted({c['schema'] for c in self.spec['classes'] if c.get('schema')})

        @event.listens_for(self.engine, 'connect')
        def _connect(dbapi, rec):
            dbapi.isolation_level = None
            for sch in schemas:
                dbapi.execute("ATTACH DATABASE ':memory:' AS %s" % sch)

        @event.listens_for(self.engine, 'begin')
        def _begin(conn):
            conn.exec_driver_sql('BEGIN')

        self.conn = self.engine.connect()

    # -- helpers --------------------------------------------------------------------------
    def cls(self, name):
        return self.classes[name]

    def version_cls(self, name):
        return sc.version_class(self.classes[name])

    def new_session(self, **kw):
        s = self.Session(**kw)
        self._extra_sessions.append(s)
        return s

    def sql(self, text, **params):
        return [tuple(r) for r in self.conn.execute(sa.text(text), params)]

    def close(self):
        if self.closed:
            return
        self.closed = True
        try:
            for s in self._extra_sessions + [getattr(self, 's', None)]:
                if s is not None:
                    try:
                        s.close()
                    except Exception:
                        pass
            try:
                close_all_sessions()
            except Exception:
                pass       # a leftover private version session whose savepoint went with the outer one (join_mode)
            if getattr(self, 'conn', None) is not None:
                try:
                    self.conn.close()
                except Exception:
                    pass
            if getattr(self, 'engine', None) is not None:
                self.engine.dispose()
        finally:
            if self.versioned:
                try:
                    remove_versioning()
                except Exception:
                    pass
                versioning_manager.reset()
                versioning_manager.options = dict(DEFAULT_OPTIONS)
                versioning_manager.plugins = []
            try:
                self.Base.registry.dispose()
            except Exception:
                pass

    def __enter__(self):
        return self

    def __exit__(self, *a):
        self.close()


# ---------------------------------------------------------------------------------------------
# a few standard shapes


def col(name, type='str', **kw):
    d = {'name': name, 'type': type}
    d.update(kw)
    return d


def shape_flat(opts=None, key='int', exclude=(), extra_cols=2, aliased=False, table='article',
               versioned_extra=None):
    """One versioned class with a single-column key."""
    v = dict(versioned_extra or {})
    if exclude:
        v['exclude'] = list(exclude)
    cols = [col('id', key, pk=True)]
    names = ['name', 'content', 'extra', 'more']
    for i in range(extra_cols):
        c = col(names[i], 'str')
        if aliased and i == 0:
            c['attr'] = 'name_'
        cols.append(c)
    return {'classes': [{'name': 'Article', 'table': table, 'versioned': v, 'columns': cols}],
            'options': dict(opts or {}), 'plugins': []}


def shape_composite(opts=None, extra_cols=2):
    cols = [col('a', 'int', pk=True), col('b', 'int', pk=True)]
    names = ['name', 'content', 'extra']
    for i in range(extra_cols):
        cols.append(col(names[i], 'str'))
    return {'classes': [{'name': 'Article', 'table': 'article', 'versioned': {}, 'columns': cols}],
            'options': dict(opts or {}), 'plugins': []}


def pk_attrs(spec, cname):
    for c in spec['classes']:
        if c['name'] == cname:
            own = [x.get('attr', x['name']) for x in c['columns'] if x.get('pk')]
            if own or not c.get('parent'):
                return own
            return pk_attrs(spec, c['parent'])
    raise KeyError(cname)


def class_spec(spec, cname):
    for c in spec['classes']:
        if c['name'] == cname:
            return c
    raise KeyError(cname)


# ---------------------------------------------------------------------------------------------
# shapes for trace-level checks.  Every shape returns a spec; `entity_classes(spec)` lists the
# classes a program may instantiate, with the attributes it may set.

def _v(opts_extra=None, **kw):
    d = dict(opts_extra or {})
    d.update(kw)
    return d


def shape_articles(opts=None, exclude=(), include=(), key='int', aliased=False, with_comment=False,
                   plugins=()):
    """Article (versioned, optional excluded columns) 1-n Tag (versioned), optional non-versioned Comment."""
    av = {}
    if exclude:
        av['exclude'] = list(exclude)
    if include:
        av['include'] = list(include)
    acols = [col('id', key, pk=True), col('name', 'str'), col('content', 'str'), col('secret', 'str')]
    if aliased == 'clash':
        # attribute names that are the names of OTHER columns: content = Column('name'), body = Column('content')
        acols[1]['attr'] = 'content'
        acols[2]['attr'] = 'body'
    elif aliased:
        acols[1]['attr'] = 'name_'
    classes = [
        {'name': 'Article', 'table': 'article', 'versioned': av, 'columns': acols, 'rels': []},
        {'name': 'Tag', 'table': 'tag', 'versioned': {}, 'columns': [
            col('id', 'int', pk=True), col('name', 'str'), col('article_id', key, fk='article.id')],
         'rels': [{'name': 'article', 'target': 'Article', 'kind': 'm2o', 'backref': 'tags'}]},
    ]
    if with_comment:
        classes.append({'name': 'Comment', 'table': 'comment', 'versioned': None, 'columns': [
            col('id', 'int', pk=True), col('text', 'str'), col('article_id', key, fk='article.id')],
            'rels': [{'name': 'article', 'target': 'Article', 'kind': 'm2o', 'backref': 'comments'}]})
    return {'classes': classes, 'options': dict(opts or {}), 'plugins': list(plugins)}


def shape_nvparent(opts=None, plugins=()):
    """Category (NOT versioned) 1-n Article (versioned, no delete cascade): deleting a category makes the ORM
    null the articles' foreign key inside the flush"""
    classes = [
        {'name': 'Category', 'table': 'category', 'versioned': None, 'columns': [col('id', 'int', pk=True), col('title', 'str')],
         'rels': []},
        {'name': 'Article', 'table': 'article', 'versioned': {}, 'columns': [
            col('id', 'int', pk=True), col('name', 'str'), col('category_id', 'int', fk='category.id')],
         'rels': [{'name': 'category', 'target': 'Category', 'kind': 'm2o', 'backref': 'articles'}]},
    ]
    return {'classes': classes, 'options': dict(opts or {}), 'plugins': list(plugins)}


def shape_composite_t(opts=None, plugins=()):
    return {'classes': [{'name': 'Item', 'table': 'item', 'versioned': {}, 'columns': [
        col('a', 'int', pk=True), col('b', 'int', pk=True), col('name', 'str'), col('qty', 'int')], 'rels': []}],
        'options': dict(opts or {}), 'plugins': list(plugins)}


def shape_joined(opts=None, levels=2, plugins=()):
    classes = [
        {'name': 'TextItem', 'table': 'text_item', 'versioned': {}, 'polymorphic_identity': 'ti', 'columns': [
            col('id', 'int', pk=True), col('name', 'str'), col('kind', 'str', discriminator=True)], 'rels': []},
        {'name': 'Article', 'table': 'article', 'parent': 'TextItem', 'inherit': 'joined', 'versioned': None,
         'polymorphic_identity': 'ar', 'columns': [col('id', 'int', pk=True, fk='text_item.id'), col('content', 'str')],
         'rels': []},
    ]
    if levels >= 3:
        classes.append({'name': 'BlogPost', 'table': 'blog_post', 'parent': 'Article', 'inherit': 'joined',
                        'versioned': None, 'polymorphic_identity': 'bp', 'columns': [
                            col('id', 'int', pk=True, fk='article.id'), col('title', 'str')], 'rels': []})
    return {'classes': classes, 'options': dict(opts or {}), 'plugins': list(plugins)}


def shape_concrete(opts=None, plugins=()):
    """concrete-table inheritance: Article(TextItem) has a table of its own with all columns and a key space of its own"""
    classes = [
        {'name': 'TextItem', 'table': 'text_item', 'versioned': {}, 'columns': [
            col('id', 'int', pk=True), col('name', 'str')], 'rels': []},
        {'name': 'Article', 'table': 'article', 'parent': 'TextItem', 'inherit': 'concrete', 'versioned': None,
         'columns': [col('id', 'int', pk=True), col('name', 'str'), col('content', 'str')], 'rels': []},
    ]
    return {'classes': classes, 'options': dict(opts or {}), 'plugins': list(plugins)}


def shape_single(opts=None, plugins=()):
    classes = [
        {'name': 'TextItem', 'table': 'text_item', 'versioned': {}, 'polymorphic_identity': 'ti', 'columns': [
            col('id', 'int', pk=True), col('name', 'str'), col('kind', 'str', discriminator=True)], 'rels': []},
        {'name': 'Article', 'table': None, 'parent': 'TextItem', 'inherit': 'single', 'versioned': None,
         'polymorphic_identity': 'ar', 'columns': [col('content', 'str')], 'rels': []},
        {'name': 'BlogPost', 'table': None, 'parent': 'TextItem', 'inherit': 'single', 'versioned': None,
         'polymorphic_identity': 'bp', 'columns': [col('title', 'str')], 'rels': []},
    ]
    return {'classes': classes, 'options': dict(opts or {}), 'plugins': list(plugins)}


def shape_m2m(opts=None, plugins=(), self_ref=False):
    classes = [
        {'name': 'Article', 'table': 'article', 'versioned': {}, 'columns': [
            col('id', 'int', pk=True), col('name', 'str')],
         'rels': [{'name': 'tags', 'target': 'Tag', 'kind': 'm2m', 'secondary': 'article_tag', 'backref': 'articles'}]},
        {'name': 'Tag', 'table': 'tag', 'versioned': {}, 'columns': [
            col('id', 'int', pk=True), col('name', 'str')], 'rels': []},
    ]
    assoc = [{'name': 'article_tag', 'cols': [['article_id', 'article.id'], ['tag_id', 'tag.id']], 'pk': True}]
    return {'classes': classes, 'assoc': assoc, 'options': dict(opts or {}), 'plugins': list(plugins)}


def shape_m2m_self(opts=None, plugins=()):
    """self-referential many-to-many: Article.related <-> Article.related_from through article_link(left_id, right_id)"""
    classes = [
        {'name': 'Article', 'table': 'article', 'versioned': {}, 'columns': [
            col('id', 'int', pk=True), col('name', 'str')],
         'rels': [{'name': 'related', 'target': 'Article', 'kind': 'm2m', 'secondary': 'article_link',
                   'primaryjoin': 'Article.id == article_link.c.left_id',
                   'secondaryjoin': 'Article.id == article_link.c.right_id', 'backref': 'related_from'}]},
    ]
    assoc = [{'name': 'article_link', 'cols': [['left_id', 'article.id'], ['right_id', 'article.id']], 'pk': True}]
    return {'classes': classes, 'assoc': assoc, 'options': dict(opts or {}), 'plugins': list(plugins)}


def is_versioned_class(spec, cname):
    c = class_spec(spec, cname)
    while True:
        if c.get('versioned') is not None:
            return c['versioned'].get('versioning', True) is not False
        if not c.get('parent'):
            return False
        c = class_spec(spec, c['parent'])
