"""Generators and real-code plumbing for the table-level properties (C08 C15 C16 C19 C20).

A *table case* is

    {"shape": {"key": "int"|"composite"|"str", "ncols": n, "strategy": ..., "tx_col": ..., "end_col": ...,
               "op_col": ..., "table_name": "%s_version", "mods": bool},
     "rows": [[key, tx, end, op, vals, mods], ...],     # key: list of ints; vals: list of int|None
     "live": [key, ...]}

Interned values: column value n <-> 's<n>' (string columns), key component n <-> n (int keys) or
'k<n>' (string keys).
"""
import itertools

import sqlalchemy as sa

from . import envs


def shape_spec(shape):
    opts = {'strategy': shape.get('strategy', 'validity')}
    for k, o in (('tx_col', 'transaction_column_name'), ('end_col', 'end_transaction_column_name'),
                 ('op_col', 'operation_type_column_name'), ('table_name', 'table_name')):
        if shape.get(k):
            opts[o] = shape[k]
    if shape['key'] == 'composite':
        spec = envs.shape_composite(opts, extra_cols=shape.get('ncols', 2))
    else:
        spec = envs.shape_flat(opts, key='int' if shape['key'] == 'int' else 'str',
                               extra_cols=shape.get('ncols', 2))
    if shape.get('mods'):
        spec['plugins'] = ['mod_tracker']
    if shape.get('alias_keys'):
        # key attributes named differently from their columns: k_id = Column('id', primary_key=True)
        for c in spec['classes'][0]['columns']:
            if c['name'] in key_cols(shape):
                c['attr'] = 'k_' + c['name']
    if shape.get('valtype') == 'int':
        for c in spec['classes'][0]['columns']:
            if c['name'] in val_cols(shape):
                c['type'] = 'int'
    return spec


def key_cols(shape):
    return ['a', 'b'] if shape['key'] == 'composite' else ['id']


def key_attrs(shape):
    return ['k_' + c for c in key_cols(shape)] if shape.get('alias_keys') else key_cols(shape)


def by_name(table, d):
    """values keyed by column NAME -> keyed by Column (a column's key differs from its name when the attribute does)"""
    return {next(c for c in table.columns if c.name == name): v for name, v in d.items()}


def val_cols(shape):
    return ['name', 'content', 'extra', 'more'][:shape.get('ncols', 2)]


def enc_key(shape, key):
    if shape['key'] == 'str':
        return ['k%d' % key[0]]
    return list(key)


def dec_keycomp(shape, v):
    if shape['key'] == 'str':
        return int(v[1:])
    return int(v)


# integer-typed value columns (shape['valtype'] == 'int'): the model's small values stand for integers that
# Python hashes alike (hash(-1) == hash(-2), hash(0) == hash(2**61 - 1)) or that differ only in sign
INT_POOL = [0, -1, -2, 2 ** 61 - 1, 7, -7]


def enc_val(v, shape=None):
    if v is None:
        return None
    if shape is not None and shape.get('valtype') == 'int':
        return INT_POOL[v]
    return 's%d' % v


def dec_val(v, shape=None):
    if v is None:
        return None
    if shape is not None and shape.get('valtype') == 'int':
        return INT_POOL.index(int(v))
    return int(v[1:])


class TableEnv(object):
    """A real continuum environment whose version table is filled directly."""

    def __init__(self, shape):
        self.shape = shape
        self.env = envs.Env(shape_spec(shape))
        self.cls = self.env.cls('Article')
        self.vcls = self.env.version_cls('Article')
        self.vtable = self.vcls.__table__
        self.tx_col = shape.get('tx_col') or 'transaction_id'
        self.end_col = shape.get('end_col') or 'end_transaction_id'
        self.op_col = shape.get('op_col') or 'operation_type'
        self.validity = shape.get('strategy', 'validity') == 'validity'

    def fill(self, rows, live):
        conn = self.env.conn
        kc, vc = key_cols(self.shape), val_cols(self.shape)
        for key in live:
            d = dict(zip(kc, enc_key(self.shape, key)))
            conn.execute(self.cls.__table__.insert().values(by_name(self.cls.__table__, d)))
        for key, tx, end, op, vals, mods in rows:
            d = dict(zip(kc, enc_key(self.shape, key)))
            d[self.tx_col] = tx
            if self.validity:
                d[self.end_col] = end
            d[self.op_col] = op
            for c, v in zip(vc, vals):
                d[c] = enc_val(v, self.shape)
            if self.shape.get('mods'):
                for c, m in zip(vc, mods):
                    d[c + '_mod'] = bool(m)
            conn.execute(self.vtable.insert().values(by_name(self.vtable, d)))
        conn.commit()

    def dump(self):
        kc, vc = key_cols(self.shape), val_cols(self.shape)
        out = []
        cn = {c.name: c for c in self.vtable.columns}
        for r0 in self.env.conn.execute(sa.select(self.vtable)).mappings():
            r = {name: r0[c] for name, c in cn.items()}
            key = [dec_keycomp(self.shape, r[c]) for c in kc]
            end = r[self.end_col] if self.validity else None
            mods = [bool(r[c + '_mod']) for c in vc] if self.shape.get('mods') else []
            out.append([key, r[self.tx_col], end, r[self.op_col], [dec_val(r[c], self.shape) for c in vc], mods])
        self.env.conn.commit()
        out.sort(key=lambda x: (x[0], x[1]))
        return out

    def key_of(self, obj):
        return [dec_keycomp(self.shape, getattr(obj, c)) for c in key_attrs(self.shape)]

    def tx_of(self, vobj):
        return getattr(vobj, self.tx_col)

    def close(self):
        self.env.close()


def row_line(cmd, row):
    key, tx, end, op, vals, mods = row
    return '%s %s %d %s %d %s %s' % (
        cmd, fmt_list(key), tx, 'N' if end is None else end, op,
        fmt_list(['N' if v is None else v for v in vals]),
        fmt_list([1 if m else 0 for m in mods]))


def fmt_list(l):
    return ','.join(str(x) for x in l) if l else '-'


def fmt_opt(l):
    return fmt_list(['N' if x is None else x for x in l])


def parse_rows(s):
    if s == '-':
        return []
    out = []
    for item in s.split(';'):
        k, tx, e, op, vals, mods = item.split(' ')
        out.append([[int(x) for x in k.split(',')] if k != '-' else [], int(tx),
                    None if e == 'N' else int(e), int(op),
                    [] if vals == '-' else [None if v == 'N' else int(v) for v in vals.split(',')],
                    [] if mods == '-' else [m == '1' for m in mods.split(',')]])
    return out


# -- generation ---------------------------------------------------------------------------------

def chain_ends(rows):
    """end ids a well-formed validity chain assigns"""
    by = {}
    for r in rows:
        by.setdefault(tuple(r[0]), []).append(r[1])
    out = []
    for r in rows:
        later = [t for t in by[tuple(r[0])] if t > r[1]]
        out.append(min(later) if later else None)
    return out


def random_shape(rng, strategy=None, mods=None, allow_custom=True, allow_alias=False):
    shape = {'key': rng.choice(['int', 'int', 'composite', 'str']), 'ncols': rng.choice([1, 2, 2, 3]),
             'strategy': strategy or rng.choice(['validity', 'subquery'])}
    if allow_custom and rng.random() < 0.3:
        shape['tx_col'] = 'tx_id'
        shape['end_col'] = 'end_tx_id'
    if allow_custom and rng.random() < 0.15:
        shape['op_col'] = 'op_type'
    if mods is None:
        mods = rng.random() < 0.3
    shape['mods'] = bool(mods)
    if allow_alias and rng.random() < 0.25:
        # ORM-level accessors only (the schema tools take a table as a migration reflects it: keys = names)
        shape['alias_keys'] = True
    return shape


def random_keys(rng, shape, n):
    if shape['key'] == 'composite':
        pool = [[a, b] for a in (1, 2) for b in (1, 2, 3)]
    else:
        pool = [[i] for i in range(1, 6)]
    rng.shuffle(pool)
    return pool[:n]


def random_rows(rng, shape, nrows, nkeys=None, max_tx=None, nvals=3, ops=(0, 1, 1, 2), p_null=0.25,
                p_repeat=0.5):
    """distinct (key, tx) pairs, interleaved entities; values drift so that repeats (A,B,A) occur"""
    nkeys = nkeys or rng.choice([1, 2, 2, 3, 4])
    keys = random_keys(rng, shape, nkeys)
    max_tx = max_tx or max(3, nrows)
    pairs = [(tuple(k), tx) for k in keys for tx in range(1, max_tx + 1)]
    rng.shuffle(pairs)
    pairs = sorted(pairs[:nrows], key=lambda p: (p[1], p[0]))
    rows = []
    last = {}
    for k, tx in pairs:
        if k in last and rng.random() < p_repeat:
            vals = list(last[k])
            if rng.random() < 0.6:
                i = rng.randrange(len(vals)) if vals else 0
                if vals:
                    vals[i] = None if rng.random() < p_null else rng.randrange(nvals)
        else:
            vals = [None if rng.random() < p_null else rng.randrange(nvals) for _ in range(shape.get('ncols', 2))]
        last[k] = vals
        rows.append([list(k), tx, None, rng.choice(ops), vals,
                     [False] * len(vals) if shape.get('mods') else []])
    rng.shuffle(rows)
    return rows, keys


def all_small_tables(nkeys, ntx, nvals, max_rows, ncols=1):
    """every table with up to max_rows rows over nkeys int keys x ntx ids x nvals values+NULL"""
    cells = [(k, tx) for k in range(1, nkeys + 1) for tx in range(1, ntx + 1)]
    values = [None] + list(range(nvals))
    for n in range(1, max_rows + 1):
        for subset in itertools.combinations(cells, n):
            for vals in itertools.product(values, repeat=n * ncols):
                yield [[[k], tx, None, 1, list(vals[i * ncols:(i + 1) * ncols]), []]
                       for i, (k, tx) in enumerate(subset)]
