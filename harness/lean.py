"""Lean side of the harness: build (flock-serialised), hygiene grep, axiom audit, generated
files, and the line-protocol driver."""
import fcntl
import hashlib
import json
import os
import re
import subprocess
import threading
import time

ROOT = os.path.dirname(os.path.dirname(os.path.abspath(__file__)))
LEAN_DIR = os.path.join(ROOT, 'lean')
WORK = os.path.join(ROOT, '.work')
ALLOWED_AXIOMS = {'propext', 'Classical.choice', 'Quot.sound'}
FORBIDDEN = re.compile(r'\b(sorry|admit|native_decide|bv_decide|implemented_by)\b|^\s*axiom\s|\bunsafe\s|maxHeartbeats\s+0\b')


class LeanError(Exception):
    """Harness trouble on the Lean side (exit 2)."""


class ProofBroken(Exception):
    """A proof obligation no longer checks (handled like a broken correspondence)."""

    def __init__(self, what, detail):
        Exception.__init__(self, what)
        self.what = what
        self.detail = detail


def _env():
    env = dict(os.environ)
    env.setdefault('LEAN_NUM_THREADS', '8')
    return env


def source_files():
    out = []
    for base, dirs, files in os.walk(LEAN_DIR):
        dirs[:] = [d for d in dirs if d not in ('.lake', 'build')]
        for f in sorted(files):
            if f.endswith('.lean'):
                out.append(os.path.join(base, f))
    return sorted(out)


def source_hash():
    h = hashlib.sha256()
    for p in source_files():
        h.update(p.encode())
        with open(p, 'rb') as fh:
            h.update(fh.read())
    return h.hexdigest()


def strip_comments(text):
    # remove /- ... -/ (nested not handled beyond one level, good enough for the grep) and -- ...
    text = re.sub(r'/-.*?-/', lambda m: '\n' * m.group(0).count('\n'), text, flags=re.S)
    text = re.sub(r'--.*', '', text)
    return text


def hygiene():
    """grep for forbidden constructs outside comments; returns list of hits"""
    hits = []
    for p in source_files():
        with open(p) as fh:
            txt = strip_comments(fh.read())
        for i, line in enumerate(txt.split('\n'), 1):
            if FORBIDDEN.search(line):
                hits.append('%s:%d: %s' % (os.path.relpath(p, ROOT), i, line.strip()))
    return hits


def build(timeout=1800):
    """`lake build` under an exclusive lock; returns wall seconds. Raises ProofBroken on failure."""
    os.makedirs(WORK, exist_ok=True)
    t0 = time.time()
    with open(os.path.join(WORK, 'lake.lock'), 'w') as lock:
        fcntl.flock(lock, fcntl.LOCK_EX)
        try:
            p = subprocess.run(['lake', 'build'], cwd=LEAN_DIR, env=_env(), stdout=subprocess.PIPE,
                               stderr=subprocess.STDOUT, timeout=timeout, text=True)
        except subprocess.TimeoutExpired:
            raise LeanError('lake build timed out')
        finally:
            fcntl.flock(lock, fcntl.LOCK_UN)
    if p.returncode != 0:
        raise ProofBroken('lake build failed', p.stdout[-4000:])
    if re.search(r"declaration uses 'sorry'|declaration uses `sorry`", p.stdout):
        raise ProofBroken('sorry in build', p.stdout[-4000:])
    return time.time() - t0


def check_file(path, timeout=900):
    """elaborate (kernel-check) one Lean file against the built library"""
    try:
        p = subprocess.run(['lake', 'env', 'lean', path], cwd=LEAN_DIR, env=_env(),
                           stdout=subprocess.PIPE, stderr=subprocess.STDOUT, timeout=timeout, text=True)
    except subprocess.TimeoutExpired:
        raise LeanError('lean %s timed out' % path)
    return p.returncode, p.stdout


def recheck(force=False):
    """thorough tier: replay every compiled module of the project through `leanchecker` (the
    toolchain's independent re-checker of .olean files); cached on the hash of the Lean sources.
    Returns the list of modules re-checked.  Raises ProofBroken if the re-checker rejects one."""
    os.makedirs(WORK, exist_ok=True)
    cache = os.path.join(WORK, 'recheck.json')
    h = source_hash()
    if not force and os.path.exists(cache):
        try:
            with open(cache) as fh:
                c = json.load(fh)
            if c.get('hash') == h:
                return c['modules']
        except Exception:
            pass
    lib = os.path.join(LEAN_DIR, '.lake', 'build', 'lib', 'lean')
    mods = []
    for base, dirs, files in os.walk(os.path.join(lib, 'Continuum')):
        for f in sorted(files):
            if f.endswith('.olean'):
                rel = os.path.relpath(os.path.join(base, f), lib)[:-len('.olean')]
                mods.append(rel.replace(os.sep, '.'))
    mods.sort()
    if not mods:
        raise ProofBroken('leanchecker: no compiled modules found', lib)
    try:
        p = subprocess.run(['lake', 'env', 'leanchecker'] + mods, cwd=LEAN_DIR, env=_env(), stdout=subprocess.PIPE,
                           stderr=subprocess.STDOUT, timeout=3000, text=True)
    except subprocess.TimeoutExpired:
        raise LeanError('leanchecker timed out')
    except FileNotFoundError:
        raise LeanError('leanchecker not on PATH')
    if p.returncode != 0 or 'exception' in p.stdout or 'error' in p.stdout.lower():
        raise ProofBroken('leanchecker rejects the compiled library', p.stdout[-3000:])
    with open(cache, 'w') as fh:
        json.dump({'hash': h, 'modules': mods}, fh)
    return mods


_AX_RE = re.compile(r"'([^']+)' depends on axioms: \[([^\]]*)\]|'([^']+)' does not depend on any axioms")


def audit(force=False):
    """`#print axioms` for every property theorem (lean/Continuum/Audit.lean); cached on the hash
    of the Lean sources.  Returns {theorem: [axioms]}.  Raises ProofBroken if an axiom outside the
    allowed set shows up."""
    os.makedirs(WORK, exist_ok=True)
    cache = os.path.join(WORK, 'audit.json')
    h = source_hash()
    if not force and os.path.exists(cache):
        try:
            with open(cache) as fh:
                c = json.load(fh)
            if c.get('hash') == h:
                return c['axioms']
        except Exception:
            pass
    hits = hygiene()
    if hits:
        raise ProofBroken('forbidden construct in Lean sources', '\n'.join(hits))
    rc, out = check_file(os.path.join(LEAN_DIR, 'Continuum', 'Audit.lean'))
    if rc != 0:
        raise ProofBroken('Audit.lean does not check', out[-4000:])
    axioms = {}
    for m in _AX_RE.finditer(out.replace('\n  ', ' ').replace('\n ', ' ')):
        if m.group(1):
            axioms[m.group(1)] = [a.strip() for a in m.group(2).split(',') if a.strip()]
        else:
            axioms[m.group(3)] = []
    badones = {k: v for k, v in axioms.items() if not set(v) <= ALLOWED_AXIOMS}
    if badones:
        raise ProofBroken('axioms outside the allowed set', json.dumps(badones))
    if not axioms:
        raise ProofBroken('audit produced no theorems', out[-2000:])
    with open(cache, 'w') as fh:
        json.dump({'hash': h, 'axioms': axioms}, fh)
    return axioms


class Driver(object):
    """Persistent `lake env lean --run Driver.lean` process.  `ask(lines, nq)` writes the lines and
    reads `nq` answer lines (one per query line)."""

    def __init__(self):
        self.p = subprocess.Popen(['lake', 'env', 'lean', '--run', 'Driver.lean'], cwd=LEAN_DIR,
                                  env=_env(), stdin=subprocess.PIPE, stdout=subprocess.PIPE,
                                  stderr=subprocess.PIPE, text=True, bufsize=1 << 16)
        self.lines_sent = 0

    def ask(self, lines, nq):
        data = ''.join(l + '\n' for l in lines)
        err = []

        def w():
            try:
                self.p.stdin.write(data)
                self.p.stdin.flush()
            except Exception as e:  # pragma: no cover
                err.append(e)
        th = threading.Thread(target=w)
        th.start()
        out = []
        for _ in range(nq):
            line = self.p.stdout.readline()
            if not line:
                th.join()
                raise LeanError('driver ended early: ' + (self.p.stderr.read() or '')[-2000:])
            out.append(line.rstrip('\n'))
        th.join()
        if err:
            raise LeanError('driver write failed: %r' % err[0])
        self.lines_sent += len(lines)
        return out

    def close(self):
        try:
            self.p.stdin.close()
        except Exception:
            pass
        try:
            self.p.wait(timeout=20)
        except Exception:
            self.p.kill()


def is_query(line):
    return line.startswith('q')
