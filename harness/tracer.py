"""Recording the listener-level event trace of a real run, and dumping the state continuum keeps.

`CfgInfo(env)` derives, from the REAL mappers and version tables, the configuration the Lean
model takes as input (class ids, attribute lists, exclusion masks, relationships, per-table
column maps).  `Tracer(env, info)` attaches its own listeners (registered after continuum's, so
they run after them) and records the event stream in the wire format of the Lean driver.
Dumps go through the raw sqlite3 connection, so they fire no SQLAlchemy event at all.
"""
import sqlalchemy as sa
from sqlalchemy import event
from sqlalchemy.orm import Mapper

import sqlalchemy_continuum as sc
from sqlalchemy_continuum import versioning_manager

from . import envs


def enc_val(v, typ):
    if v is None:
        return None
    if typ == 'int':
        return int(v)
    if typ == 'bool':
        return bool(v)
    return 's%d' % v


def dec_val(v):
    """value -> interned int (ints stay, 's<n>' -> n, discriminator strings -> stable small ints)"""
    if v is None:
        return None
    if isinstance(v, bool):
        return int(v)
    if isinstance(v, int):
        return v
    if isinstance(v, str):
        if v[:1] in ('s', 'k') and v[1:].lstrip('-').isdigit():
            return int(v[1:])
        return 1000 + sum(ord(ch) * (i + 1) for i, ch in enumerate(v)) % 9000
    raise ValueError('cannot intern %r' % (v,))


def fmt_list(l):
    return ','.join(str(x) for x in l) if l else '-'


def fmt_vals(l):
    return fmt_list(['N' if v is None else v for v in l])


def fmt_bools(l):
    return fmt_list([1 if b else 0 for b in l])


class CfgInfo(object):
    def __init__(self, env):
        self.env = env
        spec = env.spec
        m = versioning_manager
        self.class_names = [c['name'] for c in spec['classes']]
        self.cid = {n: i for i, n in enumerate(self.class_names)}
        self.attrs = {}          # class -> [attr keys] (mapper column attrs)
        self.attr_types = {}
        self.pk_attrs = {}
        self.rels = {}           # class -> [(key, dir, [local attr idx], excluded)]
        self.versioned = {}
        self.tables = {}         # class -> [(tid, [attr idx or None])]
        self.vtables = []        # tid -> dict(name, table, pk_cols, cols, mod_cols, validity)
        self.live_tables = []    # (class name owning it, table)
        self.assoc = {}          # live assoc table name -> dict(tid, vtable, cols)
        vt_ids = {}
        self.tx_col = m.options['transaction_column_name']
        self.end_col = m.options['end_transaction_column_name']
        self.op_col = m.options['operation_type_column_name']
        for cname in self.class_names:
            cls = env.classes[cname]
            mapper = sa.inspect(cls)
            keys = list(mapper.columns.keys())
            self.attrs[cname] = keys
            self.attr_types[cname] = []
            for k in keys:
                t = mapper.columns[k].type
                self.attr_types[cname].append('int' if isinstance(t, sa.Integer) else ('bool' if isinstance(t, sa.Boolean) else 'str'))
            self.pk_attrs[cname] = [mapper.get_property_by_column(c).key for c in mapper.primary_key]
            versioned = envs.is_versioned_class(spec, cname) and env.versioned
            self.versioned[cname] = versioned
            excl, incl = [], []
            if versioned:
                excl = list(m.option(cls, 'exclude'))
                incl = list(m.option(cls, 'include'))
            self.excl = getattr(self, 'excl', {})
            self.incl = getattr(self, 'incl', {})
            self.excl[cname] = [k in excl for k in keys]
            self.incl[cname] = [k in incl for k in keys]
            rels = []
            for r in mapper.relationships:
                if r.key in ('versions', 'transaction'):
                    pass
                loc = []
                for c in r.local_columns:
                    try:
                        loc.append(keys.index(mapper.get_property_by_column(c).key))
                    except Exception:
                        pass
                rels.append((r.key, r.direction.name, sorted(loc), (r.key in excl) and (r.key not in incl)))
            self.rels[cname] = rels
            tabs = []
            if versioned and m.options['versioning']:
                vcls = sc.version_class(cls)
                seen = set()
                for V in reversed(vcls.__mro__):
                    if V in m.parent_class_map:
                        vt = V.__table__
                        if vt.name in seen:
                            continue
                        seen.add(vt.name)
                        P = m.parent_class_map[V]
                        pt = P.__table__
                        strategy = m.option(P, 'strategy')
                        end_col = m.option(P, 'end_transaction_column_name')
                        if vt.name not in vt_ids:
                            names = [c.name for c in vt.c]
                            pkc = [c.name for c in vt.c if c.primary_key and c.name != self.tx_col]
                            cols = [n for n in names if n not in pkc and n not in (self.tx_col, end_col, self.op_col)
                                    and not (n.endswith('_mod') and n[:-4] in names)]
                            vt_ids[vt.name] = len(self.vtables)
                            pol = sa.inspect(P).polymorphic_on
                            disc = cols.index(pol.name) if pol is not None and getattr(pol, 'table', None) is pt and pol.name in cols else None
                            self.vtables.append({'name': vt.name, 'table': vt, 'pk_cols': pkc, 'cols': cols,
                                                 'mods': [c + '_mod' for c in cols] if cols and all((c + '_mod') in names for c in cols) else [],
                                                 'validity': strategy == 'validity' and end_col in names, 'end_col': end_col,
                                                 'parent_table': pt, 'disc': disc})
                        info = self.vtables[vt_ids[vt.name]]
                        amap = []
                        for cn in info['cols']:
                            try:
                                amap.append(keys.index(mapper.get_property_by_column([c for c in pt.c if c.name == cn][0]).key))
                            except Exception:
                                amap.append(None)
                        tabs.append((vt_ids[vt.name], amap))
            self.tables[cname] = tabs
        # live tables (one entry per distinct table), owned by the first class mapping it
        seen = set()
        for cname in self.class_names:
            t = env.classes[cname].__table__
            if t.name not in seen:
                seen.add(t.name)
                self.live_tables.append((cname, t))
        for a in spec.get('assoc') or []:
            t = env.tables[a['name']]
            try:
                vt = sc.utils.version_table(t)
            except Exception:
                vt = None
            self.assoc[a['name']] = {'tid': len(self.assoc), 'table': t, 'vtable': vt,
                                     'cols': [c[0] for c in a['cols']]}
        self.strategy = m.options['strategy']
        self.plugins = list(spec.get('plugins') or [])

    # -- wire -----------------------------------------------------------------------------------
    def cfg_lines(self):
        m = versioning_manager
        lines = ['cfg %s %d %d %d' % (self.strategy, 'null_delete' in self.plugins, 'mod_tracker' in self.plugins,
                                      'tx_changes' in self.plugins)]
        for cname in self.class_names:
            rels = ';'.join('%s:%s:%d' % ({'ONETOMANY': 'o2m', 'MANYTOONE': 'm2o', 'MANYTOMANY': 'm2m'}[d],
                                          fmt_list(loc), 1 if ex else 0) for (_, d, loc, ex) in self.rels[cname]) or '-'
            tabs = ';'.join('%d:%s' % (tid, fmt_list(['N' if a is None else a for a in amap]))
                            for tid, amap in self.tables[cname]) or '-'
            lines.append('cls %d %d %s %s %s %s' % (1 if self.versioned[cname] else 0, len(self.attrs[cname]),
                                                    fmt_bools(self.excl[cname]), fmt_bools(self.incl[cname]), rels, tabs))
        for name, a in sorted(self.assoc.items(), key=lambda kv: kv[1]['tid']):
            if a['table'] in m.association_tables:
                lines.append('assoctbl %d' % a['tid'])
        for tid, vt in enumerate(self.vtables):
            if vt.get('disc') is not None:
                lines.append('nullkeep %d %d' % (tid, vt['disc']))      # polymorphic discriminator column
        return lines


PROBING = False


class Tracer(object):
    def __init__(self, env, info, session=None):
        self.env = env
        self.info = info
        self.s = session or env.s
        self.lines = []
        self.events = 0
        self.tags = set()
        self.attached = []
        self.in_flush = False
        self._by_table = {a['table']: a for a in info.assoc.values()}

    # -- attach ----------------------------------------------------------------------------------
    def attach(self):
        L = [(self.s, 'before_flush', self.on_before_flush), (self.s, 'after_flush', self.on_after_flush),
             (self.s, 'before_commit', self.on_before_commit),
             (self.s, 'after_commit', self.on_commit), (self.s, 'after_rollback', self.on_rollback),
             (Mapper, 'after_insert', self.on_insert), (Mapper, 'after_update', self.on_update),
             (Mapper, 'after_delete', self.on_delete),
             (self.env.engine, 'before_execute', self.on_execute)]
        for tgt, name, fn in L:
            event.listen(tgt, name, fn)
            self.attached.append((tgt, name, fn))

    def detach(self):
        for tgt, name, fn in self.attached:
            try:
                event.remove(tgt, name, fn)
            except Exception:
                pass
        self.attached = []

    # -- readers ---------------------------------------------------------------------------------
    def cname(self, obj):
        n = type(obj).__name__
        return n if n in self.info.cid else None

    def pk_of(self, obj, cname):
        return [dec_val(getattr(obj, k)) for k in self.info.pk_attrs[cname]]

    def vals_of(self, obj, cname, connection=None):
        """the values the object's row holds, WITHOUT touching the object's load state (an ORM attribute access would
        load expired / deferred / never-set attributes and hide exactly the situations in which continuum has to
        load them itself): what is in the instance dict is taken from there, the rest is read from the row with
        a Core statement on the flush's connection (None if the row is gone or no connection is given)"""
        st = sa.inspect(obj)
        attrs = self.info.attrs[cname]
        out, missing = [], []
        for k in attrs:
            if k in st.dict:
                out.append(dec_val(st.dict[k]))
            else:
                out.append(None)
                missing.append(k)
        if missing and connection is not None:
            m = st.mapper
            global PROBING
            PROBING = True          # the recorder's own statement: not a statement of the program (fault injection skips it)
            try:
                ident = st.identity if st.identity is not None else m.primary_key_from_instance(obj)
                row = connection.execute(
                    sa.select(*[m.get_property(k).columns[0] for k in missing]).select_from(m.selectable).where(
                        sa.and_(*[c == v for c, v in zip(m.primary_key, ident)]))).first()
            except Exception:
                row = None
            finally:
                PROBING = False
            if row is not None:
                for k, v in zip(missing, row):
                    out[attrs.index(k)] = dec_val(v)
        return out

    def col_flags(self, obj, cname, connection=None, probe=False):
        """which column attributes changed.  SQLAlchemy's history is taken as it is when it knows the old value.  When an
        attribute of a PERSISTENT object was assigned without the old value being known (an expired attribute without
        active_history: history = added only) SQLAlchemy reports a change whatever the value; the recorder then compares
        with the stored row itself - continuum switches active_history on for every versioned attribute precisely so that
        such an assignment of the same value is NO change, and the model must not take the library's word for it"""
        st = sa.inspect(obj)
        attrs = self.info.attrs[cname]
        flags, unknown = [], []
        for k in attrs:
            h = st.attrs[k].history
            ch = h.has_changes()
            flags.append(ch)
            if ch and h.added and not h.deleted and st.persistent and id(obj) not in getattr(self, '_tx_inserted', ()):
                # (an object INSERTed in this very transaction without the attribute has no loader for it: SQLAlchemy
                # itself reports an assignment of None to it as a change, with or without active_history - left alone)
                unknown.append(k)
        if unknown and not probe:
            # inside the flush (the row may be written already): the verdict of before_flush stands
            for k in unknown:
                if (id(obj), k) in getattr(self, '_phantom', {}):
                    flags[attrs.index(k)] = False
        elif unknown and connection is not None:
            m = st.mapper
            global PROBING
            PROBING = True
            try:
                row = connection.execute(
                    sa.select(*[m.get_property(k).columns[0] for k in unknown]).select_from(m.selectable).where(
                        sa.and_(*[c == v for c, v in zip(m.primary_key, st.identity)]))).first()
            except Exception:
                row = None
            finally:
                PROBING = False
            if row is not None:
                for k, v in zip(unknown, row):
                    if v == st.attrs[k].history.added[0]:
                        flags[attrs.index(k)] = False
                        self._phantom[(id(obj), k)] = True
        return flags

    def rel_flags(self, obj, cname):
        st = sa.inspect(obj)
        return [st.attrs[r[0]].history.has_changes() for r in self.info.rels[cname]]

    def _probe_connection(self, session):
        try:
            return session.connection() if session.in_transaction() else None
        except Exception:
            return None

    def emit(self, line):
        self.lines.append(line)
        self.events += 1
        # the recorder's own view of "association statements waiting / current transaction" follows savepoints
        if line == 'ev spbegin':
            self._sp_view = getattr(self, '_sp_view', []) + [(getattr(self, 'pending_assoc', 0), getattr(self, 'last_cur', 0))]
        elif line in ('ev spcommit', 'ev sprollback') and getattr(self, '_sp_view', None):
            view = self._sp_view.pop()
            if line == 'ev sprollback':
                self.pending_assoc, self.last_cur = view
        elif line in ('ev commit', 'ev rollback'):
            self._sp_view = []
            self._tx_inserted = set()
        elif line.startswith('ev manualtx ') or line.startswith('ev latetx '):
            self.last_cur = int(line.split(' ')[2])

    # -- listeners -------------------------------------------------------------------------------
    def _uow(self):
        m = versioning_manager
        try:
            conn = self.s.connection() if self.s.in_transaction() else None
        except Exception:
            conn = None
        if conn is not None and conn in m.units_of_work:
            return m.units_of_work[conn]
        return None

    def cur_tx_id(self):
        u = self._uow()
        if u is None or u.current_transaction is None:
            return None
        ident = sa.inspect(u.current_transaction).identity
        if ident:
            return ident[0]
        return u.current_transaction.__dict__.get('id')

    def on_before_flush(self, session, ctx, instances):
        self._phantom = {}
        views = []
        plugin_mod = False
        for o in session:
            cn = self.cname(o)
            if cn is None:
                # a PENDING activity makes the session modified (ActivityPlugin.is_session_modified)
                if type(o).__name__ == 'Activity' and o in session.new:
                    plugin_mod = True
                continue
            views.append('%d:%d:%d:%s:%s' % (self.info.cid[cn], o in session.new, o in session.deleted,
                                             fmt_bools(self.col_flags(o, cn, self._probe_connection(session), probe=True)),
                                             fmt_bools(self.rel_flags(o, cn))))
        views.sort()
        new_id = self.cur_tx_id() or 0
        self.emit('ev bf %d %d %s' % (new_id, 1 if plugin_mod else 0, ';'.join(views) or '-'))
        self.in_flush = True
        self.bf_pos = len(self.lines)
        self.bf_cur = new_id
        if new_id:
            self.last_cur = new_id

    def on_after_flush(self, session, ctx):
        cur = self.cur_tx_id() or 0
        if getattr(self, 'bf_cur', 0) == 0 and cur != 0 and getattr(self, 'in_flush', False):
            # continuum created the transaction record inside after_flush (rows of versioned classes written by
            # the flush itself, e.g. a foreign key nulled because a non-versioned parent was deleted).  The model
            # creates it at the START of such a flush (nothing observable lies in between): the event is inserted
            # right after the `bf` line.
            self.lines.insert(self.bf_pos, 'ev latetx %d' % cur)
            self.events += 1
        self.emit('ev af')
        self.in_flush = False
        if cur:
            self.pending_assoc = 0      # without a transaction record nothing is written; the statements keep waiting
        self.last_cur = cur

    def on_before_commit(self, session):
        """continuum (whose before_commit listener ran first) versions the association statements executed since
        the last flush - Core statements - at commit, creating the transaction record if there is none yet.  The
        model is shown that as a late transaction record + an after-flush processing step."""
        if not getattr(self, 'pending_assoc', 0):      # (fires for the release of a savepoint as well)
            return
        cur = self.cur_tx_id() or 0
        if getattr(self, 'last_cur', 0) == 0 and cur != 0:
            self.emit('ev latetx %d' % cur)
        self.emit('ev af')
        self.pending_assoc = 0
        self.last_cur = cur

    def on_commit(self, session):
        if session.in_nested_transaction():
            self.emit('ev spcommit')
        else:
            self.emit('ev commit')
            self.pending_assoc = 0
            self.last_cur = 0

    def on_rollback(self, session):
        if session.in_nested_transaction():
            self.emit('ev sprollback')
        else:
            self.emit('ev rollback')
            self.pending_assoc = 0
            self.last_cur = 0

    def on_insert(self, mapper, connection, target):
        cn = self.cname(target)
        if cn is None:
            return
        if not hasattr(self, '_tx_inserted'):
            self._tx_inserted = set()
        self._tx_inserted.add(id(target))
        self.emit('ev ins %d %s %s %s' % (self.info.cid[cn], fmt_list(self.pk_of(target, cn)),
                                          fmt_vals(self.vals_of(target, cn, connection)), fmt_bools(self.col_flags(target, cn, connection))))

    def on_update(self, mapper, connection, target):
        cn = self.cname(target)
        if cn is None:
            return
        st = sa.inspect(target)
        if st.pending:
            # a row switch: this object enters the database in this transaction just like an INSERTed one
            if not hasattr(self, '_tx_inserted'):
                self._tx_inserted = set()
            self._tx_inserted.add(id(target))
        ck = set(st.committed_state.keys())
        # (covers SQLAlchemy's "row switch" too: the columns a still pending object never set are read from the row)
        vals = self.vals_of(target, cn, connection)
        self.emit('ev upd %d %s %s %s %s %s %s' % (
            self.info.cid[cn], fmt_list(self.pk_of(target, cn)), fmt_vals(vals),
            fmt_bools(self.col_flags(target, cn, connection)), fmt_bools(self.rel_flags(target, cn)),
            fmt_bools([k in ck for k in self.info.attrs[cn]]),
            fmt_bools([r[0] in ck for r in self.info.rels[cn]])))

    def on_delete(self, mapper, connection, target):
        cn = self.cname(target)
        if cn is None:
            return
        self.emit('ev del %d %s %s' % (self.info.cid[cn], fmt_list(self.pk_of_deleted(target, cn)),
                                       fmt_vals(self.vals_of(target, cn, connection))))

    def pk_of_deleted(self, obj, cname):
        ident = sa.inspect(obj).identity
        if ident is not None:
            return [dec_val(x) for x in ident]
        return self.pk_of(obj, cname)

    def on_execute(self, conn, clauseelement, multiparams, params, execution_options):
        if isinstance(clauseelement, str):
            return
        t = getattr(clauseelement, 'table', None)
        if t is None or t not in self._by_table:
            return
        if clauseelement.is_insert:
            op = 0
        elif clauseelement.is_delete:
            op = 2
        else:
            return
        a = self._by_table[t]
        plist = multiparams if multiparams else [params]
        if plist and isinstance(plist[0], (list, tuple)) and plist[0] and isinstance(plist[0][0], dict):
            plist = plist[0]
        inline = {}
        if op == 0:
            # insert().values(...): the values are part of the statement
            try:
                inline = {k: v for k, v in clauseelement.compile().params.items() if v is not None and k in a['cols']}
            except Exception:
                inline = {}
        elif getattr(clauseelement, 'whereclause', None) is not None:
            # delete().where(t.c.article_id == 1, t.c.tag_id == 2): the recorder reads the literals out of the
            # statement independently of the library (compiled parameters are named after their columns: article_id_1)
            try:
                for k, v in clauseelement.compile().params.items():
                    base = k.rsplit('_', 1)[0]
                    if v is not None and base in a['cols'] and k not in a['cols']:
                        inline[base] = v
            except Exception:
                inline = {}
        links = []
        for p in plist:
            p = dict(inline, **(p or {}))
            links.append(fmt_list([dec_val(p[c]) for c in a['cols']]))
        self.emit('ev assoc %d %d %s' % (a['tid'], op, ';'.join(links) or '-'))
        if not getattr(self, 'in_flush', False):
            self.pending_assoc = getattr(self, 'pending_assoc', 0) + len(links)

    # -- dumps -----------------------------------------------------------------------------------
    def raw(self):
        return self.env.conn.connection.dbapi_connection

    def q(self, sql):
        cur = self.raw().execute(sql)
        rows = cur.fetchall()
        cur.close()
        return rows

    def dump_versions(self):
        """canonical rows 'tid pk tx end op vals mods' of every version table, sorted"""
        out = []
        info = self.info
        for tid, vt in enumerate(info.vtables):
            cols = vt['pk_cols'] + [info.tx_col] + ([vt['end_col']] if vt['validity'] else []) + [info.op_col] + vt['cols'] + vt['mods']
            sql = 'SELECT %s FROM %s' % (', '.join('"%s"' % c for c in cols), self._tname(vt['table']))
            for r in self.q(sql):
                r = list(r)
                npk = len(vt['pk_cols'])
                pk = [dec_val(x) for x in r[:npk]]
                tx = r[npk]
                i = npk + 1
                end = None
                if vt['validity']:
                    end = r[i]
                    i += 1
                op = r[i]
                i += 1
                vals = [dec_val(x) for x in r[i:i + len(vt['cols'])]]
                mods = [bool(x) for x in r[i + len(vt['cols']):]]
                out.append('%d %s %d %s %d %s %s' % (tid, fmt_list(pk), tx, 'N' if end is None else end, op,
                                                     fmt_vals(vals), fmt_bools(mods)))
        out.sort()
        return out

    def _tname(self, t):
        return ('%s."%s"' % (t.schema, t.name)) if t.schema else '"%s"' % t.name

    def dump_txs(self):
        return sorted(r[0] for r in self.q('SELECT id FROM "transaction"'))

    def dump_tx_attrs(self):
        """plugin-supplied attribute of every transaction record + the stamps the harness plugin handed out"""
        sp = self.env.plugins.get('stamp')
        if sp is None:
            return None
        return {'rows': sorted([r[0], r[1]] for r in self.q('SELECT id, remote_addr FROM "transaction"')),
                'issued': list(sp.issued)}

    def dump_assoc(self):
        out = []
        for name, a in self.info.assoc.items():
            if a['vtable'] is None:
                continue
            cols = a['cols'] + [self.info.tx_col, self.info.op_col]
            for r in self.q('SELECT %s FROM %s' % (', '.join('"%s"' % c for c in cols), self._tname(a['vtable']))):
                out.append('%d %s %d %d' % (a['tid'], fmt_list([dec_val(x) for x in r[:len(a['cols'])]]), r[-2], r[-1]))
        out.sort()
        return out

    def dump_links(self):
        out = []
        for name, a in self.info.assoc.items():
            for r in self.q('SELECT %s FROM %s' % (', '.join('"%s"' % c for c in a['cols']), self._tname(a['table']))):
                out.append('%d %s' % (a['tid'], fmt_list([dec_val(x) for x in r])))
        out.sort()
        return out

    def dump_changes(self):
        if 'tx_changes' not in self.info.plugins:
            return []
        out = []
        for tx, name in self.q('SELECT transaction_id, entity_name FROM transaction_changes'):
            out.append('%d %d' % (tx, self.info.cid.get(name, 999)))
        out.sort()
        return out

    def dump_live(self):
        """live rows 'tableindex pk vals' by SQL (independent of the ORM state)"""
        out = []
        for i, (cname, t) in enumerate(self.info.live_tables):
            pk = [c.name for c in t.c if c.primary_key]
            other = [c.name for c in t.c if not c.primary_key]
            for r in self.q('SELECT %s FROM %s' % (', '.join('"%s"' % c for c in pk + other), self._tname(t))):
                out.append('%d %s %s' % (i, fmt_list([dec_val(x) for x in r[:len(pk)]]),
                                         fmt_vals([dec_val(x) for x in r[len(pk):]])))
        out.sort()
        return out

    def manager_state(self):
        m = versioning_manager
        u = None
        for conn, uow in m.units_of_work.items():
            if conn is self.env.conn:
                u = uow
        d = {'n_uow': len(m.units_of_work), 'n_scm': len(m.session_connection_map)}
        if u is not None:
            cur = None
            if u.current_transaction is not None:
                ident = sa.inspect(u.current_transaction).identity
                cur = ident[0] if ident else u.current_transaction.__dict__.get('id')
            ops = []
            for (cls, ident), op in u.operations.items():
                ops.append('%d:%s:%d:%d' % (self.info.cid.get(cls.__name__, 999), fmt_list([dec_val(x) for x in ident]),
                                            op.type, 1 if op.processed else 0))
            vobjs = []
            for vkey in u.version_objs.keys():
                try:
                    (vcls, vid) = vkey
                    pc = m.parent_class_map[vcls].__name__
                    vobjs.append('%d:%s:%d' % (self.info.cid.get(pc, 999), fmt_list([dec_val(x) for x in vid[:-1]]), vid[-1]))
                except Exception:
                    # not a (version class, identity + transaction id) key: report it verbatim (the model has no such entry)
                    vobjs.append('unexpected:%s' % repr(vkey)[:80].replace(' ', '_'))
            d.update({'cur': cur, 'ops': ops, 'vobjs': sorted(vobjs), 'pending': len(u.pending_statements),
                      'lookup': bool(getattr(u, 'lookup_version_objs', False))})
        return d
