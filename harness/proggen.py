"""Seeded generation of (spec, program) cases for the trace-level checks."""
from . import envs


import os
# rolling back a savepoint inside which something was flushed was the open finding F-SP (fixed in /repo 16dd45a);
# VERIF_SP_STRICT=1 restores the old generator rule (such savepoints are released instead)
SP_ANY = os.environ.get('VERIF_SP_STRICT') != '1'
# row switches were the open finding F-ROWSWITCH (fixed in /repo); VERIF_ROWSWITCH_STRICT=1 keeps them out again
ROWSWITCH_STRICT = os.environ.get('VERIF_ROWSWITCH_STRICT') == '1'
# re-creating a key as another class of its hierarchy within one transaction is the open finding F-CLASSSWITCH-TX
# (kept out of the random stream; VERIF_CLASSSWITCH_ANY=1 lets the generators produce it)
CLASSSWITCH_STRICT = os.environ.get('VERIF_CLASSSWITCH_ANY') != '1'


def entity_info(spec):
    """{class: {'pk': [types], 'attrs': [(attr, type)] settable non-key attributes (incl. inherited),
    'scalar_rels': [(rel, target)], 'coll_rels': [(rel, target)]}} for instantiable classes"""
    out = {}
    backrefs = []
    for c in spec['classes']:
        chain = []
        x = c
        while True:
            chain.append(x)
            if not x.get('parent'):
                break
            x = envs.class_spec(spec, x['parent'])
        chain.reverse()
        pk = []
        attrs = []
        for x in chain:
            for col in x['columns']:
                a = col.get('attr', col['name'])
                if col.get('pk'):
                    if x is chain[0]:
                        pk.append(col.get('type', 'str'))
                elif col.get('discriminator') or col.get('fk') or col.get('auto'):
                    continue
                else:
                    attrs.append((a, col.get('type', 'str')))
        srels, crels = [], []
        for x in chain:
            for r in x.get('rels') or []:
                if r['kind'] in ('m2o',):
                    srels.append((r['name'], r['target']))
                    if r.get('backref'):
                        backrefs.append((r['target'], r['backref'], c['name']))
                elif r['kind'] in ('o2m', 'm2m'):
                    crels.append((r['name'], r['target']))
                    if r.get('backref') and r['kind'] == 'm2m':
                        backrefs.append((r['target'], r['backref'], c['name']))
        out[c['name']] = {'pk': pk, 'attrs': attrs, 'scalar_rels': srels, 'coll_rels': crels}
    for tgt, name, src in backrefs:
        out[tgt]['coll_rels'].append((name, src))
    return out


def random_spec(rng, shapes=None, strategy=None, plugins=None):
    shapes = shapes or ['articles', 'articles', 'articles_excl', 'composite', 'strkey', 'aliased', 'joined', 'joined3',
                        'single', 'm2m', 'comment', 'nvparent', 'm2m_self']
    shape = rng.choice(shapes)
    opts = {'strategy': strategy or rng.choice(['validity', 'validity', 'subquery'])}
    if rng.random() < 0.15:
        opts['transaction_column_name'] = 'tx_id'
        opts['end_transaction_column_name'] = 'end_tx_id'
    if rng.random() < 0.12:
        opts['operation_type_column_name'] = 'op_type'
    if rng.random() < 0.12:
        opts['table_name'] = '%s_history'
    if plugins is None:
        plugins = []
        if rng.random() < 0.25:
            plugins.append('null_delete')
        if rng.random() < 0.3:
            plugins.append('mod_tracker')
        if rng.random() < 0.3:
            plugins.append('tx_changes')
    if shape == 'articles':
        spec = envs.shape_articles(opts, plugins=plugins)
    elif shape == 'articles_excl':
        ex = rng.choice([['secret'], ['secret', 'content'], ['name'], ['secret']])
        inc = rng.choice([[], [], ['secret']])
        spec = envs.shape_articles(opts, exclude=ex, include=inc, plugins=plugins)
    elif shape == 'comment':
        spec = envs.shape_articles(opts, exclude=rng.choice([[], ['secret']]), with_comment=True, plugins=plugins)
    elif shape == 'strkey':
        spec = envs.shape_articles(opts, key='str', plugins=plugins)
    elif shape == 'aliased':
        spec = envs.shape_articles(opts, aliased=rng.choice([True, True, 'clash']), exclude=rng.choice([[], ['secret']]), plugins=plugins)
    elif shape == 'composite':
        spec = envs.shape_composite_t(opts, plugins=plugins)
    elif shape == 'joined':
        spec = envs.shape_joined(opts, 2, plugins=plugins)
    elif shape == 'joined3':
        spec = envs.shape_joined(opts, 3, plugins=plugins)
    elif shape == 'single':
        spec = envs.shape_single(opts, plugins=plugins)
    elif shape == 'm2m':
        spec = envs.shape_m2m(opts, plugins=plugins)
    elif shape == 'm2m_self':
        spec = envs.shape_m2m_self(opts, plugins=plugins)
    elif shape == 'nvparent':
        spec = envs.shape_nvparent(opts, plugins=plugins)
    else:
        raise ValueError(shape)
    spec['shape'] = shape
    if shape in ('joined', 'joined3') and rng.random() < 0.3:
        # the root class loads its subclass tables eagerly (continuum copies the setting to the version classes)
        spec['classes'][0]['with_polymorphic'] = '*'
    if shape in ('articles', 'articles_excl', 'comment', 'joined', 'joined3') and rng.random() < 0.2:
        # a deferred column (loaded only on access): `content` of the class that has one
        for c in spec['classes']:
            for col in c['columns']:
                if col['name'] == 'content':
                    col['deferred'] = True
    # (columns with a Python-side / server-side default are the open finding F-DEFAULT: pinned in corpus/C01, kept out of
    # the random stream)
    if opts['strategy'] == 'validity' and rng.random() < 0.1:
        # class-level override of the end-transaction column name (children inherit __versioned__)
        for c in spec['classes']:
            if c.get('versioned') is not None:
                c['versioned'] = dict(c['versioned'], end_transaction_column_name='valid_until')
    return spec


STEP_WEIGHTS = {
    'add': 5, 'set': 8, 'set_same': 2, 'set_null': 2, 'del': 3, 'readd': 2, 'setrel': 3, 'link': 3, 'unlink': 2,
    'flush': 5, 'commit': 5, 'rollback': 1, 'query': 1, 'expire': 0, 'expunge': 1, 'core_link': 1, 'manual_tx': 0, 'sp_begin': 0, 'sp_commit': 0, 'sp_rollback': 0,
}


def random_program(rng, spec, nsteps, weights=None, nkeys=3, nvals=4, allow_class_switch=False, autoflush=False):
    """The generator keeps a shadow of which entities exist so that most steps are applicable."""
    info = entity_info(spec)
    w = dict(STEP_WEIGHTS)
    w.update(weights or {})
    kinds = [k for k, v in w.items() for _ in range(v)]
    classes = list(info)
    exists = {}       # (root-ish) (cls, pk) -> True
    class_of = {}     # (root class, pk) -> concrete class first used (a key keeps its class for life)
    shadow = {}       # (cls, pk, attr) -> val
    prog = []
    deleted_uncommitted = set()
    committed_exists = {}
    committed_class_of = {}
    tx_dirty = False              # something versioned was changed since the last flush
    tx_versioned_flush = False    # a flush with versioned changes happened in this database transaction
    core_linked = set()
    sp_open = [0]
    sp_stack = []
    sp_exists = [{}]
    sp_flushed = [False]
    deleted_unflushed = set()   # root keys deleted since the last flush: re-adding them now is a "row switch"
                                # (delete + insert of one key in one flush, turned into an UPDATE by SQLAlchemy)

    def rand_pk(cname):
        return [rng.randrange(1, nkeys + 1) for _ in info[cname]['pk']]

    def root(cname):
        c = envs.class_spec(spec, cname)
        while c.get('parent'):
            c = envs.class_spec(spec, c['parent'])
        return c['name']

    def existing(cname=None):
        ks = [k for k in exists if cname is None or k[0] == cname or
              (root(k[0]) == root(cname) and _is_sub(spec, k[0], cname))]
        return rng.choice(ks) if ks else None

    for _ in range(nsteps):
        kind = rng.choice(kinds)
        if autoflush and sp_open[0]:
            # with an autoflushing session any load inside the savepoint may flush (only matters under VERIF_SP_STRICT)
            sp_flushed[0] = True
        if kind in ('add', 'readd'):
            cname = rng.choice(classes)
            pk = rand_pk(cname)
            if any(root(k[0]) == root(cname) and list(k[1]) == pk for k in exists):
                continue
            # W7: within one database transaction a key keeps its class (re-creating it as another class
            # of the same hierarchy is allowed only after the deletion was committed)
            prev = class_of.get((root(cname), tuple(pk)))
            if prev is not None and prev != cname and (((root(cname), tuple(pk)) in deleted_uncommitted and CLASSSWITCH_STRICT) or not allow_class_switch):
                cname = prev
            class_of[(root(cname), tuple(pk))] = cname
            if (root(cname), tuple(pk)) in deleted_unflushed and (ROWSWITCH_STRICT or rng.random() < 0.5):
                # half of the re-adds of a key deleted since the last flush get a flush in between; the other half
                # are SQLAlchemy "row switches" (DELETE + INSERT of one key in one flush become an UPDATE)
                prog.append(['flush'])
                sp_flushed[0] = True
                deleted_unflushed.clear()
            attrs = {}
            for a, t in info[cname]['attrs']:
                if rng.random() < 0.6:
                    attrs[a] = rng.randrange(nvals)
            prog.append(['add', cname, pk, attrs])
            tx_dirty = True
            exists[(cname, tuple(pk))] = True
            for a, v in attrs.items():
                shadow[(cname, tuple(pk), a)] = v
        elif kind in ('set', 'set_same', 'set_null'):
            k = existing()
            if k is None or not info[k[0]]['attrs']:
                continue
            a, t = rng.choice(info[k[0]]['attrs'])
            if kind == 'set_same':
                v = shadow.get((k[0], k[1], a))
            elif kind == 'set_null':
                v = None
            else:
                v = rng.randrange(nvals)
            prog.append(['set', k[0], list(k[1]), a, v])
            shadow[(k[0], k[1], a)] = v
        elif kind == 'expunge':
            k = existing()
            if k is None:
                continue
            prog.append(['expunge', k[0], list(k[1])])
        elif kind == 'del':
            k = existing()
            if k is None:
                continue
            prog.append(['del', k[0], list(k[1])])
            del exists[k]
            deleted_unflushed.add((root(k[0]), k[1]))
            deleted_uncommitted.add((root(k[0]), k[1]))
        elif kind == 'setrel':
            cands = [c for c in classes if info[c]['scalar_rels']]
            if not cands:
                continue
            k = existing(rng.choice(cands))
            if k is None:
                continue
            rel, tgt = rng.choice(info[k[0]]['scalar_rels'])
            tk = existing(tgt) if rng.random() < 0.8 else None
            prog.append(['setrel', k[0], list(k[1]), rel, tgt, list(tk[1]) if tk else None])
        elif kind in ('link', 'unlink', 'core_link'):
            cands = [c for c in classes if info[c]['coll_rels']]
            if not cands:
                continue
            k = existing(rng.choice(cands))
            if k is None:
                continue
            rel, tgt = rng.choice(info[k[0]]['coll_rels'])
            tk = existing(tgt)
            if tk is None:
                continue
            if kind == 'core_link':
                # a Core INSERT on the association table: only for many-to-many relationships and once per pair (the
                # ORM collection does not know about the row); at any point of a transaction, also as its only statement
                spec_rel = [r for c in spec['classes'] for r in (c.get('rels') or []) if r.get('secondary')]
                pair = tuple(sorted([(k[0], tuple(k[1])), (tk[0], tuple(tk[1]))]))
                if not spec_rel or pair in core_linked:
                    continue
                core_linked.add(pair)
                if rng.random() < 0.5:
                    prog.append(['flush'])
                prog.append([kind, k[0], list(k[1]), rel, tk[0], list(tk[1]), rng.choice(['params', 'values'])])
                tx_dirty = True
                continue
            if tuple(sorted([(k[0], tuple(k[1])), (tk[0], tuple(tk[1]))])) in core_linked:
                continue        # the row is there already (Core statement), the ORM collection does not know
            prog.append([kind, k[0], list(k[1]), rel, tk[0], list(tk[1])])
            tx_dirty = True
        elif kind == 'sp_begin':
            # savepoints nest up to two levels
            if sp_open[0] < (2 if SP_ANY else 1):
                prog.append(['sp_begin'])
                sp_open[0] += 1
                sp_flushed[0] = False
                sp_stack.append((dict(exists), dict(class_of), set(deleted_unflushed), set(deleted_uncommitted)))
        elif kind == 'sp_commit':
            if sp_open[0] >= 1:
                prog.append(['sp_commit'])
                sp_open[0] -= 1
                sp_stack.pop()
        elif kind == 'sp_rollback':
            if sp_open[0] >= 1:
                # VERIF_SP_STRICT=1: a savepoint inside which something was flushed is released, not rolled back
                # (what the generators did while F-SP was open)
                rb = not sp_flushed[0] or SP_ANY
                prog.append(['sp_rollback'] if rb else ['sp_commit'])
                sp_open[0] -= 1
                snap = sp_stack.pop()
                if rb:
                    # back to the shadow at SAVEPOINT
                    exists, class_of = dict(snap[0]), dict(snap[1])
                    deleted_unflushed, deleted_uncommitted = set(snap[2]), set(snap[3])
        elif kind == 'rollback':
            sp_open[0] = 0
            del sp_stack[:]
            prog.append(['rollback'])
            # back to the shadow of the last commit (existence and class of every key)
            exists = dict(committed_exists)
            class_of = dict(committed_class_of)
            deleted_unflushed.clear()
            deleted_uncommitted.clear()
        else:
            if kind == 'commit':
                while sp_open[0]:
                    prog.append(['sp_commit'])
                    sp_open[0] -= 1
                del sp_stack[:]
            prog.append([kind])
            if kind in ('flush', 'commit') and tx_dirty:
                tx_versioned_flush = True
                tx_dirty = False
            if kind in ('commit', 'rollback'):
                tx_versioned_flush = False
                tx_dirty = False
            if kind in ('flush', 'query'):
                sp_flushed[0] = True
            if kind in ('flush', 'commit', 'rollback'):
                deleted_unflushed.clear()
            if kind in ('commit', 'rollback'):
                deleted_uncommitted.clear()
            if kind == 'commit':
                committed_exists = dict(exists)
                committed_class_of = dict(class_of)
    while sp_open[0]:
        prog.append(['sp_commit'])
        sp_open[0] -= 1
    prog.append(['commit'])
    return prog


def _is_sub(spec, sub, sup):
    c = envs.class_spec(spec, sub)
    while True:
        if c['name'] == sup:
            return True
        if not c.get('parent'):
            return False
        c = envs.class_spec(spec, c['parent'])


def core_sp_case(rng):
    """Core statements on the association table around savepoints: executed before / inside a savepoint, flushed or
    not before the savepoint ends, the savepoint released or rolled back, with or without a versioned flush before"""
    spec = envs.shape_m2m({'strategy': rng.choice(['validity', 'subquery'])}, plugins=[])
    spec['shape'] = 'm2m'
    style = lambda: rng.choice(['params', 'values'])
    prog = [['add', 'Article', [1], {'name': 1}], ['add', 'Tag', [1], {'name': 1}], ['add', 'Tag', [2], {'name': 1}],
            ['add', 'Tag', [3], {'name': 1}], ['commit']]
    if rng.random() < 0.7:
        prog += [['set', 'Article', [1], 'name', 2], ['flush']]
    if rng.random() < 0.5:
        prog += [['core_link', 'Article', [1], 'tags', 'Tag', [3], style()]]
    prog += [['sp_begin'], ['core_link', 'Article', [1], 'tags', 'Tag', [1], style()]]
    if rng.random() < 0.4:
        prog += [['set', 'Tag', [1], 'name', 2], ['flush']]
    prog += [rng.choice([['sp_rollback'], ['sp_rollback'], ['sp_commit']])]
    if rng.random() < 0.5:
        prog += [['core_link', 'Article', [1], 'tags', 'Tag', [2], style()]]
    if rng.random() < 0.6:
        prog += [['set', 'Article', [1], 'name', 3]]
    prog += [['commit'], ['set', 'Tag', [2], 'name', 3], ['commit']]
    return {'spec': spec, 'autoflush': False, 'program': prog, 'family': 'core_statements_and_savepoints'}


def core_cancel_case(rng):
    """a Core statement on the association table in a transaction whose commit has something to flush that changes
    nothing versioned in the end (a link added and taken back, a same-value assignment)"""
    spec = envs.shape_m2m({'strategy': rng.choice(['validity', 'subquery'])}, plugins=[])
    spec['shape'] = 'm2m'
    style = lambda: rng.choice(['params', 'values'])
    prog = [['add', 'Article', [1], {'name': 1}], ['add', 'Tag', [1], {'name': 1}], ['add', 'Tag', [2], {'name': 1}], ['commit'],
            ['core_link', 'Article', [1], 'tags', 'Tag', [1], style()]]
    k = rng.random()
    if k < 0.5:
        prog += [['link', 'Article', [1], 'tags', 'Tag', [2]], ['unlink', 'Article', [1], 'tags', 'Tag', [2]]]
    elif k < 0.8:
        prog += [['set', 'Tag', [2], 'name', 1]]
    prog += [['commit'], ['core_unlink', 'Article', [1], 'tags', 'Tag', [1], style()]]
    if rng.random() < 0.5:
        prog += [['link', 'Tag', [2], 'articles', 'Article', [1]], ['unlink', 'Tag', [2], 'articles', 'Article', [1]]]
    prog += [['commit'], ['link', 'Article', [1], 'tags', 'Tag', [1]], ['commit']]
    return {'spec': spec, 'autoflush': False, 'program': prog, 'family': 'core_statement_and_cancelling_orm_changes'}


def sp_then_touch_case(rng):
    """entities versioned by a flush, then one or two savepoints rolled back (side by side or nested; empty, or with a
    flush inside), flushes that touch OTHER entities, and at last the first entities are changed or deleted again in
    the same transaction: every (entity, transaction) has one version row, whatever the unit of work still remembers"""
    spec = envs.shape_articles({'strategy': rng.choice(['validity', 'subquery'])},
                               plugins=rng.choice([[], [], ['mod_tracker'], ['tx_changes']]))
    spec['shape'] = 'articles'
    prog = [['add', 'Article', [1], {'name': 1}], ['add', 'Article', [2], {'name': 1}], ['add', 'Tag', [1], {'name': 1}],
            ['add', 'Tag', [2], {'name': 1}], ['commit']]
    if rng.random() < 0.3:
        prog += [['set', 'Tag', [2], 'name', 5], ['commit']]
    prog += [['set', 'Article', [1], 'name', 2]]
    if rng.random() < 0.5:
        prog += [['set', 'Tag', [1], 'name', 2]]
    prog += [['flush']]

    def body(n):
        b = []
        if rng.random() < 0.6:
            b += [rng.choice([['set', 'Tag', [2], 'name', 10 + n], ['set', 'Article', [2], 'name', 10 + n],
                              ['set', 'Article', [1], 'name', 10 + n], ['add', 'Tag', [5 + n], {'name': 1}]])]
            if rng.random() < 0.7:
                b += [['flush']]
        return b
    k = rng.random()
    if k < 0.4:        # two savepoints side by side
        prog += [['sp_begin']] + body(0) + [['sp_rollback']]
        if rng.random() < 0.3:
            prog += [['set', 'Article', [2], 'name', 3], ['flush']]
        prog += [['sp_begin']] + body(1) + [rng.choice([['sp_rollback'], ['sp_rollback'], ['sp_commit']])]
    elif k < 0.7:      # nested, inner first
        prog += [['sp_begin']] + body(0) + [['sp_begin']] + body(1) + [rng.choice([['sp_rollback'], ['sp_commit']]), ['sp_rollback']]
    else:              # one savepoint
        prog += [['sp_begin']] + body(0) + [['sp_rollback']]
    # flushes that do not touch the entities versioned first
    for _ in range(rng.choice([0, 1, 1, 2])):
        prog += [rng.choice([['set', 'Tag', [2], 'name', rng.randrange(20, 24)], ['set', 'Article', [2], 'name', rng.randrange(20, 24)],
                             ['add', 'Tag', [9], {'name': 1}]]), ['flush']]
        if prog[-2][0] == 'add':
            break
    prog += [rng.choice([['set', 'Article', [1], 'name', 4], ['del', 'Article', [1]], ['set', 'Article', [1], 'content', 1]])]
    if rng.random() < 0.5:
        prog += [['flush'], ['set', 'Tag', [1], 'name', 6]]
    prog += [['commit'], ['set', 'Article', [2], 'name', 30], ['commit']]
    return {'spec': spec, 'autoflush': False, 'program': prog, 'family': 'savepoints_then_touch_again'}


def same_value_inherited_case(rng):
    """an instance of a SUBCLASS (joined / single-table), expired by a commit or rollback, gets an attribute declared on
    the BASE class (or on itself) assigned the value it already has - alone, or next to a real change of another entity:
    no version for the untouched one"""
    kind = rng.choice(['joined', 'joined3', 'single'])
    opts = {'strategy': rng.choice(['validity', 'subquery'])}
    if kind == 'single':
        spec = envs.shape_single(opts, plugins=rng.choice([[], ['mod_tracker']]))
    else:
        spec = envs.shape_joined(opts, levels=3 if kind == 'joined3' else 2, plugins=rng.choice([[], ['mod_tracker']]))
    spec['shape'] = 'single' if kind == 'single' else 'joined'
    sub = rng.choice(['Article', 'BlogPost']) if kind != 'joined' else 'Article'
    own = {'Article': 'content', 'BlogPost': 'title'}[sub]
    prog = [['add', sub, [1], {'name': 1, own: 2}], ['add', 'TextItem', [2], {'name': 1}], ['commit']]
    for _ in range(rng.choice([1, 2, 3])):
        k = rng.random()
        if k < 0.5:
            prog += [['set', sub, [1], 'name', 1]]                    # base-class attribute, same value
        elif k < 0.7:
            prog += [['set', sub, [1], own, 2]]                       # own attribute, same value
        else:
            prog += [['set', sub, [1], 'name', 1], ['set', 'TextItem', [2], 'name', rng.randrange(3, 9)]]
        if rng.random() < 0.4:
            prog += [['flush']]
        prog += [rng.choice([['commit'], ['commit'], ['rollback']])]
    prog += [['set', sub, [1], 'name', 7], ['commit']]
    return {'spec': spec, 'autoflush': False, 'program': prog, 'family': 'same_value_on_expired_subclass_instance'}


def repeated_takeover_case(rng):
    """ONE transaction in which the row of one key changes hands several times: delete + re-add in one flush (the new
    object takes the row over and keeps the columns it never set), delete / flush / re-add (a real INSERT: those columns
    are NULL now), a column set on the new holder and flushed, another take-over ... - the version row holds the LAST state"""
    spec = envs.shape_articles({'strategy': rng.choice(['validity', 'subquery'])},
                               plugins=rng.choice([[], [], ['mod_tracker'], ['null_delete']]))
    spec['shape'] = 'articles'
    prog = [['add', 'Article', [1], {'name': 1, 'content': 5}], ['commit']]
    if rng.random() < 0.5:
        prog += [['set', 'Article', [1], 'name', 2], ['flush']]
    n = 2
    for _ in range(rng.choice([2, 3, 4])):
        k = rng.random()
        n += 1
        if k < 0.45:      # take-over in one flush
            prog += [['del', 'Article', [1]], ['add', 'Article', [1], {'name': n}], ['flush']]
        elif k < 0.8:     # delete, flush, re-insert
            prog += [['del', 'Article', [1]], ['flush'], ['add', 'Article', [1], {'name': n}], ['flush']]
        else:             # the holder sets the column itself
            prog += [['set', 'Article', [1], 'content', 10 + n], ['flush']]
    prog += [['commit'], ['set', 'Article', [1], 'name', 40], ['commit']]
    return {'spec': spec, 'autoflush': False, 'program': prog, 'family': 'row_changes_hands_repeatedly'}
