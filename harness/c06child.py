"""Child process of the C06 kill runs: runs the committed prefix on a database FILE, records what
every continuum table holds, then runs the transaction program and dies (os._exit) at statement n."""
import json
import os
import sys


def main():
    casefile, dbpath = sys.argv[1], sys.argv[2]
    with open(casefile) as fh:
        case = json.load(fh)
    from harness import envs, program
    from harness.props.c06 import Injector
    env = envs.Env(case['spec'], db_path=dbpath, autoflush=bool(case.get('autoflush')))
    r = program.ProgramRunner(env)
    r.run(case['prefix'])
    # every table of the database, raw
    raw = env.conn.connection.dbapi_connection
    names = [x[0] for x in raw.execute("SELECT name FROM sqlite_master WHERE type='table' ORDER BY name")]
    pre = {t: sorted(repr(tuple(x)) for x in raw.execute('SELECT * FROM "%s"' % t)) for t in names}
    with open(os.path.join(os.path.dirname(casefile), 'pre.json'), 'w') as fh:
        json.dump(pre, fh)
    inj = Injector(env.engine)
    inj.kill_at = case['fault']
    inj.active = True
    r.run(case['tx'], first=False, stop_on_error=False, label='tx ')
    # the kill point was not reached (e.g. the program flushed less this time)
    os._exit(3)


if __name__ == '__main__':
    main()
