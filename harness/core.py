"""Generic check runner: build + audit, generate cases, run the real code, ask the Lean driver,
judge, shrink, match known findings, write evidence, print the verdict."""
import hashlib
import json
import multiprocessing as mp
import os
import random
import sys
import time
import traceback

from . import lean

ROOT = lean.ROOT
TRUSTED_BASE_COMMON = [
    'Lean 4.33 kernel',
    'axioms allowed in property theorems: propext, Classical.choice, Quot.sound (audited with #print axioms on every run; no native_decide / bv_decide / sorry)',
    'hand-written Lean model of the code (tied to /repo only by the correspondence check of this run)',
    'Python harness: generators, canonicalisation (string interning, row sorting), SQLite 3.40 as the only DBMS',
]


class HarnessTrouble(Exception):
    pass


class Outcome(object):
    """What judging one case produced."""

    def __init__(self):
        self.violations = []     # [{'clause': str, 'detail': ...}] property fails on the REAL code
        self.mismatches = []     # [{'stream': str, 'impl': ..., 'model': ...}] model != implementation
        self.tags = []           # branch tags for the distribution
        self.nontrivial = False
        self.key = None          # canonical string for distinctness


class Prop(object):
    id = None
    level = 'proof'
    theorems = []              # names that must appear in the axiom audit
    assumptions = []
    rule = ''
    needs_tags = []            # tags the quick tier must hit (generator regression guard)
    workers = 12
    chunk = 4

    def counts(self, tier):
        raise NotImplementedError

    def corpus(self):
        """hand-written + minimised past failures, run first"""
        d = os.path.join(ROOT, 'corpus', self.id)
        out = []
        if os.path.isdir(d):
            for f in sorted(os.listdir(d)):
                if f.endswith('.json'):
                    with open(os.path.join(d, f)) as fh:
                        c = json.load(fh)
                    c.setdefault('origin', 'corpus/' + f)
                    out.append(c)
        return out

    def gen(self, rng, tier):
        raise NotImplementedError

    def run_case(self, case):
        """executes the real code; returns a JSON-serialisable observation"""
        raise NotImplementedError

    def lean_lines(self, case, obs):
        """lines for the driver; query lines start with 'q'"""
        raise NotImplementedError

    def judge(self, case, obs, answers):
        raise NotImplementedError

    def shrinks(self, case):
        """smaller variants of a failing case (generic delta debugging driver below)"""
        return []

    def signature(self, case, obs, violation):
        """string matched against known_findings.json"""
        return violation['clause']

    def directed(self, case, obs, mismatch):
        """cases derived from an input on which model and implementation disagree, tried when the random
        stream found no failing input (e.g. the same history continued with more versioned work)"""
        return []

    def extra_obligations(self, ctx):
        """generated Lean files etc.; returns (obligations, discharged, notes); may raise ProofBroken"""
        return 0, 0, []


def _quiet_unraisable(*a):
    pass


def _worker(args):
    prop, case = args
    sys.unraisablehook = _quiet_unraisable   # SQLAlchemy state GC noise after forced rollbacks
    try:
        return ('ok', prop.run_case(case))
    except Exception as e:
        tb = traceback.extract_tb(e.__traceback__)
        text = '%s: %s\n%s' % (type(e).__name__, e, traceback.format_exc()[-3000:])
        if any('/sqlalchemy_continuum/' in f.filename for f in tb):
            # the code under test raised: that is an observation about the code, not harness trouble
            return ('raised', {'type': type(e).__name__, 'msg': str(e)[:300], 'traceback': text[-1500:]})
        return ('err', text)


def case_hash(case):
    return hashlib.sha1(json.dumps(case, sort_keys=True, default=str).encode()).hexdigest()[:12]


class Runner(object):
    def __init__(self, prop, tier, seed, replay=None):
        self.prop = prop
        self.tier = tier
        self.seed = seed
        self.replay = replay
        self.driver = None
        self.t0 = time.time()

    # -- lean ---------------------------------------------------------------------------------
    def prepare_lean(self):
        lean.build()
        axioms = lean.audit()
        missing = [t for t in self.prop.theorems if t not in axioms]
        if missing:
            raise lean.ProofBroken('property theorems missing from the audit', ', '.join(missing))
        self.axioms = {t: axioms[t] for t in self.prop.theorems}
        self.rechecked = lean.recheck() if self.tier == 'thorough' else None

    def ask(self, case, obs):
        lines = self.prop.lean_lines(case, obs)
        nq = sum(1 for l in lines if lean.is_query(l))
        if self.driver is None:
            self.driver = lean.Driver()
        answers = self.driver.ask(['reset'] + lines, nq)
        for a in answers:
            if a == 'bad-op':
                raise HarnessTrouble('driver answered bad-op for case %s' % case_hash(case))
        return answers

    def evaluate(self, case, obs=None):
        if obs is None:
            st, obs = _worker((self.prop, case))
            if st == 'raised':
                out = Outcome()
                out.violations.append({'clause': '%s.continuum_raised:%s' % (self.prop.id, obs['type']), 'detail': obs})
                return obs, out
            if st != 'ok':
                raise HarnessTrouble(obs)
        answers = self.ask(case, obs)
        return obs, self.prop.judge(case, obs, answers)

    # -- shrinking ----------------------------------------------------------------------------
    def shrink(self, case, clause, budget=150):
        best = case
        improved = True
        n = 0
        while improved and n < budget:
            improved = False
            for cand in self.prop.shrinks(best):
                n += 1
                if n > budget:
                    break
                try:
                    obs, out = self.evaluate(cand)
                except HarnessTrouble:
                    continue
                if any(v['clause'] == clause for v in out.violations):
                    best = cand
                    improved = True
                    break
        return best

    # -- main ---------------------------------------------------------------------------------
    def run(self):
        prop = self.prop
        rng = random.Random(self.seed)
        ev = {'property_id': prop.id, 'tier': self.tier, 'seed': self.seed, 'level': prop.level}
        findings = load_findings()
        proof_problem = None
        try:
            self.prepare_lean()
            ob, dis, notes = prop.extra_obligations(self)
        except lean.ProofBroken as e:
            proof_problem = e
            self.axioms = {}
            ob, dis, notes = 0, 0, []
            # the model itself may still be runnable; if not, we cannot search
        cases = prop.corpus()
        ncorpus = len(cases)
        if self.replay:
            with open(self.replay) as fh:
                rp = json.load(fh)
            cases = [rp['case'] if 'case' in rp else rp]
            ncorpus = 0
        else:
            cases = cases + list(prop.gen(rng, self.tier))
        results = []
        tags = {}
        distinct = set()
        violations = []
        mismatches = []
        samples = []
        can_model = True
        if proof_problem is not None:
            # try to build at least the model files for the driver
            try:
                lean.check_file(os.path.join(lean.LEAN_DIR, 'Driver.lean'))
            except Exception:
                can_model = False
        with mp.get_context('fork').Pool(prop.workers, maxtasksperchild=150) as pool:
            it = pool.imap(_worker, [(prop, c) for c in cases], chunksize=prop.chunk)
            for case in cases:
                st, obs = next(it)
                if st == 'raised':
                    violations.append((case, obs, {'clause': '%s.continuum_raised:%s' % (prop.id, obs['type']), 'detail': obs}))
                    continue
                if st != 'ok':
                    raise HarnessTrouble('case %s: %s' % (case_hash(case), obs))
                if not can_model:
                    continue
                answers = self.ask(case, obs)
                out = prop.judge(case, obs, answers)
                for tg in out.tags:
                    tags[tg] = tags.get(tg, 0) + 1
                if out.nontrivial:
                    distinct.add(out.key or case_hash(case))
                if len(samples) < 4 and out.nontrivial:
                    samples.append({'case': case, 'observed': obs})
                for v in out.violations:
                    violations.append((case, obs, v))
                for m in out.mismatches:
                    mismatches.append((case, obs, m))
        # ---- directed search: correspondence broken but no failing input in the random stream
        directed_tried = 0
        if mismatches and can_model and not self.replay and not any(
                match_finding(findings, prop.id, prop.signature(c, o, v)) is None for c, o, v in violations):
            seen_c = set()
            for case, obs, m in mismatches[:12]:
                for cand in prop.directed(case, obs, m):
                    h = case_hash(cand)
                    if h in seen_c or directed_tried >= 60:
                        continue
                    seen_c.add(h)
                    directed_tried += 1
                    try:
                        obs2, out2 = self.evaluate(cand)
                    except HarnessTrouble:
                        continue
                    for v in out2.violations:
                        violations.append((cand, obs2, v))
        # ---- verdict
        lines = []
        exit_code = 0
        reported = set()
        os.makedirs(os.path.join(ROOT, 'replays', prop.id), exist_ok=True)
        seen_sigs = set()
        for case, obs, v in violations:
            sig = prop.signature(case, obs, v)
            if sig in seen_sigs:
                continue
            seen_sigs.add(sig)
            kf = match_finding(findings, prop.id, sig)
            if kf is not None:
                lines.append('KNOWN-FINDING: property=%s %s' % (prop.id, kf['what']))
                continue
            small = self.shrink(case, v['clause']) if not self.replay else case
            obs2, out2 = self.evaluate(small)
            vv = [x for x in out2.violations if x['clause'] == v['clause']] or [v]
            path = os.path.join('replays', prop.id, '%s.json' % case_hash(small))
            with open(os.path.join(ROOT, path), 'w') as fh:
                json.dump({'property': prop.id, 'kind': 'failing-input', 'clause': vv[0]['clause'],
                           'detail': vv[0].get('detail'), 'signature': sig, 'case': small, 'observed': obs2,
                           'rerun': './check %s --replay %s' % (prop.id, path)}, fh, indent=1, default=str)
            lines.append('VIOLATION property=%s replay=%s' % (prop.id, path))
            exit_code = 1
        if exit_code == 0 and (mismatches or proof_problem is not None) and not any(
                l.startswith('KNOWN-FINDING') for l in []):
            # the property is no longer SHOWN to hold; no failing input was found on the real code
            what = {}
            if proof_problem is not None:
                what['broken_proof_obligation'] = {'what': proof_problem.what, 'detail': proof_problem.detail}
            if mismatches:
                case, obs, m = mismatches[0]
                what['broken_correspondence'] = {'stream': m['stream'], 'implementation': m.get('impl'),
                                                 'model': m.get('model'), 'case': case, 'observed': obs,
                                                 'count': len(mismatches)}
            # mismatches that only concern inputs on which a known finding fires are not counted
            only_known = mismatches and proof_problem is None and all(
                self._mismatch_known(findings, c, o, m) for c, o, m in mismatches)
            if not only_known:
                path = os.path.join('replays', prop.id, 'unproved_%s.json' % hashlib.sha1(
                    json.dumps(what, sort_keys=True, default=str).encode()).hexdigest()[:10])
                with open(os.path.join(ROOT, path), 'w') as fh:
                    json.dump({'property': prop.id, 'kind': 'no-failing-input-found', 'what': what,
                               'searched': {'cases': len(cases), 'tier': self.tier, 'seed': self.seed}},
                              fh, indent=1, default=str)
                lines.append('VIOLATION property=%s replay=%s no-failing-input-found' % (prop.id, path))
                exit_code = 1
        # generator regression guard
        if not self.replay and exit_code == 0:
            missing = [t for t in prop.needs_tags if tags.get(t, 0) == 0]
            if missing:
                raise HarnessTrouble('generator regression: tags never hit: %s' % missing)
        wall = time.time() - self.t0
        if not self.replay:
            nthm = len(prop.theorems)
            cov = {
                'obligations': nthm + ob,
                'discharged': (len(self.axioms) + dis) if proof_problem is None else 0,
                'checker_cmd': 'cd lean && lake build && lake env lean Continuum/Audit.lean' + (
                    ' && lake env leanchecker <%d modules>' % len(self.rechecked) if getattr(self, 'rechecked', None) else ''),
                'trusted_base': TRUSTED_BASE_COMMON + ['%s: axioms %s' % (t, a) for t, a in sorted(self.axioms.items())] + notes + (
                    ['leanchecker re-checked %d compiled modules of the project' % len(self.rechecked)] if getattr(self, 'rechecked', None) else []),
                'evaluations': len(cases),
                'corpus_cases': ncorpus,
                'traces_validated_against_impl': len(cases),
                'distinct_nontrivial': len(distinct),
                'rule': prop.rule,
                'distribution': dict(sorted(tags.items())),
                'mismatches': len(mismatches),
                'samples': samples[:3] or [{'case': c} for c in cases[:1]],
            }
            ev.update({'coverage': cov, 'assumptions': prop.assumptions, 'wall_s': round(wall, 2),
                       'violations': sum(1 for l in lines if l.startswith('VIOLATION'))})
            os.makedirs(os.path.join(ROOT, 'evidence'), exist_ok=True)
            with open(os.path.join(ROOT, 'evidence', prop.id + '.json'), 'w') as fh:
                json.dump(ev, fh, indent=1, default=str)
        for l in lines:
            print(l)
        if self.replay:
            print('replay verdict: %s' % ('property violated on this input' if exit_code else 'property holds on this input'))
        else:
            print('%s %s: %d cases (%d corpus), %d distinct non-trivial, %d mismatches, %d violations, %.1fs' % (
                prop.id, self.tier, len(cases), ncorpus, len(distinct), len(mismatches),
                sum(1 for l in lines if l.startswith('VIOLATION')), wall))
        if self.driver is not None:
            self.driver.close()
        return exit_code

    def _mismatch_known(self, findings, case, obs, m):
        sig = m.get('signature')
        return sig is not None and match_finding(findings, self.prop.id, sig) is not None


def load_findings():
    p = os.path.join(ROOT, 'known_findings.json')
    if not os.path.exists(p):
        return []
    with open(p) as fh:
        return json.load(fh).get('findings', [])


def match_finding(findings, pid, sig):
    for f in findings:
        if f.get('status') == 'open' and (f['property'] == pid or pid in f.get('also_properties', [])) and f['signature'] == sig:
            return f
    return None


def main(argv, registry):
    import argparse
    ap = argparse.ArgumentParser()
    ap.add_argument('prop')
    ap.add_argument('--tier', default=os.environ.get('VERIF_TIER', 'quick'))
    ap.add_argument('--replay')
    ap.add_argument('--seed', type=int, default=None)
    a = ap.parse_args(argv)
    seed = a.seed if a.seed is not None else int(os.environ.get('VERIF_SEED', '0') or 0)
    if a.prop not in registry:
        print('unknown property %s' % a.prop)
        return 2
    prop = registry[a.prop]()
    try:
        return Runner(prop, a.tier, seed, a.replay).run()
    except (HarnessTrouble, lean.LeanError) as e:
        sys.stderr.write('HARNESS TROUBLE (%s): %s\n' % (a.prop, e))
        return 2
