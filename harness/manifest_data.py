"""Per-check texts for MANIFEST.json."""

COMMON_NOTE = ('Trusted: Lean 4.33 kernel; axioms propext/Classical.choice/Quot.sound only (audited every run, no '
               'native_decide/bv_decide/sorry); the hand-written Lean model, tied to /repo by the correspondence check '
               'of every run (same inputs through the real code on SQLite and through the model, outputs compared, and '
               'the Lean predicate the theorem is about evaluated on the implementation\'s answer); the Python harness '
               '(generators, canonicalisation). SQLite 3.40 is the only DBMS exercised. ')

TABLE_TECH = 'Lean 4 theorem over all version-table contents + differential correspondence check (real code vs Lean model, oracle = Lean Holds predicate)'

CHECKS = {
    'C08': {
        'text': 'Theorems c08_subquery / c08_validity / c08_strategies_agree prove, for every table satisfying the version primary key (and a well-formed chain under validity), every key type and every entity, that versions/index/next/previous as modelled satisfy C08.Holds. The model is tied to fetcher.py / model_builder.py by running the real accessors on directly-filled version tables and comparing; C08.Holds is also evaluated on the real answers.',
        'note': COMMON_NOTE + 'Modelled not verified: SQL semantics of the correlated min/max sub-queries and ORDER BY.',
        'technique': TABLE_TECH, 'engine': 'table-harness'},
    'C15': {
        'text': 'Theorems c15_changeset_mem/_nodup/_validity/_subquery characterise the changeset as exactly the differing columns against the preceding version under both strategies; c15_backfill proves the null-safe backfill recomputes exactly the expected flags on every chained table; c15_backfill_sql_ne_counterexample states the repaired defect formally. Tied to version.py / schema.py by differential runs on random tables with NULL transitions.',
        'note': COMMON_NOTE + 'Modelled not verified: SQL three-valued logic, outer join semantics.',
        'technique': TABLE_TECH, 'engine': 'table-harness'},
    'C16': {
        'text': 'Theorems c16_contract, c16_chain, c16_chain_of_wiped, c16_idempotent, c16_restores, c16_chain_unique prove for every table (any key type, any interleaving) that the backfill sets the min successor, leaves rows without successor untouched, yields a well-formed chain on open tables, is idempotent and restores a wiped validity table exactly. Tied to schema.update_end_tx_column by differential runs.',
        'note': COMMON_NOTE + 'Modelled not verified: SQL semantics of the correlated MIN sub-query and outer join; custom column names are renamings outside the model (covered by the correspondence runs).',
        'technique': TABLE_TECH, 'engine': 'table-harness'},
    'C19': {
        'text': 'Theorem c19_holds proves for every table satisfying the primary key that the single ordered pass deletes only rows data-equal to the immediately preceding surviving version of the same entity (first versions and real changes are kept); two counterexample theorems state the repaired defects (A,B,A; composite key) formally. Tied to utils.vacuum by differential runs.',
        'note': COMMON_NOTE + 'Modelled not verified: sqlalchemy_utils.naturally_equivalent (all non-primary-key columns), ORDER BY.',
        'technique': TABLE_TECH, 'engine': 'table-harness'},
    'C20': {
        'text': 'Theorem c20_count: the count equals the length of the versions collection for every key type (small, said plainly). The weight is in the correspondence: real count_versions on keys with quotes, backslashes, colons, percent signs, newlines, non-ASCII, composite keys and custom table names, compared with versions.count() and the model.',
        'note': COMMON_NOTE + 'String keys are interned for the Lean side (the model never inspects key contents).',
        'technique': TABLE_TECH, 'engine': 'table-harness'},
}

NOT_APPLICABLE = {}

ENGINES = [
    {'name': 'lean-model', 'path': 'lean/', 'serves_properties': sorted(CHECKS), 'kind_free_text': 'Lake project Continuum: model (core Lean), Spec (decidable Holds predicates), Props (theorems), Driver.lean (line protocol)'},
    {'name': 'table-harness', 'path': 'harness/props/tables.py', 'serves_properties': ['C08', 'C15', 'C16', 'C19', 'C20'], 'kind_free_text': 'fills real version tables directly, runs the real accessor/tool, compares with the Lean model'},
]

NOTES = 'See DESIGN.md. ./check <id> --tier quick|thorough; exit 0 ok, 1 VIOLATION, 2 harness trouble. known_findings.json lists repaired (fixed:) and open findings.'
