"""Per-check texts for MANIFEST.json."""

COMMON_NOTE = ('Trusted: Lean 4.33 kernel; axioms propext/Classical.choice/Quot.sound only (audited every run, no '
               'native_decide/bv_decide/sorry); the hand-written Lean model, tied to /repo by the correspondence check '
               'of every run (same inputs through the real code on SQLite and through the model, outputs compared, and '
               'the Lean predicate the theorem is about evaluated on the implementation\'s answer); the Python harness '
               '(generators, canonicalisation). SQLite 3.40 is the only DBMS exercised. ')

TABLE_TECH = 'Lean 4 theorem over all version-table contents + differential correspondence check (real code vs Lean model, oracle = Lean Holds predicate)'

CHECKS = {
    'C08': {
        'text': 'Theorems c08_subquery / c08_validity / c08_strategies_agree prove, for every table satisfying the version primary key (and a well-formed chain under validity), every key type and every entity, that versions/index/next/previous as modelled satisfy C08.Holds. The model is tied to fetcher.py / model_builder.py by running the real accessors on directly-filled version tables and comparing; C08.Holds is also evaluated on the real answers.',
        'note': COMMON_NOTE + 'Modelled not verified: SQL semantics of the correlated min/max sub-queries and ORDER BY.',
        'technique': TABLE_TECH, 'engine': 'table-harness'},
    'C15': {
        'text': 'Theorems c15_changeset_mem/_nodup/_validity/_subquery characterise the changeset as exactly the differing columns against the preceding version under both strategies; c15_backfill proves the null-safe backfill recomputes exactly the expected flags on every chained table; c15_backfill_sql_ne_counterexample states the repaired defect formally. Tied to version.py / schema.py by differential runs on random tables with NULL transitions.',
        'note': COMMON_NOTE + 'Modelled not verified: SQL three-valued logic, outer join semantics.',
        'technique': TABLE_TECH, 'engine': 'table-harness'},
    'C16': {
        'text': 'Theorems c16_contract, c16_chain, c16_chain_of_wiped, c16_idempotent, c16_restores, c16_chain_unique prove for every table (any key type, any interleaving) that the backfill sets the min successor, leaves rows without successor untouched, yields a well-formed chain on open tables, is idempotent and restores a wiped validity table exactly. Tied to schema.update_end_tx_column by differential runs.',
        'note': COMMON_NOTE + 'Modelled not verified: SQL semantics of the correlated MIN sub-query and outer join; custom column names are renamings outside the model (covered by the correspondence runs).',
        'technique': TABLE_TECH, 'engine': 'table-harness'},
    'C19': {
        'text': 'Theorem c19_holds proves for every table satisfying the primary key that the single ordered pass deletes only rows data-equal to the immediately preceding surviving version of the same entity (first versions and real changes are kept); two counterexample theorems state the repaired defects (A,B,A; composite key) formally. Tied to utils.vacuum by differential runs.',
        'note': COMMON_NOTE + 'Modelled not verified: sqlalchemy_utils.naturally_equivalent (all non-primary-key columns), ORDER BY.',
        'technique': TABLE_TECH, 'engine': 'table-harness'},
    'C20': {
        'text': 'Theorem c20_count: the count equals the length of the versions collection for every key type (small, said plainly). The weight is in the correspondence: real count_versions on keys with quotes, backslashes, colons, percent signs, newlines, non-ASCII, composite keys and custom table names, compared with versions.count() and the model.',
        'note': COMMON_NOTE + 'String keys are interned for the Lean side (the model never inspects key contents).',
        'technique': TABLE_TECH, 'engine': 'table-harness'},
}

TRACE_TECH = 'Lean 4 theorem by induction over the listener-event trace (invariant preserved by every well-formed event, any number of transactions/flushes/entities) + trace correspondence check (real SQLAlchemy+continuum run vs Lean step function, oracle = Lean Holds predicate on the real tables)'
TRACE_NOTE = COMMON_NOTE + ('Modelled not verified: SQLAlchemy\'s unit of work (the contract EvOK/WF: fresh increasing transaction ids, one mapper event per object per flush, history flags consistent with stored values, commit flushes first) - assumed by the theorems and monitored on every recorded trace; atomic commit/rollback of the DBMS. Single connection (C09 treats several). Savepoint rollback is excluded from WF (C06). About 10% of the generated cases run with the session joined into an external connection-level transaction (join_transaction_mode=create_savepoint), 10% of the validity cases with a class-level end_transaction_column_name, 12% with custom operation-type / transaction column names or a custom table_name. An exception raised by continuum inside a step is a failing input (<id>.continuum_raised:<Type>); after a broken correspondence a directed search continues the diverging history with more versioned work before no-failing-input-found is reported.')

CHECKS.update({
    'C02': {
        'text': 'Theorem c02_holds: for every configuration, every boundary state satisfying the invariant Inv and every well-formed event list, the database transaction the model performs satisfies C02.Holds (old records kept, at most one new record with a larger id, every new version/association row carries it, no dangling ids, no record without cause); inv_init/inv_step/inv_run prove Inv for every reachable state. Tied to unit_of_work.py/manager.py by replaying recorded listener traces through the model and comparing the transaction table and current-transaction bookkeeping after every step; C02.Holds is evaluated on the real tables per database transaction.',
        'note': TRACE_NOTE + ' Plugin-supplied transaction attributes (Flask / meta plugins) are not modelled.',
        'technique': TRACE_TECH, 'engine': 'trace-harness'},
    'C03': {
        'text': 'Theorem c03_chain: after every event of every well-formed trace from the empty database, under strategy=validity, every version table (each table of a joined hierarchy, keyed (table, primary key)) satisfies Chain (end id = next id of the same key, NULL exactly for the newest); the one-write lemma chain_writeVersion covers first and repeated writes in a transaction. Tied to update_version_validity / _transaction_id_subquery by trace correspondence on the (table,key,tx,end) skeleton after every flush and commit; Chain is evaluated on the real tables.',
        'note': TRACE_NOTE,
        'technique': TRACE_TECH, 'engine': 'trace-harness'},
    'C12': {
        'text': 'Theorem c12_derive_ok: for every well-formed single-table configuration the model derivation satisfies the decidable statement SchemaOK of C12 (name/schema, stripped parent columns, key + non-null transaction column, nullable rest, end column iff validity, operation type, flag columns, nothing else); c13_no_column, include_beats_exclude. The REAL builder output is (1) compared with the model, (2) judged by SchemaOK in the driver and (3) for a sample of configurations written into a generated Lean file where `SchemaOK cfg actual` is kernel-checked on every run (translation validation); plus create_all + NULL-row round trip and the inverse class maps.',
        'note': COMMON_NOTE + 'The universal claim over configurations of the REAL builder rests on the sampled correspondence; type identity through repr(type); single-table-inheritance extension step and the inheritance mapper arguments are covered by comparing final tables only.',
        'technique': 'Lean 4 theorem over all configurations of the model derivation + per-run kernel-checked translation validation of the real builder output (decide +kernel) + differential correspondence', 'engine': 'config-harness'},
})

CHECKS.update({
    'C01': {
        'text': 'Theorem c01_holds_corrected (clauses c01_newestIsLive, c01_removedIsDelete, c01_onlyRealChanges, c01_changedHasRow, c01_deleteVals, c01_pastKept): for every configuration (CfgOK, TablesNodup, ColsInRange), every boundary state in which the newest version of every live entity equals its live row, and every well-formed event list, the committed transaction satisfies all six clauses of C01.Holds; liveInv_after_commit_corrected / liveInv_after_rollback re-establish the boundary condition, so by induction it holds after every commit of every history (history_all). C01Cex proves the three added hypotheses are necessary. Tied to the code by trace correspondence on whole version tables after every step; C01.Holds is evaluated on the real version tables against the live tables read by SQL.',
        'note': TRACE_NOTE + ' Changes made behind the ORM\'s back (bulk query.update(), raw SQL, DB-side cascades) are outside the quantifier. Open finding F-ROWSWITCH (delete + re-add of one key in one flush) is listed in known_findings.json.',
        'technique': TRACE_TECH, 'engine': 'trace-harness'},
    'C04': {
        'text': 'Theorems c04_m2o / c04_o2m / c04_m2m: for every content of the version tables satisfying the version primary key, the three temporal join criteria yield exactly, for each related entity, its newest version at or before the owner\'s transaction, never a deleted one; c04_stable_step / c04_stable_run / c04_links_stable_step: what a committed id shows (lastTx, operation, values, link state) never changes in any well-formed continuation, which with C01 identifies the answer with the entities related at the end of that transaction. Tied to relationship_builder.py by (a) directly filled tables and (b) session histories whose relationships are compared with a reconstruction from per-commit SQL snapshots.',
        'note': TRACE_NOTE + ' Arbitrary custom primaryjoin rewriting (VersionExpressionReflector) and non-versioned targets are covered by correspondence on the standard foreign-key joins only; single-column endpoint keys.',
        'technique': 'Lean 4 theorems over all version-table contents + trace induction for stability + differential correspondence (tables and histories, reference reconstruction from snapshots)', 'engine': 'rel-harness'},
    'C06': {
        'text': 'Theorems c06_db_holds (whatever prefix of whatever flush was executed, after rollback the tables are those of the last commit), c06_as_if_never / c06_as_if_never_run (the state machine is back in exactly its starting state, so every continuation is versioned as if nothing had been attempted), c06_uow_gone, c06_savepoint_released / c06_savepoint_db / c06_savepoint_no_flush; c06_savepoint_counterexample states the open finding F-SP formally. Supported by fault enumeration on the real code: an OperationalError injected at EVERY statement boundary of generated transactions, four ways of ending the failed transaction (session.rollback(), session.close(), connection rollback, a reported disconnect = Connection.invalidate() on a file database followed by session.rollback()), retry compared with an uninterrupted twin, savepoint placements, and kill runs (os._exit at statement n on a database file).',
        'note': TRACE_NOTE + ' PARTIAL: atomicity of the DBMS rollback (SQLite journal) and the bytes on disk after process death cannot be exhibited by a theorem; they are exercised by the kill runs. Savepoint rollback after a versioned flush inside the savepoint is the open finding F-SP.',
        'technique': 'Lean 4 theorems over all event prefixes (rollback restores the committed snapshot and the initial unit-of-work state) + exhaustive statement-boundary fault injection and kill runs on the real code', 'engine': 'fault-harness'},
    'C11': {
        'text': 'Theorem c11_holds: for every configuration with distinct version tables per class, every boundary state and every well-formed event list (any number of flushes, any interleaving of entities, inserts / updates / deletes / re-inserts of one key), each entity with tracked events gets in each table of its hierarchy exactly one row stamped with the new transaction whose operation type is the value of the three-state automaton specOp on its events, whose values are those of its last tracked event and whose flags are the column-wise OR; c11_pk_unique, specOp_* transition lemmas, c11_holds_needs_hcfg (the table-distinctness hypothesis is necessary). Tied to operation.py / unit_of_work.py by trace correspondence on version rows, the operations dictionary and the version-object cache after every flush.',
        'note': TRACE_NOTE, 'technique': TRACE_TECH, 'engine': 'trace-harness'},
    'C13': {
        'text': 'Exclusion at every place that enumerates columns: schema (theorems c13_no_column, include_beats_exclude: an excluded column and its flag column never appear; include beats exclude), change detection and transaction creation (c01_onlyRealChanges: every row stamped by a transaction belongs to an entity with a real-change event under the exclusion masks; c02_holds: no record without cause). Checked on the real code with random exclude/include sets over plain and aliased columns and histories mixing excluded and versioned changes.',
        'note': TRACE_NOTE + ' Excluded relationships and revert (C05) are not part of this check yet.',
        'technique': TRACE_TECH, 'engine': 'trace-harness'},
    'C17': {
        'text': 'Theorem c17_holds: with the transaction-changes plugin, for every well-formed event list the change rows added by a committed transaction are exactly (new id, class of an entity with tracked events), without duplicates however many flushes occurred, and old rows are kept. Tied to plugins/transaction_changes.py by comparing the transaction_changes table with the model at every commit; Transaction.changed_entities / entity_names of every transaction record are compared with the version rows stamped with its id.',
        'note': TRACE_NOTE + ' changed_entities itself (one query per version class) is covered by the differential comparison, not by a theorem.',
        'technique': TRACE_TECH, 'engine': 'trace-harness'},
})

CHECKS.update({
    'C07': {
        'category': 'other',
        'text': 'Decided by differential twin runs: every generated program (incl. a malformed stream the database rejects, autoflush, link+unlink of one pair in one transaction, deletes of expired / partially loaded polymorphic objects) is executed with and without make_versioned and compared step by step (outcome of every step; application tables wherever a database transaction ends; the unversioned twin performs exactly the link/unlink operations the versioned run performed); 10% of the programs run with the session joined into an external transaction (create_savepoint); an exception coming out of sqlalchemy_continuum that the twin does not raise is a violation; after remove_versioning() further work must create no versioning rows, leave no listener and no manager state. The Lean contribution is only the model-level lemma c07_appData_step / c07_live_independent(_run): the model has no write path from versioning state to application data.',
        'note': COMMON_NOTE + 'PARTIAL by nature: the property is relational over two runs of Python code; a theorem about the model cannot exhibit an exception raised by listener code. continuum turns active_history on, which may move an autoflush to an earlier step: tables are therefore compared at transaction ends, not after every step. Open finding F-AH: with conflicting operations inside one transaction active_history changes what the ORM itself writes; a third run (no continuum, active_history switched on for the same attributes) decides by root cause whether a divergence is that finding or a new violation.',
        'technique': 'differential twin execution (with / without versioning) + Lean model-level non-interference lemma', 'engine': 'twin-harness'},
    'C09': {
        'text': 'Theorems c09_projection (for ANY number of sessions on connections of their own and ANY interleaving, what the manager holds for a connection equals the solo run of that connection\'s events - by induction over the interleaved list), c09_frame (an event touches only its own connection\'s state, its session\'s registration, and closed connections), c09_quiescent (when every connection\'s last event ended its transaction no unit of work and no registration is left); c09_shared_connection_counterexample shows what goes wrong when two sessions share one connection. Tied to manager.py by schedules on the real code: k in {2,3} sessions on own SQLite databases sharing the global manager, every step compared with the manager model, final per-session tables compared with solo runs, plus sequential connection re-use.',
        'note': TRACE_NOTE + ' Event-granularity interleavings only (no thread preemption inside a listener); isolation between uncommitted transactions on one database is the DBMS\'s job.',
        'technique': 'Lean 4 theorem by induction over interleaved event lists (any k) + schedule enumeration/sampling on the real code compared with the Lean manager model', 'engine': 'schedule-harness'},
    'C10': {
        'text': 'Theorems c10_holds / c10_linkInv_after_commit / c10_linkInv_after_rollback / c10_linkInv_init: for every well-formed event list (links added and removed in any number of flushes, several pairs per statement, a pair changed several times) the association-version rows replay to exactly the link set the statements produce, old rows are kept, every touched link has exactly one row stamped with the new transaction whose type is that of its last change, untouched links have none; by induction after every commit of every history; with c04_links_stable_step the replay up to any past transaction is final. c10_no_error; c10_twice_counterexample states the repaired defect F-M2M formally. Tied to manager.track_association_operations / create_association_versions by trace correspondence; the live association table is read by SQL and compared with the statements replayed.',
        'note': TRACE_NOTE + ' That the association table contains what the INSERT/DELETE statements say is DBMS semantics (checked by SQL each run).',
        'technique': TRACE_TECH, 'engine': 'trace-harness'},
})

CHECKS.update({
    'C18': {
        'text': 'Theorems c18_flush (a flush stamps exactly the pending activities with the current transaction and the newest version of object and target, stored activities untouched), c18_stable (whatever happens in any later flush of any later transaction, a stored activity is never changed), c18_points_as_of (the pointer is the greatest id not newer than the current transaction), c18_no_spurious, c18_restamp_counterexample (the repaired defect F-ACT formally); c02_holds for "old activities create no transaction record". Tied to plugins/activity.py by session programs in which activities stay referenced across later transactions; the activity table is dumped after every step and judged by C18.Holds with the version rows visible when the flush started.',
        'note': TRACE_NOTE + ' The activity model is a small separate state machine; generic_relationship and JSON data columns of the plugin are not modelled. Activities are added after their object\'s changes were flushed (as the property says).',
        'technique': TRACE_TECH, 'engine': 'trace-harness'},
})

CHECKS.update({
    'C05': {
        'text': 'Theorems c05_target / c05_delete_target (after the revert the entity\'s versioned columns are the version\'s values, a DELETE version leaves it absent - also when it is absent already), c05_target_frame (no other row is touched when no relationship is named), c05_o2m / c05_o2m_frame (a named one-to-many relationship is restored to the set the version shows: children removed since come back with the values of their as-of version, children added since go away, nothing else changes), c05_m2m / c05_m2m_frame / c05_m2m_idem_eq (a named many-to-many relationship: the parent's links become exactly the shown ones, every shown entity carries its as-of values, links of other parents and tables and other rows stay, reverting twice changes nothing more; c05r_m2m_consistent_iff shows the hypothesis is exact), c05_m2o / c05_m2o_frame (many-to-one) over the row-level model of the reverter; that the revert is itself versioned is history_all. Tied to reverter.py by replaying every history on a fresh database for EVERY version row as target x {no relationship, each first-level relationship}, reverting, committing and judging the rows before/after with the Lean C05 predicates, the related set being computed by the Lean relationship model from the version tables.',
        'note': TRACE_NOTE + ' PARTIAL: nested / cyclic relation paths are decided by the correspondence runs only; for many-to-many / many-to-one the model functions revertM2M / revertM2O are run by the driver on the rows and links dumped BEFORE the revert and compared with the implementation's links and related rows afterwards, and the real result is judged by C05.M2MHolds / C05.M2OHolds.',
        'technique': 'Lean 4 theorems over the row-level revert model + exhaustive per-version-row differential runs judged by Lean predicates', 'engine': 'revert-harness'},
})

CHECKS.update({
    'C14': {
        'text': 'Theorem c14_equiv_first_partial: for every WellFormed trigger program and every row event that is the first event on its row in the transaction, on every version table carrying the invariants the object path maintains, the trigger leaves exactly the table the object-based path leaves (values, operation type, validity bounds, flags); c14_silent (nothing without an active transaction id or for an update that changes nothing outside the excluded columns); c14_sync_excluded; sampleProg_wellFormed and two counterexample theorems (open findings F-TRG1/F-TRG2: several events on one row within a transaction). Translation validation each run: the REAL generated trigger text is parsed into the program AST and `WellFormed cfg prog` is kernel-checked in a generated Lean file; the actual generated data statements are executed on SQLite by a shim and compared with (a) the Lean interpreter of the parsed program and (b) the real object-based path on the same row events.',
        'note': COMMON_NOTE + 'PARTIAL: PostgreSQL is not installed - PL/pgSQL control flow, hstore subtraction and the CTE upsert are modelled/emulated, never executed natively; flat models only; the theorem covers the first event per row per transaction (the full statement is false of the current generator: known findings); delete-nullification and the trigger rebuilt by sync_trigger are not compared.',
        'technique': 'Lean 4 theorem over the trigger-program AST + per-run kernel-checked translation validation of the generated SQL + three-way differential (generated statements on SQLite / Lean interpreter / real object path)', 'engine': 'trigger-harness'},
})

NOT_APPLICABLE = {}

ENGINES = [
    {'name': 'lean-model', 'path': 'lean/', 'serves_properties': sorted(CHECKS), 'kind_free_text': 'Lake project Continuum: model (core Lean), Spec (decidable Holds predicates), Props (theorems), Driver.lean (line protocol)'},
    {'name': 'trace-harness', 'path': 'harness/props/traces.py', 'serves_properties': ['C01', 'C02', 'C03', 'C10', 'C11', 'C13', 'C17', 'C18'], 'kind_free_text': 'runs generated session programs on the real code, records the listener-level event trace and database/manager dumps, replays through the Lean model, evaluates Holds on real segments'},
    {'name': 'config-harness', 'path': 'harness/props/c12.py', 'serves_properties': ['C12'], 'kind_free_text': 'samples configurations, serialises the real MetaData, compares with the Lean derivation, generates kernel-checked Lean obligations'},
    {'name': 'rel-harness', 'path': 'harness/props/c04.py', 'serves_properties': ['C04'], 'kind_free_text': 'fills parent/child/association version tables or runs histories, reads every reflected relationship, compares with the Lean criteria and a snapshot reconstruction'},
    {'name': 'fault-harness', 'path': 'harness/props/c06.py', 'serves_properties': ['C06'], 'kind_free_text': 'statement-boundary fault injection, rollback variants, savepoint placements, kill runs in a child process'},
    {'name': 'twin-harness', 'path': 'harness/props/c07.py', 'serves_properties': ['C07'], 'kind_free_text': 'runs every program with and without make_versioned and compares outcomes and application tables'},
    {'name': 'schedule-harness', 'path': 'harness/props/c09.py', 'serves_properties': ['C09'], 'kind_free_text': 'k sessions on own connections sharing the global manager, interleaved by sampled/enumerated schedules'},
    {'name': 'revert-harness', 'path': 'harness/props/c05.py', 'serves_properties': ['C05'], 'kind_free_text': 'replays a history per (version row, relationship set), reverts, commits, compares rows before/after'},
    {'name': 'trigger-harness', 'path': 'harness/props/c14.py', 'serves_properties': ['C14'], 'kind_free_text': 'parses the generated PL/pgSQL, executes its data statements on SQLite through a shim, compares with the Lean interpreter and the real object path'},
    {'name': 'table-harness', 'path': 'harness/props/tables.py', 'serves_properties': ['C08', 'C15', 'C16', 'C19', 'C20'], 'kind_free_text': 'fills real version tables directly, runs the real accessor/tool, compares with the Lean model'},
]

NOTES = 'See DESIGN.md. ./check <id> --tier quick|thorough; exit 0 ok, 1 VIOLATION, 2 harness trouble. known_findings.json lists repaired (fixed:) and open findings.'
