"""Parsing the PL/pgSQL text that `dialects/postgresql.py` generates into the trigger AST of
`lean/Continuum/Trigger.lean`, resolving column names to positions (key column i / value column j of
the non-excluded parent columns).  The parser is tolerant about whitespace only; anything that does
not have the template's shape raises `ParseError` (reported as a broken translation, never guessed).
"""
import re


class ParseError(Exception):
    pass


def _strip(name):
    name = name.strip()
    if name.startswith('"') and name.endswith('"'):
        return name[1:-1]
    return name


class Resolver(object):
    def __init__(self, key_cols, val_cols):
        self.key_cols = list(key_cols)
        self.val_cols = list(val_cols)

    def colref(self, name):
        name = _strip(name)
        if name in self.key_cols:
            return 'k%d' % self.key_cols.index(name)
        if name in self.val_cols:
            return 'v%d' % self.val_cols.index(name)
        raise ParseError('unknown column %r' % name)

    def mod_index(self, name):
        name = _strip(name)
        if not name.endswith('_mod') or name[:-4] not in self.val_cols:
            raise ParseError('unknown flag column %r' % name)
        return self.val_cols.index(name[:-4])

    def expr(self, text):
        t = text.strip()
        m = re.fullmatch(r'(NEW|OLD)\.("?[\w ]+"?)', t)
        if m:
            return ('n' if m.group(1) == 'NEW' else 'o') + '.' + self.colref(m.group(2))
        if t == 'True':
            return 'T'
        m = re.fullmatch(r'OLD\.("?[\w ]+"?) IS DISTINCT FROM NEW\.("?[\w ]+"?)', t)
        if m and _strip(m.group(1)) == _strip(m.group(2)):
            r = self.colref(m.group(1))
            if r[0] != 'v':
                raise ParseError('flag over a key column: %r' % t)
            return 'd' + r[1:]
        m = re.fullmatch(r'(\w+) OR OLD\.("?[\w ]+"?) IS DISTINCT FROM NEW\.("?[\w ]+"?)', t)
        if m and _strip(m.group(2)) == _strip(m.group(3)) and m.group(1) == _strip(m.group(2)) + '_mod':
            r = self.colref(m.group(2))
            return 'a' + r[1:]
        raise ParseError('unrecognised expression %r' % t)


VALIDITY_RE = re.compile(
    r'UPDATE\s+(?P<vt>\S+)\s+SET\s+(?P<end>\S+)\s*=\s*transaction_id_value\s+WHERE\s+(?P<tx>\S+)\s*=\s*\(\s*'
    r'SELECT\s+MIN\((?P<tx2>\S+)\)\s+FROM\s+(?P<vt2>\S+)\s+WHERE\s+(?P<end2>\S+)\s+IS\s+NULL\s+AND\s+(?P<crit1>.*?)\s*\)\s*AND\s+(?P<crit2>.*?);',
    re.S)

UPSERT_RE = re.compile(
    r'WITH\s+upsert\s+as\s*\(\s*UPDATE\s+(?P<vt>\S+)\s+SET\s+(?P<set>.*?)\s+WHERE\s+(?P<tx>\S+)\s*=\s*transaction_id_value\s+AND\s+(?P<crit>.*?)\s+RETURNING\s+\*\s*\)\s*'
    r'INSERT\s+INTO\s+(?P<vt2>\S+)\s*\((?P<cols>.*?)\)\s*SELECT\s+transaction_id_value\s*,\s*(?P<op>\d+)\s*,\s*(?P<vals>.*?)\s+WHERE\s+NOT\s+EXISTS\s*\(\s*SELECT\s+1\s+FROM\s+upsert\s*\)\s*;',
    re.S)


def parse_criteria(text, res):
    side = None
    keys = []
    for part in re.split(r'\s+AND\s+', text.strip()):
        m = re.fullmatch(r'("?[\w ]+"?)\s*=\s*(NEW|OLD)\.("?[\w ]+"?)', part.strip())
        if not m or _strip(m.group(1)) != _strip(m.group(3)):
            raise ParseError('unrecognised key criterion %r' % part)
        s = 'n' if m.group(2) == 'NEW' else 'o'
        if side not in (None, s):
            raise ParseError('mixed NEW/OLD in key criteria')
        side = s
        r = res.colref(m.group(1))
        if r[0] != 'k':
            raise ParseError('criterion on a non-key column %r' % part)
        keys.append(int(r[1:]))
    return side, keys


def parse_section(text, res, names):
    """one TG_OP branch -> dict"""
    validity = []
    for m in VALIDITY_RE.finditer(text):
        if m.group('crit1').strip() != m.group('crit2').strip():
            raise ParseError('validity criteria differ')
        if m.group('tx') != m.group('tx2') or m.group('end') != m.group('end2') or m.group('vt') != m.group('vt2'):
            raise ParseError('validity statement inconsistent')
        if _strip(m.group('tx')) != names['tx'] or _strip(m.group('end')) != names['end']:
            raise ParseError('validity statement uses unexpected columns')
        side, keys = parse_criteria(m.group('crit1'), res)
        validity.append({'table': m.group('vt'), 'side': side, 'keys': keys})
    ms = list(UPSERT_RE.finditer(text))
    if len(ms) != 1:
        raise ParseError('expected exactly one upsert, found %d' % len(ms))
    m = ms[0]
    if m.group('vt') != m.group('vt2') or _strip(m.group('tx')) != names['tx']:
        raise ParseError('upsert inconsistent')
    set_op, set_keys, set_vals, set_mods = None, [], [], []
    for item in m.group('set').split(', '):
        lhs, rhs = item.split(' = ', 1)
        lhs_n = _strip(lhs)
        if lhs_n == names['op']:
            set_op = int(rhs)
        elif lhs_n.endswith('_mod') and lhs_n[:-4] in res.val_cols and not lhs.strip().startswith('"'):
            set_mods.append((res.mod_index(lhs_n), res.expr(rhs)))
        else:
            r = res.colref(lhs)
            (set_keys if r[0] == 'k' else set_vals).append((int(r[1:]), res.expr(rhs)))
    side, crit_keys = parse_criteria(m.group('crit'), res)
    cols = [c.strip() for c in m.group('cols').split(',')]
    if _strip(cols[0]) != names['tx'] or _strip(cols[1]) != names['op']:
        raise ParseError('insert column list does not start with transaction / operation type')
    vals = [v.strip() for v in m.group('vals').split(', ')]
    if len(vals) != len(cols) - 2:
        raise ParseError('insert columns and values are not aligned: %d vs %d' % (len(cols) - 2, len(vals)))
    ins_keys, ins_vals, ins_mods = [], [], []
    for c, v in zip(cols[2:], vals):
        cn = _strip(c)
        if cn.endswith('_mod') and cn[:-4] in res.val_cols and not c.startswith('"'):
            if res.mod_index(cn) != len(ins_mods):
                raise ParseError('flag columns out of order')
            ins_mods.append(res.expr(v))
        else:
            r = res.colref(c)
            target = ins_keys if r[0] == 'k' else ins_vals
            if int(r[1:]) != len(target):
                raise ParseError('insert columns out of order')
            e = res.expr(v)
            target.append(e)
    return {'validity': validity, 'version_table': m.group('vt'),
            'upsert': {'setOp': set_op, 'setKeys': set_keys, 'setVals': set_vals, 'setMods': set_mods, 'critSide': side,
                       'critKeys': crit_keys, 'insOp': int(m.group('op')), 'insKeys': ins_keys, 'insVals': ins_vals,
                       'insMods': ins_mods}}


def parse_function(sql, key_cols, val_cols, names, mods):
    """names = {'tx':..., 'end':..., 'op':...}"""
    res = Resolver(key_cols, val_cols)
    m = re.search(r"ARRAY\[(.*?)\]::text\[\]", sql)
    if not m:
        raise ParseError('no excluded-columns array')
    excluded = [x.strip().strip("'") for x in m.group(1).split(',') if x.strip()]
    try:
        i_ins = sql.index("IF (TG_OP = 'INSERT') THEN")
        i_upd = sql.index("ELSIF (TG_OP = 'UPDATE') THEN")
        i_del = sql.index("ELSIF (TG_OP = 'DELETE') THEN")
        i_end = sql.rindex('END IF;')
    except ValueError:
        raise ParseError('TG_OP branches not found')
    if 'transaction_id_value IS NULL THEN' not in sql[:i_ins] or 'RETURN NEW' not in sql[:i_ins]:
        raise ParseError('guard on the transaction id missing')
    upd_text = sql[i_upd:i_del]
    if 'RETURN NULL' not in upd_text or "= hstore('')" not in upd_text:
        raise ParseError('update guard (nothing changed outside excluded columns) missing')
    prog = {'nKeys': len(key_cols), 'nVals': len(val_cols), 'mods': bool(mods), 'excluded': excluded,
            'ins': parse_section(sql[i_ins:i_upd], res, names),
            'upd': parse_section(upd_text, res, names),
            'del': parse_section(sql[i_del:i_end], res, names)}
    return prog


# -- wire format for the Lean driver / generated Lean terms ---------------------------------------

def _l(items):
    return ','.join(items) if items else '-'


def op_line(tag, op):
    u = op['upsert']
    return 'top %s %s %s %s %s %s %s %s %d %s %s %s' % (
        tag, _l(['%s:%s' % (v['side'], '.'.join(str(k) for k in v['keys']) or 'x') for v in op['validity']]),
        'N' if u['setOp'] is None else u['setOp'],
        _l(['%d=%s' % a for a in u['setKeys']]), _l(['%d=%s' % a for a in u['setVals']]), _l(['%d=%s' % a for a in u['setMods']]),
        u['critSide'], _l([str(k) for k in u['critKeys']]), u['insOp'], _l(u['insKeys']), _l(u['insVals']), _l(u['insMods']))


def prog_lines(prog):
    return ['tprog %d %d %d' % (prog['nKeys'], prog['nVals'], 1 if prog['mods'] else 0),
            op_line('ins', prog['ins']), op_line('upd', prog['upd']), op_line('del', prog['del'])]


def lean_expr(e):
    if e == 'T':
        return '.tru'
    if e[0] == 'd':
        return '.distinct %s' % e[1:]
    if e[0] == 'a':
        return '.accDistinct %s' % e[1:]
    side, ref = e.split('.')
    return '.col %s (%s %s)' % ('.new' if side == 'n' else '.old', '.key' if ref[0] == 'k' else '.val', ref[1:])


def lean_op(op):
    u = op['upsert']
    side = lambda s: '.new' if s == 'n' else '.old'
    return ('{ validity := [%s], upsert := { setOp := %s, setKeys := [%s], setVals := [%s], setMods := [%s], critSide := %s, '
            'critKeys := [%s], insOp := %d, insKeys := [%s], insVals := [%s], insMods := [%s] } }' % (
                ', '.join('{ side := %s, keyCols := [%s] }' % (side(v['side']), ', '.join(str(k) for k in v['keys'])) for v in op['validity']),
                'none' if u['setOp'] is None else 'some %d' % u['setOp'],
                ', '.join('(%d, %s)' % (i, lean_expr(e)) for i, e in u['setKeys']),
                ', '.join('(%d, %s)' % (i, lean_expr(e)) for i, e in u['setVals']),
                ', '.join('(%d, %s)' % (i, lean_expr(e)) for i, e in u['setMods']),
                side(u['critSide']), ', '.join(str(k) for k in u['critKeys']), u['insOp'],
                ', '.join(lean_expr(e) for e in u['insKeys']), ', '.join(lean_expr(e) for e in u['insVals']),
                ', '.join(lean_expr(e) for e in u['insMods'])))


def lean_prog(name, prog):
    return ('def %s : TrigProg :=\n  { nKeys := %d, nVals := %d, mods := %s,\n    ins := %s,\n    upd := %s,\n    del := %s }' % (
        name, prog['nKeys'], prog['nVals'], 'true' if prog['mods'] else 'false', lean_op(prog['ins']), lean_op(prog['upd']), lean_op(prog['del'])))
