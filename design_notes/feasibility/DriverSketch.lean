import Proto.Chain
import Proto.Index

structure St where
  t : VTable := []

def parseNat? (s : String) : Option Nat := s.toNat?
def parseVal (s : String) : Option Int := if s == "N" then none else s.toInt?

def step (st : St) (line : String) : St × Option String :=
  match (line.trimAscii.toString.splitOn " ").filter (· ≠ "") with
  | ["reset"] => ({}, some "ok")
  | "w" :: k :: tx :: op :: vals =>
      match k.toNat?, tx.toNat?, op.toNat? with
      | some k, some tx, some op => ({ st with t := writeVersion st.t k tx op (vals.map parseVal) }, none)
      | _, _, _ => (st, some "bad-op")
  | ["index", k, tx] =>
      match k.toNat?, tx.toNat? with
      | some k, some tx => (st, some (toString (indexOf st.t k tx)))
      | _, _ => (st, some "bad-op")
  | ["dump"] =>
      let rows := st.t.map fun r => s!"{r.key} {r.tx} {match r.endTx with | some e => toString e | none => "N"} {r.op}"
      (st, some (";".intercalate rows))
  | [] => (st, none)
  | _ => (st, some "bad-op")

partial def loop (h : IO.FS.Stream) (st : St) : IO Unit := do
  let line ← h.getLine
  if line.isEmpty then return ()
  let (st', out) := step st line
  if let some o := out then IO.println o
  loop h st'

def main : IO Unit := do loop (← IO.getStdin) {}
