import Proto.Chain

def indexOf (t : VTable) (k x : Nat) : Nat :=
  (t.filter (fun r => r.key = k ∧ r.tx < x)).length

/-- the defective query in fetcher._index_query: no key filter -/
def indexOfBuggy (t : VTable) (_k x : Nat) : Nat :=
  (t.filter (fun r => r.tx < x)).length

theorem filter_lt_sorted (vs : List VRow) (hs : vs.Pairwise (fun a b => a.tx < b.tx))
    (i : Nat) (h : i < vs.length) :
    (vs.filter (fun r => r.tx < vs[i].tx)).length = i := by
  induction vs generalizing i with
  | nil => simp at h
  | cons a l ih =>
    rw [List.pairwise_cons] at hs
    obtain ⟨ha, hl⟩ := hs
    cases i with
    | zero =>
      simp only [List.getElem_cons_zero, List.filter_cons, Nat.lt_irrefl, decide_false]
      simp only [Bool.false_eq_true, ↓reduceIte, List.length_eq_zero_iff, List.filter_eq_nil_iff,
        decide_eq_true_eq]
      intro b hb; have := ha b hb; omega
    | succ j =>
      have hj : j < l.length := by simpa using h
      have hlt : a.tx < l[j].tx := ha _ (List.getElem_mem hj)
      simp only [List.getElem_cons_succ, List.filter_cons, hlt, decide_true, ↓reduceIte,
        List.length_cons, ih hl j hj]

theorem index_correct (t : VTable) (k : Nat) (vs : List VRow)
    (hperm : vs.Perm (t.filter (fun r => r.key = k)))
    (hs : vs.Pairwise (fun a b => a.tx < b.tx)) (i : Nat) (h : i < vs.length) :
    indexOf t k vs[i].tx = i := by
  unfold indexOf
  have h1 : t.filter (fun r => decide (r.key = k ∧ r.tx < vs[i].tx)) =
      (t.filter (fun r => r.key = k)).filter (fun r => r.tx < vs[i].tx) := by
    rw [List.filter_filter]; congr 1; funext r; simp [Bool.and_comm]
  rw [h1, ← (hperm.filter _).length_eq]
  exact filter_lt_sorted vs hs i h

-- the defect, formally: a 2-entity table where the buggy index is wrong
example : indexOfBuggy [⟨1,1,none,0,[]⟩, ⟨2,1,none,0,[]⟩, ⟨1,2,none,1,[]⟩] 1 2 = 2 ∧
          indexOf [⟨1,1,none,0,[]⟩, ⟨2,1,none,0,[]⟩, ⟨1,2,none,1,[]⟩] 1 2 = 1 := by decide
#print axioms index_correct
