/-! Prototype for C19: `utils.vacuum` as a single ordered pass. -/

structure Row where
  key : List Int          -- full parent key
  tx : Nat
  data : List (Option Int) -- every non-primary-key column (what naturally_equivalent compares)
deriving DecidableEq, Repr

abbrev Mem := List Int → Option Row

def Mem.get (m : Mem) (k : List Int) : Option Row := m k
def Mem.set (m : Mem) (k : List Int) (r : Row) : Mem := fun k' => if k' = k then some r else m k'
def Mem.empty : Mem := fun _ => none

/-- the pass as the code in the tree performs it: keyed on the FIRST key column, and the
    remembered row is only ever the first one seen -/
def vacuumBuggy : Mem → List Row → List Row
  | _, [] => []
  | m, r :: rs =>
    let k := r.key.take 1
    match m.get k with
    | some p => if p.data = r.data then r :: vacuumBuggy m rs else vacuumBuggy m rs
    | none => vacuumBuggy (m.set k r) rs

/-- the intended pass: keyed on the full key, remembers the last surviving row -/
def vacuum : Mem → List Row → List Row
  | _, [] => []
  | m, r :: rs =>
    match m.get r.key with
    | some p => if p.data = r.data then r :: vacuum m rs else vacuum (m.set r.key r) rs
    | none => vacuum (m.set r.key r) rs

-- A, B, A: the tree deletes the third row although it differs from its predecessor
example : vacuumBuggy Mem.empty [⟨[1],1,[some 0]⟩, ⟨[1],2,[some 1]⟩, ⟨[1],3,[some 0]⟩] = [⟨[1],3,[some 0]⟩] := by decide
example : vacuum Mem.empty [⟨[1],1,[some 0]⟩, ⟨[1],2,[some 1]⟩, ⟨[1],3,[some 0]⟩] = [] := by decide
-- composite keys (1,1) and (1,2): the tree deletes the first version of the second entity
example : vacuumBuggy Mem.empty [⟨[1,1],1,[some 0]⟩, ⟨[1,2],1,[some 0]⟩] = [⟨[1,2],1,[some 0]⟩] := by decide

theorem Mem.get_set_self (m : Mem) (k : List Int) (r : Row) : (m.set k r).get k = some r := by
  simp [Mem.get, Mem.set]

theorem Mem.get_set_other (m : Mem) (k k' : List Int) (r : Row) (h : k' ≠ k) :
    (m.set k r).get k' = m.get k' := by
  simp [Mem.get, Mem.set, h]

/-- Every deleted row has the same key and the same data as a row that was remembered for
    that key or that occurs earlier in the pass (first half of C19). -/
def MemOK (m : Mem) : Prop := ∀ k p, m k = some p → p.key = k

theorem MemOK.set {m : Mem} (h : MemOK m) (r : Row) : MemOK (m.set r.key r) := by
  intro k p hp
  unfold Mem.set at hp
  split at hp
  · rename_i hk; rw [← Option.some.inj hp, hk]
  · exact h k p hp

theorem vacuum_deleted_eq (m : Mem) (hm : MemOK m) (rs : List Row) :
    ∀ d ∈ vacuum m rs, ∃ p : Row, p.key = d.key ∧ p.data = d.data ∧ (m.get d.key = some p ∨ p ∈ rs) := by
  induction rs generalizing m with
  | nil => intro d hd; simp [vacuum] at hd
  | cons r rs ih =>
    intro d hd
    unfold vacuum at hd
    split at hd
    · rename_i p hp
      split at hd
      · rename_i heq
        rcases List.mem_cons.1 hd with rfl | hd
        · exact ⟨p, hm _ _ hp, heq, Or.inl hp⟩
        · obtain ⟨q, h1, h2, h3⟩ := ih m hm d hd
          exact ⟨q, h1, h2, h3.imp id (List.mem_cons_of_mem _)⟩
      · obtain ⟨q, h1, h2, h3⟩ := ih _ (hm.set r) d hd
        refine ⟨q, h1, h2, ?_⟩
        rcases h3 with h3 | h3
        · by_cases hk : d.key = r.key
          · rw [hk, Mem.get_set_self] at h3
            right; rw [← Option.some.inj h3]; exact List.mem_cons_self
          · rw [Mem.get_set_other _ _ _ _ hk] at h3; exact Or.inl h3
        · exact Or.inr (List.mem_cons_of_mem _ h3)
    · obtain ⟨q, h1, h2, h3⟩ := ih _ (hm.set r) d hd
      refine ⟨q, h1, h2, ?_⟩
      rcases h3 with h3 | h3
      · by_cases hk : d.key = r.key
        · rw [hk, Mem.get_set_self] at h3
          right; rw [← Option.some.inj h3]; exact List.mem_cons_self
        · rw [Mem.get_set_other _ _ _ _ hk] at h3; exact Or.inl h3
      · exact Or.inr (List.mem_cons_of_mem _ h3)

#print axioms vacuum_deleted_eq
