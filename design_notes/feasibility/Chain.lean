structure VRow where
  key : Nat
  tx : Nat
  endTx : Option Nat
  op : Nat
  vals : List (Option Int)
deriving DecidableEq, Repr

abbrev VTable := List VRow

def txsBelow (t : VTable) (k T : Nat) : List Nat :=
  (t.filter (fun r => r.key = k ∧ r.tx < T)).map (·.tx)
def txsAbove (t : VTable) (k T : Nat) : List Nat :=
  (t.filter (fun r => r.key = k ∧ T < r.tx)).map (·.tx)

def prevTx (t : VTable) (k T : Nat) : Option Nat := (txsBelow t k T).max?
def nextTx (t : VTable) (k T : Nat) : Option Nat := (txsAbove t k T).min?

def closePrev (t : VTable) (k T : Nat) : VTable :=
  match prevTx t k T with
  | none => t
  | some p => t.map (fun r => if r.key = k ∧ r.tx = p then {r with endTx := some T} else r)

def upsert (t : VTable) (k T op : Nat) (vals : List (Option Int)) : VTable :=
  if t.any (fun r => r.key = k ∧ r.tx = T) then
    t.map (fun r => if r.key = k ∧ r.tx = T then {r with op := op, vals := vals} else r)
  else t ++ [{key := k, tx := T, endTx := none, op := op, vals := vals}]

def writeVersion (t : VTable) (k T op : Nat) (vals : List (Option Int)) : VTable :=
  closePrev (upsert t k T op vals) k T

def PKUnique (t : VTable) : Prop := t.Pairwise (fun a b => ¬ (a.key = b.key ∧ a.tx = b.tx))
def Bounded (t : VTable) (T : Nat) : Prop := ∀ r ∈ t, r.tx ≤ T
def Chain (t : VTable) : Prop := ∀ r ∈ t, r.endTx = nextTx t r.key r.tx

#eval writeVersion (writeVersion (writeVersion [] 1 1 0 []) 1 2 1 []) 1 2 1 [some 3]
