import random, sys, traceback
from base import *

def models(Base, opts):
    class Article(Base):
        __tablename__='article'
        __versioned__=dict(opts)
        id = sa.Column(sa.Integer, primary_key=True, autoincrement=False)
        name = sa.Column(sa.Unicode(255))
        content = sa.Column(sa.UnicodeText)
    return dict(Article=Article)

def run(seed, strategy, autoflush, n=25, verbose=False):
    rnd = random.Random(seed)
    ns = setup(strategy, models=models, autoflush=autoflush)
    s=ns['s']; A=ns['Article']
    log=[]
    objs = {}   # key -> python object currently tracked (live or pending)
    try:
        for step in range(n):
            op = rnd.choice(['add','set','set','set','delete','flush','commit','commit','rollback','query'])
            k = rnd.choice([1,2,3])
            if op=='add':
                if k in objs: continue
                o = A(id=k, name=rnd.choice([None,'x','y']), content=rnd.choice([None,'c']))
                s.add(o); objs[k]=o; log.append(('add',k,o.name,o.content))
            elif op=='set':
                if k not in objs: continue
                col = rnd.choice(['name','content']); v = rnd.choice([None,'x','y','z'])
                setattr(objs[k], col, v); log.append(('set',k,col,v))
            elif op=='delete':
                if k not in objs: continue
                o=objs[k]
                if sa.inspect(o).pending:
                    s.expunge(o); log.append(('expunge',k))
                else:
                    s.delete(o); log.append(('delete',k))
                del objs[k]
            elif op=='flush':
                s.flush(); log.append(('flush',))
            elif op=='query':
                s.query(A).all(); log.append(('query',))
            elif op=='commit':
                s.commit(); log.append(('commit',))
                check(ns, log, strategy)
                assert not versioning_manager.units_of_work and not versioning_manager.session_connection_map, 'leak'
            elif op=='rollback':
                s.rollback(); log.append(('rollback',))
                s.expunge_all()
                objs = {o.id:o for o in s.query(A).all()}
                assert not versioning_manager.units_of_work and not versioning_manager.session_connection_map, 'leak'
                s.rollback()
    except AssertionError as e:
        print('VIOL', seed, strategy, autoflush, e, log); 
    except Exception as e:
        print('EXC', seed, strategy, autoflush, repr(e)[:300], log)
    finally:
        teardown(ns)

def check(ns, log, strategy):
    s=ns['s']
    live = {r[0]:tuple(r) for r in s.execute(sa.text('select id,name,content from article'))}
    if strategy=='validity':
        vers = [tuple(r) for r in s.execute(sa.text('select id,name,content,transaction_id,end_transaction_id,operation_type from article_version order by id, transaction_id'))]
    else:
        vers = [tuple(r)[:4]+(None,)+tuple(r)[4:] for r in s.execute(sa.text('select id,name,content,transaction_id,operation_type from article_version order by id, transaction_id'))]
    txs = [r[0] for r in s.execute(sa.text('select id from "transaction"'))]
    byk={}
    for v in vers: byk.setdefault(v[0],[]).append(v)
    for k,vs in byk.items():
        last=vs[-1]
        if k in live:
            assert last[5]!=2, ('live entity newest is DELETE',k,vs)
            assert last[:3]==live[k], ('newest != live', k, vs, live[k])
        else:
            assert last[5]==2, ('removed entity newest not DELETE', k, vs)
        if strategy=='validity':
            for a,b in zip(vs,vs[1:]):
                assert a[4]==b[3], ('chain', k, vs)
            assert last[4] is None, ('open end', k, vs)
    for k in live: assert k in byk, ('live without version',k)
    used = set(v[3] for v in vers)
    assert used <= set(txs), ('dangling tx', used, txs)
    assert set(txs) <= used, ('tx record without versions', txs, used)

if __name__=='__main__':
    import logging
    for seed in range(int(sys.argv[1]), int(sys.argv[2])):
        for strategy in ('validity','subquery'):
            for af in (False, True):
                run(seed, strategy, af)
