from base import *
import traceback
def t(title, f):
    print('=====', title)
    try: f()
    except Exception as e:
        print('  EXC', type(e).__name__, str(e)[:300].replace('\n',' '))

# --- savepoint tests
def sp1():
    ns = setup('validity', models=default_models); s=ns['s']; A=ns['Article']
    try:
        a=A(id=1,name='a'); s.add(a); s.commit()
        sp=s.begin_nested()
        a.name='b'; s.flush()
        sp.rollback()
        print('  after sp rollback', dump(ns,'article_version'), dump(ns,'"transaction"'))
        a.name='c'; s.commit()
        print('  final', dump(ns,'article'), dump(ns,'article_version'), dump(ns,'"transaction"'))
    finally: teardown(ns)
t('flush inside savepoint then rollback, then change again', sp1)

def sp2():
    ns = setup('validity', models=default_models); s=ns['s']; A=ns['Article']
    try:
        a=A(id=1,name='a'); s.add(a); s.commit()
        b=A(id=2,name='b'); s.add(b); s.flush()     # tx created outside
        sp=s.begin_nested()
        a.name='b'; s.flush()
        sp.rollback()
        print('  after sp rollback', dump(ns,'article_version'), dump(ns,'"transaction"'))
        a.name='c'; s.commit()
        print('  final', dump(ns,'article'), dump(ns,'article_version'), dump(ns,'"transaction"'))
    finally: teardown(ns)
t('tx created outside; flush inside savepoint then rollback, then change again', sp2)

def sp3():
    ns = setup('validity', models=default_models); s=ns['s']; A=ns['Article']
    try:
        a=A(id=1,name='a'); s.add(a); s.commit()
        b=A(id=2,name='b'); s.add(b); s.flush()     # tx created outside
        sp=s.begin_nested()
        a.name='b'; s.flush()
        sp.rollback()
        s.commit()
        print('  final', dump(ns,'article'), dump(ns,'article_version'), dump(ns,'"transaction"'))
    finally: teardown(ns)
t('tx created outside; flush inside savepoint then rollback, commit', sp3)
