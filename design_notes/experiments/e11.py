from base import *
from sqlalchemy import event
import base
def setup2(strategy, models, **kw):
    # same as base.setup but with the pysqlite SAVEPOINT recipe
    Base = declarative_base()
    opts = {'strategy': strategy, 'base_classes': (Base,)}
    versioning_manager.options = dict(base.DEFAULTS)
    make_versioned(options=opts, user_cls=None)
    versioning_manager.plugins = []
    versioning_manager.transaction_cls = sc.TransactionFactory()
    ns = models(Base, opts); configure_mappers()
    engine = sa.create_engine('sqlite:///:memory:')
    @event.listens_for(engine, 'connect')
    def c(dbapi, rec): dbapi.isolation_level = None
    @event.listens_for(engine, 'begin')
    def b(conn): conn.exec_driver_sql('BEGIN')
    conn = engine.connect(); Base.metadata.create_all(conn); conn.commit()
    s = sessionmaker(bind=conn)(autoflush=False)
    ns.update(Base=Base, engine=engine, conn=conn, s=s); return ns
def t(title, f):
    print('=====', title)
    try: f()
    except Exception as e: print('  EXC', type(e).__name__, str(e)[:200].replace('\n',' '))
def sp1():
    ns = setup2('validity', default_models); s=ns['s']; A=ns['Article']
    try:
        a=A(id=1,name='a'); s.add(a); s.commit()
        sp=s.begin_nested(); a.name='b'; s.flush(); sp.rollback()
        print('  after sp rollback', dump(ns,'article_version'), dump(ns,'"transaction"'), versioning_manager.units_of_work and list(versioning_manager.units_of_work.values())[0].current_transaction)
        a.name='c'; s.commit()
        print('  final', dump(ns,'article'), dump(ns,'article_version'), [r[0] for r in s.execute(sa.text('select id from "transaction"'))])
    finally: teardown(ns)
t('tx created inside savepoint; rollback; change again', sp1)
def sp0():
    ns = setup2('validity', default_models); s=ns['s']; A=ns['Article']
    try:
        a=A(id=1,name='a'); s.add(a); s.commit()
        sp=s.begin_nested(); a.name='b'; sp.rollback()      # no flush inside
        a.name='c'; s.commit()
        print('  final', dump(ns,'article'), dump(ns,'article_version'))
        sp=s.begin_nested(); a.name='d'; s.flush(); sp.commit(); a.name='e'; s.commit()
        print('  final2', dump(ns,'article'), dump(ns,'article_version'))
    finally: teardown(ns)
t('savepoint without flush; savepoint commit with flush', sp0)
