from base import *
def t(title, f):
    print('=====', title)
    try: f()
    except Exception as e:
        print('  EXC', type(e).__name__, str(e)[:300].replace('\n',' '))

def m2m_models(pk=True, exclude_tags=False):
    def models(Base, opts):
        at = sa.Table('article_tag', Base.metadata,
            sa.Column('article_id', sa.Integer, sa.ForeignKey('article.id'), primary_key=pk),
            sa.Column('tag_id', sa.Integer, sa.ForeignKey('tag.id'), primary_key=pk))
        class Article(Base):
            __tablename__='article'
            __versioned__=dict(opts, **({'exclude':['tags']} if exclude_tags else {}))
            id = sa.Column(sa.Integer, primary_key=True)
            name = sa.Column(sa.Unicode(255))
        class Tag(Base):
            __tablename__='tag'
            __versioned__=dict(opts)
            id = sa.Column(sa.Integer, primary_key=True)
            name = sa.Column(sa.Unicode(255))
        Article.tags = sa.orm.relationship(Tag, secondary=at, backref='articles')
        return dict(Article=Article, Tag=Tag)
    return models

def m1():
    ns = setup('validity', models=m2m_models()); s=ns['s']; A=ns['Article']; T=ns['Tag']
    try:
        a=A(id=1,name='a'); tg=T(id=1,name='t'); s.add_all([a,tg]); s.commit()
        a.tags.append(tg); s.flush()
        a.tags.remove(tg); s.commit()
        print('  ', dump(ns,'article_tag'), dump(ns,'article_tag_version'))
    finally: teardown(ns)
t('link + unlink same pair in one tx (two flushes), assoc with PK', m1)
def m1b():
    ns = setup('validity', models=m2m_models()); s=ns['s']; A=ns['Article']; T=ns['Tag']
    try:
        a=A(id=1,name='a'); tg=T(id=1,name='t'); a.tags.append(tg); s.add_all([a,tg]); s.commit()
        a.tags.remove(tg); s.flush()
        a.tags.append(tg); s.commit()
        print('  ', dump(ns,'article_tag'), dump(ns,'article_tag_version'))
    finally: teardown(ns)
t('unlink + relink same pair in one tx (two flushes), assoc with PK', m1b)
def m2():
    ns = setup('validity', models=m2m_models(pk=False)); s=ns['s']; A=ns['Article']; T=ns['Tag']
    try:
        a=A(id=1,name='a'); t1=T(id=1,name='t'); t2=T(id=2,name='t2'); s.add_all([a,t1,t2]); s.commit()
        a.tags.append(t1); a.tags.append(t2); s.commit()
        print('  ', dump(ns,'article_tag'), dump(ns,'article_tag_version'))
    finally: teardown(ns)
t('two links in one tx, assoc without PK', m2)
def m3():
    ns = setup('validity', models=m2m_models(), options={'table_name':'%s_history'}); s=ns['s']; A=ns['Article']; T=ns['Tag']
    try:
        a=A(id=1,name='a'); t1=T(id=1,name='t'); s.add_all([a,t1]); s.commit()
        a.tags.append(t1); s.commit()
        print('  ', dump(ns,'article_tag'), dump(ns,'article_tag_history'))
    finally: teardown(ns)
t('custom table_name with m2m', m3)
def m4():
    ns = setup('validity', models=m2m_models(exclude_tags=True)); s=ns['s']; A=ns['Article']; T=ns['Tag']
    try:
        print('  tables', sorted(ns['Base'].metadata.tables))
        a=A(id=1,name='a'); t1=T(id=1,name='t'); s.add_all([a,t1]); s.commit()
        a.tags.append(t1); s.commit()
        print('  ', dump(ns,'article_tag'), dump(ns,'article_version'), dump(ns,'"transaction"'))
    finally: teardown(ns)
t('excluded m2m relationship changed only', m4)

def o2m_excl(Base, opts):
    class Article(Base):
        __tablename__='article'
        __versioned__=dict(opts, exclude=['comments','secret'])
        id = sa.Column(sa.Integer, primary_key=True)
        name = sa.Column(sa.Unicode(255))
        secret = sa.Column(sa.Unicode(255))
    class Comment(Base):
        __tablename__='comment'
        id = sa.Column(sa.Integer, primary_key=True)
        article_id = sa.Column(sa.Integer, sa.ForeignKey(Article.id))
        article = sa.orm.relationship(Article, backref='comments')
    return dict(Article=Article, Comment=Comment)
def m5():
    ns = setup('validity', models=o2m_excl); s=ns['s']; A=ns['Article']; C=ns['Comment']
    try:
        a=A(id=1,name='a'); s.add_all([a]); s.commit()
        a.comments.append(C(id=1)); s.commit()
        print('  after excluded rel change', dump(ns,'article_version'), dump(ns,'"transaction"'))
        a.secret='s'; s.commit()
        print('  after excluded col change', dump(ns,'article_version'), dump(ns,'"transaction"'))
    finally: teardown(ns)
t('excluded o2m relationship (non versioned child) changed only', m5)
