from base import *
def models(Base, opts):
    class TextItem(Base):
        __tablename__='text_item'
        __versioned__=dict(opts)
        id = sa.Column(sa.Integer, primary_key=True, autoincrement=False)
        name = sa.Column(sa.Unicode(255))
        discriminator = sa.Column(sa.Unicode(100))
        __mapper_args__={'polymorphic_on': discriminator, 'polymorphic_identity':'base'}
    class Article(TextItem):
        __tablename__='article'
        __mapper_args__={'polymorphic_identity':'article'}
        id = sa.Column(sa.Integer, sa.ForeignKey(TextItem.id), primary_key=True)
        body = sa.Column(sa.Unicode(255))
    class Note(TextItem):   # single table child
        __mapper_args__={'polymorphic_identity':'note'}
        extra = sa.Column(sa.Unicode(255))
    return dict(TextItem=TextItem, Article=Article, Note=Note)
ns = setup('validity', models=models, plugins=[TransactionChangesPlugin()]); s=ns['s']; A=ns['Article']; N=ns['Note']; T=ns['TextItem']
print(sorted(ns['Base'].metadata.tables))
for t in ns['Base'].metadata.tables.values():
    if t.name.endswith('_version'): print(t.name, [(c.name, c.primary_key, c.nullable) for c in t.c])
a=A(id=1,name='a',body='b'); n=N(id=2,name='n',extra='e'); s.add_all([a,n]); s.commit()
a.body='b2'; s.commit()     # child-table-only change
a.name='a2'; s.commit()     # parent-table-only change
print('text_item_version', dump(ns,'text_item_version'))
print('article_version', dump(ns,'article_version'))
tx = s.query(versioning_manager.transaction_cls).order_by(sa.text('id')).all()
for t in tx: print(t.id, t.entity_names, {k.__name__:[(v.id,v.transaction_id) for v in vs] for k,vs in t.changed_entities.items()})
print(versioning_manager.version_class_map, versioning_manager.parent_class_map)
teardown(ns)
