"""Probe: record the listener-level event trace and check the SQLAlchemy contract W2/W3 on random runs."""
import random, sys
from base import *
from sqlalchemy import event
from sqlalchemy.orm import Session, Mapper

def models(Base, opts):
    class Article(Base):
        __tablename__='article'
        __versioned__=dict(opts, exclude=['secret'])
        id = sa.Column(sa.Integer, primary_key=True, autoincrement=False)
        name = sa.Column(sa.Unicode(255))
        content = sa.Column(sa.UnicodeText)
        secret = sa.Column(sa.Unicode(20))
    class Tag(Base):
        __tablename__='tag'
        __versioned__=dict(opts)
        id = sa.Column(sa.Integer, primary_key=True, autoincrement=False)
        name = sa.Column(sa.Unicode(255))
        article_id = sa.Column(sa.Integer, sa.ForeignKey(Article.id))
        article = sa.orm.relationship(Article, backref='tags')
    return dict(Article=Article, Tag=Tag)

COLS = {'Article':['id','name','content','secret'], 'Tag':['id','name','article_id']}
class Rec:
    def __init__(self): self.tr=[]; self.live={}; self.problems=[]
    def vals(self, t): 
        try: return tuple(getattr(t,c) for c in COLS[type(t).__name__])
        except sa.orm.exc.ObjectDeletedError: return None
    def hist(self, t):
        st = sa.inspect(t)
        return tuple(st.attrs[c].history.has_changes() for c in COLS[type(t).__name__])
    def before_flush(self, s, ctx, inst):
        if s.info.get('app'):
            view=[]
            for o in s:
                if type(o).__name__ in COLS:
                    view.append((type(o).__name__, o.id, o in s.new, o in s.deleted, self.hist(o)))
            self.tr.append(('bf', sorted(view, key=repr))); self.inflush=True; self.announced={(v[0],v[1]):v for v in view}
    def after_flush(self, s, ctx):
        if s.info.get('app'): self.tr.append(('af',)); self.inflush=False
    def ins(self, m, c, t):
        if type(t).__name__ not in COLS: return
        k=(type(t).__name__, t.id); v=self.vals(t)
        if k in self.live: self.problems.append(('W2 ins on live', k))
        if k not in self.announced or not self.announced[k][2]: self.problems.append(('W3 ins unannounced', k))
        self.live[k]=v; self.tr.append(('ins',k,v))
    def upd(self, m, c, t):
        if type(t).__name__ not in COLS: return
        k=(type(t).__name__, t.id); v=self.vals(t); h=self.hist(t)
        if k not in self.live: self.problems.append(('W2 upd on absent', k)); old=None
        else:
            old=self.live[k]
            exp=tuple(a!=b for a,b in zip(old,v))
            if exp!=h: self.problems.append(('W2 colChanged mismatch', k, old, v, h))
        self.live[k]=v; self.tr.append(('upd',k,v,h))
    def dele(self, m, c, t):
        if type(t).__name__ not in COLS: return
        k=(type(t).__name__, t.id)
        if k not in self.live: self.problems.append(('W2 del on absent', k))
        if k not in self.announced or not self.announced[k][3]: self.problems.append(('W3 del unannounced', k))
        self.live.pop(k,None); self.tr.append(('del',k,self.vals(t)))

def run(seed, strategy, autoflush, n=40):
    rnd=random.Random(seed); rec=Rec()
    ns=setup(strategy, models=models, autoflush=autoflush); s=ns['s']; s.info['app']=True
    A=ns['Article']; T=ns['Tag']
    L=[(Session,'before_flush',rec.before_flush),(Session,'after_flush',rec.after_flush),(Mapper,'after_insert',rec.ins),(Mapper,'after_update',rec.upd),(Mapper,'after_delete',rec.dele)]
    for tgt,n_,f in L: event.listen(tgt,n_,f)
    reg={}; committed={}
    try:
        for step in range(n):
            op=rnd.choice(['addA','addT','set','set','set','secret','move','del','flush','commit','commit','rollback','query','expire'])
            k=rnd.choice([1,2,3])
            if op=='addA' and ('Article',k) not in reg: o=A(id=k,name=rnd.choice([None,'x','y'])); s.add(o); reg[('Article',k)]=o
            elif op=='addT' and ('Tag',k) not in reg: o=T(id=k,name=rnd.choice([None,'x'])); s.add(o); reg[('Tag',k)]=o
            elif op=='set':
                c=rnd.choice(['Article','Tag']); o=reg.get((c,k))
                if o is not None: setattr(o, rnd.choice(['name','content'] if c=='Article' else ['name']), rnd.choice([None,'x','y','z']))
            elif op=='secret':
                o=reg.get(('Article',k))
                if o is not None: o.secret=rnd.choice(['s','t'])
            elif op=='move':
                o=reg.get(('Tag',k)); a=reg.get(('Article',rnd.choice([1,2,3])))
                if o is not None: o.article = a if rnd.random()<.7 else None
            elif op=='del':
                c=rnd.choice(['Article','Tag']); o=reg.get((c,k))
                if o is not None:
                    if c=='Article':
                        for t in list(o.tags): t.article=None
                    if sa.inspect(o).pending: s.expunge(o)
                    else: s.delete(o)
                    del reg[(c,k)]
            elif op=='flush': s.flush()
            elif op=='query': s.query(A).filter(A.name=='x').all()
            elif op=='expire': s.expire_all()
            elif op=='commit':
                s.commit(); committed=dict(rec.live)
                db={('Article',r[0]):tuple(r) for r in s.execute(sa.text('select id,name,content,secret from article'))}
                db.update({('Tag',r[0]):tuple(r) for r in s.execute(sa.text('select id,name,article_id from tag'))})
                if db!=rec.live: rec.problems.append(('shadow live != db', db, rec.live))
                s.rollback()
            elif op=='rollback':
                s.rollback(); rec.live=dict(committed); s.expunge_all()
                reg={('Article',o.id):o for o in s.query(A)}; reg.update({('Tag',o.id):o for o in s.query(T)}); s.rollback()
    except Exception as e:
        rec.problems.append(('EXC', type(e).__name__, str(e)[:150]))
    finally:
        for tgt,n_,f in L: event.remove(tgt,n_,f)
        teardown(ns)
    return rec

if __name__=='__main__':
    tot=0; ev={}
    for seed in range(int(sys.argv[1]), int(sys.argv[2])):
        for strategy in ('validity','subquery'):
            for af in (False,True):
                rec=run(seed,strategy,af); tot+=1
                for e in rec.tr: ev[e[0]]=ev.get(e[0],0)+1
                if rec.problems: print(seed,strategy,af,rec.problems[:3])
    print('runs',tot,'events',ev)
