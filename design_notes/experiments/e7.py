import os, tempfile, shutil
from base import *
from sqlalchemy import event
from sqlalchemy.orm import Session
from sqlalchemy.pool import NullPool, QueuePool

Base = declarative_base()
versioning_manager.options = dict(DEFAULTS)
make_versioned(options={'strategy':'validity','base_classes':(Base,)}, user_cls=None)
versioning_manager.plugins=[]; versioning_manager.transaction_cls = sc.TransactionFactory()
ns = default_models(Base, {'strategy':'validity','base_classes':(Base,)})
configure_mappers()
A=ns['Article']
d = tempfile.mkdtemp(prefix='cv_')
engs=[]
for i in range(2):
    e = sa.create_engine('sqlite:///%s/db%d.sqlite'%(d,i), poolclass=QueuePool)
    Base.metadata.create_all(e)
    with e.begin() as c: c.execute(sa.text('insert into "transaction"(id) values (%d)'%(1000*(i+1))))
    engs.append(e)
s1=Session(bind=engs[0]); s2=Session(bind=engs[1])
m=versioning_manager
def st(): return (len(m.units_of_work), len(m.session_connection_map))
a=A(id=1,name='a'); s1.add(a); s1.flush(); print('s1 flush', st())
b=A(id=1,name='b'); s2.add(b); s2.flush(); print('s2 flush', st())
a.name='a2'; s1.flush(); print(st())
s2.commit(); print('s2 commit', st())
s1.rollback(); print('s1 rollback', st())
for i,s in enumerate([s1,s2]):
    print(i, [tuple(r) for r in s.execute(sa.text('select * from article_version'))], [r[0] for r in s.execute(sa.text('select id from "transaction"'))])
    s.rollback()
print('after reads', st())
# fault injection at nth statement
cnt={'n':0,'fail':None}
@event.listens_for(engs[0], 'before_cursor_execute')
def bce(conn, cursor, statement, parameters, context, executemany):
    cnt['n']+=1
    if cnt['fail'] is not None and cnt['n']==cnt['fail']:
        raise sa.exc.OperationalError(statement, parameters, Exception('injected'))
def prog(s):
    x=A(id=5,name='x'); s.add(x); s.flush(); x.name='y'; y=A(id=6,name='q'); s.add(y); s.commit()
cnt['n']=0; s=Session(bind=engs[0]); prog(s); total=cnt['n']; print('statements', total); s.close()
with engs[0].begin() as c:
    c.execute(sa.text('delete from article')); c.execute(sa.text('delete from article_version')); c.execute(sa.text('delete from "transaction" where id>1000'))
for k in range(1,total+1):
    cnt['n']=0; cnt['fail']=k
    s=Session(bind=engs[0])
    try: prog(s); r='ok'
    except Exception as e: r=type(e).__name__; s.rollback()
    cnt['fail']=None
    rows=[tuple(x) for x in s.execute(sa.text('select id,transaction_id from article_version'))]; txs=[x[0] for x in s.execute(sa.text('select id from "transaction"'))]
    s.close()
    print(k, r, rows, txs, st())
    if r=='ok':
        with engs[0].begin() as c:
            c.execute(sa.text('delete from article')); c.execute(sa.text('delete from article_version')); c.execute(sa.text('delete from "transaction" where id>1000'))
remove_versioning(); shutil.rmtree(d)
