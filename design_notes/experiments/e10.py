from base import *
from sqlalchemy_continuum.dialects.postgresql import CreateTriggerFunctionSQL, CreateTriggerSQL
import re
ns = setup('validity', models=default_models, plugins=[PropertyModTrackerPlugin()])
A=ns['Article']
sql = str(CreateTriggerFunctionSQL.for_manager(versioning_manager, A))
print(sql)
teardown(ns)
