"""Probe: C16 backfill and C08 next/previous on arbitrary populated tables (composite key)."""
import random, sys, itertools
from base import *
from sqlalchemy_continuum.schema import update_end_tx_column
def models(Base, opts):
    class Doc(Base):
        __tablename__='doc'
        __versioned__=dict(opts)
        a = sa.Column(sa.Integer, primary_key=True, autoincrement=False)
        b = sa.Column(sa.Integer, primary_key=True, autoincrement=False)
        name = sa.Column(sa.Unicode(50))
    return dict(Doc=Doc)
def run(strategy, seeds):
    ns=setup(strategy, models=models); s=ns['s']; D=ns['Doc']; V=version_class(D); vt=V.__table__
    bad=0
    for seed in seeds:
        rnd=random.Random(seed)
        s.execute(vt.delete()); 
        keys=[(1,1),(1,2),(2,1)]
        rows=set()
        for _ in range(rnd.randint(1,9)): rows.add((rnd.choice(keys), rnd.randint(1,6)))
        for (k,tx) in rows:
            d=dict(a=k[0],b=k[1],transaction_id=tx,operation_type=1,name=rnd.choice([None,'x','y']))
            s.execute(vt.insert().values(**d))
        s.commit()
        byk={}
        for (k,tx) in sorted(rows): byk.setdefault(k,[]).append(tx)
        if strategy=='validity':
            update_end_tx_column(vt, conn=s); s.commit()
            got={((r.a,r.b),r.transaction_id):r.end_transaction_id for r in s.execute(sa.select(vt))}
            exp={}
            for k,txs in byk.items():
                for i,t in enumerate(txs): exp[(k,t)] = txs[i+1] if i+1<len(txs) else None
            if got!=exp: bad+=1; print('C16 mismatch', seed, sorted(rows), got, exp)
            update_end_tx_column(vt, conn=s); s.commit()
            got2={((r.a,r.b),r.transaction_id):r.end_transaction_id for r in s.execute(sa.select(vt))}
            if got2!=got: bad+=1; print('C16 not idempotent', seed)
        s.expire_all()
        for v in s.query(V).all():
            k=(v.a,v.b); txs=byk[k]; i=txs.index(v.transaction_id)
            n=v.next; p=v.previous
            en = txs[i+1] if i+1<len(txs) else None; ep = txs[i-1] if i>0 else None
            if (n and ((n.a,n.b),n.transaction_id)) != (en and (k,en)) or (p and ((p.a,p.b),p.transaction_id)) != (ep and (k,ep)):
                bad+=1; print('C08 next/prev mismatch', strategy, seed, k, v.transaction_id, n and n.transaction_id, p and p.transaction_id, txs)
        s.rollback()
    teardown(ns); return bad
if __name__=='__main__':
    print('validity bad', run('validity', range(150)))
    print('subquery bad', run('subquery', range(150)))
