import warnings, sys
import sqlalchemy as sa
from sqlalchemy.orm import declarative_base, sessionmaker, configure_mappers, close_all_sessions
import sqlalchemy_continuum as sc
from sqlalchemy_continuum import make_versioned, remove_versioning, versioning_manager, version_class
from sqlalchemy_continuum.plugins import *

DEFAULTS = dict(versioning_manager.options)

def setup(strategy='validity', plugins=None, models=None, options=None, autoflush=False):
    Base = declarative_base()
    opts = {'strategy': strategy, 'base_classes': (Base,)}
    if options: opts.update(options)
    versioning_manager.options = dict(DEFAULTS)
    make_versioned(options=opts, user_cls=None)
    versioning_manager.plugins = plugins or []
    versioning_manager.transaction_cls = sc.TransactionFactory()
    versioning_manager.user_cls = None
    ns = models(Base, opts)
    configure_mappers()
    engine = sa.create_engine('sqlite:///:memory:')
    conn = engine.connect()
    Base.metadata.create_all(engine)
    Session = sessionmaker(bind=conn)
    s = Session(autoflush=autoflush)
    ns.update(Base=Base, engine=engine, conn=conn, s=s)
    return ns

def teardown(ns):
    ns['s'].rollback()
    remove_versioning()
    versioning_manager.reset()
    close_all_sessions()
    ns['conn'].close()
    ns['engine'].dispose()

def default_models(Base, opts):
    class Article(Base):
        __tablename__='article'
        __versioned__=dict(opts)
        id = sa.Column(sa.Integer, primary_key=True, autoincrement=True)
        name = sa.Column(sa.Unicode(255))
        content = sa.Column(sa.UnicodeText)
    class Tag(Base):
        __tablename__='tag'
        __versioned__=dict(opts)
        id = sa.Column(sa.Integer, primary_key=True, autoincrement=True)
        name = sa.Column(sa.Unicode(255))
        article_id = sa.Column(sa.Integer, sa.ForeignKey(Article.id))
        article = sa.orm.relationship(Article, backref='tags')
    return dict(Article=Article, Tag=Tag)

def dump(ns, table):
    return [tuple(r) for r in ns['s'].execute(sa.text('select * from %s order by 1' % table))]
