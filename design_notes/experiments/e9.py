from base import *
def models(Base, opts):
    class Folder(Base):   # NOT versioned
        __tablename__='folder'
        id = sa.Column(sa.Integer, primary_key=True, autoincrement=False)
    class Doc(Base):
        __tablename__='doc'
        __versioned__=dict(opts)
        id = sa.Column(sa.Integer, primary_key=True, autoincrement=False)
        name = sa.Column(sa.Unicode(255))
        folder_id = sa.Column(sa.Integer, sa.ForeignKey(Folder.id))
        folder = sa.orm.relationship(Folder, backref=sa.orm.backref('docs', cascade='all, delete-orphan'))
    return dict(Folder=Folder, Doc=Doc)
for expire in (False, True):
    ns = setup('validity', models=models); s=ns['s']; F=ns['Folder']; D=ns['Doc']
    f=F(id=1); d=D(id=1,name='d',folder=f); s.add_all([f,d]); s.commit()
    if expire: s.expunge_all(); f=s.get(F,1)
    s.delete(f); s.commit()
    print('expire',expire,'live', dump(ns,'doc') if False else [tuple(r) for r in s.execute(sa.text('select id from doc'))], 'versions', [tuple(r) for r in s.execute(sa.text('select id,transaction_id,operation_type from doc_version'))], 'txs', [r[0] for r in s.execute(sa.text('select id from "transaction"'))])
    teardown(ns)
