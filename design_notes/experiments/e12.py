from base import *
def models(Base, opts):
    d = default_models(Base, opts)
    class Plain(Base):
        __tablename__='plain'
        id = sa.Column(sa.Integer, primary_key=True)
        x = sa.Column(sa.Integer)
    d['Plain']=Plain; return d
ns = setup('validity', models=models, plugins=[TransactionChangesPlugin(), TransactionMetaPlugin()]); s=ns['s']; A=ns['Article']; P=ns['Plain']
def txs(): return [r[0] for r in s.execute(sa.text('select id from "transaction"'))]
p=P(id=1,x=1); s.add(p); s.commit(); print('non-versioned only:', txs(), (len(versioning_manager.units_of_work), len(versioning_manager.session_connection_map)))
a=A(id=1,name='a'); s.add(a); s.commit(); print('insert:', txs())
a.name='a'; p.x=2; s.commit(); print('same-value + non-versioned:', txs())
uow = versioning_manager.unit_of_work(s); tx = uow.create_transaction(s); tx.meta={'k':'v'}; s.flush()
a.name='b'; s.flush(); a.content='c'; s.commit(); print('manual early creation:', txs(), dump(ns,'article_version'), dump(ns,'transaction_meta'), dump(ns,'transaction_changes'))
uow = versioning_manager.unit_of_work(s); tx = uow.create_transaction(s); s.commit(); print('manual creation, no changes:', txs(), (len(versioning_manager.units_of_work), len(versioning_manager.session_connection_map)))
teardown(ns)
