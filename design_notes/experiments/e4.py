from base import *
def t(title, f):
    print('=====', title)
    try: f()
    except Exception as e:
        import traceback
        print('  EXC', type(e).__name__, str(e)[:300].replace('\n',' '))

def r1():
    ns = setup('validity', models=default_models); s=ns['s']; A=ns['Article']
    try:
        a=A(id=1,name='a'); s.add(a); s.commit()
        s.delete(a); s.commit()
        AV=version_class(A)
        v = s.query(AV).order_by(AV.transaction_id.desc()).first()
        print('  target op', v.operation_type, 'parent', v.version_parent)
        v.revert(); s.commit()
        print('  ', dump(ns,'article'), dump(ns,'article_version'))
    finally: teardown(ns)
t('revert DELETE version while entity deleted', r1)
def r2():
    ns = setup('validity', models=default_models); s=ns['s']; A=ns['Article']
    try:
        a=A(id=1,name='a'); s.add(a); s.commit()
        s.delete(a); s.commit()
        a=A(id=1,name='again'); s.add(a); s.commit()
        AV=version_class(A)
        v = s.query(AV).filter_by(transaction_id=2).one()
        print('  target op', v.operation_type, 'parent', v.version_parent)
        v.revert(); s.commit()
        print('  ', dump(ns,'article'), dump(ns,'article_version'))
    finally: teardown(ns)
t('revert DELETE version while entity live (recreated)', r2)

def p1():
    ns = setup('validity', models=default_models, plugins=[PropertyModTrackerPlugin()]); s=ns['s']; A=ns['Article']
    try:
        a=A(id=1,name='a'); s.add(a); s.commit()
        print('  insert w/ unset content:', [tuple(r) for r in s.execute(sa.text('select id,name,content,name_mod,content_mod,operation_type from article_version'))])
        a.content='c'; s.flush(); a.name='b'; s.commit()
        s.delete(a); s.commit()
        print('  all:', [tuple(r) for r in s.execute(sa.text('select id,name,content,name_mod,content_mod,operation_type,transaction_id from article_version'))])
    finally: teardown(ns)
t('mod tracker', p1)

def act():
    ns = setup('validity', models=default_models, plugins=[ActivityPlugin()]); s=ns['s']; A=ns['Article']
    try:
        Activity = versioning_manager.activity_cls
        a=A(id=1,name='a'); s.add(a); s.flush()
        act = Activity(verb='create', object=a); s.add(act); s.commit()
        print('  act', act.transaction_id, act.object_tx_id, dump(ns,'"transaction"'))
        b=A(id=2,name='b'); s.add(b); s.commit()
        print('  act after 2nd tx (held in session)', act.transaction_id, act.object_tx_id)
        print('  ', [tuple(r) for r in s.execute(sa.text('select id,transaction_id,object_id,object_tx_id from activity'))])
        # mere presence
        x = act.verb  # load
        s.commit()
        print('  txs after empty commit', len(dump(ns,'"transaction"')))
        class NV: pass
        s.expire_all(); act.verb; 
        s.execute(sa.text('select 1')); s.flush(); s.commit()
        print('  txs after flush with loaded activity', len(dump(ns,'"transaction"')))
    finally: teardown(ns)
t('activity restamp', act)
