from base import *
from sqlalchemy_continuum import count_versions
from sqlalchemy_continuum.schema import update_property_mod_flags, update_end_tx_column
def t(title, f):
    print('=====', title)
    try: f()
    except Exception as e:
        print('  EXC', type(e).__name__, str(e)[:300].replace('\n',' '))

def strkey(Base, opts):
    class Doc(Base):
        __tablename__='doc'
        __versioned__=dict(opts)
        slug = sa.Column(sa.Unicode(255), primary_key=True)
        name = sa.Column(sa.Unicode(255))
    return dict(Doc=Doc)
def c20():
    ns = setup('validity', models=strkey); s=ns['s']; D=ns['Doc']
    try:
        for k in ["plain", "it's", 'say "hi"', "back\\slash", "100%", "naïve", ":colon", "a'b\"c", "new\nline", "x:y z"]:
            d=D(slug=k,name='n'); s.add(d); s.commit()
            try: c=count_versions(d)
            except Exception as e: c='EXC '+type(e).__name__
            print('  ', repr(k), c, d.versions.count())
    finally: teardown(ns)
t('count_versions string keys', c20)

def c15():
    ns = setup('validity', models=default_models, plugins=[PropertyModTrackerPlugin()]); s=ns['s']; A=ns['Article']
    try:
        a=A(id=1,name=None, content='c'); s.add(a); s.commit()
        a.name='x'; s.commit()
        a.name=None; s.commit()
        a.content='d'; s.commit()
        q='select transaction_id,name,content,name_mod,content_mod from article_version order by transaction_id'
        print('  written :', [tuple(r) for r in s.execute(sa.text(q))])
        s.execute(sa.text('update article_version set name_mod=0, content_mod=0')); s.commit()
        tbl = version_class(A).__table__
        update_property_mod_flags(tbl, ['name','content'], conn=s); s.commit()
        print('  backfill:', [tuple(r) for r in s.execute(sa.text(q))])
    finally: teardown(ns)
t('mod flags backfill w/ NULL', c15)

def cust(Base, opts):
    return default_models(Base, opts)
def rel_custom():
    ns = setup('validity', models=default_models, options={'table_name':'%s_history'}); s=ns['s']; A=ns['Article']; T=ns['Tag']
    try:
        a=A(id=1,name='a'); tg=T(id=1,name='t',article=a); s.add_all([a,tg]); s.commit()
        tg.name='t2'; s.commit()
        print('  article v0 tags:', [(x.id,x.name,x.transaction_id) for x in a.versions[0].tags])
        print('  tag v0 article:', tg.versions[0].article)
    finally: teardown(ns)
t('relationships with custom table_name', rel_custom)
