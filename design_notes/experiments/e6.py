from base import *
from sqlalchemy import event
ns = setup('validity', models=default_models); s=ns['s']; A=ns['Article']
tr=[]
event.listen(A, 'after_insert', lambda m,c,t: tr.append(('ins', t.id, t.name)))
event.listen(A, 'after_update', lambda m,c,t: tr.append(('upd', t.id, t.name, sc.is_modified(t))))
event.listen(A, 'after_delete', lambda m,c,t: tr.append(('del', t.id, t.name)))
event.listen(s, 'before_flush', lambda s_,c,i: tr.append(('bf', sc.is_session_modified(s_))))
event.listen(s, 'after_flush', lambda s_,c: tr.append(('af',)))
a=A(id=1,name='a'); s.add(a); s.commit(); print(tr); tr.clear()
# row switch
s.delete(a); b=A(id=1,name='b'); s.add(b); s.commit(); print('rowswitch', tr); tr.clear()
print(dump(ns,'article_version'))
# same value set
b.name='b'; s.commit(); print('same', tr); tr.clear()
# set then revert before flush
b.name='c'; b.name='b'; s.commit(); print('revert', tr); tr.clear()
# a->c flush c->b flush
b.name='c'; s.flush(); b.name='b'; s.commit(); print('two', tr); tr.clear()
print(dump(ns,'article_version'))
# expired object deletion
s.expire_all(); s.delete(b); s.commit(); print('del expired', tr); tr.clear()
print(dump(ns,'article_version'))
teardown(ns)
