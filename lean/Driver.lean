import Continuum.Wire
import Continuum.Temporal
import Continuum.Spec.Tables

/-!
# Line-protocol driver

`lake env lean --run Driver.lean` reads one command per line on stdin.  State-setting commands
answer nothing; every query command (`q…`) answers exactly one line:

    <verdict of Cxx.Holds on the implementation's answer> | <the model's own answer>

so the harness gets, for the same input, both the oracle verdict (the Lean predicate the theorem
is about, evaluated on what the implementation did) and the model's output for the
correspondence comparison.  Imports model/spec files only (core Lean, no Mathlib).
-/

open Continuum Continuum.Wire

abbrev Key := List Int

structure DState where
  strategy : Strategy := .validity
  t : VTable Key := []
  t2 : VTable Key := []
  del : List (VRow Key) := []

def parseCs (s : String) : Option (List (Nat × Val × Val)) :=
  parseList (fun item => match item.splitOn ":" with
    | [i, o, n] => do
      let i ← parseNat i
      let o ← parseVal o
      let n ← parseVal n
      pure (i, o, n)
    | _ => none) s

def showCs (cs : List (Nat × Val × Val)) : String :=
  showList (fun (i, o, n) => s!"{i}:{showVal o}:{showVal n}") cs

def showAnswers (a : Answers) : String :=
  s!"{showNats a.vs} {showNats a.idx} {showONats a.nxt} {showONats a.prv}"

def bad : Option String := some "bad-op"

def handle (st : DState) (toks : List String) : DState × Option String :=
  match toks with
  | [] => (st, none)
  | ["reset"] => ({}, none)
  | ["strategy", "validity"] => ({ st with strategy := .validity }, none)
  | ["strategy", "subquery"] => ({ st with strategy := .subquery }, none)
  | "row" :: rest =>
    match parseRow rest with
    | some r => ({ st with t := st.t ++ [r] }, none)
    | none => (st, bad)
  | "row2" :: rest =>
    match parseRow rest with
    | some r => ({ st with t2 := st.t2 ++ [r] }, none)
    | none => (st, bad)
  | ["del", k, tx] =>
    match parseKey k, parseNat tx with
    | some k, some tx =>
      match rowAt st.t k tx with
      | some r => ({ st with del := st.del ++ [r] }, none)
      | none => (st, bad)
    | _, _ => (st, bad)
  | ["q08", k, vs, idx, nxt, prv] =>
    match parseKey k, parseNats vs, parseNats idx, parseONats nxt, parseONats prv with
    | some k, some vs, some idx, some nxt, some prv =>
      let a : Answers := { vs := vs, idx := idx, nxt := nxt, prv := prv }
      (st, some s!"{decideB (C08.Holds st.t k a)} | {showAnswers (modelAnswers st.strategy st.t k)}")
    | _, _, _, _, _ => (st, bad)
  | ["q16"] =>
    let chainOk := if NewestOpen st.t then decideB (Chain st.t2) else "-"
    (st, some s!"{decideB (C16.Holds st.t st.t2)} {chainOk} | {showRows (backfillEnd st.t)}")
  | ["q15cs", k, tx, cs] =>
    match parseKey k, parseNat tx, parseCs cs with
    | some k, some tx, some cs =>
      match rowAt st.t k tx with
      | some v =>
        (st, some s!"{decideB (C15.ChangesetHolds st.t v cs)} | {showCs (changesetVals (prevOf st.strategy st.t v) v)}")
      | none => (st, bad)
    | _, _, _ => (st, bad)
  | ["q15bf"] =>
    (st, some s!"{decideB (C15.BackfillHolds st.t st.t2)} | {showRows (backfillMods st.t)}")
  | ["q19"] =>
    let m := vacuum st.t
    (st, some s!"{decideB (C19.Holds st.t st.del)} | {if m.isEmpty then "-" else ";".intercalate (m.map (fun r => s!"{showKey r.key}:{r.tx}"))}")
  | ["q20", k, n] =>
    match parseKey k, parseNat n with
    | some k, some n => (st, some s!"{decideB (C20.Holds st.t k n)} | {countVersions st.t k}")
    | _, _ => (st, bad)
  | _ => (st, bad)

partial def loop (hin : IO.FS.Stream) (hout : IO.FS.Stream) (st : DState) : IO Unit := do
  let line ← hin.getLine
  if line.isEmpty then return ()
  let toks := (line.trimAscii.toString.splitOn " ").filter (· ≠ "")
  let (st', out) := handle st toks
  if let some o := out then
    hout.putStrLn o
    hout.flush
  loop hin hout st'

def main : IO Unit := do
  loop (← IO.getStdin) (← IO.getStdout) {}
