import Continuum.Wire
import Continuum.Temporal
import Continuum.Spec.Tables
import Continuum.Uow
import Continuum.Spec.Uow
import Continuum.Schema
import Continuum.Rel
import Continuum.Mgr
import Continuum.Lemmas.UowLive
import Continuum.Spec.Links
import Continuum.Props.C05Deep
import Continuum.RevertFull
import Continuum.Props.C05Links
import Continuum.Activity
import Continuum.Revert
import Continuum.Trigger

/-!
# Line-protocol driver

`lake env lean --run Driver.lean` reads one command per line on stdin.  State-setting commands
answer nothing; every query command (`q…`) answers exactly one line:

    <verdict of Cxx.Holds on the implementation's answer> | <the model's own answer>

so the harness gets, for the same input, both the oracle verdict (the Lean predicate the theorem
is about, evaluated on what the implementation did) and the model's output for the
correspondence comparison.  Imports model/spec files only (core Lean, no Mathlib).
-/

open Continuum Continuum.Wire



structure DState where
  strategy : Strategy := .validity
  t : VTable Key := []
  t2 : VTable Key := []
  del : List (VRow Key) := []
  -- trace level
  cfg : Cfg := {}
  st : St := {}
  segBefore : Obs := {}
  segEvs : List Ev := []
  /-- length of `segEvs` at every open SAVEPOINT: a rollback to it erases the bracket from the event list the
  segment predicates are evaluated on (`sp_bracket_erase`: the erased history reaches the same state up to the cache) -/
  spMarks : List Nat := []
  /-- position in `segEvs` of a transaction record that continuum created LATE (inside `after_flush` or at
  commit): it is reported by the recorder as `latetx`, run through the model as `manualTx`, and counts as a
  cause for a transaction record (C02) only if a tracked change or an association statement was waiting -/
  lateIdx : Option Nat := none
  pend : Obs := {}            -- the implementation's observation being received
  mBefore : Obs := {}         -- the model's observation at the last transaction boundary
  wf : Bool := true           -- every event so far satisfied the contract EvOK
  schIn : Option Schema.TblIn := none
  arows : List ARow := []
  mgr : Mgr := {}
  actV : VTable TKey := []
  c05V : VTable TKey := []
  tprog : Trigger.TrigProg := default
  tvalidity : Bool := true
  trigT : VTable Key := []
  objT : VTable Key := []
  c05Before : Live := []
  c05After : Live := []
  c05Links : List Link := []
  c05LinksB : List Link := []
  actBefore : List Act := []
  actAfter : List Act := []
  segLinks : List Link := []      -- live links at the last boundary (implementation, by SQL)
  pendLinks : List Link := []
  mLinks : List Link := []        -- the same for the model's segment
  schOut : Option Schema.TblOut := none
  wfFirst : String := "-"     -- the first event that did not
  nev : Nat := 0

def parseCs (s : String) : Option (List (Nat × Val × Val)) :=
  parseList (fun item => match item.splitOn ":" with
    | [i, o, n] => do
      let i ← parseNat i
      let o ← parseVal o
      let n ← parseVal n
      pure (i, o, n)
    | _ => none) s

def showCs (cs : List (Nat × Val × Val)) : String :=
  showList (fun (i, o, n) => s!"{i}:{showVal o}:{showVal n}") cs

def showAnswers (a : Answers) : String :=
  s!"{showNats a.vs} {showNats a.idx} {showONats a.nxt} {showONats a.prv}"


/-! ## trace level: configuration and events -/

def parseONatList (s : String) : Option (List (Option Nat)) := parseList parseONat s

def parseRel (s : String) : Option RelCfg :=
  match s.splitOn ":" with
  | [d, loc, ex] => do
    let dir ← (if d == "o2m" then some RelDir.oneToMany else if d == "m2o" then some RelDir.manyToOne
               else if d == "m2m" then some RelDir.manyToMany else none)
    let loc ← parseNats loc
    let ex ← parseBool ex
    pure { dir := dir, localCols := loc, excluded := ex }
  | _ => none

def parseSemi {α : Type} (f : String → Option α) (s : String) : Option (List α) :=
  if s == "-" then some [] else (s.splitOn ";").mapM f

def parseTab (s : String) : Option (Nat × List (Option Nat)) :=
  match s.splitOn ":" with
  | [tid, cols] => do
    let tid ← parseNat tid
    let cols ← parseONatList cols
    pure (tid, cols)
  | _ => none

def parseView (s : String) : Option ObjView :=
  match s.splitOn ":" with
  | [c, n, d, cc, rc] => do
    let c ← parseNat c
    let n ← parseBool n
    let d ← parseBool d
    let cc ← parseBools cc
    let rc ← parseBools rc
    pure { cls := c, isNew := n, isDeleted := d, colChanged := cc, relChanged := rc }
  | _ => none

def parseEv : List String → Option Ev
  | ["bf", newId, pm, views] => do
    let newId ← parseNat newId
    let pm ← parseBool pm
    let views ← parseSemi parseView views
    pure (.beforeFlush views newId pm)
  | ["af"] => some .afterFlush
  | ["commit"] => some .commit
  | ["rollback"] => some .rollback
  | ["manualtx", n] => (parseNat n).map .manualTx
  | ["spbegin"] => some .spBegin
  | ["spcommit"] => some .spCommit
  | ["sprollback"] => some .spRollback
  | ["ins", c, pk, vals, ch] => do
    pure (.ins (← parseNat c) (← parseKey pk) (← parseVals vals) (← parseBools ch))
  | ["upd", c, pk, vals, cc, rc, kc, kr] => do
    pure (.upd (← parseNat c) (← parseKey pk) (← parseVals vals) (← parseBools cc) (← parseBools rc)
               (← parseBools kc) (← parseBools kr))
  | ["del", c, pk, vals] => do
    pure (.del (← parseNat c) (← parseKey pk) (← parseVals vals))
  | ["assoc", t, op, links] => do
    pure (.assoc (← parseNat t) (← parseOp op) (← parseSemi parseKey links))
  | _ => none

def showTRow (r : VRow TKey) : String :=
  s!"{r.key.1} {showKey r.key.2} {r.tx} {showONat r.endTx} {r.op.code} {showVals r.vals} {showBools r.mods}"

def semi (l : List String) : String := if l.isEmpty then "-" else ";".intercalate l

def showModelDump (s : St) : String :=
  let u := s.uow
  let mgr := match u with
    | none => "nouow"
    | some u =>
      let ops := semi (u.ops.map (fun (e : OpEntry) => s!"{e.cls}:{showKey e.pk}:{e.op.code}:{showBool e.processed}"))
      let vobjs := semi (u.vobjs.map (fun (x : Nat × List Int × Nat) => s!"{x.1}:{showKey x.2.1}:{x.2.2}"))
      s!"uow {showONat u.cur} {ops} {vobjs} {u.pending.length} {showBool u.lookup}"
  let versions := semi (s.db.versions.map showTRow)
  let txs := showNats s.db.txs
  let assoc := semi (s.db.assoc.map (fun (a : ARow) => s!"{a.tbl} {showKey a.link} {a.tx} {a.op.code}"))
  let changes := semi (s.db.changes.map (fun (x : Nat × Nat) => s!"{x.1} {x.2}"))
  s!"{versions} | {txs} | {assoc} | {changes} | {mgr} | {showBool s.err}"


/-! ## schema level (C12) -/

def parseName (s : String) : Option Schema.Name :=
  if s == "-" then some [] else (s.splitOn ".").mapM parseNat

def parseOName (s : String) : Option (Option Schema.Name) :=
  if s == "N" then some none else (parseName s).map some

def parseNames (s : String) : Option (List Schema.Name) :=
  if s == "-" then some [] else (s.splitOn ",").mapM parseName

def showName (n : Schema.Name) : String := if n.isEmpty then "-" else ".".intercalate (n.map toString)

def showVCol (c : Schema.VCol) : String :=
  s!"{showName c.name} {c.typ} {showBool c.pk} {showBool c.nullable} {showBool c.unique} {showBool c.autoinc} {showBool c.onupdate} {showBool c.fk}"


/-! ## relationship level (C04) -/

def parseAns1 (s : String) : Option (Key × Nat) :=
  match s.splitOn ":" with
  | [k, tx] => do pure ((← parseKey k), (← parseNat tx))
  | _ => none

def parseAns (s : String) : Option (List (Key × Nat)) := parseSemi parseAns1 s

def showAns (l : List (Key × Nat)) : String := semi (l.map (fun a => s!"{showKey a.1}:{a.2}"))

def pickTable (st : DState) (w : String) : VTable Key := if w == "t2" then st.t2 else st.t


/-! ## activity level (C18) -/

def parseOTKey (s : String) : Option (Option TKey) :=
  if s == "N" then some none else
  match s.splitOn ":" with
  | [t, k] => do pure (some ((← parseNat t), (← parseKey k)))
  | _ => none

def parseAct : List String → Option Act
  | [id, obj, tgt, tx, otx, ttx] => do
    pure { id := (← parseNat id), obj := (← parseOTKey obj), tgt := (← parseOTKey tgt), tx := (← parseONat tx),
           objTx := (← parseONat otx), tgtTx := (← parseONat ttx) }
  | _ => none


/-! ## revert level (C05) -/

def tableOf (v : VTable TKey) (tid : Nat) : VTable Key :=
  (v.filter (fun r => r.key.1 = tid)).map (fun r =>
    { key := r.key.2, tx := r.tx, endTx := r.endTx, op := r.op, vals := r.vals, mods := r.mods })

/-- same elements (association links have no order) -/
def sameLinks (a b : List Link) : Bool := a.all (fun x => b.contains x) && b.all (fun x => a.contains x)

/-- verdict of the relationship clause on the implementation's rows, the keys the clause may touch, and
whether the MODEL function (`revertM2M`) run on the rows before the revert yields the implementation's links -/
def c05Rel (st_v : VTable TKey) (arows : List ARow) (before after : Live) (links linksB : List Link)
    (v : VRow TKey) (spec : String) : Option (Bool × List TKey × Bool) :=
  match spec.splitOn ":" with
  | ["o2m", ct, fk] => do
    let ct ← parseNat ct
    let fk ← parseNat fk
    let shown := oneToMany (tableOf st_v ct) fk v.key.2 v.tx
    pure (decide (C05.O2MHolds after ct fk v.key.2 shown),
          liveChildren before ct fk v.key.2 ++ shown.map (fun r => (ct, r.key)), true)
  | ["m2m", rt, atb, lf] => do
    let rt ← parseNat rt
    let atb ← parseNat atb
    let lf ← parseBool lf
    let shown := manyToMany (tableOf st_v rt) arows atb lf v.key.2 v.tx
    let m := revertM2M before linksB rt atb lf v.key.2 shown
    pure (decide (C05.M2MHolds after links rt atb lf v.key.2 shown), shown.map (fun r => (rt, r.key)),
          sameLinks m.2 links && shown.all (fun r => liveGet m.1 (rt, r.key) == liveGet after (rt, r.key)))
  | ["m2o", pt, fk] => do
    let pt ← parseNat pt
    let fk ← parseNat fk
    let r : VRow Key := { key := v.key.2, tx := v.tx, endTx := v.endTx, op := v.op, vals := v.vals, mods := v.mods }
    match manyToOne (tableOf st_v pt) (fkOf fk r) v.tx with
    | some pv => pure (decide (liveGet after (pt, pv.key) = some pv.vals), [(pt, pv.key)],
                       liveGet (revertM2O before pt (some pv)) (pt, pv.key) == liveGet after (pt, pv.key))
    | none => pure (true, [], true)
  | _ => none


/-- lift a row of table `tid` to the table-tagged form -/
def liftRow (tid : Nat) (r : VRow Key) : VRow TKey :=
  { key := (tid, r.key), tx := r.tx, endTx := r.endTx, op := r.op, vals := r.vals, mods := r.mods }

/-- the related versions version `w` shows for its relationship number `r` (registry: class table, relationship
number, specification), by the relationship model of C04 on the version tables -/
def shownBy (vt : VTable TKey) (arows : List ARow) (reg : List (Nat × Nat × String)) (w : VRow TKey) (r : Nat) :
    List (VRow TKey) :=
  match reg.find? (fun e => e.1 == w.key.1 && e.2.1 == r) with
  | none => []
  | some e =>
    match e.2.2.splitOn ":" with
    | ["o2m", ct, fk] =>
      match parseNat ct, parseNat fk with
      | some ct, some fk => (oneToMany (tableOf vt ct) fk w.key.2 w.tx).map (liftRow ct)
      | _, _ => []
    | ["m2m", rt, atb, lf] =>
      match parseNat rt, parseNat atb, parseBool lf with
      | some rt, some atb, some lf => (manyToMany (tableOf vt rt) arows atb lf w.key.2 w.tx).map (liftRow rt)
      | _, _, _ => []
    | ["m2o", pt, fk] =>
      match parseNat pt, parseNat fk with
      | some pt, some fk =>
        let r0 : VRow Key := { key := w.key.2, tx := w.tx, endTx := w.endTx, op := w.op, vals := w.vals, mods := w.mods }
        (manyToOne (tableOf vt pt) (fkOf fk r0) w.tx).toList.map (liftRow pt)
      | _, _ => []
    | _ => []

def parseRelSpec (s : String) : Option RelSpec :=
  match s.splitOn ":" with
  | ["o2m", ct, fk] => do pure (.o2m (← parseNat ct) (← parseNat fk))
  | ["m2o", pt, fk] => do pure (.m2o (← parseNat pt) (← parseNat fk))
  | ["m2m", rt, atb, lf] => do pure (.m2m (← parseNat rt) (← parseNat atb) (← parseBool lf))
  | _ => none

def parseReg (s : String) : Option (List (Nat × Nat × String)) :=
  (s.splitOn ";").mapM (fun e => match e.splitOn "/" with
    | [t, r, spec] => do pure ((← parseNat t), (← parseNat r), spec)
    | _ => none)

def parsePaths (s : String) : Option (List Path) :=
  (s.splitOn ",").mapM (fun p => (p.splitOn ".").mapM parseNat)

/-! ## trigger level (C14) -/

open Continuum.Trigger in
def parseTExpr (s : String) : Option TExpr :=
  if s == "T" then some .tru
  else if s.startsWith "d" then (s.drop 1).toNat?.map .distinct
  else if s.startsWith "a" then (s.drop 1).toNat?.map .accDistinct
  else match s.splitOn "." with
    | [sd, r] =>
      let side? : Option Side := if sd == "n" then some .new else if sd == "o" then some .old else none
      let ref? : Option ColRef := if r.startsWith "k" then (r.drop 1).toNat?.map .key
                                  else if r.startsWith "v" then (r.drop 1).toNat?.map .val else none
      match side?, ref? with
      | some sd, some r => some (.col sd r)
      | _, _ => none
    | _ => none

open Continuum.Trigger in
def parseAssign (s : String) : Option (Nat × TExpr) :=
  match s.splitOn "=" with
  | [i, e] => do pure ((← parseNat i), (← parseTExpr e))
  | _ => none

open Continuum.Trigger in
def parseSide (s : String) : Option Side := if s == "n" then some .new else if s == "o" then some .old else none

open Continuum.Trigger in
def parseValidity (s : String) : Option ValidityUpd :=
  match s.splitOn ":" with
  | [sd, ks] => do
    let sd ← parseSide sd
    let ks ← (if ks == "x" then some [] else (ks.splitOn ".").mapM parseNat)
    pure { side := sd, keyCols := ks }
  | _ => none

open Continuum.Trigger in
def parseOpProg : List String → Option OpProg
  | [val, setOp, setKeys, setVals, setMods, critSide, critKeys, insOp, insKeys, insVals, insMods] => do
    let val ← parseList parseValidity val
    let setOp ← (if setOp == "N" then some none else (parseNat setOp).map some)
    let u : Upsert := { setOp := setOp, setKeys := (← parseList parseAssign setKeys), setVals := (← parseList parseAssign setVals),
                        setMods := (← parseList parseAssign setMods), critSide := (← parseSide critSide),
                        critKeys := (← parseNats critKeys), insOp := (← parseNat insOp),
                        insKeys := (← parseList parseTExpr insKeys), insVals := (← parseList parseTExpr insVals),
                        insMods := (← parseList parseTExpr insMods) }
    pure { validity := val, upsert := u }
  | _ => none

def bad : Option String := some "bad-op"

def handle (st : DState) (toks : List String) : DState × Option String :=
  match toks with
  | [] => (st, none)
  | ["reset"] => ({}, none)
  | ["strategy", "validity"] => ({ st with strategy := .validity }, none)
  | ["strategy", "subquery"] => ({ st with strategy := .subquery }, none)
  | "row" :: rest =>
    match parseRow rest with
    | some r => ({ st with t := st.t ++ [r] }, none)
    | none => (st, bad)
  | "row2" :: rest =>
    match parseRow rest with
    | some r => ({ st with t2 := st.t2 ++ [r] }, none)
    | none => (st, bad)
  | ["del", k, tx] =>
    match parseKey k, parseNat tx with
    | some k, some tx =>
      match rowAt st.t k tx with
      | some r => ({ st with del := st.del ++ [r] }, none)
      | none => (st, bad)
    | _, _ => (st, bad)
  | ["cfg", strat, nd, mt, tc] =>
    match parseBool nd, parseBool mt, parseBool tc with
    | some nd, some mt, some tc =>
      let strat := if strat == "subquery" then Strategy.subquery else Strategy.validity
      ({ st with cfg := { strategy := strat, nullDelete := nd, modTracker := mt, txChanges := tc } }, none)
    | _, _, _ => (st, bad)
  | ["cls", v, n, excl, incl, rels, tabs] =>
    match parseBool v, parseNat n, parseBools excl, parseBools incl, parseSemi parseRel rels, parseSemi parseTab tabs with
    | some v, some n, some excl, some incl, some rels, some tabs =>
      let c : ClassCfg := { versioned := v, ncols := n, excl := excl, incl := incl, rels := rels, tables := tabs }
      ({ st with cfg := { st.cfg with classes := st.cfg.classes ++ [c] } }, none)
    | _, _, _, _, _, _ => (st, bad)
  | ["assoctbl", t] =>
    match parseNat t with
    | some t => ({ st with cfg := { st.cfg with assocTables := st.cfg.assocTables ++ [t] } }, none)
    | none => (st, bad)
  | ["nullkeep", t, j] =>
    match parseNat t, parseNat j with
    | some t, some j => ({ st with cfg := { st.cfg with nullKeep := st.cfg.nullKeep ++ [(t, j)] } }, none)
    | _, _ => (st, bad)
  | ["ev", "latetx", n] =>
    match parseNat n with
    | some n =>
      let e : Ev := .manualTx n
      let ok : Bool := decide (EvOK st.cfg st.st e)
      let first := if st.wf && !ok then s!"{st.nev}:latetx" else st.wfFirst
      ({ st with st := step st.cfg st.st e, segEvs := st.segEvs ++ [e], lateIdx := some st.segEvs.length,
                 wf := st.wf && ok, wfFirst := first, nev := st.nev + 1 }, none)
    | none => (st, bad)
  | "ev" :: rest =>
    match parseEv rest with
    | some e =>
      let isEnd := match e with
        | .commit => true
        | .rollback => true
        | _ => false
      let ok : Bool := match e with
        -- a rollback to a savepoint is handled by erasure (`sp_bracket_erase`)
        | .spRollback => !st.spMarks.isEmpty
        | _ => decide (EvOK st.cfg st.st e) && decide (UpdShapeOK st.cfg st.st e)
      let first := if st.wf && !ok then s!"{st.nev}:{rest.headD "?"}" else st.wfFirst
      let (segEvs', marks') : List Ev × List Nat := match e with
        | .spBegin => (st.segEvs ++ [e], st.segEvs.length :: st.spMarks)
        | .spCommit => (st.segEvs ++ [e], st.spMarks.tail)
        | .spRollback => (match st.spMarks with
            | [] => (st.segEvs, [])
            | m :: ms => (st.segEvs.take m, ms))
        | _ => (if isEnd then st.segEvs else st.segEvs ++ [e], if isEnd then [] else st.spMarks)
      -- a late transaction record is justified by what was waiting when the flush / commit processed it
      let isAF := match e with
        | .afterFlush => true
        | _ => false
      let waiting (l : List Ev) : Bool := l.any (fun x => x.tracked st.cfg || (match x with
        | .assoc .. => true
        | _ => false))
      let segEvs'' : List Ev := match st.lateIdx, isAF with
        | some i, true =>
          -- window: from the last afterFlush before the late record to this afterFlush
          let before := (st.segEvs.take i).reverse.takeWhile (fun x => match x with
            | .afterFlush => false
            | _ => true)
          if waiting before || waiting (st.segEvs.drop (i + 1)) then segEvs'
          else (segEvs'.take i) ++ (segEvs'.drop (i + 1))
        | _, _ => segEvs'
      ({ st with st := step st.cfg st.st e, segEvs := segEvs'', spMarks := marks',
                 lateIdx := if isAF || isEnd then none else st.lateIdx,
                 wf := st.wf && ok, wfFirst := first, nev := st.nev + 1 }, none)
    | none => (st, bad)
  | ["iv", tid, pk, tx, e, op, vals, mods] =>
    match parseNat tid, parseRow [pk, tx, e, op, vals, mods] with
    | some tid, some r =>
      let r' : VRow TKey := { key := (tid, r.key), tx := r.tx, endTx := r.endTx, op := r.op, vals := r.vals, mods := r.mods }
      ({ st with pend := { st.pend with db := { st.pend.db with versions := st.pend.db.versions ++ [r'] } } }, none)
    | _, _ => (st, bad)
  | ["itx", ids] =>
    match parseNats ids with
    | some ids => ({ st with pend := { st.pend with db := { st.pend.db with txs := ids } } }, none)
    | none => (st, bad)
  | ["ia", tid, link, tx, op] =>
    match parseNat tid, parseKey link, parseNat tx, parseOp op with
    | some tid, some link, some tx, some op =>
      ({ st with pend := { st.pend with db := { st.pend.db with assoc := st.pend.db.assoc ++ [{ tbl := tid, link := link, tx := tx, op := op }] } } }, none)
    | _, _, _, _ => (st, bad)
  | ["ic", tx, c] =>
    match parseNat tx, parseNat c with
    | some tx, some c => ({ st with pend := { st.pend with db := { st.pend.db with changes := st.pend.db.changes ++ [(tx, c)] } } }, none)
    | _, _ => (st, bad)
  | ["il", tid, pk, vals] =>
    match parseNat tid, parseKey pk, parseVals vals with
    | some tid, some pk, some vals => ({ st with pend := { st.pend with live := st.pend.live ++ [((tid, pk), vals)] } }, none)
    | _, _, _ => (st, bad)
  | ["ilk", tid, link] =>
    match parseNat tid, parseKey link with
    | some tid, some link => ({ st with pendLinks := st.pendLinks ++ [(tid, link)] }, none)
    | _, _ => (st, bad)
  | ["qchain"] =>
    let r := decideB (C03.Holds st.cfg st.pend.db.versions)
    ({ st with pend := {}, pendLinks := [] }, some r)
  | ["qseg", oc] =>
    let outcome := if oc == "rollback" then Outcome.rollback else Outcome.commit
    let seg : Seg := { before := st.segBefore, evs := st.segEvs, outcome := outcome, after := st.pend }
    let c01 := s!"{decideB (seg.outcome = .commit → C01.newestIsLive seg)}{decideB (seg.outcome = .commit → C01.removedIsDelete seg)}{decideB (seg.outcome = .commit → C01.onlyRealChanges st.cfg seg)}{decideB (seg.outcome = .commit → C01.changedHasRow seg)}{decideB (seg.outcome = .commit → C01.deleteVals st.cfg seg)}{decideB (seg.outcome = .commit → C01.pastKept seg)}"
    let out := s!"{c01} {decideB (C02.Holds st.cfg seg)} {decideB (C03.Holds st.cfg seg.after.db.versions)} {decideB (C06.DbHolds seg)} {decideB (C11.Holds st.cfg seg)} {decideB (C17.Holds st.cfg seg)}"
    -- the same predicates on the MODEL's own segment (validates the theorem statements)
    let mseg : Seg := { before := st.mBefore, evs := st.segEvs, outcome := outcome, after := modelObs st.st }
    let m01 := s!"{decideB (mseg.outcome = .commit → C01.newestIsLive mseg)}{decideB (mseg.outcome = .commit → C01.removedIsDelete mseg)}{decideB (mseg.outcome = .commit → C01.onlyRealChanges st.cfg mseg)}{decideB (mseg.outcome = .commit → C01.changedHasRow mseg)}{decideB (mseg.outcome = .commit → C01.deleteVals st.cfg mseg)}{decideB (mseg.outcome = .commit → C01.pastKept mseg)}"
    let mout := s!"{m01} {decideB (C02.Holds st.cfg mseg)} {decideB (C03.Holds st.cfg mseg.after.db.versions)} {decideB (C06.DbHolds mseg)} {decideB (C11.Holds st.cfg mseg)} {decideB (C17.Holds st.cfg mseg)}"
    -- C10: links
    let la := applyAssoc st.cfg st.segLinks st.segEvs
    let sameLinks := decideB (seg.outcome = .commit → ((∀ x ∈ la, x ∈ st.pendLinks) ∧ (∀ x ∈ st.pendLinks, x ∈ la)))
    let c10 := s!"{decideB (C10.Holds st.cfg seg st.segLinks)}{sameLinks}"
    let m10 := decideB (OncePerTx st.cfg st.segEvs → st.st.err = false → C10.Holds st.cfg mseg st.mLinks)
    let mla := if outcome = .commit then applyAssoc st.cfg st.mLinks st.segEvs else st.mLinks
    ({ st with segBefore := st.pend, segEvs := [], pend := {}, mBefore := modelObs st.st,
               segLinks := st.pendLinks, pendLinks := [], mLinks := mla },
      some s!"{out} {c10} | {mout} {m10} | {showBool st.wf} {st.wfFirst} {decideB (CfgOK st.cfg ∧ TablesNodup st.cfg ∧ ColsInRange st.cfg)} {decideB (OncePerTx st.cfg st.segEvs)}")
  | ["qdump", _] => (st, some (showModelDump st.st))
  | ["s12in", name, schema, hasModel, single, excl, incl, f1, f2, validity, tx, en, op, mt] =>
    match parseName name, parseOName schema, parseBool hasModel, parseBool single, parseNames excl, parseNames incl,
          parseName f1, parseName f2, parseBool validity, parseName tx, parseName en, parseName op, parseBool mt with
    | some name, some schema, some hasModel, some single, some excl, some incl, some f1, some f2, some validity,
      some tx, some en, some op, some mt =>
      let i : Schema.TblIn := { name := name, schema := schema, cols := [], hasModel := hasModel, single := single,
                                exclude := excl, includ := incl, fmt := (f1, f2), validity := validity,
                                txCol := tx, endCol := en, opCol := op, modTracker := mt }
      ({ st with schIn := some i, schOut := none }, none)
    | _, _, _, _, _, _, _, _, _, _, _, _, _ => (st, bad)
  | ["s12c", name, typ, pk, nullable, unique, autoinc, onupdate, fk, index, key] =>
    match st.schIn, parseName name, parseNat typ, parseBool pk, parseBool nullable, parseBool unique, parseBool autoinc,
          parseBool onupdate, parseBool fk, parseBool index, parseOName key with
    | some i, some name, some typ, some pk, some nullable, some unique, some autoinc, some onupdate, some fk, some index, some key =>
      let c : Schema.PCol := { name := name, typ := typ, pk := pk, nullable := nullable, unique := unique,
                               autoinc := autoinc, onupdate := onupdate, fk := fk, index := index, key := key }
      ({ st with schIn := some { i with cols := i.cols ++ [c] } }, none)
    | _, _, _, _, _, _, _, _, _, _, _ => (st, bad)
  | ["s12out", name, schema] =>
    match parseName name, parseOName schema with
    | some name, some schema => ({ st with schOut := some { name := name, schema := schema, cols := [] } }, none)
    | _, _ => (st, bad)
  | ["s12o", name, typ, pk, nullable, unique, autoinc, onupdate, fk, index] =>
    match st.schOut, parseName name, parseNat typ, parseBool pk, parseBool nullable, parseBool unique, parseBool autoinc,
          parseBool onupdate, parseBool fk, parseBool index with
    | some o, some name, some typ, some pk, some nullable, some unique, some autoinc, some onupdate, some fk, some index =>
      let c : Schema.VCol := { name := name, typ := typ, pk := pk, nullable := nullable, unique := unique,
                               autoinc := autoinc, onupdate := onupdate, fk := fk, index := index }
      ({ st with schOut := some { o with cols := o.cols ++ [c] } }, none)
    | _, _, _, _, _, _, _, _, _, _ => (st, bad)
  | ["q12"] =>
    match st.schIn, st.schOut with
    | some i, some o =>
      let m := Schema.deriveTable i
      (st, some s!"{decideB (Schema.SchemaOK i o)} {decideB (Schema.InOK i)} | {showName m.name} | {";".intercalate (m.cols.map showVCol)}")
    | _, _ => (st, bad)
  | ["arow", tbl, link, tx, op] =>
    match parseNat tbl, parseKey link, parseNat tx, parseOp op with
    | some tbl, some link, some tx, some op =>
      ({ st with arows := st.arows ++ [{ tbl := tbl, link := link, tx := tx, op := op }] }, none)
    | _, _, _, _ => (st, bad)
  | ["q04m2o", w, fk, T, ans] =>
    match parseNat T with
    | some T =>
      let fk? : Option (Option Key) := if fk == "N" then some none else (parseKey fk).map some
      let ans? : Option (Option (Key × Nat)) := if ans == "N" then some none else (parseAns1 ans).map some
      match fk?, ans? with
      | some fk, some ans =>
        let remote := pickTable st w
        let m := (manyToOne remote fk T).map (fun r => (r.key, r.tx))
        (st, some s!"{decideB (C04.M2OHolds remote fk T ans)} | {match m with | some a => showAns [a] | none => "N"}")
      | _, _ => (st, bad)
    | none => (st, bad)
  | ["q04o2m", w, fkIdx, pk, T, ans] =>
    match parseNat fkIdx, parseKey pk, parseNat T, parseAns ans with
    | some fkIdx, some pk, some T, some ans =>
      let remote := pickTable st w
      let m := (oneToMany remote fkIdx pk T).map (fun r => (r.key, r.tx))
      (st, some s!"{decideB (C04.O2MHolds remote fkIdx pk T ans)} | {showAns m}")
    | _, _, _, _ => (st, bad)
  | ["q04m2m", w, tbl, lf, pk, T, ans] =>
    match parseNat tbl, parseBool lf, parseKey pk, parseNat T, parseAns ans with
    | some tbl, some lf, some pk, some T, some ans =>
      let remote := pickTable st w
      let m := (manyToMany remote st.arows tbl lf pk T).map (fun r => (r.key, r.tx))
      (st, some s!"{decideB (C04.M2MHolds remote st.arows tbl lf pk T ans)} | {showAns m}")
    | _, _, _, _, _ => (st, bad)
  | "mev" :: sess :: conn :: rest =>
    match parseNat sess, parseNat conn, parseEv rest with
    | some sess, some conn, some e => ({ st with mgr := mgrStep st.cfg st.mgr (.ev sess conn e) }, none)
    | _, _, _ => (st, bad)
  | ["mengrb", conn] =>
    match parseNat conn with
    | some conn => ({ st with mgr := mgrStep st.cfg st.mgr (.engineRollback conn) }, none)
    | none => (st, bad)
  | ["mclose", conn] =>
    match parseNat conn with
    | some conn => ({ st with mgr := mgrStep st.cfg st.mgr (.close conn) }, none)
    | none => (st, bad)
  | ["qmdump", conn] =>
    match parseNat conn with
    | some conn =>
      let scm := semi (st.mgr.scm.map (fun (p : Nat × Nat) => s!"{p.1}:{p.2}"))
      (st, some s!"{showModelDump (st.mgr.get conn)} | {scm} | {showNats st.mgr.liveUows}")
    | none => (st, bad)
  | "actv" :: tid :: rest =>
    match parseNat tid, parseRow rest with
    | some tid, some r =>
      let r' : VRow TKey := { key := (tid, r.key), tx := r.tx, endTx := r.endTx, op := r.op, vals := r.vals, mods := r.mods }
      ({ st with actV := st.actV ++ [r'] }, none)
    | _, _ => (st, bad)
  | "actb" :: rest =>
    match parseAct rest with
    | some a => ({ st with actBefore := st.actBefore ++ [a] }, none)
    | none => (st, bad)
  | "acta" :: rest =>
    match parseAct rest with
    | some a => ({ st with actAfter := st.actAfter ++ [a] }, none)
    | none => (st, bad)
  | ["q18", T] =>
    match parseNat T with
    | some T =>
      let r := decideB (C18.Holds st.actV T st.actBefore st.actAfter)
      ({ st with actV := [], actBefore := [], actAfter := [] }, some r)
    | none => (st, bad)
  | "c05v" :: tid :: rest =>
    match parseNat tid, parseRow rest with
    | some tid, some r =>
      let r' : VRow TKey := { key := (tid, r.key), tx := r.tx, endTx := r.endTx, op := r.op, vals := r.vals, mods := r.mods }
      ({ st with c05V := st.c05V ++ [r'] }, none)
    | _, _ => (st, bad)
  | ["c05b", tid, pk, vals] =>
    match parseNat tid, parseKey pk, parseVals vals with
    | some tid, some pk, some vals => ({ st with c05Before := st.c05Before ++ [((tid, pk), vals)] }, none)
    | _, _, _ => (st, bad)
  | ["c05a", tid, pk, vals] =>
    match parseNat tid, parseKey pk, parseVals vals with
    | some tid, some pk, some vals => ({ st with c05After := st.c05After ++ [((tid, pk), vals)] }, none)
    | _, _, _ => (st, bad)
  | ["c05l", tbl, link] =>
    match parseNat tbl, parseKey link with
    | some tbl, some link => ({ st with c05Links := st.c05Links ++ [(tbl, link)] }, none)
    | _, _ => (st, bad)
  | ["c05lb", tbl, link] =>
    match parseNat tbl, parseKey link with
    | some tbl, some link => ({ st with c05LinksB := st.c05LinksB ++ [(tbl, link)] }, none)
    | _, _ => (st, bad)
  | ["q05n", tid, pk, tx, reg, paths] =>
    -- dotted paths: the log of versions the recursion reverts (`revertNL` over the relationship model) and
    -- `C05.DeepHolds` on the implementation's rows after the revert; does not reset (a `q05` follows)
    match parseNat tid, parseKey pk, parseNat tx, parseReg reg, parsePaths paths with
    | some tid, some pk, some tx, some reg, some paths =>
      match rowAt st.c05V (tid, pk) tx with
      | some v =>
        let depth := (paths.map List.length).foldl max 0 + 1
        let res := revertNL (shownBy st.c05V st.arows reg) depth paths (st.c05Before, []) v
        let deep := decideB (C05.DeepHolds st.c05After res.2)
        let lvl2 := (res.2.filter (fun w => w.key != v.key)).length
        (st, some s!"{deep} {res.2.length} {lvl2}")
      | none => (st, bad)
    | _, _, _, _, _ => (st, bad)
  | ["q05f", tid, pk, tx, reg, paths] =>
    -- dotted paths, whole state: rows and links predicted by `revertF` from the rows / links before the revert
    -- against the implementation's rows / links afterwards; does not reset (a `q05` follows)
    match parseNat tid, parseKey pk, parseNat tx, parseReg reg, parsePaths paths with
    | some tid, some pk, some tx, some reg, some paths =>
      match rowAt st.c05V (tid, pk) tx with
      | some v =>
        let depth := (paths.map List.length).foldl max 0 + 1
        let regf : Nat → Nat → Option RelSpec := fun t r =>
          match reg.find? (fun e => e.1 == t && e.2.1 == r) with
          | none => none
          | some e => parseRelSpec e.2.2
        let res := revertF st.c05V st.arows regf depth paths (st.c05Before, st.c05LinksB, []) v
        let liveEq := sameLive res.1 st.c05After
        let linkEq := sameLinkSet res.2.1 st.c05Links
        let showLive := semi (res.1.map (fun p => s!"{p.1.1} {showKey p.1.2} {showVals p.2}"))
        let showLinks := semi (res.2.1.map (fun l => s!"{l.1} {showKey l.2}"))
        -- oracle on the IMPLEMENTATION's links: second-level links of a two-level path are back (C05.SecondLevelLinksHold)
        let second := paths.all (fun p => match p with
          | [r1, r2] => decide (C05.SecondLevelLinksHold st.c05Links st.c05V st.arows regf v r1 r2)
          | _ => true)
        (st, some s!"{showBool liveEq} {showBool linkEq} {showBool second} | {showLive} | {showLinks}")
      | none => (st, bad)
    | _, _, _, _, _ => (st, bad)
  | ["q05", tid, pk, tx, rels] =>
    match parseNat tid, parseKey pk, parseNat tx with
    | some tid, some pk, some tx =>
      match rowAt st.c05V (tid, pk) tx with
      | some v =>
        let target := decideB (C05.TargetHolds st.c05After v)
        let specs := if rels == "-" then [] else rels.splitOn ";"
        let rs := specs.map (c05Rel st.c05V st.arows st.c05Before st.c05After st.c05Links st.c05LinksB v)
        if rs.any (fun r => r.isNone) then (st, bad) else
        let rs' := rs.filterMap id
        let relBits := String.join (rs'.map (fun r => showBool r.1))
        let touched := (v.key :: rs'.flatMap (fun r => r.2.1))
        let modelBits := String.join (rs'.map (fun r => showBool r.2.2))
        let frame := if v.op = .delete then "-" else decideB (C05.FrameHolds st.c05Before st.c05After touched)
        ({ st with c05Before := [], c05After := [], c05Links := [], c05LinksB := [] },
         some s!"{target} {if relBits.isEmpty then "-" else relBits} {frame} {if modelBits.isEmpty then "-" else modelBits}")
      | none => (st, bad)
    | _, _, _ => (st, bad)
  | ["tprog", nk, nv, mods, validity] =>
    match parseNat nk, parseNat nv, parseBool mods, parseBool validity with
    | some nk, some nv, some mods, some validity =>
      ({ st with tprog := { (default : Trigger.TrigProg) with nKeys := nk, nVals := nv, mods := mods }, tvalidity := validity,
                 trigT := [], objT := [] }, none)
    | _, _, _, _ => (st, bad)
  | "top" :: tag :: rest =>
    match parseOpProg rest with
    | some o =>
      if tag == "ins" then ({ st with tprog := { st.tprog with ins := o } }, none)
      else if tag == "upd" then ({ st with tprog := { st.tprog with upd := o } }, none)
      else if tag == "del" then ({ st with tprog := { st.tprog with del := o } }, none)
      else (st, bad)
    | none => (st, bad)
  | "tev" :: T :: rest =>
    let T? : Option (Option Nat) := parseONat T
    let ev? : Option Trigger.RowEv := match rest with
      | ["ins", k, v] => do pure (.ins ⟨(← parseKey k), (← parseVals v)⟩)
      | ["upd", k, ov, nv, chg] => do pure (.upd ⟨(← parseKey k), (← parseVals ov)⟩ ⟨(← parseKey k), (← parseVals nv)⟩ (← parseBool chg))
      | ["del", k, v] => do pure (.del ⟨(← parseKey k), (← parseVals v)⟩)
      | _ => none
    match T?, ev? with
    | some T, some e =>
      let trig := Trigger.runOp st.tprog st.trigT T e
      let obj := match T, e with
        | none, _ => st.objT
        | some _, .upd _ _ false => st.objT
        | some T, e => Trigger.objectPath st.tvalidity st.tprog.mods st.objT T e
      ({ st with trigT := trig, objT := obj }, none)
    | _, _ => (st, bad)
  | ["qtrig"] =>
    (st, some s!"{decideB (Trigger.WellFormed st.tvalidity st.tprog)} | {showRows st.trigT} | {showRows st.objT}")
  | ["q08", k, vs, idx, nxt, prv] =>
    match parseKey k, parseNats vs, parseNats idx, parseONats nxt, parseONats prv with
    | some k, some vs, some idx, some nxt, some prv =>
      let a : Answers := { vs := vs, idx := idx, nxt := nxt, prv := prv }
      (st, some s!"{decideB (C08.Holds st.t k a)} | {showAnswers (modelAnswers st.strategy st.t k)}")
    | _, _, _, _, _ => (st, bad)
  | ["q16"] =>
    let chainOk := if NewestOpen st.t then decideB (Chain st.t2) else "-"
    (st, some s!"{decideB (C16.Holds st.t st.t2)} {chainOk} | {showRows (backfillEnd st.t)}")
  | ["q15cs", k, tx, cs] =>
    match parseKey k, parseNat tx, parseCs cs with
    | some k, some tx, some cs =>
      match rowAt st.t k tx with
      | some v =>
        (st, some s!"{decideB (C15.ChangesetHolds st.t v cs)} | {showCs (changesetVals (prevOf st.strategy st.t v) v)}")
      | none => (st, bad)
    | _, _, _ => (st, bad)
  | ["q15bf"] =>
    (st, some s!"{decideB (C15.BackfillHolds st.t st.t2)} | {showRows (backfillMods st.t)}")
  | ["q19"] =>
    let m := vacuum st.t
    (st, some s!"{decideB (C19.Holds st.t st.del)} | {if m.isEmpty then "-" else ";".intercalate (m.map (fun r => s!"{showKey r.key}:{r.tx}"))}")
  | ["q20", k, n] =>
    match parseKey k, parseNat n with
    | some k, some n => (st, some s!"{decideB (C20.Holds st.t k n)} | {countVersions st.t k}")
    | _, _ => (st, bad)
  | _ => (st, bad)

partial def loop (hin : IO.FS.Stream) (hout : IO.FS.Stream) (st : DState) : IO Unit := do
  let line ← hin.getLine
  if line.isEmpty then return ()
  let toks := (line.trimAscii.toString.splitOn " ").filter (· ≠ "")
  let (st', out) := handle st toks
  if let some o := out then
    hout.putStrLn o
    hout.flush
  loop hin hout st'

def main : IO Unit := do
  loop (← IO.getStdin) (← IO.getStdout) {}
