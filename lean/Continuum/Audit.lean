import Continuum
/-! `#print axioms` for every property theorem; parsed by `harness/lean.py`. -/
open Continuum
#print axioms chain_writeVersion
#print axioms c08_subquery
#print axioms c08_validity
#print axioms c08_strategies_agree
#print axioms c08_index_no_key_filter_counterexample
#print axioms c15_changeset_mem
#print axioms c15_changeset_nodup
#print axioms c15_changeset_validity
#print axioms c15_changeset_subquery
#print axioms c15_backfill
#print axioms c15_backfill_sql_ne_counterexample
#print axioms c16_contract
#print axioms c16_chain
#print axioms c16_chain_of_wiped
#print axioms c16_idempotent
#print axioms c16_restores
#print axioms c16_chain_unique
#print axioms c19_holds
#print axioms c19_old_aba_counterexample
#print axioms c19_old_composite_counterexample
#print axioms c20_count
#print axioms inv_init
#print axioms inv_step
#print axioms inv_run
#print axioms c03_chain
#print axioms c11_pk_unique
#print axioms c02_holds
#print axioms c06_db_holds
#print axioms boundary_after_end
#print axioms Schema.c12_derive_ok
#print axioms Schema.c13_no_column
#print axioms Schema.include_beats_exclude
