import Continuum.Basic

/-!
# Queries and tools that are pure functions of a version table

Transcriptions (as list comprehensions mirroring the SQL shape) of

* `fetcher.py`            – `index`, `next`, `previous` for both strategies          (C08)
* `model_builder.py`      – the `versions` collection (`ORDER BY transaction_id`)      (C08)
* `schema.py`             – `update_end_tx_column`, `update_property_mod_flags`        (C16, C15)
* `version.py`            – `changeset`                                               (C15)
* `utils.py`              – `vacuum`, `count_versions`                                (C19, C20)
-/

namespace Continuum

variable {K : Type} [DecidableEq K]

/-! ## C08: the four accessors -/

/-- all rows of entity `k` -/
def rowsOf (t : VTable K) (k : K) : VTable K := t.filter (fun r => r.key = k)

/-- `parent.versions`: rows of the key `ORDER BY transaction_id` -/
def versionsOf (t : VTable K) (k : K) : VTable K :=
  (rowsOf t k).mergeSort (fun a b => decide (a.tx ≤ b.tx))

/-- `_index_query`: the number of versions of the same entity with a smaller id -/
def indexOf (t : VTable K) (k : K) (x : Nat) : Nat :=
  (t.filter (fun r => r.key = k ∧ r.tx < x)).length

/-- `_index_query` as it was before the repair (`fix:` commit, finding F-IDX): the count was not
restricted to the entity's own rows. Kept to state the defect formally. -/
def indexOfNoKeyFilter (t : VTable K) (_k : K) (x : Nat) : Nat :=
  (t.filter (fun r => r.tx < x)).length

/-- `SubqueryFetcher.next_query(...).first()` -/
def nextSub (t : VTable K) (v : VRow K) : Option (VRow K) :=
  (nextTx t v.key v.tx).bind (rowAt t v.key)

/-- `SubqueryFetcher.previous_query(...).first()` -/
def prevSub (t : VTable K) (v : VRow K) : Option (VRow K) :=
  (prevTx t v.key v.tx).bind (rowAt t v.key)

/-- `ValidityFetcher.next_query`: `tx = v.end_tx` (SQL `= NULL` matches nothing) -/
def nextVal (t : VTable K) (v : VRow K) : Option (VRow K) :=
  match v.endTx with
  | none => none
  | some e => rowAt t v.key e

/-- `ValidityFetcher.previous_query`: `end_tx = v.tx` -/
def prevVal (t : VTable K) (v : VRow K) : Option (VRow K) :=
  t.find? (fun r => r.key = v.key ∧ r.endTx = some v.tx)

inductive Strategy
  | validity | subquery
deriving DecidableEq, Repr, Inhabited

def nextOf (s : Strategy) (t : VTable K) (v : VRow K) : Option (VRow K) :=
  match s with
  | .validity => nextVal t v
  | .subquery => nextSub t v

def prevOf (s : Strategy) (t : VTable K) (v : VRow K) : Option (VRow K) :=
  match s with
  | .validity => prevVal t v
  | .subquery => prevSub t v

/-- What the four accessors answer for one entity: the ids of `versions` in the order returned,
and for each of them `index`, `next` (its id) and `previous` (its id). -/
structure Answers where
  vs : List Nat
  idx : List Nat
  nxt : List (Option Nat)
  prv : List (Option Nat)
deriving DecidableEq, Repr

def modelAnswers (s : Strategy) (t : VTable K) (k : K) : Answers :=
  let vs := versionsOf t k
  { vs := vs.map (·.tx)
    idx := vs.map (fun v => indexOf t k v.tx)
    nxt := vs.map (fun v => (nextOf s t v).map (·.tx))
    prv := vs.map (fun v => (prevOf s t v).map (·.tx)) }

/-! ## C16: `update_end_tx_column` -/

/-- each row gets the smallest larger id of its key; rows without a successor are not touched -/
def backfillEnd (t : VTable K) : VTable K :=
  t.map (fun r => match nextTx t r.key r.tx with
    | some n => { r with endTx := some n }
    | none => r)

/-- wipe the end column (a table as the subquery strategy leaves it) -/
def wipeEnd (t : VTable K) : VTable K := t.map (fun r => { r with endTx := none })

/-! ## C15: changeset and the modification-flag backfill -/

/-- `VersionClassBase.changeset` restricted to the non-key, non-internal columns:
`(column index, old, new)` for every column whose value differs from the previous version
(from NULL for the first version). -/
def changesetVals (prev : Option (VRow K)) (v : VRow K) : List (Nat × Val × Val) :=
  let olds : List Val := match prev with
    | none => v.vals.map (fun _ => none)
    | some p => p.vals
  ((List.range v.vals.length).filterMap (fun i =>
    let o := (olds[i]?).getD none
    let n := (v.vals[i]?).getD none
    if o ≠ n then some (i, o, n) else none))

/-- SQL three-valued `a != b`, as a Python-truthy result (`NULL` is falsy). This is the
comparison `get_property_mod_flags_query` used before the repair (finding F-MODNULL). -/
def sqlNeTruthy (a b : Val) : Bool :=
  match a, b with
  | some x, some y => x != y
  | _, _ => false

/-- null-safe difference (`IS DISTINCT FROM`): NULL is an ordinary value -/
def distinctFrom (a b : Val) : Bool := a != b

def zipFlags (ne : Val → Val → Bool) (a b : List Val) : List Bool :=
  (List.range a.length).map (fun i => ne ((a[i]?).getD none) ((b[i]?).getD none))

/-- `update_property_mod_flags` with comparison `ne`: `v LEFT JOIN v2 ON v2.end_tx = v.tx AND
same key`; a flag is *set* (never cleared) when some joined predecessor differs in that column
or when there is no predecessor. -/
def backfillModsWith (ne : Val → Val → Bool) (t : VTable K) : VTable K :=
  t.map (fun r =>
    let preds := t.filter (fun p => p.key = r.key ∧ p.endTx = some r.tx)
    let flags : List Bool :=
      if preds.isEmpty then r.vals.map (fun _ => true)
      else preds.foldl (fun acc p => orFlags acc (zipFlags ne r.vals p.vals))
             (r.vals.map (fun _ => false))
    { r with mods := orFlags r.mods flags })

def backfillMods (t : VTable K) : VTable K := backfillModsWith distinctFrom t

/-! ## C19: `vacuum` -/

/-- what `naturally_equivalent` compares on a version object: every non-primary-key column -/
def VRow.data (r : VRow K) : Option Nat × Op × List Val × List Bool := (r.endTx, r.op, r.vals, r.mods)

/-- association-list memory `key ↦ remembered row` -/
def memGet {A : Type} [DecidableEq A] (m : List (A × VRow K)) (a : A) : Option (VRow K) :=
  (m.find? (fun p => p.1 = a)).map (·.2)

def memSet {A : Type} [DecidableEq A] (m : List (A × VRow K)) (a : A) (r : VRow K) :
    List (A × VRow K) :=
  (a, r) :: m.filter (fun p => p.1 ≠ a)

/-- The single ordered pass of `utils.vacuum` over the rows (already ordered by id): returns the
rows handed to `session.delete`.  A row is deleted iff it is naturally equivalent to the
remembered row of its entity; otherwise it becomes the remembered row. -/
def vacuumPass (m : List (K × VRow K)) : List (VRow K) → List (VRow K)
  | [] => []
  | r :: rs =>
    match memGet m r.key with
    | some p => if p.data = r.data then r :: vacuumPass m rs else vacuumPass (memSet m r.key r) rs
    | none => vacuumPass (memSet m r.key r) rs

def vacuum (t : VTable K) : List (VRow K) :=
  vacuumPass [] (t.mergeSort (fun a b => decide (a.tx ≤ b.tx)))

/-- The pass as the tree had it before the repair (finding F-VAC): rows were keyed on an
abstraction `f` of the key (the *first* key column only) and only the first row ever seen was
remembered. -/
def vacuumPassOld {A : Type} [DecidableEq A] (f : K → A) (m : List (A × VRow K)) :
    List (VRow K) → List (VRow K)
  | [] => []
  | r :: rs =>
    match memGet m (f r.key) with
    | some p => if p.data = r.data then r :: vacuumPassOld f m rs else vacuumPassOld f m rs
    | none => vacuumPassOld f (memSet m (f r.key) r) rs

/-! ## C20: `count_versions` -/

def countVersions (t : VTable K) (k : K) : Nat := (t.filter (fun r => r.key = k)).length

end Continuum
