import Continuum.Rel
import Continuum.Spec.Links
import Continuum.Lemmas.UowLive

/-!
# Revert (C05)

What `Reverter.__call__` does, at the level of the application's rows: the versioned columns of the
target entity are set to the version's values (the entity is re-created if it had been deleted), a
DELETE version removes the entity; for a relationship named in the call the related set is
restored to what the version shows (`Rel.lean`): related children are reverted to their as-of
versions, children related now but not then are deleted (one-to-many), links are reset
(many-to-many).  Rows are the parent rows projected on the version columns, keyed
`(version table id, primary key)` like everywhere else.  Core Lean only.
-/

namespace Continuum



/-- `revert_properties` / the DELETE branch for one version row -/
def revertTarget (live : Live) (v : VRow TKey) : Live :=
  if v.op = .delete then liveDel live v.key else liveSet live v.key v.vals

/-- children of table `ct` whose foreign-key column `fkIdx` points at `pk` -/
def liveChildren (live : Live) (ct fkIdx : Nat) (pk : List Int) : List TKey :=
  (live.filter (fun p => p.1.1 == ct && (match p.2[fkIdx]? with
      | some (some x) => [x] == pk
      | _ => false))).map (·.1)

/-- `revert_relationship` for a one-to-many relationship: every child version shown by the
version is reverted (re-created if needed); children related now but not shown are deleted -/
def revertO2M (live : Live) (ct fkIdx : Nat) (pk : List Int) (shown : List (VRow Key)) : Live :=
  let keep : List TKey := shown.map (fun r => (ct, r.key))
  let l1 := (liveChildren live ct fkIdx pk).foldl (fun l k => if keep.contains k then l else liveDel l k) live
  shown.foldl (fun l r => liveSet l (ct, r.key) r.vals) l1

/-! ## Statement of C05 (observed before / after rows) -/

/-- the target: a non-delete version's values are the entity's versioned columns afterwards; a
delete version leaves the entity absent -/
def C05.TargetHolds (after : Live) (v : VRow TKey) : Prop :=
  if v.op = .delete then liveGet after v.key = none else liveGet after v.key = some v.vals

/-- one-to-many relationship named in the call: every child the version shows is there with the
values of its as-of version, and no other child is related to the entity any more -/
def C05.O2MHolds (after : Live) (ct fkIdx : Nat) (pk : List Int) (shown : List (VRow Key)) : Prop :=
  (∀ r ∈ shown, liveGet after (ct, r.key) = some r.vals) ∧
  (∀ k ∈ liveChildren after ct fkIdx pk, k ∈ shown.map (fun r => (ct, r.key)))

/-- many-to-many relationship named in the call: the entity's links are exactly the shown ones and
every linked entity carries the values of its as-of version -/
def C05.M2MHolds (after : Live) (links : List Link) (rt atbl : Nat) (localFirst : Bool) (pk : List Int)
    (shown : List (VRow Key)) : Prop :=
  (∀ r ∈ shown, liveGet after (rt, r.key) = some r.vals ∧ (atbl, mkLink localFirst pk r.key) ∈ links) ∧
  (∀ x ∈ links, x.1 = atbl →
      (if localFirst then x.2.take pk.length = pk else x.2.drop (x.2.length - pk.length) = pk) →
      ∃ r ∈ shown, x.2 = mkLink localFirst pk r.key)

/-! ## many-to-many and many-to-one (theorems in `Props/C05Rel.lean`) -/

/-- does link `x` of association table `atbl` belong to the parent with key `pk`? -/
def linkOfParent (atbl : Nat) (localFirst : Bool) (pk : List Int) (x : Link) : Bool :=
  x.1 == atbl && (if localFirst then x.2.take pk.length == pk else x.2.drop (x.2.length - pk.length) == pk)

/-- `revert_association` (uselist) at the level of rows and links -/
def revertM2M (live : Live) (links : List Link) (rt atbl : Nat) (localFirst : Bool) (pk : List Int)
    (shown : List (VRow Key)) : Live × List Link :=
  (shown.foldl (fun l r => liveSet l (rt, r.key) r.vals) live,
   links.filter (fun x => !linkOfParent atbl localFirst pk x) ++ shown.map (fun r => (atbl, mkLink localFirst pk r.key)))

/-- many-to-one: the shown version, if any, is reverted -/
def revertM2O (live : Live) (rt : Nat) (shown : Option (VRow Key)) : Live :=
  match shown with
  | none => live
  | some r => liveSet live (rt, r.key) r.vals

def C05.M2OHolds (after : Live) (rt : Nat) (shown : Option (VRow Key)) : Prop :=
  ∀ r ∈ shown, liveGet after (rt, r.key) = some r.vals

/-- rows of tables not involved stay as they were -/
def C05.FrameHolds (before after : Live) (touched : List TKey) : Prop :=
  (∀ p ∈ before, p.1 ∉ touched → liveGet after p.1 = some p.2) ∧
  (∀ p ∈ after, p.1 ∉ touched → liveGet before p.1 = some p.2)

instance c05d1 (after : Live) (v : VRow TKey) : Decidable (C05.TargetHolds after v) := by
  unfold C05.TargetHolds; split <;> infer_instance
instance c05d2 (after : Live) (ct fkIdx : Nat) (pk : List Int) (shown : List (VRow Key)) :
    Decidable (C05.O2MHolds after ct fkIdx pk shown) := by unfold C05.O2MHolds; infer_instance
instance c05d3 (after : Live) (links : List Link) (rt atbl : Nat) (lf : Bool) (pk : List Int) (shown : List (VRow Key)) :
    Decidable (C05.M2MHolds after links rt atbl lf pk shown) := by unfold C05.M2MHolds; infer_instance
instance c05d5 (after : Live) (rt : Nat) (shown : Option (VRow Key)) : Decidable (C05.M2OHolds after rt shown) := by
  unfold C05.M2OHolds; infer_instance
instance c05d4 (before after : Live) (touched : List TKey) : Decidable (C05.FrameHolds before after touched) := by
  unfold C05.FrameHolds; infer_instance

end Continuum
