import Continuum.Basic

/-!
# Wire format of the line protocol (parsing and printing), shared by all driver commands

Tokens are separated by single spaces.  Lists are comma separated, the empty list is `-`.
NULL is `N`.  Booleans are `0`/`1`.  Anything that does not parse makes the command answer
`bad-op` — the driver never defaults.
-/

namespace Continuum.Wire

def parseList {α : Type} (f : String → Option α) (s : String) : Option (List α) :=
  if s == "-" then some [] else (s.splitOn ",").mapM f

def parseNat (s : String) : Option Nat := s.toNat?
def parseInt (s : String) : Option Int := s.toInt?
def parseVal (s : String) : Option Val := if s == "N" then some none else s.toInt?.map some
def parseONat (s : String) : Option (Option Nat) := if s == "N" then some none else s.toNat?.map some
def parseBool (s : String) : Option Bool :=
  if s == "1" then some true else if s == "0" then some false else none
def parseOp (s : String) : Option Op := s.toNat?.bind Op.ofCode?

def parseKey : String → Option (List Int) := parseList parseInt
def parseVals : String → Option (List Val) := parseList parseVal
def parseBools : String → Option (List Bool) := parseList parseBool
def parseNats : String → Option (List Nat) := parseList parseNat
def parseONats : String → Option (List (Option Nat)) := parseList parseONat

def showList {α : Type} (f : α → String) (l : List α) : String :=
  if l.isEmpty then "-" else ",".intercalate (l.map f)

def showVal : Val → String
  | none => "N"
  | some i => toString i
def showONat : Option Nat → String
  | none => "N"
  | some n => toString n
def showBool (b : Bool) : String := if b then "1" else "0"
def showKey (k : List Int) : String := showList toString k
def showVals (l : List Val) : String := showList showVal l
def showBools (l : List Bool) : String := showList showBool l
def showNats (l : List Nat) : String := showList toString l
def showONats (l : List (Option Nat)) : String := showList showONat l

/-- `key tx end op vals mods` -/
def parseRow : List String → Option (VRow (List Int))
  | [k, tx, e, op, vals, mods] => do
    let k ← parseKey k
    let tx ← parseNat tx
    let e ← parseONat e
    let op ← parseOp op
    let vals ← parseVals vals
    let mods ← parseBools mods
    pure { key := k, tx := tx, endTx := e, op := op, vals := vals, mods := mods }
  | _ => none

def showRow (r : VRow (List Int)) : String :=
  s!"{showKey r.key} {r.tx} {showONat r.endTx} {r.op.code} {showVals r.vals} {showBools r.mods}"

/-- rows separated by `;` -/
def showRows (t : List (VRow (List Int))) : String :=
  if t.isEmpty then "-" else ";".intercalate (t.map showRow)

def decideB (p : Prop) [Decidable p] : String := if p then "1" else "0"

end Continuum.Wire
