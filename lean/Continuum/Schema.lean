/-!
# Derivation of the version-table schema (C12, schema half of C13)

Transcription of `table_builder.py` (`ColumnReflector`, `TableBuilder`), of
`manager.is_excluded_column / is_excluded_property` (include beats exclude; a column the model does
not map is never excluded) and of `PropertyModTrackerPlugin.after_build_version_table_columns`,
for ONE parent table, as a pure function of the configuration; and the statement of C12 as a
decidable predicate `SchemaOK` over the configuration and a derived table.

Names are lists of character codes (so that the `table_name` format `'%s_version'` is list
concatenation); types are opaque codes.  Core Lean only.
-/

namespace Continuum.Schema

abbrev Name := List Nat

/-- type codes of the internal columns (anything below 1000000 is a parent column type) -/
def tBigInteger : Nat := 1000001
def tSmallInteger : Nat := 1000002
def tBoolean : Nat := 1000003

/-- a column of the parent table, with the attributes the builder looks at or must strip -/
structure PCol where
  name : Name
  typ : Nat
  pk : Bool
  nullable : Bool
  unique : Bool
  autoinc : Bool
  onupdate : Bool
  fk : Bool
  index : Bool
  /-- `get_column_key(model, column)`: the attribute key the model maps the column under -/
  key : Option Name
deriving DecidableEq, Repr

structure TblIn where
  name : Name
  schema : Option Name
  cols : List PCol
  /-- a model class is given (class tables) – association tables are built without one -/
  hasModel : Bool
  /-- the model uses single-table inheritance (`inspect(model).single`) -/
  single : Bool
  exclude : List Name
  includ : List Name
  /-- option `table_name` split at `%s` -/
  fmt : Name × Name
  validity : Bool
  txCol : Name
  endCol : Name
  opCol : Name
  modTracker : Bool
deriving Repr

/-- a column of the version table -/
structure VCol where
  name : Name
  typ : Nat
  pk : Bool
  nullable : Bool
  unique : Bool
  autoinc : Bool
  onupdate : Bool
  fk : Bool
  index : Bool
deriving DecidableEq, Repr

structure TblOut where
  name : Name
  schema : Option Name
  cols : List VCol
deriving DecidableEq, Repr

/-- `"_mod"` -/
def modSuffix : Name := [95, 109, 111, 100]

/-- `is_excluded_column`: only with a model, only for mapped columns; include beats exclude -/
def isExcluded (i : TblIn) (c : PCol) : Bool :=
  i.hasModel && (match c.key with
    | none => false
    | some k => if i.includ.contains k then false else i.exclude.contains k)

/-- `ColumnReflector.reflect_column` -/
def reflect (i : TblIn) (c : PCol) : VCol :=
  { name := c.name, typ := c.typ, pk := c.pk,
    nullable := if c.pk then (if c.name = i.txCol then false else c.nullable) else true,
    unique := false, autoinc := false, onupdate := false, fk := false, index := c.index }

def txColumn (i : TblIn) : VCol :=
  { name := i.txCol, typ := tBigInteger, pk := true, nullable := false, unique := false,
    autoinc := false, onupdate := false, fk := false, index := true }

def endColumn (i : TblIn) : VCol :=
  { name := i.endCol, typ := tBigInteger, pk := false, nullable := true, unique := false,
    autoinc := false, onupdate := false, fk := false, index := true }

def opColumn (i : TblIn) : VCol :=
  { name := i.opCol, typ := tSmallInteger, pk := false, nullable := false, unique := false,
    autoinc := false, onupdate := false, fk := false, index := true }

def modColumn (c : PCol) : VCol :=
  { name := c.name ++ modSuffix, typ := tBoolean, pk := false, nullable := false, unique := false,
    autoinc := false, onupdate := false, fk := false, index := false }

/-- the parent columns that are versioned -/
def kept (i : TblIn) : List PCol := i.cols.filter (fun c => !isExcluded i c)

/-- `ColumnReflector.__iter__` followed by the tracker plugin's hook -/
def deriveCols (i : TblIn) : List VCol :=
  (kept i).map (reflect i) ++
  (if i.hasModel && i.single then [] else
    [txColumn i] ++ (if i.validity then [endColumn i] else []) ++ [opColumn i]) ++
  (if i.modTracker && i.hasModel then ((kept i).filter (fun c => !c.pk)).map modColumn else [])

/-- `TableBuilder.__call__` -/
def deriveTable (i : TblIn) : TblOut :=
  { name := i.fmt.1 ++ i.name ++ i.fmt.2, schema := i.schema, cols := deriveCols i }

/-! ## The statement of C12 for one table -/

def findCol (o : TblOut) (n : Name) : Option VCol := o.cols.find? (fun c => c.name = n)

def countCol (o : TblOut) (n : Name) : Nat := (o.cols.filter (fun c => c.name = n)).length

/-- every versioned parent column appears exactly once, same name and type, stripped of
uniqueness, auto-increment, on-update and foreign keys; key columns stay key and non-null, every
other parent column becomes nullable -/
def parentColsOK (i : TblIn) (o : TblOut) : Prop :=
  ∀ c ∈ i.cols, isExcluded i c = false →
    countCol o c.name = 1 ∧
    ∀ v ∈ (findCol o c.name).toList,
      v.typ = c.typ ∧ v.unique = false ∧ v.autoinc = false ∧ v.onupdate = false ∧ v.fk = false ∧
      v.pk = c.pk ∧ (c.pk = true → v.nullable = false ∨ c.nullable = true) ∧ (c.pk = false → v.nullable = true)

/-- an excluded column has no counterpart (C13) -/
def excludedAbsent (i : TblIn) (o : TblOut) : Prop :=
  ∀ c ∈ i.cols, isExcluded i c = true → countCol o c.name = 0 ∧ countCol o (c.name ++ modSuffix) = 0

/-- internal columns: transaction id (key, non-null), end id exactly under validity, operation type -/
def internalOK (i : TblIn) (o : TblOut) : Prop :=
  (i.hasModel && i.single) = false →
    (countCol o i.txCol = 1 ∧ ∀ v ∈ (findCol o i.txCol).toList,
        v.typ = tBigInteger ∧ v.pk = true ∧ v.nullable = false ∧ v.autoinc = false) ∧
    (countCol o i.endCol = (if i.validity then 1 else 0) ∧ ∀ v ∈ (findCol o i.endCol).toList,
        v.typ = tBigInteger ∧ v.pk = false ∧ v.nullable = true) ∧
    (countCol o i.opCol = 1 ∧ ∀ v ∈ (findCol o i.opCol).toList,
        v.typ = tSmallInteger ∧ v.pk = false ∧ v.nullable = false)

/-- the primary key is exactly the parent key plus the transaction column -/
def pkOK (i : TblIn) (o : TblOut) : Prop :=
  ∀ v ∈ o.cols, v.pk = true →
    (v.name = i.txCol ∧ (i.hasModel && i.single) = false) ∨ ∃ c ∈ i.cols, c.pk = true ∧ c.name = v.name

/-- modification flags: one non-null boolean per versioned non-key column, only with the plugin
and only for class tables -/
def modsOK (i : TblIn) (o : TblOut) : Prop :=
  ∀ c ∈ i.cols, isExcluded i c = false → c.pk = false →
    countCol o (c.name ++ modSuffix) = (if i.modTracker && i.hasModel then 1 else 0) ∧
    ∀ v ∈ (findCol o (c.name ++ modSuffix)).toList, v.typ = tBoolean ∧ v.nullable = false ∧ v.pk = false

/-- nothing else is in the table -/
def countOK (i : TblIn) (o : TblOut) : Prop :=
  o.cols.length =
    (kept i).length +
    (if i.hasModel && i.single then 0 else (if i.validity then 3 else 2)) +
    (if i.modTracker && i.hasModel then ((kept i).filter (fun c => !c.pk)).length else 0)

def SchemaOK (i : TblIn) (o : TblOut) : Prop :=
  o.name = i.fmt.1 ++ i.name ++ i.fmt.2 ∧ o.schema = i.schema ∧
  parentColsOK i o ∧ excludedAbsent i o ∧ internalOK i o ∧ pkOK i o ∧ modsOK i o ∧ countOK i o

instance (i : TblIn) (o : TblOut) : Decidable (parentColsOK i o) := by unfold parentColsOK; infer_instance
instance (i : TblIn) (o : TblOut) : Decidable (excludedAbsent i o) := by unfold excludedAbsent; infer_instance
instance (i : TblIn) (o : TblOut) : Decidable (internalOK i o) := by unfold internalOK; infer_instance
instance (i : TblIn) (o : TblOut) : Decidable (pkOK i o) := by unfold pkOK; infer_instance
instance (i : TblIn) (o : TblOut) : Decidable (modsOK i o) := by unfold modsOK; infer_instance
instance (i : TblIn) (o : TblOut) : Decidable (countOK i o) := by unfold countOK; infer_instance
instance (i : TblIn) (o : TblOut) : Decidable (SchemaOK i o) := by unfold SchemaOK; infer_instance

/-- well-formed configuration: distinct parent column names, and no parent column is named like
an internal column or like a flag column -/
def InOK (i : TblIn) : Prop :=
  (i.cols.map (·.name)).Nodup ∧
  i.txCol ≠ i.endCol ∧ i.txCol ≠ i.opCol ∧ i.endCol ≠ i.opCol ∧
  (∀ c ∈ i.cols, c.name ≠ i.txCol ∧ c.name ≠ i.endCol ∧ c.name ≠ i.opCol) ∧
  (∀ c ∈ i.cols, ∀ d ∈ i.cols, d.name ++ modSuffix ≠ c.name) ∧
  (∀ d ∈ i.cols, d.name ++ modSuffix ≠ i.txCol ∧ d.name ++ modSuffix ≠ i.endCol ∧ d.name ++ modSuffix ≠ i.opCol)

instance (i : TblIn) : Decidable (InOK i) := by unfold InOK; infer_instance

end Continuum.Schema
