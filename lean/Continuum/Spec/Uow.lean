import Continuum.Uow

/-!
# Decidable statements of the history-level properties, over *transaction segments*

A segment is what one database transaction looks like from outside: the observable database
before it (`before`), the listener events delivered during it (`evs`), how it ended, and the
observable database after it (`after`).  "Observable database" = the version tables, association
version tables, transaction table, plugin tables, and the *live* rows (read by plain SQL).

Every `Cxx.Holds cfg seg` below is the statement of property Cxx for one segment.  The property
theorems prove `Holds cfg (segment the model produces)` for every configuration, every reachable
`before` and every well-formed event list; the driver evaluates the same `Holds` on segments
whose `before`/`after` were read from the real database.  Core Lean only.
-/

namespace Continuum

/-- what can be read from the database at a transaction boundary -/
structure Obs where
  db : Db := {}
  /-- rows of the parent tables projected on the version columns, keyed like version rows -/
  live : List (TKey × List Val) := []
deriving Repr

inductive Outcome
  | commit | rollback
deriving DecidableEq, Repr

structure Seg where
  before : Obs
  evs : List Ev
  outcome : Outcome
  after : Obs
deriving Repr

/-! ## Reading the event list -/

/-- the entity (class, key) an event is about -/
def Ev.entity : Ev → Option (Nat × List Int)
  | .ins c pk _ _ => some (c, pk)
  | .upd c pk _ _ _ _ _ => some (c, pk)
  | .del c pk _ => some (c, pk)
  | _ => none

/-- Does this event report a change of a versioned attribute of a versioned entity?
(insert, delete, or an update in which SQLAlchemy's history shows a changed versioned column or
versioned relationship).  This is the *permissive* reading used for "only real changes are
captured": an event that is not `realChange` must not, by itself, produce a version. -/
def Ev.realChange (cfg : Cfg) : Ev → Bool
  | .ins c _ _ _ => (cfg.cls c).versioned
  | .del c _ _ => (cfg.cls c).versioned
  | .upd c _ _ cc rc _ _ => (cfg.cls c).versioned && isModified (cfg.cls c) cc rc
  | _ => false

/-- the events the unit of work is specified to turn into an operation -/
def Ev.tracked (cfg : Cfg) : Ev → Bool
  | .ins c _ _ _ => (cfg.cls c).versioned
  | .del c _ _ => (cfg.cls c).versioned
  | .upd c _ _ cc rc kc kr =>
    (cfg.cls c).versioned && isModified (cfg.cls c) cc rc && committedNonEmpty (cfg.cls c) kc kr
  | _ => false

/-- the tracked events of one entity, in order -/
def entityEvents (cfg : Cfg) (evs : List Ev) (c : Nat) (pk : List Int) : List Ev :=
  evs.filter (fun e => e.tracked cfg && e.entity == some (c, pk))

/-- The composition rule of C11 as a three-state automaton: last writer wins, except that an
insert on a key already operated on in this transaction is recorded as UPDATE. -/
def specOp : List Ev → Option Op
  | [] => none
  | e :: rest =>
    let go := fun (acc : Op) (e : Ev) => match e with
      | .ins .. => Op.update
      | .upd .. => Op.update
      | .del .. => Op.delete
      | _ => acc
    let first : Op := match e with
      | .ins .. => Op.insert
      | .upd .. => Op.update
      | .del .. => Op.delete
      | _ => Op.update
    some (rest.foldl go first)

def Ev.vals : Ev → List Val
  | .ins _ _ v _ => v
  | .upd _ _ v _ _ _ _ => v
  | .del _ _ v => v
  | _ => []

def Ev.changed : Ev → List Bool
  | .ins _ _ _ ch => ch
  | .upd _ _ _ cc _ _ _ => cc
  | .del _ _ v => v.map (fun _ => true)
  | _ => []

def Ev.isDel : Ev → Bool
  | .del .. => true
  | _ => false

/-- all (class, key) pairs with a tracked event, without duplicates, in first-seen order -/
def trackedEntities (cfg : Cfg) (evs : List Ev) : List (Nat × List Int) :=
  (evs.filterMap (fun e => if e.tracked cfg then e.entity else none)).eraseDups

/-- Did the transaction give continuum a reason to create a transaction record? -/
def hasCause (cfg : Cfg) (evs : List Ev) : Bool :=
  evs.any (fun e => match e with
    | .beforeFlush objs _ pm => objs.any (objModified cfg) || pm
    | .manualTx _ => true
    | _ => false)

/-! ## Small helpers on observations -/

def newIds (seg : Seg) : List Nat := seg.after.db.txs.filter (fun x => !seg.before.db.txs.contains x)

def liveOf (o : Obs) (k : TKey) : Option (List Val) := (o.live.find? (fun p => p.1 = k)).map (·.2)

/-- newest row of `k` -/
def newest (t : VTable TKey) (k : TKey) : Option (VRow TKey) :=
  match ((t.filter (fun r => r.key = k)).map (·.tx)).max? with
  | none => none
  | some m => rowAt t k m

/-- table keys an entity of class `c` with key `pk` occupies -/
def entityKeys (cfg : Cfg) (c : Nat) (pk : List Int) : List (TKey × List (Option Nat)) :=
  (cfg.cls c).tables.map (fun tc => ((tc.1, pk), tc.2))

/-! ## C01 -/

/-- the newest version of the key of live row `p` is not a delete and holds exactly its values -/
def liveRowOK (t : VTable TKey) (p : TKey × List Val) : Bool :=
  match newest t p.1 with
  | some r => decide (r.op ≠ .delete ∧ r.vals = p.2)
  | none => false

/-- event `e` is about an entity that occupies table key `k` -/
def evTouches (cfg : Cfg) (e : Ev) (k : TKey) : Bool :=
  match e.entity with
  | some ent => ((entityKeys cfg ent.1 ent.2).map (·.1)).contains k
  | none => false

/-- (a) the newest version of every live entity equals its live row -/
def C01.newestIsLive (seg : Seg) : Prop :=
  ∀ p ∈ seg.after.live, liveRowOK seg.after.db.versions p = true

/-- (b) the newest version of every removed entity is a DELETE -/
def C01.removedIsDelete (seg : Seg) : Prop :=
  ∀ r ∈ seg.after.db.versions, newest seg.after.db.versions r.key = some r →
    liveOf seg.after r.key = none → r.op = .delete

/-- (c) only real changes are captured: every row stamped by this transaction belongs to an
entity that had a real-change event in it -/
def C01.onlyRealChanges (cfg : Cfg) (seg : Seg) : Prop :=
  ∀ r ∈ seg.after.db.versions, r.tx ∈ newIds seg →
    ∃ e ∈ seg.evs, e.realChange cfg = true ∧ evTouches cfg e r.key = true

/-- (d) every entity whose stored versioned data differs between the two boundaries (appeared,
disappeared, or a versioned column changed) has a row stamped by this transaction -/
def C01.changedHasRow (seg : Seg) : Prop :=
  ∀ k ∈ (seg.before.live.map (·.1) ++ seg.after.live.map (·.1)),
    liveOf seg.before k ≠ liveOf seg.after k →
      ∃ r ∈ seg.after.db.versions, r.key = k ∧ r.tx ∈ newIds seg

/-- the values a version row of table `kc` must hold after tracked event `e` -/
def expectedVals (cfg : Cfg) (kc : TKey × List (Option Nat)) (e : Ev) : List Val :=
  if cfg.nullDelete && e.isDel then nullVals cfg kc.1.1 kc.2 e.vals else tableVals kc.2 e.vals

def delRowOK (cfg : Cfg) (seg : Seg) (kc : TKey × List (Option Nat)) (e : Ev) : Prop :=
  ∀ r ∈ seg.after.db.versions, r.key = kc.1 → r.tx ∈ newIds seg →
    r.op = .delete ∧ r.vals = expectedVals cfg kc e

instance uowDec1 (cfg : Cfg) (seg : Seg) (kc : TKey × List (Option Nat)) (e : Ev) :
    Decidable (delRowOK cfg seg kc e) := by unfold delRowOK; infer_instance

/-- (e) a DELETE version holds the entity's last values, or NULLs under delete-nullification -/
def C01.deleteVals (cfg : Cfg) (seg : Seg) : Prop :=
  ∀ ent ∈ trackedEntities cfg seg.evs,
    ∀ e ∈ (entityEvents cfg seg.evs ent.1 ent.2).getLast?.toList, e.isDel = true →
      ∀ kc ∈ entityKeys cfg ent.1 ent.2, delRowOK cfg seg kc e

/-- (f) the past is immutable: every row that existed before is still there with the same
operation and values (only its end id may have been set) -/
def C01.pastKept (seg : Seg) : Prop :=
  ∀ r' ∈ seg.before.db.versions, ∃ r ∈ seg.after.db.versions,
    r.key = r'.key ∧ r.tx = r'.tx ∧ r.op = r'.op ∧ r.vals = r'.vals

def C01.Holds (cfg : Cfg) (seg : Seg) : Prop :=
  seg.outcome = .commit →
    C01.newestIsLive seg ∧ C01.removedIsDelete seg ∧ C01.onlyRealChanges cfg seg ∧
    C01.changedHasRow seg ∧ C01.deleteVals cfg seg ∧ C01.pastKept seg

/-! ## C02 -/

def C02.Holds (cfg : Cfg) (seg : Seg) : Prop :=
  seg.outcome = .commit →
    -- old records stay, at most one new record, with an id larger than every earlier one
    (∀ x ∈ seg.before.db.txs, x ∈ seg.after.db.txs) ∧
    (newIds seg).length ≤ 1 ∧
    (∀ n ∈ newIds seg, ∀ x ∈ seg.before.db.txs, x < n) ∧
    -- every row written by this database transaction carries the one new id
    (∀ r ∈ seg.after.db.versions, r.tx ∈ newIds seg ∨
        ∃ r' ∈ seg.before.db.versions, r'.key = r.key ∧ r'.tx = r.tx) ∧
    (∀ a ∈ seg.after.db.assoc, a.tx ∈ newIds seg ∨ a ∈ seg.before.db.assoc) ∧
    -- no dangling ids
    (∀ r ∈ seg.after.db.versions, r.tx ∈ seg.after.db.txs) ∧
    (∀ a ∈ seg.after.db.assoc, a.tx ∈ seg.after.db.txs) ∧
    -- no record without cause
    (newIds seg ≠ [] → hasCause cfg seg.evs = true)

/-! ## C03 -/

def C03.Holds (cfg : Cfg) (versions : VTable TKey) : Prop :=
  cfg.strategy = .validity → Chain versions

/-! ## C06 (database half): a rolled-back transaction leaves nothing -/

def sameRows {α : Type} [DecidableEq α] (a b : List α) : Prop := (∀ x ∈ a, x ∈ b) ∧ (∀ x ∈ b, x ∈ a)

def C06.DbHolds (seg : Seg) : Prop :=
  seg.outcome = .rollback →
    sameRows seg.before.db.versions seg.after.db.versions ∧
    sameRows seg.before.db.assoc seg.after.db.assoc ∧
    sameRows seg.before.db.txs seg.after.db.txs ∧
    sameRows seg.before.db.changes seg.after.db.changes

/-! ## C11 -/

/-- column-wise OR of the tracker flags over all tracked events of the entity -/
def accFlags (cols : List (Option Nat)) (evs : List Ev) : List Bool :=
  evs.foldl (fun acc e => orFlags acc (tableFlags cols e.changed e.isDel)) []

/-- the row of table `kc` stamped by this transaction reflects the entity's tracked events `es` -/
def coalescedRowOK (cfg : Cfg) (seg : Seg) (kc : TKey × List (Option Nat)) (es : List Ev) : Prop :=
  ∃ r ∈ seg.after.db.versions, r.key = kc.1 ∧ r.tx ∈ newIds seg ∧
    some r.op = specOp es ∧
    (∀ e ∈ es.getLast?.toList, r.vals = expectedVals cfg kc e) ∧
    (cfg.modTracker = true → r.mods = accFlags kc.2 es)

instance uowDec2 (cfg : Cfg) (seg : Seg) (kc : TKey × List (Option Nat)) (es : List Ev) :
    Decidable (coalescedRowOK cfg seg kc es) := by unfold coalescedRowOK; infer_instance

def C11.Holds (cfg : Cfg) (seg : Seg) : Prop :=
  seg.outcome = .commit →
    PKUnique seg.after.db.versions ∧
    ∀ ent ∈ trackedEntities cfg seg.evs, ∀ kc ∈ entityKeys cfg ent.1 ent.2,
      coalescedRowOK cfg seg kc (entityEvents cfg seg.evs ent.1 ent.2)

/-! ## C17 -/

def C17.Holds (cfg : Cfg) (seg : Seg) : Prop :=
  seg.outcome = .commit → cfg.txChanges = true →
    (∀ p ∈ seg.before.db.changes, p ∈ seg.after.db.changes) ∧
    seg.after.db.changes.Nodup ∧
    (∀ p ∈ seg.after.db.changes, p ∉ seg.before.db.changes →
        p.1 ∈ newIds seg ∧ p.2 ∈ (trackedEntities cfg seg.evs).map (·.1)) ∧
    (∀ ent ∈ trackedEntities cfg seg.evs, ∀ n ∈ newIds seg, (n, ent.1) ∈ seg.after.db.changes)

/-! ## The contract `WF` of SQLAlchemy and the DBMS, and the model's own segments -/

/-- configuration sanity: a column that is stored in some version table is a versioned column
(the schema half of C12/C13 establishes this for every configuration the builder derives; the
driver checks it on every configuration it is given) -/
def CfgOK (cfg : Cfg) : Prop :=
  ∀ c ∈ cfg.classes, ∀ tc ∈ c.tables, ∀ oc ∈ tc.2, ∀ i ∈ oc.toList, c.isVersionedCol i = true

/-- W2 for one table: a column whose history shows no change holds the stored value -/
def unchangedKept (cols : List (Option Nat)) (vals : List Val) (cc : List Bool) (old : List Val) : Prop :=
  ∀ j ∈ List.range cols.length, ∀ i ∈ ((cols[j]?).getD none).toList,
    (cc[i]?).getD false = false → (tableVals cols vals)[j]? = old[j]?

/-- the entity's pending operation, if any, has been turned into a version already -/
def entryProcessed (s : St) (c : Nat) (pk : List Int) : Prop :=
  ∀ o ∈ s.uowD.ops, o.cls = c → o.pk = pk → o.processed = true

/-- W7 (an assumption about the application): within one database transaction a key is not
re-created as a different class sharing a version table with the class it had (the class-keyed
bookkeeping of `Operations` / `version_objs` does not support it) -/
def noClassSwitch (cfg : Cfg) (s : St) (c : Nat) (pk : List Int) : Prop :=
  ∀ o ∈ s.uowD.ops, o.pk = pk → o.cls ≠ c →
    ∀ tc ∈ (cfg.cls c).tables, ∀ tc' ∈ (cfg.cls o.cls).tables, tc.1 ≠ tc'.1

/-- What SQLAlchemy and the DBMS guarantee when they deliver event `e` in state `s`
(assumed by the theorems, monitored by the driver on every recorded trace). -/
def EvOK (cfg : Cfg) (s : St) (e : Ev) : Prop :=
  match e with
  | .beforeFlush objs newId pm =>
    -- W4: an id handed out by the database is larger than every id in the transaction table
    (objs.any (objModified cfg) || pm) = true → s.uowD.cur = none → ∀ x ∈ s.db.txs, x < newId
  | .manualTx newId => s.uowD.cur = none ∧ ∀ x ∈ s.db.txs, x < newId
  | .ins c pk _ _ =>
    (cfg.cls c).versioned = true →
      -- W3: announced at before_flush (a new object makes the session modified); W6: one mapper
      -- event per object per flush; W2: there was no such row
      s.uowD.cur.isSome = true ∧ entryProcessed s c pk ∧ noClassSwitch cfg s c pk ∧
      ∀ tc ∈ (cfg.cls c).tables, liveGet s.db.live (tc.1, pk) = none
  | .upd c pk vals cc _ kc _ =>
    (cfg.cls c).versioned = true →
      (e.tracked cfg = true → s.uowD.cur.isSome = true ∧ entryProcessed s c pk) ∧
      noClassSwitch cfg s c pk ∧
      (∀ i ∈ List.range cc.length, (cc[i]?).getD false = true → (kc[i]?).getD false = true) ∧
      ∀ tc ∈ (cfg.cls c).tables, (liveGet s.db.live (tc.1, pk)).isSome = true ∧
        ∀ old ∈ (liveGet s.db.live (tc.1, pk)).toList, unchangedKept tc.2 vals cc old
  | .del c pk _ =>
    (cfg.cls c).versioned = true →
      s.uowD.cur.isSome = true ∧ entryProcessed s c pk ∧ noClassSwitch cfg s c pk ∧
      ∀ tc ∈ (cfg.cls c).tables, (liveGet s.db.live (tc.1, pk)).isSome = true
  | .commit =>
    -- W5: commit flushes first, so nothing is left unprocessed
    (∀ o ∈ s.uowD.ops, o.processed = true) ∧ s.uowD.pending = []
  | .spRollback => False      -- savepoint rollback is treated separately (C06)
  | _ => True

def WF (cfg : Cfg) (s : St) : List Ev → Prop
  | [] => True
  | e :: es => EvOK cfg s e ∧ WF cfg (step cfg s e) es

/-- a state between two database transactions -/
def Boundary (s : St) : Prop :=
  s.uow = none ∧ s.sps = [] ∧
  s.db.versions = s.committed.versions ∧ s.db.assoc = s.committed.assoc ∧ s.db.txs = s.committed.txs ∧
  s.db.changes = s.committed.changes ∧ s.db.live = s.committed.live

def Ev.isEnd : Ev → Bool
  | .commit => true
  | .rollback => true
  | _ => false

def modelObs (s : St) : Obs := { db := s.db, live := s.db.live }

def endEv : Outcome → Ev
  | .commit => .commit
  | .rollback => .rollback

/-- the segment the MODEL produces from boundary state `s` for events `evs` -/
def modelSeg (cfg : Cfg) (s : St) (evs : List Ev) (oc : Outcome) : Seg :=
  { before := modelObs s, evs := evs, outcome := oc,
    after := modelObs (step cfg (run cfg s evs) (endEv oc)) }

/-! ## Decidability (the driver evaluates these on observed segments) -/

instance uowDec3 (seg : Seg) : Decidable (C01.newestIsLive seg) := by
  unfold C01.newestIsLive; infer_instance
instance uowDec4 (seg : Seg) : Decidable (C01.removedIsDelete seg) := by
  unfold C01.removedIsDelete; infer_instance
instance uowDec5 (cfg : Cfg) (seg : Seg) : Decidable (C01.onlyRealChanges cfg seg) := by
  unfold C01.onlyRealChanges; infer_instance
instance uowDec6 (seg : Seg) : Decidable (C01.changedHasRow seg) := by
  unfold C01.changedHasRow; infer_instance
instance uowDec7 (cfg : Cfg) (seg : Seg) : Decidable (C01.deleteVals cfg seg) := by
  unfold C01.deleteVals; infer_instance
instance uowDec8 (seg : Seg) : Decidable (C01.pastKept seg) := by
  unfold C01.pastKept; infer_instance
instance uowDec9 (cfg : Cfg) (seg : Seg) : Decidable (C01.Holds cfg seg) := by
  unfold C01.Holds; infer_instance
instance uowDec10 (cfg : Cfg) (seg : Seg) : Decidable (C02.Holds cfg seg) := by
  unfold C02.Holds; infer_instance
instance uowDec11 (cfg : Cfg) (v : VTable TKey) : Decidable (C03.Holds cfg v) := by
  unfold C03.Holds; infer_instance
instance uowDec12 {α : Type} [DecidableEq α] (a b : List α) : Decidable (sameRows a b) := by
  unfold sameRows; infer_instance
instance uowDec13 (seg : Seg) : Decidable (C06.DbHolds seg) := by
  unfold C06.DbHolds; infer_instance
instance uowDec14 (cfg : Cfg) (seg : Seg) : Decidable (C11.Holds cfg seg) := by
  unfold C11.Holds; infer_instance
instance uowDec15 (cfg : Cfg) (seg : Seg) : Decidable (C17.Holds cfg seg) := by
  unfold C17.Holds; infer_instance

instance uowDecCfgOK (cfg : Cfg) : Decidable (CfgOK cfg) := by unfold CfgOK; infer_instance
instance uowDecUnch (cols : List (Option Nat)) (vals : List Val) (cc : List Bool) (old : List Val) :
    Decidable (unchangedKept cols vals cc old) := by unfold unchangedKept; infer_instance
instance uowDecEntry (s : St) (c : Nat) (pk : List Int) : Decidable (entryProcessed s c pk) := by
  unfold entryProcessed; infer_instance
instance uowDecNoSwitch (cfg : Cfg) (s : St) (c : Nat) (pk : List Int) :
    Decidable (noClassSwitch cfg s c pk) := by unfold noClassSwitch; infer_instance
instance uowDecEvOK (cfg : Cfg) (s : St) (e : Ev) : Decidable (EvOK cfg s e) := by
  unfold EvOK; split <;> infer_instance

end Continuum
