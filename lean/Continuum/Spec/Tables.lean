import Continuum.Temporal

/-!
# Decidable statements of the table-level properties (C08, C15, C16, C19, C20)

Each `Cxx.Holds` is *the* statement of the property over an input table and an observed answer.
The property theorems (`Props/Cxx.lean`) prove `Holds input (model input)` for every input; the
driver evaluates the very same `Holds` on what the implementation answered for the same input.
Core Lean only.
-/

namespace Continuum

variable {K : Type} [DecidableEq K]

/-- position-wise relation between two lists of equal length -/
def AllPairs {α β : Type} (P : α → β → Prop) (l : List α) (l' : List β) : Prop :=
  l'.length = l.length ∧ ∀ p ∈ l.zip l', P p.1 p.2

instance {α β : Type} (P : α → β → Prop) [∀ a b, Decidable (P a b)] (l : List α) (l' : List β) :
    Decidable (AllPairs P l l') := by unfold AllPairs; infer_instance

/-! ## C08 -/

/-- `versions` lists all and only the entity's rows in increasing id order; the i-th element has
index `i`, next = the (i+1)-th or none, previous = the (i-1)-th or none. -/
def C08.Holds (t : VTable K) (k : K) (a : Answers) : Prop :=
  a.vs.Pairwise (· < ·) ∧
  (∀ x ∈ a.vs, Has t k x) ∧ (∀ r ∈ t, r.key = k → r.tx ∈ a.vs) ∧
  a.idx = List.range a.vs.length ∧
  a.nxt = (List.range a.vs.length).map (fun i => a.vs[i + 1]?) ∧
  a.prv = (List.range a.vs.length).map (fun i => if i = 0 then none else a.vs[i - 1]?)

instance (t : VTable K) (k : K) (a : Answers) : Decidable (C08.Holds t k a) := by
  unfold C08.Holds; infer_instance

/-! ## C16 -/

/-- same rows, same data; only the end column may differ -/
def sameButEnd (r r' : VRow K) : Prop :=
  r'.key = r.key ∧ r'.tx = r.tx ∧ r'.op = r.op ∧ r'.vals = r.vals ∧ r'.mods = r.mods

instance (r r' : VRow K) : Decidable (sameButEnd r r') := by unfold sameButEnd; infer_instance

/-- The tool's contract on input `t` and output `t'` (compared position-wise; the harness sorts
both by primary key): every row's end id becomes the smallest larger id of its key, rows without
a successor keep what they had. -/
def C16.Holds (t t' : VTable K) : Prop :=
  AllPairs (fun r r' => sameButEnd r r' ∧
    r'.endTx = (match nextTx t r.key r.tx with | some n => some n | none => r.endTx)) t t'

instance (t t' : VTable K) : Decidable (C16.Holds t t') := by
  unfold C16.Holds; infer_instance

/-- every newest row is open (what a subquery-strategy table or a wiped column looks like) -/
def NewestOpen (t : VTable K) : Prop := ∀ r ∈ t, nextTx t r.key r.tx = none → r.endTx = none

instance (t : VTable K) : Decidable (NewestOpen t) := by unfold NewestOpen; infer_instance

/-! ## C15 -/

/-- the immediately preceding version of `v` (greatest smaller id of the same key) -/
def predOf (t : VTable K) (v : VRow K) : Option (VRow K) := prevSub t v

/-- Changeset contract: `cs` lists exactly the columns whose value differs from the preceding
version (from NULL when there is none), each with `(old, new)`, in column order. -/
def C15.ChangesetHolds (t : VTable K) (v : VRow K) (cs : List (Nat × Val × Val)) : Prop :=
  cs = changesetVals (predOf t v) v

instance (t : VTable K) (v : VRow K) (cs) : Decidable (C15.ChangesetHolds t v cs) := by
  unfold C15.ChangesetHolds; infer_instance

/-- the flags the property demands for row `r`: all set when there is no preceding version,
otherwise set exactly where the stored values differ, NULL being an ordinary value -/
def expectedMods (t : VTable K) (r : VRow K) : List Bool :=
  match predOf t r with
  | none => r.vals.map (fun _ => true)
  | some p => zipFlags distinctFrom r.vals p.vals

/-- Backfill contract (input flags all clear, as after adding the columns): output row by row
equals the input except that `mods` are the expected flags. -/
def C15.BackfillHolds (t t' : VTable K) : Prop :=
  AllPairs (fun r r' =>
    r'.key = r.key ∧ r'.tx = r.tx ∧ r'.op = r.op ∧ r'.vals = r.vals ∧ r'.endTx = r.endTx ∧
    r'.mods = expectedMods t r) t t'

instance (t t' : VTable K) : Decidable (C15.BackfillHolds t t') := by
  unfold C15.BackfillHolds; infer_instance

def ModsClear (t : VTable K) : Prop := ∀ r ∈ t, r.mods = r.vals.map (fun _ => false)

instance (t : VTable K) : Decidable (ModsClear t) := by unfold ModsClear; infer_instance

/-! ## C19 -/

/-- `vs` = the versions of one entity in id order, `del` = those of them that were deleted.
Walks the list remembering the last *surviving* row: a deleted row must be data-equal to it,
and a row that differs from the last surviving row must survive.  (The first row has no
predecessor and must survive.) -/
def vacuumOKFrom (last : Option (VRow K)) (del : List (VRow K)) : List (VRow K) → Prop
  | [] => True
  | r :: rs =>
    if r ∈ del then
      (match last with
       | none => False
       | some p => p.data = r.data) ∧ vacuumOKFrom last del rs
    else
      vacuumOKFrom (some r) del rs

instance vacuumOKFromDec (last : Option (VRow K)) (del : List (VRow K)) :
    (vs : List (VRow K)) → Decidable (vacuumOKFrom last del vs)
  | [] => by unfold vacuumOKFrom; infer_instance
  | r :: rs => by
    -- case on membership FIRST: only one recursive instance is evaluated per row (linear, not 2^n)
    unfold vacuumOKFrom
    by_cases h : r ∈ del
    · rw [if_pos h]
      have := vacuumOKFromDec last del rs
      cases last <;> infer_instance
    · rw [if_neg h]
      exact vacuumOKFromDec (some r) del rs

/-- Vacuum contract: only rows of the table are deleted, and per entity the deleted rows are
exactly justified by equality with the immediately preceding surviving version. -/
def C19.Holds (t : VTable K) (del : List (VRow K)) : Prop :=
  (∀ d ∈ del, d ∈ t) ∧ ∀ r ∈ t, vacuumOKFrom none del (versionsOf t r.key)

instance (t : VTable K) (del : List (VRow K)) : Decidable (C19.Holds t del) := by
  unfold C19.Holds; infer_instance

/-! ## C20 -/

def C20.Holds (t : VTable K) (k : K) (n : Nat) : Prop := n = (versionsOf t k).length

instance (t : VTable K) (k : K) (n : Nat) : Decidable (C20.Holds t k n) := by
  unfold C20.Holds; infer_instance

end Continuum
