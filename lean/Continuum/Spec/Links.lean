import Continuum.Spec.Uow
import Continuum.Rel

/-!
# C10 — many-to-many link history, over transaction segments

The live link set is not something continuum writes; what continuum sees of it are the INSERT /
DELETE statements on the association table (`Ev.assoc`).  `applyAssoc` replays those statements on
the link set the transaction started from — that this is what the association table then contains
is the DBMS's semantics (checked by SQL on every run, trusted base).  `C10.Holds` relates the
association-version rows to that link set.  Core Lean only.
-/

namespace Continuum

abbrev Link := Nat × List Int     -- (association table, link columns)

/-- the link set after the statements of one event -/
def applyAssocEv (cfg : Cfg) (l : List Link) : Ev → List Link
  | .assoc tbl op links =>
    if !cfg.assocTables.contains tbl then l else
    match op with
    | .delete => l.filter (fun x => !(links.map (fun k => (tbl, k))).contains x)
    | _ => links.foldl (fun acc k => if acc.contains (tbl, k) then acc else acc ++ [(tbl, k)]) l
  | _ => l

def applyAssoc (cfg : Cfg) (l : List Link) (evs : List Ev) : List Link := evs.foldl (applyAssocEv cfg) l

/-- how many statements of the transaction touched the link -/
def touches (cfg : Cfg) (evs : List Ev) (x : Link) : Nat :=
  (evs.map (fun e => match e with
    | .assoc tbl _ links => if cfg.assocTables.contains tbl then (links.filter (fun k => (tbl, k) = x)).length else 0
    | _ => 0)).sum

/-- the operation of the last statement that touched the link -/
def lastTouch (cfg : Cfg) (evs : List Ev) (x : Link) : Option Op :=
  evs.foldl (fun acc e => match e with
    | .assoc tbl op links => if cfg.assocTables.contains tbl && links.contains x.2 && tbl = x.1 then some op else acc
    | _ => acc) none

/-- every link named by a statement of the transaction on a tracked association table -/
def touchedLinks (cfg : Cfg) (evs : List Ev) : List Link :=
  evs.flatMap (fun e => match e with
    | .assoc tbl _ links => if cfg.assocTables.contains tbl then links.map (fun k => (tbl, k)) else []
    | _ => [])

def maxATx (a : List ARow) : Nat := (a.map (·.tx)).foldl max 0

/-- replaying every association-version row: is the link present now? -/
def linkedNow (a : List ARow) (x : Link) : Bool := linkedAsOf a x.1 x.2 (maxATx a)

/-- replaying the association-version rows yields exactly the link set `links` -/
def LinkInv (a : List ARow) (links : List Link) : Prop :=
  (∀ x ∈ links, linkedNow a x = true) ∧ (∀ r ∈ a, linkedNow a (r.tbl, r.link) = true → (r.tbl, r.link) ∈ links)

instance linkInvDec (a : List ARow) (links : List Link) : Decidable (LinkInv a links) := by
  unfold LinkInv; infer_instance

def C10.Holds (cfg : Cfg) (seg : Seg) (links0 : List Link) : Prop :=
  seg.outcome = .commit →
    -- replaying the rows up to now yields the links that exist now
    LinkInv seg.after.db.assoc (applyAssoc cfg links0 seg.evs) ∧
    -- the past is kept
    (∀ r ∈ seg.before.db.assoc, r ∈ seg.after.db.assoc) ∧
    -- rows stamped by this transaction: only for touched links, with the matching type, one per link
    (∀ r ∈ seg.after.db.assoc, r.tx ∈ newIds seg →
        some r.op = lastTouch cfg seg.evs (r.tbl, r.link)) ∧
    ((seg.after.db.assoc.filter (fun r => decide (r.tx ∈ newIds seg))).map (fun r => (r.tbl, r.link))).Nodup ∧
    -- every touched link has its row
    (∀ x ∈ touchedLinks cfg seg.evs, ∃ r ∈ seg.after.db.assoc, r.tbl = x.1 ∧ r.link = x.2 ∧ r.tx ∈ newIds seg)

instance c10Dec (cfg : Cfg) (seg : Seg) (links0 : List Link) : Decidable (C10.Holds cfg seg links0) := by
  unfold C10.Holds; infer_instance

/-- every link is changed at most once per transaction (the code as it stands raises an
IntegrityError otherwise: open finding F-M2M) -/
def OncePerTx (cfg : Cfg) (evs : List Ev) : Prop :=
  ∀ x ∈ touchedLinks cfg evs, touches cfg evs x ≤ 1

instance onceDec (cfg : Cfg) (evs : List Ev) : Decidable (OncePerTx cfg evs) := by
  unfold OncePerTx; infer_instance

end Continuum
