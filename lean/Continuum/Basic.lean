/-!
# Basic data model of sqlalchemy-continuum's version tables

Core Lean only (no Mathlib): these files are also interpreted by the line-protocol driver.

A *version table* is a `List (VRow K)` with set semantics, `K` being the parent primary key
(any type with decidable equality: a single interned value, a composite key `List Int`, or a
`(table, key)` pair when several tables live in one list).  Nothing here assumes the list is
sorted; every temporal primitive is a filter / max / min over the whole table, exactly like
the correlated sub-queries in `fetcher.py`, `unit_of_work.py` and `schema.py`.
-/

namespace Continuum

/-- A stored column value: SQL NULL or an (interned) value. -/
abbrev Val := Option Int

/-- `operation.py`: `Operation.INSERT / UPDATE / DELETE`.  The numeric codes are re-read from
the source tree on every run and checked against `Op.code` (see `harness/gen_consts.py`). -/
inductive Op
  | insert | update | delete
deriving DecidableEq, Repr, Inhabited

def Op.code : Op → Nat
  | .insert => 0
  | .update => 1
  | .delete => 2

def Op.ofCode? : Nat → Option Op
  | 0 => some .insert
  | 1 => some .update
  | 2 => some .delete
  | _ => none

theorem Op.ofCode_code (o : Op) : Op.ofCode? o.code = some o := by cases o <;> rfl

/-- One row of a version table.
* `key`   – the parent primary key (everything in the version PK except the transaction id)
* `tx`    – `transaction_id`
* `endTx` – `end_transaction_id` (always `none` under the subquery strategy)
* `op`    – `operation_type`
* `vals`  – the versioned non-key columns, in mapper order
* `mods`  – the `<col>_mod` flags of `PropertyModTrackerPlugin` (empty when the plugin is off)
-/
structure VRow (K : Type) where
  key : K
  tx : Nat
  endTx : Option Nat
  op : Op
  vals : List Val
  mods : List Bool
deriving DecidableEq, Repr

abbrev VTable (K : Type) := List (VRow K)

variable {K : Type} [DecidableEq K]

/-! ## Temporal primitives -/

def txsBelow (t : VTable K) (k : K) (x : Nat) : List Nat :=
  (t.filter (fun r => r.key = k ∧ r.tx < x)).map (·.tx)

def txsAbove (t : VTable K) (k : K) (x : Nat) : List Nat :=
  (t.filter (fun r => r.key = k ∧ x < r.tx)).map (·.tx)

def txsUpTo (t : VTable K) (k : K) (x : Nat) : List Nat :=
  (t.filter (fun r => r.key = k ∧ r.tx ≤ x)).map (·.tx)

/-- `SELECT max(tx) WHERE tx < x AND key = k` (`_transaction_id_subquery(…,'prev')`). -/
def prevTx (t : VTable K) (k : K) (x : Nat) : Option Nat := (txsBelow t k x).max?

/-- `SELECT min(tx) WHERE tx > x AND key = k` (`_transaction_id_subquery(…,'next')`,
    `schema.get_end_tx_column_query`). -/
def nextTx (t : VTable K) (k : K) (x : Nat) : Option Nat := (txsAbove t k x).min?

/-- `SELECT max(tx) WHERE tx <= x AND key = k` (relationship sub-queries). -/
def lastTx (t : VTable K) (k : K) (x : Nat) : Option Nat := (txsUpTo t k x).max?

/-- the row of `k` stamped `x`, if any (first match; unique under `PKUnique`) -/
def rowAt (t : VTable K) (k : K) (x : Nat) : Option (VRow K) :=
  t.find? (fun r => r.key = k ∧ r.tx = x)

/-- the version of `k` as of transaction `x`: its newest row not newer than `x` -/
def asOf (t : VTable K) (k : K) (x : Nat) : Option (VRow K) :=
  (lastTx t k x).bind (rowAt t k)

/-- there is a row `(k, n)` -/
def Has (t : VTable K) (k : K) (n : Nat) : Prop := ∃ r ∈ t, r.key = k ∧ r.tx = n

instance (t : VTable K) (k : K) (n : Nat) : Decidable (Has t k n) := by
  unfold Has; infer_instance

/-! ## Invariants -/

/-- the version table's primary key `(key, tx)` -/
def PKUnique (t : VTable K) : Prop := t.Pairwise (fun a b => ¬ (a.key = b.key ∧ a.tx = b.tx))

instance (t : VTable K) : Decidable (PKUnique t) := by unfold PKUnique; infer_instance

/-- every id in the table is at most `T` -/
def Bounded (t : VTable K) (T : Nat) : Prop := ∀ r ∈ t, r.tx ≤ T

instance (t : VTable K) (T : Nat) : Decidable (Bounded t T) := by unfold Bounded; infer_instance

/-- **C03** in one line: every row's end id is the next id of the same key, and it is `none`
exactly when there is no later row of that key. -/
def Chain (t : VTable K) : Prop := ∀ r ∈ t, r.endTx = nextTx t r.key r.tx

instance (t : VTable K) : Decidable (Chain t) := by unfold Chain; infer_instance

/-! ## The write path of `UnitOfWork.process_operation` on one table -/

/-- column-wise OR of modification flags (a flag once set in a transaction stays set) -/
def orFlags : List Bool → List Bool → List Bool
  | a :: as, b :: bs => (a || b) :: orFlags as bs
  | [], bs => bs
  | as, [] => as

/-- `get_or_create_version_object` + `assign_attributes` + the tracker plugin: the version
object of `(k, T)` is re-used if this transaction already wrote one (its `endTx` is left
alone, flags accumulate), otherwise a fresh row with `endTx = NULL` is inserted. -/
def upsert (t : VTable K) (k : K) (T : Nat) (op : Op) (vals : List Val) (mods : List Bool) :
    VTable K :=
  if t.any (fun r => r.key = k ∧ r.tx = T) then
    t.map (fun r => if r.key = k ∧ r.tx = T then
      { r with op := op, vals := vals, mods := orFlags r.mods mods } else r)
  else t ++ [{ key := k, tx := T, endTx := none, op := op, vals := vals, mods := mods }]

/-- `update_version_validity`: the row(s) of `k` whose id is `max {tx < T}` get `endTx := T`. -/
def closePrev (t : VTable K) (k : K) (T : Nat) : VTable K :=
  match prevTx t k T with
  | none => t
  | some p => t.map (fun r => if r.key = k ∧ r.tx = p then { r with endTx := some T } else r)

/-- one processed operation under the validity strategy -/
def writeVersion (t : VTable K) (k : K) (T : Nat) (op : Op) (vals : List Val)
    (mods : List Bool) : VTable K :=
  closePrev (upsert t k T op vals mods) k T

/-- one processed operation under the subquery strategy (no end column to maintain) -/
def writeVersionSub (t : VTable K) (k : K) (T : Nat) (op : Op) (vals : List Val)
    (mods : List Bool) : VTable K :=
  upsert t k T op vals mods

end Continuum
