import Continuum.Uow

/-!
# Temporal relationship queries of version objects (C04)

Transcriptions, as list comprehensions mirroring the SQL shape, of the three criteria built by
`relationship_builder.py` (`many_to_one_criteria`, `one_to_many_criteria`,
`many_to_many_criteria` + `association_subquery`), and the declarative statement `C04.*Holds` of
what a relationship of a version must yield: for each related entity its newest version at or
before the owning version's transaction, never a deleted one.

Keys of relationship endpoints are single-column here (`[x]`); the foreign key of a child row is
one of its `vals`.  Core Lean only.
-/

namespace Continuum

abbrev Key := List Int

/-- the foreign-key column `i` of a child version row, as a parent key -/
def fkOf (i : Nat) (r : VRow Key) : Option Key :=
  match r.vals[i]? with
  | some (some x) => some [x]
  | _ => none

/-- `many_to_one_criteria(...).first()`: `remote.pk = :fk AND remote.tx = (SELECT max(tx) WHERE
tx <= :T AND pk = :fk) AND op != DELETE` -/
def manyToOne (remote : VTable Key) (fk : Option Key) (T : Nat) : Option (VRow Key) :=
  match fk with
  | none => none
  | some k => remote.find? (fun r => r.key = k ∧ some r.tx = lastTx remote k T ∧ r.op ≠ .delete)

/-- `one_to_many_criteria`: `remote.fk = :pk AND op != DELETE AND EXISTS (SELECT 1 FROM remote r2
WHERE r2.tx <= :T AND r2.pk = remote.pk GROUP BY r2.pk HAVING max(r2.tx) = remote.tx)` -/
def oneToMany (remote : VTable Key) (fkIdx : Nat) (pk : Key) (T : Nat) : List (VRow Key) :=
  remote.filter (fun r => fkOf fkIdx r = some pk ∧ some r.tx = lastTx remote r.key T ∧ r.op ≠ .delete)

/-- ids of the association rows of one link not newer than `T` -/
def linkTxs (assoc : List ARow) (tbl : Nat) (link : List Int) (T : Nat) : List Nat :=
  (assoc.filter (fun a => a.tbl = tbl ∧ a.link = link ∧ a.tx ≤ T)).map (·.tx)

/-- `association_subquery`: an association-version row of the link that is the newest one not
newer than `T` and is not a DELETE -/
def linkedAsOf (assoc : List ARow) (tbl : Nat) (link : List Int) (T : Nat) : Bool :=
  assoc.any (fun a => a.tbl = tbl ∧ a.link = link ∧ a.op ≠ .delete ∧ some a.tx = (linkTxs assoc tbl link T).max?)

/-- the link columns in association-table order from (local key, remote key) -/
def mkLink (localFirst : Bool) (l r : Key) : List Int := if localFirst then l ++ r else r ++ l

/-- `many_to_many_criteria` -/
def manyToMany (remote : VTable Key) (assoc : List ARow) (tbl : Nat) (localFirst : Bool) (pk : Key)
    (T : Nat) : List (VRow Key) :=
  remote.filter (fun r => linkedAsOf assoc tbl (mkLink localFirst pk r.key) T ∧
    some r.tx = lastTx remote r.key T ∧ r.op ≠ .delete)

/-! ## Statement of C04 -/

/-- the version of `k` as of `T`, provided it is not a delete -/
def aliveAsOf (t : VTable Key) (k : Key) (T : Nat) : Option (VRow Key) :=
  (asOf t k T).filter (fun r => r.op ≠ .delete)

/-- answers are identified by `(key, tx)` -/
abbrev Ans := List (Key × Nat)

def C04.M2OHolds (remote : VTable Key) (fk : Option Key) (T : Nat) (ans : Option (Key × Nat)) : Prop :=
  ans = (fk.bind (fun k => aliveAsOf remote k T)).map (fun r => (r.key, r.tx))

/-- answer `a` is the alive as-of version of its entity, and that entity satisfies `P` -/
def ansOK (remote : VTable Key) (T : Nat) (P : VRow Key → Bool) (a : Key × Nat) : Bool :=
  match aliveAsOf remote a.1 T with
  | some r => r.tx == a.2 && P r
  | none => false

/-- row `r` is the alive as-of version of its entity -/
def isAliveAsOf (remote : VTable Key) (T : Nat) (r : VRow Key) : Bool :=
  aliveAsOf remote r.key T == some r

/-- every answered version is the alive as-of version of a child whose foreign key (as of `T`)
points at the owner; every such child is answered; no duplicates -/
def C04.O2MHolds (remote : VTable Key) (fkIdx : Nat) (pk : Key) (T : Nat) (ans : Ans) : Prop :=
  ans.Nodup ∧
  (∀ a ∈ ans, ansOK remote T (fun r => fkOf fkIdx r == some pk) a = true) ∧
  (∀ r ∈ remote, isAliveAsOf remote T r = true → fkOf fkIdx r = some pk → (r.key, r.tx) ∈ ans)

def C04.M2MHolds (remote : VTable Key) (assoc : List ARow) (tbl : Nat) (localFirst : Bool) (pk : Key)
    (T : Nat) (ans : Ans) : Prop :=
  ans.Nodup ∧
  (∀ a ∈ ans, ansOK remote T (fun r => linkedAsOf assoc tbl (mkLink localFirst pk r.key) T) a = true) ∧
  (∀ r ∈ remote, isAliveAsOf remote T r = true →
      linkedAsOf assoc tbl (mkLink localFirst pk r.key) T = true → (r.key, r.tx) ∈ ans)

instance relDec1 (remote : VTable Key) (fk : Option Key) (T : Nat) (ans : Option (Key × Nat)) :
    Decidable (C04.M2OHolds remote fk T ans) := by unfold C04.M2OHolds; infer_instance
instance relDec2 (remote : VTable Key) (fkIdx : Nat) (pk : Key) (T : Nat) (ans : Ans) :
    Decidable (C04.O2MHolds remote fkIdx pk T ans) := by unfold C04.O2MHolds; infer_instance
instance relDec3 (remote : VTable Key) (assoc : List ARow) (tbl : Nat) (lf : Bool) (pk : Key) (T : Nat)
    (ans : Ans) : Decidable (C04.M2MHolds remote assoc tbl lf pk T ans) := by
  unfold C04.M2MHolds; infer_instance

end Continuum
