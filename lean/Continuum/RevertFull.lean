import Continuum.Props.C05Deep

/-!
# The whole recursion of `Reverter.__call__`: rows AND relationship maintenance at every level (C05)

`revertN` / `revertNL` (Props/C05Nested, C05Deep) follow the column values only.  `revertF` also does
what `revert_relationship` / `revert_association` do at every level of a dotted path:

* many-to-many (`revert_association`, uselist): the parent's collection is emptied, every shown child
  is reverted (recursively, with the sub-paths) and linked unless the recursion linked it already
  from the other side;
* one-to-many (`revert_relationship`, uselist): every shown child is reverted, then every child
  related NOW (after those reverts) but not shown is deleted;
* many-to-one: the shown parent version, if any, is reverted.

The related versions are computed by the relationship model of C04 (`Rel.lean`) from the version
tables, at the transaction of the version being reverted.  This is a MODEL (the theorems about the
recursion are those of `revertN` / `revertNL`); it is tied to the code by comparing the complete rows
and links it predicts with the implementation's after every dotted-path revert.
-/

namespace Continuum

inductive RelSpec where
  | o2m (ct fk : Nat)
  | m2o (pt fk : Nat)
  | m2m (rt atb : Nat) (lf : Bool)
deriving DecidableEq, Repr

def liftVRow (tid : Nat) (r : VRow Key) : VRow TKey :=
  { key := (tid, r.key), tx := r.tx, endTx := r.endTx, op := r.op, vals := r.vals, mods := r.mods }

def tableOfV (v : VTable TKey) (tid : Nat) : VTable Key :=
  (v.filter (fun r => r.key.1 = tid)).map (fun r =>
    { key := r.key.2, tx := r.tx, endTx := r.endTx, op := r.op, vals := r.vals, mods := r.mods })

/-- the related versions `w` shows for a relationship -/
def shownOf (vt : VTable TKey) (arows : List ARow) (spec : RelSpec) (w : VRow TKey) : List (VRow TKey) :=
  match spec with
  | .o2m ct fk => (oneToMany (tableOfV vt ct) fk w.key.2 w.tx).map (liftVRow ct)
  | .m2m rt atb lf => (manyToMany (tableOfV vt rt) arows atb lf w.key.2 w.tx).map (liftVRow rt)
  | .m2o pt fk =>
    let r0 : VRow Key := { key := w.key.2, tx := w.tx, endTx := w.endTx, op := w.op, vals := w.vals, mods := w.mods }
    (manyToOne (tableOfV vt pt) (fkOf fk r0) w.tx).toList.map (liftVRow pt)

/-- rows, association links, entities reverted so far -/
abbrev FState := Live × List Link × List TKey

def revertF (vt : VTable TKey) (arows : List ARow) (reg : Nat → Nat → Option RelSpec) :
    Nat → List Path → FState → VRow TKey → FState
  | 0, _, st, _ => st
  | d + 1, paths, (live, links, vis), v =>
    if vis.contains v.key then (live, links, vis)
    else if v.op = .delete then (liveDel live v.key, links, vis)
    else
      let st' : FState := (firstLevel paths).foldl
        (fun st r =>
          match reg v.key.1 r with
          | none => st
          | some spec =>
            let sh := shownOf vt arows spec v
            match spec with
            | .m2m _ atb lf =>
              let st1 : FState := (st.1, st.2.1.filter (fun x => !linkOfParent atb lf v.key.2 x), st.2.2)
              sh.foldl (fun st c =>
                let st' := revertF vt arows reg d (subPaths paths r) st c
                let l : Link := (atb, mkLink lf v.key.2 c.key.2)
                (st'.1, if st'.2.1.contains l then st'.2.1 else st'.2.1 ++ [l], st'.2.2)) st1
            | .o2m ct fk =>
              let st1 := sh.foldl (fun st c => revertF vt arows reg d (subPaths paths r) st c) st
              let keep := sh.map (·.key)
              ((liveChildren st1.1 ct fk v.key.2).foldl (fun l k => if keep.contains k then l else liveDel l k) st1.1,
               st1.2.1, st1.2.2)
            | .m2o _ _ => sh.foldl (fun st c => revertF vt arows reg d (subPaths paths r) st c) st)
        (liveSet live v.key v.vals, links, vis ++ [v.key])
      -- `session.add(self.version_parent)` at the end of the call: an entity the recursion marked for deletion
      -- meanwhile (it was a child "related now but not shown" of a deeper one-to-many step) is kept after all
      (if (liveGet st'.1 v.key).isNone then liveSet st'.1 v.key v.vals else st'.1, st'.2.1, st'.2.2)

/-- same rows (as a finite map), order ignored -/
def sameLive (a b : Live) : Bool :=
  a.all (fun p => liveGet b p.1 == some p.2) && b.all (fun p => liveGet a p.1 == some p.2)

def sameLinkSet (a b : List Link) : Bool := a.all (fun x => b.contains x) && b.all (fun x => a.contains x)

end Continuum
