import Continuum.Basic
import Continuum.Temporal

/-!
# The generated native-versioning trigger as a program (C14)

`dialects/postgresql.py` emits, per versioned table, a PL/pgSQL function of a fixed shape: a guard
on the temporary transaction id; per operation (INSERT / UPDATE / DELETE) a list of validity
`UPDATE`s and one update-else-insert ("upsert") keyed on (parent key, transaction id); for UPDATE an
early return when nothing outside the excluded columns changed.  The harness parses the REAL
generated text into the abstract syntax below (column names resolved to positions: key column `i`,
value column `j` of the non-excluded parent columns); `runOp` is its interpreter over a version
table; `WellFormed` is the structural check under which the program behaves like the object-based
path (`writeVersion`).

PL/pgSQL control flow, `hstore` subtraction and the CTE upsert are MODELLED here (PostgreSQL is not
available in the sandbox); the data statements themselves are additionally executed on SQLite by
the harness.  Core Lean only.
-/

namespace Continuum.Trigger

open Continuum

inductive Side
  | new | old
deriving DecidableEq, Repr, Inhabited

/-- a column of the row the trigger fires for: key column `i` or value column `j` -/
inductive ColRef
  | key (i : Nat)
  | val (j : Nat)
deriving DecidableEq, Repr, Inhabited

/-- right-hand sides occurring in the generated SET / SELECT lists -/
inductive TExpr
  | col (s : Side) (c : ColRef)      -- NEW."c" / OLD."c"
  | tru                              -- True
  | distinct (j : Nat)               -- OLD."c" IS DISTINCT FROM NEW."c"
  | accDistinct (j : Nat)            -- c_mod OR OLD."c" IS DISTINCT FROM NEW."c"
deriving DecidableEq, Repr, Inhabited

/-- the validity statement: `UPDATE v SET end = tx WHERE tx = (SELECT MIN(tx) FROM v WHERE end IS
NULL AND key = side.key) AND key = side.key` -/
structure ValidityUpd where
  side : Side
  keyCols : List Nat
deriving DecidableEq, Repr, Inhabited

/-- the update-else-insert -/
structure Upsert where
  setOp : Option Nat                 -- `operation_type = n` in the SET list, if present
  setKeys : List (Nat × TExpr)
  setVals : List (Nat × TExpr)
  setMods : List (Nat × TExpr)
  critSide : Side                    -- which row image the key criteria use
  critKeys : List Nat
  insOp : Nat
  insKeys : List TExpr
  insVals : List TExpr
  insMods : List TExpr
deriving DecidableEq, Repr, Inhabited

structure OpProg where
  validity : List ValidityUpd
  upsert : Upsert
deriving DecidableEq, Repr, Inhabited

structure TrigProg where
  nKeys : Nat
  nVals : Nat
  mods : Bool                        -- flag columns present
  ins : OpProg
  upd : OpProg
  del : OpProg
deriving DecidableEq, Repr, Inhabited

/-- a row image: key columns and (non-excluded) value columns -/
structure Image where
  key : List Int
  vals : List Val
deriving DecidableEq, Repr, Inhabited

/-- a row-level event on the parent table -/
inductive RowEv
  | ins (new : Image)
  | upd (old new : Image) (changedOutsideExcluded : Bool)
  | del (old : Image)
deriving Repr

def RowEv.image (s : Side) : RowEv → Image
  | .ins n => n              -- OLD is the NULL record on INSERT: modelled as the new image's key with NULL values below
  | .upd o n _ => match s with | .new => n | .old => o
  | .del o => o              -- NEW is NULL on DELETE

/-- value of a column reference in a row image; an absent image (OLD on INSERT) reads NULL -/
def imgVal (e : RowEv) (s : Side) (j : Nat) : Val :=
  match e, s with
  | .ins _, .old => none
  | .del _, .new => none
  | _, _ => ((e.image s).vals[j]?).getD none

def imgKey (e : RowEv) (s : Side) : List Int := (e.image s).key

def distinctAt (e : RowEv) (j : Nat) : Bool := imgVal e .old j != imgVal e .new j

/-- evaluate an expression to a column value (for value columns) -/
def evalVal (e : RowEv) : TExpr → Val
  | .col s (.val j) => imgVal e s j
  | .col s (.key i) => ((imgKey e s)[i]?).map (fun x => x)
  | _ => none

/-- evaluate an expression to a flag (for flag columns), given the stored flag -/
def evalFlag (e : RowEv) (stored : Bool) : TExpr → Bool
  | .tru => true
  | .distinct j => distinctAt e j
  | .accDistinct j => stored || distinctAt e j
  | _ => stored

/-- the validity UPDATE on the version table -/
def runValidity (t : VTable (List Int)) (T : Nat) (e : RowEv) (v : ValidityUpd) : VTable (List Int) :=
  let k := imgKey e v.side
  let opens := (t.filter (fun r => r.key = k ∧ r.endTx = none)).map (·.tx)
  match opens.min? with
  | none => t
  | some m => t.map (fun r => if r.key = k ∧ r.tx = m then { r with endTx := some T } else r)

def setList {α : Type} (l : List α) (i : Nat) (x : α) : List α := l.set i x

/-- the upsert: UPDATE the row `(key, T)` if it exists, else INSERT -/
def runUpsert (p : TrigProg) (t : VTable (List Int)) (T : Nat) (e : RowEv) (u : Upsert) : VTable (List Int) :=
  let k := imgKey e u.critSide
  if t.any (fun r => r.key = k ∧ r.tx = T) then
    t.map (fun r => if r.key = k ∧ r.tx = T then
      { r with
        op := match u.setOp with
          | some n => (Op.ofCode? n).getD r.op
          | none => r.op
        vals := u.setVals.foldl (fun vs a => setList vs a.1 (evalVal e a.2)) r.vals
        mods := u.setMods.foldl (fun ms a => setList ms a.1 (evalFlag e ((ms[a.1]?).getD false) a.2)) r.mods }
      else r)
  else
    t ++ [{ key := u.insKeys.filterMap (fun x => evalVal e x),
            tx := T, endTx := none,
            op := (Op.ofCode? u.insOp).getD .insert,
            vals := u.insVals.map (evalVal e),
            mods := if p.mods then u.insMods.map (evalFlag e false) else [] }]

def opProg (p : TrigProg) : RowEv → OpProg
  | .ins _ => p.ins
  | .upd .. => p.upd
  | .del _ => p.del

/-- the whole function for one row event; `T = none` means no transaction id is active -/
def runOp (p : TrigProg) (t : VTable (List Int)) (T : Option Nat) (e : RowEv) : VTable (List Int) :=
  match T with
  | none => t
  | some T =>
    match e with
    | .upd _ _ false => t          -- nothing changed outside the excluded columns: RETURN NULL
    | _ =>
      let o := opProg p e
      runUpsert p (o.validity.foldl (fun t v => runValidity t T e v) t) T e o.upsert

/-! ## Well-formedness: the structural facts the equivalence needs -/

def identityAssign (s : Side) (n : Nat) (mk : Nat → ColRef) (l : List (Nat × TExpr)) : Prop :=
  l = (List.range n).map (fun i => (i, TExpr.col s (mk i)))

def identityInsert (s : Side) (n : Nat) (mk : Nat → ColRef) (l : List TExpr) : Prop :=
  l = (List.range n).map (fun i => TExpr.col s (mk i))

def upsertOK (p : TrigProg) (s : Side) (opCode : Nat) (setOp : Option Nat) (u : Upsert)
    (setMods : List (Nat × TExpr)) (insMods : List TExpr) : Prop :=
  u.setOp = setOp ∧ u.insOp = opCode ∧ u.critSide = s ∧ u.critKeys = List.range p.nKeys ∧
  identityAssign s p.nVals ColRef.val u.setVals ∧ identityInsert s p.nKeys ColRef.key u.insKeys ∧
  identityInsert s p.nVals ColRef.val u.insVals ∧
  (p.mods = true → u.setMods = setMods ∧ u.insMods = insMods) ∧
  (p.mods = false → u.setMods = [] ∧ u.insMods = [])

def validityOK (p : TrigProg) (s : Side) (validity : Bool) (l : List ValidityUpd) : Prop :=
  l = if validity then [{ side := s, keyCols := List.range p.nKeys }] else []

/-- What the generator must produce for a flat model (one table) — checked by `decide` on the
parsed real program in the per-run generated file. -/
def WellFormed (validity : Bool) (p : TrigProg) : Prop :=
  validityOK p .new validity p.ins.validity ∧ validityOK p .new validity p.upd.validity ∧
  validityOK p .old validity p.del.validity ∧
  upsertOK p .new 0 (some 1) p.ins.upsert
    ((List.range p.nVals).map (fun j => (j, TExpr.accDistinct j))) ((List.range p.nVals).map (fun _ => TExpr.tru)) ∧
  upsertOK p .new 1 (some 1) p.upd.upsert
    ((List.range p.nVals).map (fun j => (j, TExpr.accDistinct j))) ((List.range p.nVals).map (fun j => TExpr.distinct j)) ∧
  upsertOK p .old 2 none p.del.upsert [] ((List.range p.nVals).map (fun _ => TExpr.tru))

instance (s : Side) (n : Nat) (mk : Nat → ColRef) (l : List (Nat × TExpr)) : Decidable (identityAssign s n mk l) := by
  unfold identityAssign; infer_instance
instance (s : Side) (n : Nat) (mk : Nat → ColRef) (l : List TExpr) : Decidable (identityInsert s n mk l) := by
  unfold identityInsert; infer_instance
instance (p : TrigProg) (s : Side) (c : Nat) (so : Option Nat) (u : Upsert) (a : List (Nat × TExpr)) (b : List TExpr) :
    Decidable (upsertOK p s c so u a b) := by unfold upsertOK; infer_instance
instance (p : TrigProg) (s : Side) (v : Bool) (l : List ValidityUpd) : Decidable (validityOK p s v l) := by
  unfold validityOK; infer_instance
instance (v : Bool) (p : TrigProg) : Decidable (WellFormed v p) := by unfold WellFormed; infer_instance

/-! ## The object-based path for the same row event -/

/-- what `UnitOfWork.process_operation` writes for the event (flat model, tracker flags as the
object path computes them: all set for insert and delete, per-column difference for update) -/
def objectPath (validity mods : Bool) (t : VTable (List Int)) (T : Nat) (e : RowEv) : VTable (List Int) :=
  let (k, op, vals, flags) : List Int × Op × List Val × List Bool := match e with
    | .ins n => (n.key, Op.insert, n.vals, n.vals.map (fun _ => true))
    | .upd o n _ => (n.key, Op.update, n.vals, (List.range n.vals.length).map (fun j => (o.vals[j]?).getD none != (n.vals[j]?).getD none))
    | .del o => (o.key, Op.delete, o.vals, o.vals.map (fun _ => true))
  let flags := if mods then flags else []
  if validity then writeVersion t k T op vals flags else writeVersionSub t k T op vals flags

/-- the row has no version stamped `T` yet (first event on this row in the transaction) -/
def FirstInTx (t : VTable (List Int)) (T : Nat) (e : RowEv) : Prop :=
  ∀ r ∈ t, r.key = imgKey e (match e with | .del _ => .old | _ => .new) → r.tx ≠ T

end Continuum.Trigger
