import Continuum.Basic
import Continuum.Temporal

/-!
# The unit-of-work state machine (events in, tables out)

A line-by-line transcription of what sqlalchemy-continuum's listeners do, for ONE connection:

* `manager.before_flush / after_flush / track_inserts / track_updates / track_deletes / clear /
  track_association_operations`
* `UnitOfWork.process_before_flush / create_transaction / make_versions /
  create_association_versions / create_version_objects / process_operation /
  get_or_create_version_object / assign_attributes / update_version_validity`
* `Operations.add_insert / add_update / add_delete`
* `utils.is_modified / is_session_modified / versioned_relationships`,
  `manager.is_excluded_property`
* plugins: `NullDeletePlugin`, `PropertyModTrackerPlugin`, `TransactionChangesPlugin`

SQLAlchemy itself is NOT modelled.  What continuum sees of it is a stream of listener calls; the
model's input alphabet is that stream (`Ev`).  SQLAlchemy's contract is the explicit predicate
`WF` (file `Spec/Uow.lean`), assumed by the theorems and monitored on every recorded trace.
Core Lean only.
-/

namespace Continuum

/-- identity of a version row inside the whole database: (version table id, parent primary key) -/
abbrev TKey := Nat × List Int

inductive RelDir
  | oneToMany | manyToOne | manyToMany
deriving DecidableEq, Repr, Inhabited

/-- one relationship of a mapped class, as `versioned_relationships` / `add_update` see it -/
structure RelCfg where
  dir : RelDir
  localCols : List Nat       -- attribute indices of `prop.local_columns`
  excluded : Bool := false   -- relationship key listed in `exclude` (and not in `include`)
deriving DecidableEq, Repr, Inhabited

/-- one mapped class -/
structure ClassCfg where
  versioned : Bool                           -- has `__versioned__` and option 'versioning'
  ncols : Nat                                -- mapped column attributes, in mapper order
  excl : List Bool                           -- attribute key ∈ option 'exclude'
  incl : List Bool                           -- attribute key ∈ option 'include'
  rels : List RelCfg
  /-- version tables of the class' hierarchy, base first: `(table id, attribute index of each
  non-key version column of that table, or none if this class does not map it)` -/
  tables : List (Nat × List (Option Nat))
deriving DecidableEq, Repr, Inhabited

structure Cfg where
  strategy : Strategy := .validity
  classes : List ClassCfg := []
  nullDelete : Bool := false
  modTracker : Bool := false
  txChanges : Bool := false
  /-- `(version table id, position among its non-key columns)` of the polymorphic discriminator
  columns: `NullDeletePlugin` leaves them (a row without discriminator could not be loaded) -/
  nullKeep : List (Nat × Nat) := []
  /-- association tables registered in `manager.association_tables` -/
  assocTables : List Nat := []
deriving Repr, Inhabited

def Cfg.cls (cfg : Cfg) (c : Nat) : ClassCfg := (cfg.classes[c]?).getD default

/-- `manager.is_excluded_property`: include beats exclude -/
def ClassCfg.isExcluded (c : ClassCfg) (i : Nat) : Bool :=
  if (c.incl[i]?).getD false then false else (c.excl[i]?).getD false

def ClassCfg.isVersionedCol (c : ClassCfg) (i : Nat) : Bool := !c.isExcluded i

/-- `versioned_relationships`: relationships with a local column among the versioned columns -/
def ClassCfg.relVersioned (c : ClassCfg) (r : RelCfg) : Bool :=
  r.localCols.any (fun i => c.isVersionedCol i)

/-- `utils.is_modified(obj)` from SQLAlchemy's per-attribute `history.has_changes()` flags -/
def isModified (c : ClassCfg) (colChanged relChanged : List Bool) : Bool :=
  ((List.range c.ncols).any (fun i => c.isVersionedCol i && (colChanged[i]?).getD false)) ||
  ((List.range c.rels.length).any (fun j =>
      c.relVersioned ((c.rels[j]?).getD default) && (relChanged[j]?).getD false))

/-- what `is_session_modified` reads of one object of the session -/
structure ObjView where
  cls : Nat
  isNew : Bool
  isDeleted : Bool
  colChanged : List Bool
  relChanged : List Bool
deriving DecidableEq, Repr, Inhabited

/-- `is_modified_or_deleted` -/
def objModified (cfg : Cfg) (o : ObjView) : Bool :=
  let c := cfg.cls o.cls
  c.versioned && (isModified c o.colChanged o.relChanged || o.isDeleted || o.isNew)

/-- association-version row: (table, column values of the link, transaction id, operation) -/
structure ARow where
  tbl : Nat
  link : List Int
  tx : Nat
  op : Op
deriving DecidableEq, Repr

/-- the listener-level event stream of one session on one connection -/
inductive Ev
  /-- `before_flush`: the objects of the session; the id the database would hand to a new
  transaction record; whether some plugin reports the session modified -/
  | beforeFlush (objs : List ObjView) (newId : Nat) (pluginModified : Bool)
  | ins (cls : Nat) (pk : List Int) (vals : List Val) (colChanged : List Bool)
  /-- `after_update`: attribute values, per-column / per-relationship history flags, and which
  attribute keys `committed_state` holds (columns, relationships) -/
  | upd (cls : Nat) (pk : List Int) (vals : List Val) (colChanged relChanged : List Bool)
        (committedCols committedRels : List Bool)
  | del (cls : Nat) (pk : List Int) (vals : List Val)
  /-- `before_execute` of an INSERT / DELETE on an association table, one link per parameter set -/
  | assoc (tbl : Nat) (op : Op) (links : List (List Int))
  | afterFlush
  | commit
  | rollback
  /-- the application calls `uow.create_transaction(session)` itself -/
  | manualTx (newId : Nat)
  /-- `session.begin_nested()` / release / rollback of the innermost savepoint -/
  | spBegin
  | spCommit
  | spRollback
deriving Repr

/-- `Operation` + what `process_operation` will read from the target -/
structure OpEntry where
  cls : Nat
  pk : List Int
  op : Op
  processed : Bool
  vals : List Val
  changed : List Bool
deriving DecidableEq, Repr

structure Uow where
  cur : Option Nat := none
  ops : List OpEntry := []                   -- `Operations.objects` (insertion ordered)
  vobjs : List (Nat × List Int × Nat) := []  -- keys of `version_objs`: (class, pk, tx)
  pending : List (Nat × Op × List Int) := [] -- `pending_statements`
  /-- `lookup_version_objs`: set by a rollback to a savepoint (the cache was emptied, version rows of the
  transaction may exist uncached); while set, `get_or_create_version_object` looks a missing row up first -/
  lookup : Bool := false
deriving Repr

/-- the tables continuum writes, as one connection sees them -/
structure Db where
  versions : VTable TKey := []
  assoc : List ARow := []
  txs : List Nat := []                       -- ids in the transaction table
  changes : List (Nat × Nat) := []           -- `transaction_changes`: (tx, class)
  /-- GHOST (not written by continuum): the rows of the parent tables as the mapper events imply
  them, projected on the version columns and keyed like version rows.  Used only to state C01. -/
  live : List (TKey × List Val) := []
deriving Repr

structure St where
  db : Db := {}
  committed : Db := {}
  uow : Option Uow := none
  /-- what is remembered at the open savepoints, innermost first: the database snapshot and the
  unit of work's state at SAVEPOINT (`none` if the unit of work did not exist yet) -/
  sps : List (Db × Option Uow) := []
  /-- an `IntegrityError` / `StaleDataError` raised by continuum's own writes -/
  err : Bool := false
deriving Repr

/-! ## Operations (operation.py) -/

def opsFind (ops : List OpEntry) (cls : Nat) (pk : List Int) : Option OpEntry :=
  ops.find? (fun o => o.cls = cls ∧ o.pk = pk)

/-- `Operations.add`: replace in place (an `OrderedDict` keeps the position) or append -/
def opsAdd (ops : List OpEntry) (e : OpEntry) : List OpEntry :=
  if ops.any (fun o => o.cls = e.cls ∧ o.pk = e.pk) then
    ops.map (fun o => if o.cls = e.cls ∧ o.pk = e.pk then e else o)
  else ops ++ [e]

/-- `add_update` keeps the operation only if `committed_state`, after removing every ONETOMANY
and MANYTOMANY relationship key, is non-empty -/
def committedNonEmpty (c : ClassCfg) (committedCols committedRels : List Bool) : Bool :=
  committedCols.any id ||
  ((List.range c.rels.length).any (fun j =>
      (committedRels[j]?).getD false && ((c.rels[j]?).getD default).dir = .manyToOne))

/-! ## Writing one version (unit_of_work.py) -/

/-- values of the non-key columns of one version table for an object of a class -/
def tableVals (cols : List (Option Nat)) (vals : List Val) : List Val :=
  cols.map (fun oc => match oc with
    | none => none
    | some i => (vals[i]?).getD none)

def tableFlags (cols : List (Option Nat)) (changed : List Bool) (deleted : Bool) : List Bool :=
  cols.map (fun oc => match oc with
    | none => false
    | some i => (changed[i]?).getD false || deleted)

/-- values of a DELETE version under `NullDeletePlugin`: NULL everywhere except the discriminator -/
def nullVals (cfg : Cfg) (tid : Nat) (cols : List (Option Nat)) (vals : List Val) : List Val :=
  (tableVals cols vals).zipIdx.map (fun vj => if cfg.nullKeep.contains (tid, vj.2) then vj.1 else none)

/-- `process_operation` for one table of the hierarchy -/
def writeTable (cfg : Cfg) (t : VTable TKey) (T : Nat) (e : OpEntry)
    (tc : Nat × List (Option Nat)) : VTable TKey :=
  let key : TKey := (tc.1, e.pk)
  let vals := if cfg.nullDelete && e.op = .delete then nullVals cfg tc.1 tc.2 e.vals
              else tableVals tc.2 e.vals
  let mods := if cfg.modTracker then tableFlags tc.2 e.changed (e.op = .delete) else []
  match cfg.strategy with
  | .validity => writeVersion t key T e.op vals mods
  | .subquery => writeVersionSub t key T e.op vals mods

/-- `process_operation`: one row per table of the class' hierarchy -/
def processOp (cfg : Cfg) (t : VTable TKey) (T : Nat) (e : OpEntry) : VTable TKey :=
  (cfg.cls e.cls).tables.foldl (fun t tc => writeTable cfg t T e tc) t

/-- `create_version_objects`: every unprocessed operation, in dictionary order -/
def processOps (cfg : Cfg) (t : VTable TKey) (T : Nat) (ops : List OpEntry) : VTable TKey :=
  ops.foldl (fun t e => if e.processed then t else processOp cfg t T e) t

/-- `TransactionChangesPlugin.before_create_version_objects`: one row per class among the
operations unless already present -/
def addChanges (changes : List (Nat × Nat)) (T : Nat) (ops : List OpEntry) : List (Nat × Nat) :=
  ops.foldl (fun ch e => if ch.contains (T, e.cls) then ch else ch ++ [(T, e.cls)]) changes

/-- `create_association_versions`: each pending statement becomes a row stamped `T`.  An
association that changes more than once within the transaction keeps only its last change: the
row of the same link and transaction, if any, is deleted first (one row per link per
transaction).  The Boolean (an `IntegrityError`) is kept for the signature; it is never set since
the repair of finding F-M2M. -/
def addAssoc (a : List ARow) (T : Nat) (pending : List (Nat × Op × List Int)) : List ARow × Bool :=
  pending.foldl (fun (acc : List ARow × Bool) p =>
    ((acc.1.filter (fun r => !(r.tbl = p.1 ∧ r.link = p.2.2 ∧ r.tx = T))) ++
      [{ tbl := p.1, link := p.2.2, tx := T, op := p.2.1 }], acc.2)) (a, false)

/-! ## Ghost: the live rows implied by the mapper events -/

def liveGet (l : List (TKey × List Val)) (k : TKey) : Option (List Val) :=
  (l.find? (fun p => p.1 = k)).map (·.2)

def liveSet (l : List (TKey × List Val)) (k : TKey) (v : List Val) : List (TKey × List Val) :=
  (k, v) :: l.filter (fun p => p.1 ≠ k)

def liveDel (l : List (TKey × List Val)) (k : TKey) : List (TKey × List Val) :=
  l.filter (fun p => p.1 ≠ k)

/-- an INSERT / UPDATE of an object of class `c`: one parent row per table of the hierarchy -/
def liveWrite (cfg : Cfg) (l : List (TKey × List Val)) (c : Nat) (pk : List Int) (vals : List Val) :
    List (TKey × List Val) :=
  (cfg.cls c).tables.foldl (fun l tc => liveSet l (tc.1, pk) (tableVals tc.2 vals)) l

def liveRemove (cfg : Cfg) (l : List (TKey × List Val)) (c : Nat) (pk : List Int) :
    List (TKey × List Val) :=
  (cfg.cls c).tables.foldl (fun l tc => liveDel l (tc.1, pk)) l

/-! ## The step function -/

def St.uowD (s : St) : Uow := s.uow.getD {}

/-- `UnitOfWork.create_transaction` -/
def createTx (s : St) (newId : Nat) : St :=
  let u := s.uowD
  { s with db := { s.db with txs := s.db.txs ++ [newId] }, uow := some { u with cur := some newId } }

def step (cfg : Cfg) (s : St) : Ev → St
  | .beforeFlush objs newId pluginModified =>
    -- manager.before_flush: unit_of_work(session) creates the unit of work
    let s := { s with uow := some s.uowD }
    if !(objs.any (objModified cfg) || pluginModified) then s
    else if s.uowD.cur.isSome then s
    else createTx s newId
  | .manualTx newId =>
    createTx { s with uow := some s.uowD } newId
  | .ins cls pk vals changed =>
    if !(cfg.cls cls).versioned then s else
    let s := { s with db := { s.db with live := liveWrite cfg s.db.live cls pk vals } }
    let u := s.uowD
    let op := if (opsFind u.ops cls pk).isSome then Op.update else Op.insert
    let e : OpEntry :=
      { cls := cls, pk := pk, op := op, processed := false, vals := vals, changed := changed }
    { s with uow := some { u with ops := opsAdd u.ops e } }
  | .upd cls pk vals colChanged relChanged committedCols committedRels =>
    let c := cfg.cls cls
    if !c.versioned then s else
    let s := { s with db := { s.db with live := liveWrite cfg s.db.live cls pk vals } }
    if !isModified c colChanged relChanged then s else
    if !committedNonEmpty c committedCols committedRels then s else
    let u := s.uowD
    let e : OpEntry :=
      { cls := cls, pk := pk, op := .update, processed := false, vals := vals, changed := colChanged }
    { s with uow := some { u with ops := opsAdd u.ops e } }
  | .del cls pk vals =>
    if !(cfg.cls cls).versioned then s else
    let s := { s with db := { s.db with live := liveRemove cfg s.db.live cls pk } }
    let u := s.uowD
    let e : OpEntry :=
      { cls := cls, pk := pk, op := .delete, processed := false, vals := vals,
        changed := vals.map (fun _ => true) }
    { s with uow := some { u with ops := opsAdd u.ops e } }
  | .assoc tbl op links =>
    if !cfg.assocTables.contains tbl then s else
    let u := s.uowD
    { s with uow := some { u with pending := u.pending ++ links.map (fun l => (tbl, op, l)) } }
  | .afterFlush =>
    let s := { s with uow := some s.uowD }
    let u := s.uowD
    match u.cur with
    | none => s
    | some T =>
      let (assoc', dup) := addAssoc s.db.assoc T u.pending
      let changes' := if cfg.txChanges && !u.ops.isEmpty then addChanges s.db.changes T u.ops
                      else s.db.changes
      let versions' := processOps cfg s.db.versions T u.ops
      let newKeys := (u.ops.filter (fun e => !e.processed)).map (fun e => (e.cls, e.pk, T))
      { s with
        db := { s.db with versions := versions', assoc := assoc', changes := changes' }
        uow := some { u with
          pending := []
          ops := u.ops.map (fun e => { e with processed := true })
          vobjs := newKeys.foldl (fun acc k => if acc.contains k then acc else acc ++ [k]) u.vobjs }
        err := s.err || dup }
  | .commit => { s with committed := s.db, uow := none, sps := [] }
  | .rollback => { s with db := s.committed, uow := none, sps := [] }
  | .spBegin => { s with sps := (s.db, s.uow) :: s.sps }
  | .spCommit => { s with sps := s.sps.tail }
  -- the DBMS restores the tables; the unit of work goes back to what it knew at SAVEPOINT
  -- (current transaction, operations and pending association statements as remembered when the
  -- savepoint began; dropped entirely if it did not exist then); the version-object cache is emptied
  -- and `lookup_version_objs` set
  | .spRollback =>
    match s.sps with
    | [] => s
    | (snap, u) :: rest =>
      { s with db := snap, uow := u.map (fun u => { u with vobjs := [], lookup := true }), sps := rest }

def run (cfg : Cfg) (s : St) (evs : List Ev) : St := evs.foldl (step cfg) s

end Continuum
