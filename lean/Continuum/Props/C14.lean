import Continuum.Trigger
import Continuum.Schema
import Continuum.Lemmas.Chain
import Continuum.Lemmas.SchemaLemmas
import Continuum.Lemmas.TriggerLemmas

/-!
# C14 — generated native triggers version rows like the object-based path

`c14_equiv_first` (PARTIAL, and named so): for every well-formed trigger program and every row
event that is the FIRST event on its row in the transaction, on every version table carrying the
invariants the object path maintains (primary key, bound, chain), the trigger leaves exactly the
table the object-based path leaves — values, operation type, validity bounds, modification flags.
`c14_silent`: nothing is written without an active transaction id or for an update that changes no
column outside the excluded ones.  For several events on one row within a transaction the
generator's program is NOT equivalent (open findings F-TRG1, F-TRG2): the two counterexample
theorems state that formally on a well-formed program.  `c14_sync_excluded`: the excluded set
`sync_trigger` derives from the two tables' columns equals the configured one.
-/

namespace Continuum.Trigger

open Continuum

/-- shapes: the event's images and the stored rows of its key have the program's arity -/
def ShapeOK (p : TrigProg) (t : VTable (List Int)) (e : RowEv) : Prop :=
  (∀ s : Side, (e.image s).key.length = p.nKeys ∧ (e.image s).vals.length = p.nVals)

theorem c14_silent (p : TrigProg) (t : VTable (List Int)) (T : Option Nat) (e : RowEv) :
    runOp p t none e = t ∧ (∀ o n, runOp p t T (.upd o n false) = t) := by
  refine ⟨rfl, ?_⟩
  intro o n
  cases T <;> rfl

theorem c14_equiv_first_partial (validity : Bool) (p : TrigProg) (hwf : WellFormed validity p)
    (t : VTable (List Int)) (T : Nat) (e : RowEv) (hshape : ShapeOK p t e)
    (hb : Bounded t T) (hc : validity = true → Chain t)
    (hfirst : FirstInTx t T e) (hchg : ∀ o n, e ≠ .upd o n false) :
    runOp p t (some T) e = objectPath validity p.mods t T e := by
  obtain ⟨hvi, hvu, hvd, hui, huu, hud⟩ := hwf
  cases e with
  | ins n =>
    have hs := hshape .new
    have h := trigger_eq_write (e := .ins n) hvi hui hs.1 hb hc hfirst
    have hvals : (List.range p.nVals).map (fun j => imgVal (.ins n) .new j) = n.vals := by
      rw [← hs.2]; exact range_map_getD n.vals
    have hmods : ((List.range p.nVals).map (fun _ => TExpr.tru)).map (evalFlag (.ins n) false) =
        n.vals.map (fun _ => true) := by
      rw [List.map_map, ← hs.2]; exact range_map_const n.vals true
    rw [hvals, hmods] at h
    exact h
  | upd o n b =>
    cases b with
    | false => exact absurd rfl (hchg o n)
    | true =>
      have hs := hshape .new
      have h := trigger_eq_write (e := .upd o n true) hvu huu hs.1 hb hc hfirst
      have hvals : (List.range p.nVals).map (fun j => imgVal (.upd o n true) .new j) = n.vals := by
        rw [← hs.2]; exact range_map_getD n.vals
      have hmods : ((List.range p.nVals).map (fun j => TExpr.distinct j)).map (evalFlag (.upd o n true) false) =
          (List.range n.vals.length).map (fun j => (o.vals[j]?).getD none != (n.vals[j]?).getD none) := by
        rw [List.map_map, ← hs.2]; rfl
      rw [hvals, hmods] at h
      exact h
  | del o =>
    have hs := hshape .old
    have h := trigger_eq_write (e := .del o) hvd hud hs.1 hb hc hfirst
    have hvals : (List.range p.nVals).map (fun j => imgVal (.del o) .old j) = o.vals := by
      rw [← hs.2]; exact range_map_getD o.vals
    have hmods : ((List.range p.nVals).map (fun _ => TExpr.tru)).map (evalFlag (.del o) false) =
        o.vals.map (fun _ => true) := by
      rw [List.map_map, ← hs.2]; exact range_map_const o.vals true
    rw [hvals, hmods] at h
    exact h

/-- a concrete well-formed program: one key column, one value column, validity, flags -/
def sampleProg : TrigProg :=
  { nKeys := 1, nVals := 1, mods := true,
    ins := { validity := [{ side := .new, keyCols := [0] }],
             upsert := { setOp := some 1, setKeys := [(0, .col .new (.key 0))], setVals := [(0, .col .new (.val 0))],
                         setMods := [(0, .accDistinct 0)], critSide := .new, critKeys := [0], insOp := 0,
                         insKeys := [.col .new (.key 0)], insVals := [.col .new (.val 0)], insMods := [.tru] } },
    upd := { validity := [{ side := .new, keyCols := [0] }],
             upsert := { setOp := some 1, setKeys := [(0, .col .new (.key 0))], setVals := [(0, .col .new (.val 0))],
                         setMods := [(0, .accDistinct 0)], critSide := .new, critKeys := [0], insOp := 1,
                         insKeys := [.col .new (.key 0)], insVals := [.col .new (.val 0)], insMods := [.distinct 0] } },
    del := { validity := [{ side := .old, keyCols := [0] }],
             upsert := { setOp := none, setKeys := [(0, .col .old (.key 0))], setVals := [(0, .col .old (.val 0))],
                         setMods := [], critSide := .old, critKeys := [0], insOp := 2,
                         insKeys := [.col .old (.key 0)], insVals := [.col .old (.val 0)], insMods := [.tru] } } }

theorem sampleProg_wellFormed : WellFormed true sampleProg := by
  decide

/-- F-TRG1, formally: a second event on one row within a transaction makes the validity UPDATE
close the current transaction's own row. -/
theorem c14_second_event_counterexample :
    let t0 : VTable (List Int) := []
    let t1 := runOp sampleProg t0 (some 1) (.ins ⟨[7], [some 1]⟩)
    let t2 := runOp sampleProg t1 (some 1) (.upd ⟨[7], [some 1]⟩ ⟨[7], [some 2]⟩ true)
    let o1 := objectPath true true t0 1 (.ins ⟨[7], [some 1]⟩)
    let o2 := objectPath true true o1 1 (.upd ⟨[7], [some 1]⟩ ⟨[7], [some 2]⟩ true)
    t1 = o1 ∧ t2 ≠ o2 ∧ ¬ Chain t2 ∧ Chain o2 := by
  decide

/-- F-TRG2, formally: insert then delete of one row within a transaction — the delete upsert's
UPDATE branch leaves the operation type of the earlier event. -/
theorem c14_delete_after_insert_counterexample :
    let t1 := runOp sampleProg [] (some 1) (.ins ⟨[7], [some 1]⟩)
    let t2 := runOp sampleProg t1 (some 1) (.del ⟨[7], [some 1]⟩)
    t2.map (·.op) = [Op.insert] ∧
    (objectPath true true (objectPath true true [] 1 (.ins ⟨[7], [some 1]⟩)) 1 (.del ⟨[7], [some 1]⟩)).map (·.op) = [Op.delete] := by
  decide

/-- `sync_trigger`: parent columns without a counterpart among the version table's non-flag columns -/
def syncExcluded (parent : List Schema.Name) (version : List Schema.Name) : List Schema.Name :=
  parent.filter (fun n => !(version.filter (fun v => !(Schema.modSuffix.isSuffixOf v))).contains n)

theorem c14_sync_excluded (i : Schema.TblIn) (h : Schema.InOK i)
    (hnomod : ∀ c ∈ i.cols, ¬ Schema.modSuffix.isSuffixOf c.name = true)
    (hint : ¬ Schema.modSuffix.isSuffixOf i.txCol = true ∧ ¬ Schema.modSuffix.isSuffixOf i.endCol = true ∧
            ¬ Schema.modSuffix.isSuffixOf i.opCol = true) :
    syncExcluded (i.cols.map (·.name)) ((Schema.deriveTable i).cols.map (·.name)) =
      (i.cols.filter (fun c => Schema.isExcluded i c)).map (·.name) := by
  unfold syncExcluded
  rw [List.filter_map]
  congr 1
  apply List.filter_congr
  intro c hc
  simp only [Function.comp_apply]
  cases hex : Schema.isExcluded i c with
  | false =>
    have hmem : c.name ∈ ((Schema.deriveTable i).cols.map (·.name)).filter
        (fun v => !(Schema.modSuffix.isSuffixOf v)) := by
      rw [List.mem_filter]
      refine ⟨?_, ?_⟩
      · rw [List.mem_map]
        exact ⟨Schema.reflect i c, Schema.mem_deriveCols.2 (Or.inl ⟨c, hc, hex, rfl⟩), rfl⟩
      · cases hsf : Schema.modSuffix.isSuffixOf c.name
        · rfl
        · exact absurd hsf (hnomod c hc)
    rw [List.contains_iff_mem.2 hmem]; rfl
  | true =>
    have hnmem : ¬ c.name ∈ ((Schema.deriveTable i).cols.map (·.name)).filter
        (fun v => !(Schema.modSuffix.isSuffixOf v)) := by
      rw [List.mem_filter, List.mem_map]
      rintro ⟨⟨v, hv, hvn⟩, hsuf⟩
      obtain ⟨hnd, _, _, _, hintn, _, _⟩ := h
      rcases Schema.mem_deriveCols.1 hv with ⟨c', hc', hex', rfl⟩ | hi | hm
      · have : c' = c := Schema.nodup_map_inj (fun c : Schema.PCol => c.name) i.cols hnd hc' hc hvn
        rw [this, hex] at hex'
        cases hex'
      · have hci := hintn c hc
        rcases (Schema.mem_internalCols.1 hi).2 with rfl | ⟨_, rfl⟩ | rfl
        · exact hci.1 hvn.symm
        · exact hci.2.1 hvn.symm
        · exact hci.2.2 hvn.symm
      · obtain ⟨_, d, _, _, _, rfl⟩ := Schema.mem_modCols.1 hm
        have hs : Schema.modSuffix.isSuffixOf c.name = true := by
          rw [← hvn, List.isSuffixOf_iff_suffix]
          exact List.suffix_append _ _
        rw [hs] at hsuf
        cases hsuf
    cases hcont : (((Schema.deriveTable i).cols.map (·.name)).filter
        (fun v => !(Schema.modSuffix.isSuffixOf v))).contains c.name
    · rfl
    · exact absurd (List.contains_iff_mem.1 hcont) hnmem

end Continuum.Trigger
