import Continuum.Props.C05Full
import Continuum.Props.C05Rel

/-!
# The whole recursion agrees with the first-level revert functions (C05)

`c05_o2m`, `c05_m2m`, `c05_m2o` (Props/C05.lean, C05Rel.lean) are theorems about `revertO2M`,
`revertM2M`, `revertM2O`: one relationship, one level.  `revertF` is the whole recursion.  This file
shows that for a call that names ONE first-level relationship (no dotted path) `revertF` computes the
same rows (as a finite map) and the same links (as a set) as the first-level function applied after
`revertTarget` - so the first-level theorems are theorems about the whole-recursion model, which is
the one compared with the implementation.

The related class lives in another table than the target (`ct ≠ v.key.1` …): in the shapes used a
relationship never relates a class to itself; the self-referential many-to-many shape is covered by
the correspondence only.
-/

namespace Continuum

/-- forget the table tag of shown rows -/
def untag (l : List (VRow TKey)) : List (VRow Key) :=
  l.map (fun r => { key := r.key.2, tx := r.tx, endTx := r.endTx, op := r.op, vals := r.vals, mods := r.mods })

/-!
## Result

* `revertF_m2o_first_level` is proved as stated.
* `revertF_o2m_first_level` and `revertF_m2m_first_level` are FALSE as first stated (for version tables that
  violate the version primary key `(key, tx)`): `oneToMany` / `manyToMany` select the rows with
  `some r.tx = lastTx remote r.key T`, so two rows with one `(key, tx)` are both shown, and they may carry
  different values.  `revertF` reverts an entity ONCE per call (`is_visited`): the FIRST shown version wins;
  `revertO2M` / `revertM2M` fold `liveSet` over ALL shown rows: the LAST one wins.  Counterexamples:
  `revertF_o2m_first_level_old_false`, `revertF_m2m_first_level_old_false` below.  The corrected statements
  (`…_corrected`) assume that the shown list has pairwise distinct keys (`Nodup` of the keys, i.e.
  `ShownUnique` of Props/C05Rel.lean - the hypothesis `c05_o2m` / `c05_m2m` have anyway).  The version primary
  key (`PKUnique`, Basic.lean; it is the field `DbInv.pk` of the invariant `Inv`, Lemmas/UowInvDef.lean, and C04 is
  proved under it) implies this (there was no lemma for the KEY-`Nodup` yet, only `nodup_keytx` for `(key, tx)`):
  `br_oneToMany_nodup`, `br_manyToMany_nodup`, and the corollaries `revertF_o2m_first_level_pk`,
  `revertF_m2m_first_level_pk` under `PKUnique vt`.
-/

/-! ## the leaf call, shown rows, the child folds -/

theorem br_finalF_some (v : VRow TKey) (s : FState) {x : List Val} (h : liveGet s.1 v.key = some x) :
    finalF v s = s := by
  unfold finalF
  rw [h]
  rfl

theorem br_revertF_leaf (vt : VTable TKey) (arows : List ARow) (reg : Nat → Nat → Option RelSpec)
    (d : Nat) (live : Live) (links : List Link) (vis : List TKey) (c : VRow TKey)
    (hop : c.op ≠ .delete) (hv : c.key ∉ vis) :
    revertF vt arows reg (d + 1) [] (live, links, vis) c =
      (liveSet live c.key c.vals, links, vis ++ [c.key]) := by
  rw [revertF_succ]
  have hvis : ¬ (vis.contains c.key = true) := fun h => hv (List.contains_iff_mem.1 h)
  rw [if_neg hvis, if_neg hop]
  have hf : firstLevel [] = [] := by simp [firstLevel]
  rw [hf, List.foldl_nil]
  exact br_finalF_some c _ (lget_set_self live c.key c.vals)

/-! ## shown rows are never DELETE versions -/

theorem br_oneToMany_op {remote : VTable Key} {fk : Nat} {pk : Key} {T : Nat} {r : VRow Key}
    (h : r ∈ oneToMany remote fk pk T) : r.op ≠ .delete := by
  unfold oneToMany at h
  have := (List.mem_filter.1 h).2
  simp only [decide_eq_true_eq] at this
  exact this.2.2

theorem br_manyToMany_op {remote : VTable Key} {arows : List ARow} {tbl : Nat} {lf : Bool} {pk : Key} {T : Nat}
    {r : VRow Key} (h : r ∈ manyToMany remote arows tbl lf pk T) : r.op ≠ .delete := by
  unfold manyToMany at h
  have := (List.mem_filter.1 h).2
  simp only [decide_eq_true_eq] at this
  exact this.2.2

theorem br_manyToOne_op {remote : VTable Key} {fk : Option Key} {T : Nat} {r : VRow Key}
    (h : manyToOne remote fk T = some r) : r.op ≠ .delete := by
  unfold manyToOne at h
  cases fk with
  | none => cases h
  | some k =>
    have := List.find?_some h
    simp only [decide_eq_true_eq] at this
    exact this.2.2

/-! ## the child folds -/

theorem br_not_mem_snoc {ct : Nat} {s : List (VRow Key)} {r : VRow Key} {vis : List TKey}
    (hn : r.key ∉ s.map (·.key)) (hvis : ∀ r' ∈ r :: s, (ct, r'.key) ∉ vis) :
    ∀ r' ∈ s, (ct, r'.key) ∉ vis ++ [(ct, r.key)] := by
  intro r' hr' hm
  rcases List.mem_append.1 hm with hm | hm
  · exact hvis r' (List.mem_cons_of_mem _ hr') hm
  · have e : r'.key = r.key := by simpa using hm
    exact hn (by rw [← e]; exact List.mem_map_of_mem hr')

/-- the plain child fold (one-to-many, many-to-one): `setFold`, links untouched -/
theorem br_childFold (vt : VTable TKey) (arows : List ARow) (reg : Nat → Nat → Option RelSpec)
    (d ct : Nat) (shown : List (VRow Key)) (hop : ∀ r ∈ shown, r.op ≠ .delete)
    (hnd : (shown.map (·.key)).Nodup) (live : Live) (links : List Link) (vis : List TKey)
    (hvis : ∀ r ∈ shown, (ct, r.key) ∉ vis) :
    (shown.map (liftVRow ct)).foldl (fun st c => revertF vt arows reg (d + 1) [] st c) (live, links, vis) =
      (setFold ct shown live, links, vis ++ shown.map (fun r => (ct, r.key))) := by
  induction shown generalizing live vis with
  | nil => simp [setFold_nil]
  | cons r s ih =>
    rw [List.map_cons, List.nodup_cons] at hnd
    rw [List.map_cons, List.foldl_cons]
    have h1 : revertF vt arows reg (d + 1) [] (live, links, vis) (liftVRow ct r) =
        (liveSet live (ct, r.key) r.vals, links, vis ++ [(ct, r.key)]) :=
      br_revertF_leaf vt arows reg d live links vis (liftVRow ct r) (hop r List.mem_cons_self)
        (hvis r List.mem_cons_self)
    rw [h1, ih (fun r' hr' => hop r' (List.mem_cons_of_mem _ hr')) hnd.2 _ _ (br_not_mem_snoc hnd.1 hvis)]
    rw [setFold_cons, List.map_cons, List.append_assoc, List.singleton_append]

def m2mStepF (vt : VTable TKey) (arows : List ARow) (reg : Nat → Nat → Option RelSpec)
    (d : Nat) (sub : List Path) (atb : Nat) (lf : Bool) (pk : List Int) (st : FState) (c : VRow TKey) : FState :=
  ((revertF vt arows reg d sub st c).1,
   if (revertF vt arows reg d sub st c).2.1.contains (atb, mkLink lf pk c.key.2)
     then (revertF vt arows reg d sub st c).2.1
     else (revertF vt arows reg d sub st c).2.1 ++ [(atb, mkLink lf pk c.key.2)],
   (revertF vt arows reg d sub st c).2.2)

theorem br_m2mStepF_leaf (vt : VTable TKey) (arows : List ARow) (reg : Nat → Nat → Option RelSpec)
    (d rt atb : Nat) (lf : Bool) (pk : List Int) (live : Live) (links : List Link) (vis : List TKey) (r : VRow Key)
    (hop : r.op ≠ .delete) (hv : (rt, r.key) ∉ vis) :
    m2mStepF vt arows reg (d + 1) [] atb lf pk (live, links, vis) (liftVRow rt r) =
      (liveSet live (rt, r.key) r.vals,
       if links.contains (atb, mkLink lf pk r.key) then links else links ++ [(atb, mkLink lf pk r.key)],
       vis ++ [(rt, r.key)]) := by
  unfold m2mStepF
  rw [br_revertF_leaf vt arows reg d live links vis (liftVRow rt r) hop hv]
  rfl

theorem br_mem_addLink (links : List Link) (l x : Link) :
    x ∈ (if links.contains l then links else links ++ [l]) ↔ x ∈ links ∨ l = x := by
  split
  · rename_i h
    constructor
    · exact Or.inl
    · rintro (h' | h')
      · exact h'
      · rw [← h']; exact List.contains_iff_mem.1 h
  · rw [List.mem_append, List.mem_singleton]
    constructor
    · rintro (h' | h')
      · exact Or.inl h'
      · exact Or.inr h'.symm
    · rintro (h' | h')
      · exact Or.inl h'
      · exact Or.inr h'.symm

/-- the many-to-many child fold: `setFold`, every shown link added (as a set) -/
theorem br_childFold_m2m (vt : VTable TKey) (arows : List ARow) (reg : Nat → Nat → Option RelSpec)
    (d rt atb : Nat) (lf : Bool) (pk : List Int) (shown : List (VRow Key)) (hop : ∀ r ∈ shown, r.op ≠ .delete)
    (hnd : (shown.map (·.key)).Nodup) (live : Live) (links : List Link) (vis : List TKey)
    (hvis : ∀ r ∈ shown, (rt, r.key) ∉ vis) :
    ((shown.map (liftVRow rt)).foldl (m2mStepF vt arows reg (d + 1) [] atb lf pk) (live, links, vis)).1 =
        setFold rt shown live ∧
    (∀ x, x ∈ ((shown.map (liftVRow rt)).foldl (m2mStepF vt arows reg (d + 1) [] atb lf pk) (live, links, vis)).2.1 ↔
        (x ∈ links ∨ ∃ r ∈ shown, (atb, mkLink lf pk r.key) = x)) ∧
    ((shown.map (liftVRow rt)).foldl (m2mStepF vt arows reg (d + 1) [] atb lf pk) (live, links, vis)).2.2 =
        vis ++ shown.map (fun r => (rt, r.key)) := by
  induction shown generalizing live links vis with
  | nil => simp [setFold_nil]
  | cons r s ih =>
    rw [List.map_cons, List.nodup_cons] at hnd
    rw [List.map_cons, List.foldl_cons,
      br_m2mStepF_leaf vt arows reg d rt atb lf pk live links vis r (hop r List.mem_cons_self)
        (hvis r List.mem_cons_self)]
    have ⟨i1, i2, i3⟩ := ih (fun r' hr' => hop r' (List.mem_cons_of_mem _ hr')) hnd.2
      (liveSet live (rt, r.key) r.vals)
      (if links.contains (atb, mkLink lf pk r.key) then links else links ++ [(atb, mkLink lf pk r.key)])
      (vis ++ [(rt, r.key)]) (br_not_mem_snoc hnd.1 hvis)
    refine ⟨by rw [i1, setFold_cons], fun x => ?_, by rw [i3, List.map_cons, List.append_assoc, List.singleton_append]⟩
    rw [i2 x, br_mem_addLink]
    constructor
    · rintro ((h | h) | ⟨r', hr', e⟩)
      · exact Or.inl h
      · exact Or.inr ⟨r, List.mem_cons_self, h⟩
      · exact Or.inr ⟨r', List.mem_cons_of_mem _ hr', e⟩
    · rintro (h | ⟨r', hr', e⟩)
      · exact Or.inl (Or.inl h)
      · rcases List.mem_cons.1 hr' with rfl | hr'
        · exact Or.inl (Or.inr e)
        · exact Or.inr ⟨r', hr', e⟩

/-! ## rows after the one-to-many step -/

/-- `setFold` only drops rows whose key is one of the shown keys -/
theorem br_lmem_setFold_of_not_key {ct : Nat} {shown : List (VRow Key)} {l : Live} {p : TKey × List Val}
    (hp : p ∈ l) (hk : p.1 ∉ shown.map (fun r => (ct, r.key))) : p ∈ setFold ct shown l := by
  induction shown generalizing l with
  | nil => exact hp
  | cons r s ih =>
    rw [List.map_cons] at hk
    rw [setFold_cons]
    refine ih (lmem_set.2 (Or.inr ⟨hp, fun e => hk (by rw [e]; exact List.mem_cons_self)⟩))
      (fun hm => hk (List.mem_cons_of_mem _ hm))

/-- on a shown key `setFold` does not depend on the rows it starts from -/
theorem br_lget_setFold_indep (ct : Nat) (shown : List (VRow Key)) (l l' : Live) {k : TKey}
    (hk : k ∈ shown.map (fun r => (ct, r.key))) :
    liveGet (setFold ct shown l) k = liveGet (setFold ct shown l') k := by
  induction shown generalizing l l' with
  | nil => cases hk
  | cons r s ih =>
    rw [setFold_cons, setFold_cons]
    by_cases hm : k ∈ s.map (fun r => (ct, r.key))
    · exact ih _ _ hm
    · rw [List.map_cons] at hk
      have e : k = (ct, r.key) := by
        rcases List.mem_cons.1 hk with e | h
        · exact e
        · exact absurd h hm
      rw [lget_setFold_of_not_mem _ _ _ hm, lget_setFold_of_not_mem _ _ _ hm, e, lget_set_self, lget_set_self]

theorem br_liveChildren_setFold (ct' fk : Nat) (pk : List Int) (ct : Nat) (shown : List (VRow Key)) (l : Live)
    {k : TKey} (hk : k ∉ shown.map (fun r => (ct, r.key))) :
    k ∈ liveChildren (setFold ct shown l) ct' fk pk ↔ k ∈ liveChildren l ct' fk pk := by
  rw [mem_liveChildren, mem_liveChildren]
  constructor
  · rintro ⟨p, hp, hc, e⟩
    rcases lmem_setFold hp with h | h
    · exact absurd (e ▸ h) hk
    · exact ⟨p, h, hc, e⟩
  · rintro ⟨p, hp, hc, e⟩
    exact ⟨p, br_lmem_setFold_of_not_key hp (e ▸ hk), hc, e⟩

theorem br_liveChildren_table {l : Live} {ct fk : Nat} {pk : List Int} {k : TKey}
    (h : k ∈ liveChildren l ct fk pk) : k.1 = ct := by
  rcases mem_liveChildren.1 h with ⟨p, _, hc, e⟩
  unfold isChild at hc
  rw [Bool.and_eq_true] at hc
  rw [← e]
  exact eq_of_beq hc.1

/-- "revert the shown children, then delete the children related now but not shown" (`revertF`) and "delete
the children related now but not shown, then revert the shown children" (`revertO2M`) give the same rows -/
theorem br_o2m_rows (ct fk : Nat) (pk : List Int) (shown : List (VRow Key)) (l : Live) (k : TKey) :
    liveGet (delFold (shown.map (fun r => (ct, r.key)))
        (liveChildren (setFold ct shown l) ct fk pk) (setFold ct shown l)) k =
    liveGet (revertO2M l ct fk pk shown) k := by
  rw [revertO2M_eq]
  by_cases hk : k ∈ shown.map (fun r => (ct, r.key))
  · rw [lget_delFold_of_keep _ _ _ hk]
    exact br_lget_setFold_indep ct shown _ _ hk
  · rw [lget_setFold_of_not_mem _ _ _ hk]
    by_cases hc : k ∈ liveChildren l ct fk pk
    · rw [lget_delFold_removed _ _ _ hc hk,
        lget_delFold_removed _ _ _ ((br_liveChildren_setFold ct fk pk ct shown l hk).2 hc) hk]
    · rw [lget_delFold_of_not_mem _ _ _ hc,
        lget_delFold_of_not_mem _ _ _ (fun h => hc ((br_liveChildren_setFold ct fk pk ct shown l hk).1 h)),
        lget_setFold_of_not_mem _ _ _ hk]

/-! ## unfolding of the top-level call -/

theorem br_firstLevel_single (r : Nat) : firstLevel [[r]] = [r] := by
  simp [firstLevel, List.eraseDups_cons]

theorem br_subPaths_single (r : Nat) : subPaths [[r]] r = [] := rfl

theorem br_relStepF_o2m (vt : VTable TKey) (arows : List ARow) (reg : Nat → Nat → Option RelSpec)
    (d : Nat) (paths : List Path) (v : VRow TKey) (st : FState) (r ct fk : Nat)
    (h : reg v.key.1 r = some (.o2m ct fk)) :
    relStepF vt arows reg d paths v st r =
      (delFold ((shownOf vt arows (.o2m ct fk) v).map (·.key))
          (liveChildren ((shownOf vt arows (.o2m ct fk) v).foldl
            (fun st c => revertF vt arows reg d (subPaths paths r) st c) st).1 ct fk v.key.2)
          ((shownOf vt arows (.o2m ct fk) v).foldl
            (fun st c => revertF vt arows reg d (subPaths paths r) st c) st).1,
       ((shownOf vt arows (.o2m ct fk) v).foldl
            (fun st c => revertF vt arows reg d (subPaths paths r) st c) st).2.1,
       ((shownOf vt arows (.o2m ct fk) v).foldl
            (fun st c => revertF vt arows reg d (subPaths paths r) st c) st).2.2) := by
  unfold relStepF
  rw [h]
  rfl

theorem br_relStepF_m2m (vt : VTable TKey) (arows : List ARow) (reg : Nat → Nat → Option RelSpec)
    (d : Nat) (paths : List Path) (v : VRow TKey) (st : FState) (r rt atb : Nat) (lf : Bool)
    (h : reg v.key.1 r = some (.m2m rt atb lf)) :
    relStepF vt arows reg d paths v st r =
      (shownOf vt arows (.m2m rt atb lf) v).foldl (m2mStepF vt arows reg d (subPaths paths r) atb lf v.key.2)
        (st.1, st.2.1.filter (fun x => !linkOfParent atb lf v.key.2 x), st.2.2) := by
  unfold relStepF
  rw [h]
  rfl

theorem br_relStepF_m2o (vt : VTable TKey) (arows : List ARow) (reg : Nat → Nat → Option RelSpec)
    (d : Nat) (paths : List Path) (v : VRow TKey) (st : FState) (r pt fk : Nat)
    (h : reg v.key.1 r = some (.m2o pt fk)) :
    relStepF vt arows reg d paths v st r =
      (shownOf vt arows (.m2o pt fk) v).foldl (fun st c => revertF vt arows reg d (subPaths paths r) st c) st := by
  unfold relStepF
  rw [h]

/-- the top-level call with the single path `[[r]]`: one relationship step, then the final step -/
theorem br_revertF_single (vt : VTable TKey) (arows : List ARow) (reg : Nat → Nat → Option RelSpec)
    (d r : Nat) (live : Live) (links : List Link) (v : VRow TKey) (hop : v.op ≠ .delete) :
    revertF vt arows reg (d + 1) [[r]] (live, links, []) v =
      finalF v (relStepF vt arows reg d [[r]] v (liveSet live v.key v.vals, links, [v.key]) r) := by
  rw [revertF_succ]
  have hvis : ¬ (([] : List TKey).contains v.key = true) := by simp
  rw [if_neg hvis, if_neg hop, br_firstLevel_single, List.foldl_cons, List.foldl_nil, List.nil_append]

theorem br_shownOf_o2m (vt : VTable TKey) (arows : List ARow) (ct fk : Nat) (v : VRow TKey) :
    shownOf vt arows (.o2m ct fk) v = (oneToMany (tableOfV vt ct) fk v.key.2 v.tx).map (liftVRow ct) := rfl

theorem br_keys_lift (ct : Nat) (shown : List (VRow Key)) :
    (shown.map (liftVRow ct)).map (·.key) = shown.map (fun r => (ct, r.key)) := by
  rw [List.map_map]
  rfl

theorem br_target_not_shown {ct : Nat} {v : VRow TKey} (hct : ct ≠ v.key.1) (shown : List (VRow Key)) :
    v.key ∉ shown.map (fun r => (ct, r.key)) := by
  intro hm
  rcases List.mem_map.1 hm with ⟨r, _, e⟩
  exact hct (by rw [← e])

theorem br_shown_not_vis {ct : Nat} {v : VRow TKey} (hct : ct ≠ v.key.1) (shown : List (VRow Key)) :
    ∀ r ∈ shown, (ct, r.key) ∉ [v.key] := by
  intro r _ hm
  rw [List.mem_singleton] at hm
  exact hct (by rw [← hm])

/-! ## one-to-many -/

/-- one-to-many named alone: rows as `revertO2M` after `revertTarget`, links untouched -/
theorem revertF_o2m_first_level_corrected (vt : VTable TKey) (arows : List ARow) (reg : Nat → Nat → Option RelSpec)
    (d r ct fk : Nat) (live : Live) (links : List Link) (v : VRow TKey)
    (hop : v.op ≠ .delete) (hreg : reg v.key.1 r = some (.o2m ct fk)) (hct : ct ≠ v.key.1)
    (hnd : ((oneToMany (tableOfV vt ct) fk v.key.2 v.tx).map (·.key)).Nodup) :
    (∀ k, liveGet (revertF vt arows reg (d + 2) [[r]] (live, links, []) v).1 k =
          liveGet (revertO2M (liveSet live v.key v.vals) ct fk v.key.2
            (oneToMany (tableOfV vt ct) fk v.key.2 v.tx)) k) ∧
    (revertF vt arows reg (d + 2) [[r]] (live, links, []) v).2.1 = links := by
  rw [br_revertF_single vt arows reg (d + 1) r live links v hop,
    br_relStepF_o2m vt arows reg (d + 1) [[r]] v _ r ct fk hreg, br_subPaths_single]
  rw [br_shownOf_o2m]
  rw [br_childFold vt arows reg d ct _ (fun r hr => br_oneToMany_op hr) hnd _ links [v.key]
    (br_shown_not_vis hct _), br_keys_lift]
  have hrows := br_o2m_rows ct fk v.key.2 (oneToMany (tableOfV vt ct) fk v.key.2 v.tx) (liveSet live v.key v.vals)
  have htarget : liveGet (revertO2M (liveSet live v.key v.vals) ct fk v.key.2
      (oneToMany (tableOfV vt ct) fk v.key.2 v.tx)) v.key = some v.vals := by
    rw [revertO2M_eq, lget_setFold_of_not_mem _ _ _ (br_target_not_shown hct _),
      lget_delFold_of_not_mem _ _ _ (fun h => hct (br_liveChildren_table h).symm)]
    exact lget_set_self live v.key v.vals
  rw [br_finalF_some v _ ((hrows v.key).trans htarget)]
  exact ⟨hrows, rfl⟩

/-! ## many-to-many -/

theorem br_shownOf_m2m (vt : VTable TKey) (arows : List ARow) (rt atb : Nat) (lf : Bool) (v : VRow TKey) :
    shownOf vt arows (.m2m rt atb lf) v =
      (manyToMany (tableOfV vt rt) arows atb lf v.key.2 v.tx).map (liftVRow rt) := rfl

/-- many-to-many named alone: rows and links (as a set) as `revertM2M` after `revertTarget` -/
theorem revertF_m2m_first_level_corrected (vt : VTable TKey) (arows : List ARow) (reg : Nat → Nat → Option RelSpec)
    (d r rt atb : Nat) (lf : Bool) (live : Live) (links : List Link) (v : VRow TKey)
    (hop : v.op ≠ .delete) (hreg : reg v.key.1 r = some (.m2m rt atb lf)) (hrt : rt ≠ v.key.1)
    (hnd : ((manyToMany (tableOfV vt rt) arows atb lf v.key.2 v.tx).map (·.key)).Nodup) :
    (∀ k, liveGet (revertF vt arows reg (d + 2) [[r]] (live, links, []) v).1 k =
          liveGet (revertM2M (liveSet live v.key v.vals) links rt atb lf v.key.2
            (manyToMany (tableOfV vt rt) arows atb lf v.key.2 v.tx)).1 k) ∧
    (∀ x, x ∈ (revertF vt arows reg (d + 2) [[r]] (live, links, []) v).2.1 ↔
          x ∈ (revertM2M (liveSet live v.key v.vals) links rt atb lf v.key.2
            (manyToMany (tableOfV vt rt) arows atb lf v.key.2 v.tx)).2) := by
  rw [br_revertF_single vt arows reg (d + 1) r live links v hop,
    br_relStepF_m2m vt arows reg (d + 1) [[r]] v _ r rt atb lf hreg, br_subPaths_single, br_shownOf_m2m]
  dsimp only
  have ⟨h1, h2, _⟩ := br_childFold_m2m vt arows reg d rt atb lf v.key.2 _ (fun r hr => br_manyToMany_op hr) hnd
    (liveSet live v.key v.vals) (links.filter (fun x => !linkOfParent atb lf v.key.2 x)) [v.key]
    (br_shown_not_vis hrt _)
  have htarget : liveGet (((manyToMany (tableOfV vt rt) arows atb lf v.key.2 v.tx).map (liftVRow rt)).foldl
      (m2mStepF vt arows reg (d + 1) [] atb lf v.key.2)
      (liveSet live v.key v.vals, links.filter (fun x => !linkOfParent atb lf v.key.2 x), [v.key])).1 v.key =
      some v.vals := by
    rw [h1, lget_setFold_of_not_mem _ _ _ (br_target_not_shown hrt _)]
    exact lget_set_self live v.key v.vals
  rw [br_finalF_some v _ htarget]
  refine ⟨fun k => by rw [h1]; rfl, fun x => ?_⟩
  rw [h2 x, c05r_mem_links, List.mem_filter]
  simp

/-! ## many-to-one -/

theorem br_shownOf_m2o (vt : VTable TKey) (arows : List ARow) (pt fk : Nat) (v : VRow TKey) :
    shownOf vt arows (.m2o pt fk) v =
      (manyToOne (tableOfV vt pt) (fkOf fk
        { key := v.key.2, tx := v.tx, endTx := v.endTx, op := v.op, vals := v.vals, mods := v.mods }) v.tx).toList.map
        (liftVRow pt) := rfl

/-- many-to-one named alone: rows as `revertM2O` after `revertTarget`, links untouched.  PROVED AS STATED (the
shown list has at most one element, `find?`). -/
theorem revertF_m2o_first_level (vt : VTable TKey) (arows : List ARow) (reg : Nat → Nat → Option RelSpec)
    (d r pt fk : Nat) (live : Live) (links : List Link) (v : VRow TKey)
    (hop : v.op ≠ .delete) (hreg : reg v.key.1 r = some (.m2o pt fk)) (hpt : pt ≠ v.key.1) :
    (∀ k, liveGet (revertF vt arows reg (d + 2) [[r]] (live, links, []) v).1 k =
          liveGet (revertM2O (liveSet live v.key v.vals) pt
            (manyToOne (tableOfV vt pt) (fkOf fk
              { key := v.key.2, tx := v.tx, endTx := v.endTx, op := v.op, vals := v.vals, mods := v.mods }) v.tx)) k) ∧
    (revertF vt arows reg (d + 2) [[r]] (live, links, []) v).2.1 = links := by
  rw [br_revertF_single vt arows reg (d + 1) r live links v hop,
    br_relStepF_m2o vt arows reg (d + 1) [[r]] v _ r pt fk hreg, br_subPaths_single, br_shownOf_m2o]
  cases hm : manyToOne (tableOfV vt pt) (fkOf fk
      { key := v.key.2, tx := v.tx, endTx := v.endTx, op := v.op, vals := v.vals, mods := v.mods }) v.tx with
  | none =>
    rw [Option.toList_none, List.map_nil, List.foldl_nil,
      br_finalF_some v _ (lget_set_self live v.key v.vals)]
    exact ⟨fun _ => rfl, rfl⟩
  | some r0 =>
    rw [Option.toList_some, List.map_cons, List.map_nil, List.foldl_cons, List.foldl_nil,
      br_revertF_leaf vt arows reg d _ links [v.key] (liftVRow pt r0) (br_manyToOne_op hm)
        (br_shown_not_vis hpt [r0] r0 List.mem_cons_self)]
    have hne : v.key ≠ (pt, r0.key) := fun e => hpt (by rw [e])
    have htarget : liveGet (liveSet (liveSet live v.key v.vals) (pt, r0.key) r0.vals) v.key = some v.vals :=
      (lget_set_ne _ _ _ hne).trans (lget_set_self live v.key v.vals)
    rw [br_finalF_some v _ htarget]
    exact ⟨fun _ => rfl, rfl⟩

/-! ## the version primary key gives the `Nodup` hypothesis -/

/-- rows selected by "`tx` is the last transaction of the row's key not after `T`": under the version primary
key `(key, tx)` no two of them have one key -/
theorem br_nodup_keys_of_pk {remote : VTable Key} (hpk : PKUnique remote) (T : Nat) (q : VRow Key → Bool)
    (hq : ∀ r, q r = true → some r.tx = lastTx remote r.key T) : ((remote.filter q).map (·.key)).Nodup := by
  unfold List.Nodup
  rw [List.pairwise_map]
  have h1 : (remote.filter q).Pairwise (fun a b => ¬ (a.key = b.key ∧ a.tx = b.tx)) := List.Pairwise.filter q hpk
  refine List.Pairwise.imp_of_mem ?_ h1
  intro a b ha hb hab heq
  have ta := hq a (List.mem_filter.1 ha).2
  have tb := hq b (List.mem_filter.1 hb).2
  rw [heq] at ta
  exact hab ⟨heq, Option.some.inj (ta.trans tb.symm)⟩

theorem br_oneToMany_nodup {remote : VTable Key} (hpk : PKUnique remote) (fk : Nat) (pk : Key) (T : Nat) :
    ((oneToMany remote fk pk T).map (·.key)).Nodup := by
  unfold oneToMany
  refine br_nodup_keys_of_pk hpk T _ (fun r hr => ?_)
  simp only [decide_eq_true_eq] at hr
  exact hr.2.1

theorem br_manyToMany_nodup {remote : VTable Key} (hpk : PKUnique remote) (arows : List ARow) (tbl : Nat) (lf : Bool)
    (pk : Key) (T : Nat) : ((manyToMany remote arows tbl lf pk T).map (·.key)).Nodup := by
  unfold manyToMany
  refine br_nodup_keys_of_pk hpk T _ (fun r hr => ?_)
  simp only [decide_eq_true_eq] at hr
  exact hr.2.1

/-- the primary key of the tagged version table is the primary key of each of its tables -/
theorem br_pk_tableOfV {vt : VTable TKey} (hpk : PKUnique vt) (tid : Nat) : PKUnique (tableOfV vt tid) := by
  unfold tableOfV PKUnique
  rw [List.pairwise_map]
  have h1 : (vt.filter (fun r => r.key.1 = tid)).Pairwise (fun a b => ¬ (a.key = b.key ∧ a.tx = b.tx)) :=
    List.Pairwise.filter _ hpk
  refine List.Pairwise.imp_of_mem ?_ h1
  intro a b ha hb hab heq
  have ka : a.key.1 = tid := by simpa using (List.mem_filter.1 ha).2
  have kb : b.key.1 = tid := by simpa using (List.mem_filter.1 hb).2
  exact hab ⟨Prod.ext (ka.trans kb.symm) heq.1, heq.2⟩

/-- one-to-many named alone, under the version primary key -/
theorem revertF_o2m_first_level_pk (vt : VTable TKey) (arows : List ARow) (reg : Nat → Nat → Option RelSpec)
    (d r ct fk : Nat) (live : Live) (links : List Link) (v : VRow TKey)
    (hop : v.op ≠ .delete) (hreg : reg v.key.1 r = some (.o2m ct fk)) (hct : ct ≠ v.key.1) (hpk : PKUnique vt) :
    (∀ k, liveGet (revertF vt arows reg (d + 2) [[r]] (live, links, []) v).1 k =
          liveGet (revertO2M (liveSet live v.key v.vals) ct fk v.key.2
            (oneToMany (tableOfV vt ct) fk v.key.2 v.tx)) k) ∧
    (revertF vt arows reg (d + 2) [[r]] (live, links, []) v).2.1 = links :=
  revertF_o2m_first_level_corrected vt arows reg d r ct fk live links v hop hreg hct
    (br_oneToMany_nodup (br_pk_tableOfV hpk ct) fk v.key.2 v.tx)

/-- many-to-many named alone, under the version primary key -/
theorem revertF_m2m_first_level_pk (vt : VTable TKey) (arows : List ARow) (reg : Nat → Nat → Option RelSpec)
    (d r rt atb : Nat) (lf : Bool) (live : Live) (links : List Link) (v : VRow TKey)
    (hop : v.op ≠ .delete) (hreg : reg v.key.1 r = some (.m2m rt atb lf)) (hrt : rt ≠ v.key.1) (hpk : PKUnique vt) :
    (∀ k, liveGet (revertF vt arows reg (d + 2) [[r]] (live, links, []) v).1 k =
          liveGet (revertM2M (liveSet live v.key v.vals) links rt atb lf v.key.2
            (manyToMany (tableOfV vt rt) arows atb lf v.key.2 v.tx)).1 k) ∧
    (∀ x, x ∈ (revertF vt arows reg (d + 2) [[r]] (live, links, []) v).2.1 ↔
          x ∈ (revertM2M (liveSet live v.key v.vals) links rt atb lf v.key.2
            (manyToMany (tableOfV vt rt) arows atb lf v.key.2 v.tx)).2) :=
  revertF_m2m_first_level_corrected vt arows reg d r rt atb lf live links v hop hreg hrt
    (br_manyToMany_nodup (br_pk_tableOfV hpk rt) arows atb lf v.key.2 v.tx)

/-! ## the statements without the `Nodup` hypothesis are false

A child table (id `1`) whose version table holds TWO rows with the primary key `(key, tx) = ([7], 1)` and
different values; the target is entity `[1]` of table `0`, version `tx = 1`. -/

def cexV : VRow TKey := { key := (0, [1]), tx := 1, endTx := none, op := .insert, vals := [some 5], mods := [] }

/-- one-to-many: foreign key column `1` of the child points at `[1]` -/
def cexVtO2M : VTable TKey :=
  [{ key := (1, [7]), tx := 1, endTx := none, op := .insert, vals := [some 1, some 1], mods := [] },
   { key := (1, [7]), tx := 1, endTx := none, op := .insert, vals := [some 2, some 1], mods := [] }]

def cexRegO2M : Nat → Nat → Option RelSpec := fun t r => if t = 0 ∧ r = 0 then some (.o2m 1 1) else none

/-- `revertF`: the first shown version wins; `revertO2M`: the last one -/
theorem cex_o2m_rows :
    liveGet (revertF cexVtO2M [] cexRegO2M 2 [[0]] ([], [], []) cexV).1 (1, [7]) = some [some 1, some 1] ∧
    liveGet (revertO2M (liveSet [] cexV.key cexV.vals) 1 1 cexV.key.2
      (oneToMany (tableOfV cexVtO2M 1) 1 cexV.key.2 cexV.tx)) (1, [7]) = some [some 2, some 1] ∧
    ¬ PKUnique cexVtO2M := by
  decide

/- OLD STATEMENT (false):
theorem revertF_o2m_first_level (vt : VTable TKey) (arows : List ARow) (reg : Nat → Nat → Option RelSpec)
    (d r ct fk : Nat) (live : Live) (links : List Link) (v : VRow TKey)
    (hop : v.op ≠ .delete) (hreg : reg v.key.1 r = some (.o2m ct fk)) (hct : ct ≠ v.key.1) :
    (∀ k, liveGet (revertF vt arows reg (d + 2) [[r]] (live, links, []) v).1 k =
          liveGet (revertO2M (liveSet live v.key v.vals) ct fk v.key.2
            (oneToMany (tableOfV vt ct) fk v.key.2 v.tx)) k) ∧
    (revertF vt arows reg (d + 2) [[r]] (live, links, []) v).2.1 = links
-/
theorem revertF_o2m_first_level_old_false :
    ¬ (∀ (vt : VTable TKey) (arows : List ARow) (reg : Nat → Nat → Option RelSpec)
        (d r ct fk : Nat) (live : Live) (links : List Link) (v : VRow TKey),
        v.op ≠ .delete → reg v.key.1 r = some (.o2m ct fk) → ct ≠ v.key.1 →
        (∀ k, liveGet (revertF vt arows reg (d + 2) [[r]] (live, links, []) v).1 k =
              liveGet (revertO2M (liveSet live v.key v.vals) ct fk v.key.2
                (oneToMany (tableOfV vt ct) fk v.key.2 v.tx)) k) ∧
        (revertF vt arows reg (d + 2) [[r]] (live, links, []) v).2.1 = links) := by
  intro h
  have h1 := (h cexVtO2M [] cexRegO2M 0 0 1 1 [] [] cexV (by decide) (by decide) (by decide)).1 (1, [7])
  rw [cex_o2m_rows.1, cex_o2m_rows.2.1] at h1
  exact absurd h1 (by decide)

/-- many-to-many: association table `0`, local key first, one link `[1, 7]` -/
def cexVtM2M : VTable TKey :=
  [{ key := (1, [7]), tx := 1, endTx := none, op := .insert, vals := [some 1], mods := [] },
   { key := (1, [7]), tx := 1, endTx := none, op := .insert, vals := [some 2], mods := [] }]

def cexArows : List ARow := [{ tbl := 0, link := [1, 7], tx := 1, op := .insert }]

def cexRegM2M : Nat → Nat → Option RelSpec := fun t r => if t = 0 ∧ r = 0 then some (.m2m 1 0 true) else none

theorem cex_m2m_rows :
    liveGet (revertF cexVtM2M cexArows cexRegM2M 2 [[0]] ([], [], []) cexV).1 (1, [7]) = some [some 1] ∧
    liveGet (revertM2M (liveSet [] cexV.key cexV.vals) [] 1 0 true cexV.key.2
      (manyToMany (tableOfV cexVtM2M 1) cexArows 0 true cexV.key.2 cexV.tx)).1 (1, [7]) = some [some 2] ∧
    ¬ PKUnique cexVtM2M := by
  decide

/- OLD STATEMENT (false):
theorem revertF_m2m_first_level (vt : VTable TKey) (arows : List ARow) (reg : Nat → Nat → Option RelSpec)
    (d r rt atb : Nat) (lf : Bool) (live : Live) (links : List Link) (v : VRow TKey)
    (hop : v.op ≠ .delete) (hreg : reg v.key.1 r = some (.m2m rt atb lf)) (hrt : rt ≠ v.key.1) :
    (∀ k, liveGet (revertF vt arows reg (d + 2) [[r]] (live, links, []) v).1 k =
          liveGet (revertM2M (liveSet live v.key v.vals) links rt atb lf v.key.2
            (manyToMany (tableOfV vt rt) arows atb lf v.key.2 v.tx)).1 k) ∧
    (∀ x, x ∈ (revertF vt arows reg (d + 2) [[r]] (live, links, []) v).2.1 ↔
          x ∈ (revertM2M (liveSet live v.key v.vals) links rt atb lf v.key.2
            (manyToMany (tableOfV vt rt) arows atb lf v.key.2 v.tx)).2)
-/
theorem revertF_m2m_first_level_old_false :
    ¬ (∀ (vt : VTable TKey) (arows : List ARow) (reg : Nat → Nat → Option RelSpec)
        (d r rt atb : Nat) (lf : Bool) (live : Live) (links : List Link) (v : VRow TKey),
        v.op ≠ .delete → reg v.key.1 r = some (.m2m rt atb lf) → rt ≠ v.key.1 →
        (∀ k, liveGet (revertF vt arows reg (d + 2) [[r]] (live, links, []) v).1 k =
              liveGet (revertM2M (liveSet live v.key v.vals) links rt atb lf v.key.2
                (manyToMany (tableOfV vt rt) arows atb lf v.key.2 v.tx)).1 k) ∧
        (∀ x, x ∈ (revertF vt arows reg (d + 2) [[r]] (live, links, []) v).2.1 ↔
              x ∈ (revertM2M (liveSet live v.key v.vals) links rt atb lf v.key.2
                (manyToMany (tableOfV vt rt) arows atb lf v.key.2 v.tx)).2)) := by
  intro h
  have h1 := (h cexVtM2M cexArows cexRegM2M 0 0 1 0 true [] [] cexV (by decide) (by decide) (by decide)).1 (1, [7])
  rw [cex_m2m_rows.1, cex_m2m_rows.2.1] at h1
  exact absurd h1 (by decide)

/-- non-vacuity of the corrected statements: the same scene with ONE row per `(key, tx)` (and a second child) -/
example :
    let vt : VTable TKey :=
      [{ key := (1, [7]), tx := 1, endTx := none, op := .insert, vals := [some 1, some 1], mods := [] },
       { key := (1, [8]), tx := 1, endTx := none, op := .insert, vals := [some 2, some 1], mods := [] }]
    PKUnique vt ∧ ((oneToMany (tableOfV vt 1) 1 cexV.key.2 cexV.tx).map (·.key)) = [[7], [8]] ∧
    (revertF vt [] cexRegO2M 2 [[0]] ([((1, [9]), [some 0, some 1])], [], []) cexV).1 =
      [((1, [8]), [some 2, some 1]), ((1, [7]), [some 1, some 1]), ((0, [1]), [some 5])] := by
  decide

end Continuum
