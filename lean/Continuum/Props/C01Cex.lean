import Continuum.Props.C01

/-!
# Counterexamples to the first statement of `c01_holds` / `liveInv_after_commit`

Each example satisfies every hypothesis of the first statement (`CfgOK`, `Boundary`, `LiveInv`,
`WF` of the trace including the commit; `Inv` holds because the boundary state is reached from the
empty database by a well-formed trace, or — example 1 — by inspection) and violates `C01.Holds`.
Each violates exactly one of the three hypotheses added in `c01_holds_corrected`.
Everything below is checked by kernel evaluation (`decide`), not by `#eval`.
-/

namespace Continuum.C01Cex

instance wfDec_l (cfg : Cfg) : (s : St) → (evs : List Ev) → Decidable (WF cfg s evs)
  | _, [] => isTrue trivial
  | s, e :: es => by
    unfold WF
    have := wfDec_l cfg (step cfg s e) es
    infer_instance

instance (s : St) : Decidable (LiveInv s) := by unfold LiveInv; infer_instance

/-- `Boundary` without the (undecidable as stated) `uow = none` conjunct, which is checked apart -/
def bdry (s : St) : Bool :=
  s.uow.isNone && s.sps.isEmpty && decide (s.db.versions = s.committed.versions) &&
  decide (s.db.txs = s.committed.txs) && decide (s.db.live = s.committed.live) &&
  decide (s.db.assoc = s.committed.assoc) && decide (s.db.changes = s.committed.changes)

def mkCls (ncols : Nat) (tables : List (Nat × List (Option Nat))) : ClassCfg :=
  { versioned := true, ncols := ncols, excl := [], incl := [], rels := [], tables := tables }

def newObj (c : Nat) : ObjView := ⟨c, true, false, [], []⟩
def delObj (c : Nat) : ObjView := ⟨c, false, true, [], []⟩

/-! ## 1. a boundary state whose live row is wider than the class' projection (violates `WFShape`)

The uncaptured update (no history flag set) rewrites the ghost live row `[5, 6]` to `[5]`. -/

def cfg1 : Cfg := { classes := [mkCls 1 [(1, [some 0])]] }
def db1 : Db :=
  { versions := [{ key := (1, [1]), tx := 1, endTx := none, op := .insert, vals := [some 5, some 6], mods := [] }]
    txs := [1], live := [((1, [1]), [some 5, some 6])] }
def s1 : St := { db := db1, committed := db1 }
def evs1 : List Ev := [.upd 0 [1] [some 5] [false] [] [false] []]

example : CfgOK cfg1 ∧ TablesNodup cfg1 ∧ ColsInRange cfg1 := by decide
example : bdry s1 = true := by decide
example : LiveInv s1 := by decide
example : WF cfg1 s1 (evs1 ++ [.commit]) := by decide
example : ¬ WFShape cfg1 s1 evs1 := by decide
example : ¬ C01.newestIsLive (modelSeg cfg1 s1 evs1 .commit) := by decide
example : ¬ C01.changedHasRow (modelSeg cfg1 s1 evs1 .commit) := by decide

/-! ## 2. a stored column outside `ncols` (violates `ColsInRange`)

`isModified` only looks at attribute indices `< ncols`; the change of attribute 3 is not captured. -/

def cfg2 : Cfg := { classes := [mkCls 1 [(1, [some 3])]] }
def evs2a : List Ev :=
  [.beforeFlush [newObj 0] 1 false, .ins 0 [1] [none, none, none, some 5] [], .afterFlush]
def s2 : St := run cfg2 {} (evs2a ++ [.commit])
def evs2 : List Ev :=
  [.upd 0 [1] [none, none, none, some 7] [false, false, false, true] [] [false, false, false, true] []]

example : CfgOK cfg2 ∧ TablesNodup cfg2 ∧ ¬ ColsInRange cfg2 := by decide
example : WF cfg2 {} (evs2a ++ [.commit]) := by decide
example : bdry s2 = true := by decide
example : LiveInv s2 := by decide
example : WF cfg2 s2 (evs2 ++ [.commit]) := by decide
example : WFShape cfg2 s2 evs2 := by decide
example : ¬ C01.newestIsLive (modelSeg cfg2 s2 evs2 .commit) := by decide

/-! ## 3. a table id repeated inside one class (violates `TablesNodup`)

Both folds are "last entry wins", so (a)–(d) survive, but `deleteVals` asks the one row `(k, T)` to
hold the projection of *every* listed column set. -/

def cfg3 : Cfg := { classes := [mkCls 2 [(1, [some 0]), (1, [some 1])]] }
def evs3a : List Ev := [.beforeFlush [newObj 0] 1 false, .ins 0 [1] [some 5, some 6] [], .afterFlush]
def s3 : St := run cfg3 {} (evs3a ++ [.commit])
def evs3 : List Ev := [.beforeFlush [delObj 0] 2 false, .del 0 [1] [some 5, some 6], .afterFlush]

example : CfgOK cfg3 ∧ ¬ TablesNodup cfg3 ∧ ColsInRange cfg3 := by decide
example : WF cfg3 {} (evs3a ++ [.commit]) := by decide
example : bdry s3 = true := by decide
example : LiveInv s3 := by decide
example : WF cfg3 s3 (evs3 ++ [.commit]) := by decide
example : WFShape cfg3 s3 evs3 := by decide
example : ¬ C01.deleteVals cfg3 (modelSeg cfg3 s3 evs3 .commit) := by decide

/-! ## 4. single-table inheritance with a subclass-only column (violates `WFShape`)

Class 0 (base) does not map the second version column, class 1 (subclass) does.  A row written
through the subclass and then "updated" (no change) through the base class: `EvOK` accepts it,
because `unchangedKept` only constrains the columns the class maps and nothing ties a live row
to the class that wrote it across transactions. -/

def cfg4 : Cfg := { classes := [mkCls 1 [(1, [some 0, none])], mkCls 2 [(1, [some 0, some 1])]] }
def evs4a : List Ev := [.beforeFlush [newObj 1] 1 false, .ins 1 [1] [some 5, some 6] [], .afterFlush]
def s4 : St := run cfg4 {} (evs4a ++ [.commit])
def evs4 : List Ev := [.upd 0 [1] [some 5] [false] [] [false] []]

example : CfgOK cfg4 ∧ TablesNodup cfg4 ∧ ColsInRange cfg4 := by decide
example : WF cfg4 {} (evs4a ++ [.commit]) := by decide
example : bdry s4 = true := by decide
example : LiveInv s4 := by decide
example : WF cfg4 s4 (evs4 ++ [.commit]) := by decide
example : ¬ WFShape cfg4 s4 evs4 := by decide
example : ¬ C01.newestIsLive (modelSeg cfg4 s4 evs4 .commit) := by decide
example : ¬ C01.changedHasRow (modelSeg cfg4 s4 evs4 .commit) := by decide

/-! ## kernel-checked refutation of the first statements -/

/-- the first statement of `c01_holds`, as a proposition -/
def FirstC01 : Prop :=
  ∀ (cfg : Cfg) (_ : CfgOK cfg) (s : St) (evs : List Ev) (_ : Boundary s)
    (_ : ∀ pre, pre <+: (evs ++ [.commit]) → Inv cfg (run cfg s pre))
    (_ : LiveInv s) (_ : ∀ e ∈ evs, e.isEnd = false) (_ : WF cfg s (evs ++ [.commit])),
    C01.Holds cfg (modelSeg cfg s evs .commit)

/-- the first statement of `liveInv_after_commit`, as a proposition -/
def FirstLiveInv : Prop :=
  ∀ (cfg : Cfg) (_ : CfgOK cfg) (s : St) (evs : List Ev) (_ : Boundary s)
    (_ : ∀ pre, pre <+: (evs ++ [.commit]) → Inv cfg (run cfg s pre))
    (_ : LiveInv s) (_ : ∀ e ∈ evs, e.isEnd = false) (_ : WF cfg s (evs ++ [.commit])),
    LiveInv (run cfg s (evs ++ [.commit]))

instance (cfg : Cfg) (d : Db) : Decidable (DbInv cfg d) :=
  decidable_of_iff
    ((∀ r ∈ d.versions, r.tx ∈ d.txs) ∧ (∀ a ∈ d.assoc, a.tx ∈ d.txs) ∧ PKUnique d.versions ∧
      (cfg.strategy = .validity → Chain d.versions))
    ⟨fun h => ⟨h.1, h.2.1, h.2.2.1, h.2.2.2⟩, fun h => ⟨h.1, h.2, h.3, h.4⟩⟩

instance (cfg : Cfg) (s : St) : Decidable (Inv cfg s) :=
  decidable_of_iff
    (DbInv cfg s.db ∧ DbInv cfg s.committed ∧
      (∀ T ∈ s.uowD.cur.toList, T ∈ s.db.txs ∧ (∀ x ∈ s.db.txs, x ≤ T) ∧ T ∉ s.committed.txs) ∧
      (∀ x ∈ s.committed.txs, x ∈ s.db.txs) ∧
      (∀ x ∈ s.db.txs, x ∉ s.committed.txs → s.uowD.cur = some x) ∧
      (∀ r ∈ s.db.versions,
        (∃ r' ∈ s.committed.versions, r'.key = r.key ∧ r'.tx = r.tx) ∨ s.uowD.cur = some r.tx) ∧
      (∀ a ∈ s.db.assoc, a ∈ s.committed.assoc ∨ s.uowD.cur = some a.tx) ∧
      (∀ r' ∈ s.committed.versions, ∃ r ∈ s.db.versions,
        r.key = r'.key ∧ r.tx = r'.tx ∧ r.op = r'.op ∧ r.vals = r'.vals))
    ⟨fun h => ⟨h.1, h.2.1, fun T hT => h.2.2.1 T (by rw [hT]; simp), h.2.2.2.1, h.2.2.2.2.1,
        h.2.2.2.2.2.1, h.2.2.2.2.2.2.1, h.2.2.2.2.2.2.2⟩,
     fun h => ⟨h.db, h.committed, fun T hT => h.cur_in T (by simpa using hT), h.grow, h.fresh,
        h.rows_old_or_cur, h.assoc_old_or_cur, h.past⟩⟩

def prefixes {α : Type} : List α → List (List α)
  | [] => [[]]
  | a :: l => [] :: (prefixes l).map (a :: ·)

theorem mem_prefixes {α : Type} {l p : List α} (h : p <+: l) : p ∈ prefixes l := by
  induction l generalizing p with
  | nil => rw [List.prefix_nil] at h; subst h; simp [prefixes]
  | cons a l ih =>
    cases p with
    | nil => simp [prefixes]
    | cons b p =>
      rw [List.cons_prefix_cons] at h
      obtain ⟨rfl, h⟩ := h
      simp only [prefixes, List.mem_cons, List.mem_map]
      exact Or.inr ⟨p, ih h, rfl⟩

theorem boundary_of_bdry {s : St} (h : bdry s = true) : Boundary s := by
  simp only [bdry, Bool.and_eq_true, decide_eq_true_eq, Option.isNone_iff_eq_none,
    List.isEmpty_iff] at h
  obtain ⟨⟨⟨⟨⟨⟨h1, h2⟩, h3⟩, h4⟩, h5⟩, h6⟩, h7⟩ := h
  exact ⟨h1, h2, h3, h6, h4, h7, h5⟩

/-- example 4 (single-table inheritance) refutes the first statement of `c01_holds` -/
theorem firstC01_false : ¬ FirstC01 := by
  intro H
  have hinv : ∀ pre, pre <+: (evs4 ++ [.commit]) → Inv cfg4 (run cfg4 s4 pre) := by
    have hall : ∀ pre ∈ prefixes (evs4 ++ [.commit]), Inv cfg4 (run cfg4 s4 pre) := by decide
    exact fun pre hp => hall pre (mem_prefixes hp)
  have := H cfg4 (by decide) s4 evs4 (boundary_of_bdry (by decide)) hinv (by decide) (by decide)
    (by decide)
  exact absurd (this rfl).1 (by decide)

/-- ... and of `liveInv_after_commit` -/
theorem firstLiveInv_false : ¬ FirstLiveInv := by
  intro H
  have hinv : ∀ pre, pre <+: (evs4 ++ [.commit]) → Inv cfg4 (run cfg4 s4 pre) := by
    have hall : ∀ pre ∈ prefixes (evs4 ++ [.commit]), Inv cfg4 (run cfg4 s4 pre) := by decide
    exact fun pre hp => hall pre (mem_prefixes hp)
  have := H cfg4 (by decide) s4 evs4 (boundary_of_bdry (by decide)) hinv (by decide) (by decide)
    (by decide)
  exact absurd this (by decide)

/-- the other two missing hypotheses are needed as well: `CfgOK` + `WFShape` do not suffice -/
theorem needs_colsInRange : ¬ (∀ (cfg : Cfg) (_ : CfgOK cfg) (_ : TablesNodup cfg) (s : St)
    (evs : List Ev) (_ : Boundary s)
    (_ : ∀ pre, pre <+: (evs ++ [.commit]) → Inv cfg (run cfg s pre))
    (_ : LiveInv s) (_ : ∀ e ∈ evs, e.isEnd = false) (_ : WF cfg s (evs ++ [.commit]))
    (_ : WFShape cfg s evs), C01.Holds cfg (modelSeg cfg s evs .commit)) := by
  intro H
  have hinv : ∀ pre, pre <+: (evs2 ++ [.commit]) → Inv cfg2 (run cfg2 s2 pre) := by
    have hall : ∀ pre ∈ prefixes (evs2 ++ [.commit]), Inv cfg2 (run cfg2 s2 pre) := by decide
    exact fun pre hp => hall pre (mem_prefixes hp)
  have := H cfg2 (by decide) (by decide) s2 evs2 (boundary_of_bdry (by decide)) hinv (by decide)
    (by decide) (by decide) (by decide)
  exact absurd (this rfl).1 (by decide)

theorem needs_tablesNodup : ¬ (∀ (cfg : Cfg) (_ : CfgOK cfg) (_ : ColsInRange cfg) (s : St)
    (evs : List Ev) (_ : Boundary s)
    (_ : ∀ pre, pre <+: (evs ++ [.commit]) → Inv cfg (run cfg s pre))
    (_ : LiveInv s) (_ : ∀ e ∈ evs, e.isEnd = false) (_ : WF cfg s (evs ++ [.commit]))
    (_ : WFShape cfg s evs), C01.Holds cfg (modelSeg cfg s evs .commit)) := by
  intro H
  have hinv : ∀ pre, pre <+: (evs3 ++ [.commit]) → Inv cfg3 (run cfg3 s3 pre) := by
    have hall : ∀ pre ∈ prefixes (evs3 ++ [.commit]), Inv cfg3 (run cfg3 s3 pre) := by decide
    exact fun pre hp => hall pre (mem_prefixes hp)
  have := H cfg3 (by decide) (by decide) s3 evs3 (boundary_of_bdry (by decide)) hinv (by decide)
    (by decide) (by decide) (by decide)
  exact absurd (this rfl).2.2.2.2.1 (by decide)

end Continuum.C01Cex
