import Continuum.Activity
import Continuum.Lemmas.AsOf

/-!
# C18 — activities are stamped once and point at the as-of version
-/

namespace Continuum

private theorem eq_of_id_eq_of_nodup : ∀ (l : List Act), (l.map (·.id)).Nodup →
    ∀ a ∈ l, ∀ b ∈ l, a.id = b.id → a = b := by
  intro l
  induction l with
  | nil => intro _ a ha; cases ha
  | cons x xs ih =>
    intro hnd a ha b hb hab
    rw [List.map_cons, List.nodup_cons] at hnd
    obtain ⟨hx, hxs⟩ := hnd
    rcases List.mem_cons.1 ha with rfl | ha'
    · rcases List.mem_cons.1 hb with rfl | hb'
      · rfl
      · exact absurd (List.mem_map.2 ⟨b, hb', hab.symm⟩) hx
    · rcases List.mem_cons.1 hb with rfl | hb'
      · exact absurd (List.mem_map.2 ⟨a, ha', hab⟩) hx
      · exact ih hxs a ha' b hb' hab

/-- a flush stamps exactly the pending activities, with the current transaction and the newest
version of their object and target; stored activities are untouched -/
theorem c18_flush (v : VTable TKey) (T : Nat) (stored new : List Act)
    (hid : ∀ a ∈ new, ∀ b ∈ stored, a.id ≠ b.id) (hnd : (stored.map (·.id)).Nodup) :
    C18.Holds v T stored (actFlush v T stored new) := by
  unfold C18.Holds actFlush
  refine ⟨fun a ha => List.mem_append_left _ ha, ?_, ?_⟩
  · intro a ha hns
    rcases List.mem_append.1 ha with h | h
    · exact absurd h hns
    · obtain ⟨c, _, rfl⟩ := List.mem_map.1 h
      exact ⟨rfl, rfl, rfl⟩
  · intro a ha b hb hab
    rcases List.mem_append.1 ha with h | h
    · exact eq_of_id_eq_of_nodup stored hnd a h b hb hab
    · obtain ⟨c, hc, rfl⟩ := List.mem_map.1 h
      exact absurd hab (hid c hc b hb)

/-- whatever happens later (any number of flushes in any later transactions, with any version
tables), a stored activity is never changed -/
theorem c18_stable (a : Act) (stored : List Act) (ha : a ∈ stored)
    (later : List (VTable TKey × Nat × List Act)) :
    a ∈ later.foldl (fun acc f => actFlush f.1 f.2.1 acc f.2.2) stored := by
  induction later generalizing stored with
  | nil => exact ha
  | cons f fs ih =>
    rw [List.foldl_cons]
    exact ih _ (List.mem_append_left _ ha)

/-- the pointer is the as-of version: it is the greatest id of the entity not newer than `T`
whenever `T` bounds the table (which `Inv.cur_in` / `Inv.txs_in` guarantee for the current id) -/
theorem c18_points_as_of (v : VTable TKey) (T : Nat) (k : TKey) (hb : Bounded v T) :
    newestTx v k = lastTx v k T := by
  unfold newestTx lastTx txsUpTo
  have : v.filter (fun r => decide (r.key = k)) = v.filter (fun r => decide (r.key = k ∧ r.tx ≤ T)) := by
    apply List.filter_congr
    intro r hr
    have := hb r hr
    simp [this]
  rw [this]

/-- the mere presence of stored activities does not make the session modified -/
theorem c18_no_spurious (stored : List Act) : actModified ([] : List Act) = false := by
  rfl

/-- The repaired defect F-ACT, formally: re-stamping every activity in the session rewrites a
committed activity's transaction and pointers. -/
theorem c18_restamp_counterexample :
    let v1 : VTable TKey := [{ key := (0, [1]), tx := 1, endTx := none, op := .insert, vals := [], mods := [] }]
    let a : Act := { id := 1, obj := some (0, [1]), tgt := none }
    let stored := actFlush v1 1 [] [a]
    let v2 : VTable TKey := v1 ++ [{ key := (0, [1]), tx := 2, endTx := none, op := .update, vals := [], mods := [] }]
    ¬ C18.Holds v2 2 stored (actFlushAll v2 2 stored []) ∧ C18.Holds v2 2 stored (actFlush v2 2 stored []) := by
  decide

end Continuum
