import Continuum.RevertFull

/-!
# Theorems about the whole recursion `revertF` (C05)

`revertF` (RevertFull.lean) is the model of `Reverter.__call__` with relationship maintenance at
every level; the driver compares its complete prediction with the implementation.  Here: what can
be said about it for ALL version tables, registries, paths and start states.
-/

namespace Continuum

/-! ## helpers: unfolding of `revertF`, the joint invariant `FExt`, folds -/

/-- one relationship of the first level -/
def relStepF (vt : VTable TKey) (arows : List ARow) (reg : Nat → Nat → Option RelSpec)
    (d : Nat) (paths : List Path) (v : VRow TKey) (st : FState) (r : Nat) : FState :=
  match reg v.key.1 r with
  | none => st
  | some spec =>
    let sh := shownOf vt arows spec v
    match spec with
    | .m2m _ atb lf =>
      let st1 : FState := (st.1, st.2.1.filter (fun x => !linkOfParent atb lf v.key.2 x), st.2.2)
      sh.foldl (fun st c =>
        let st' := revertF vt arows reg d (subPaths paths r) st c
        let l : Link := (atb, mkLink lf v.key.2 c.key.2)
        (st'.1, if st'.2.1.contains l then st'.2.1 else st'.2.1 ++ [l], st'.2.2)) st1
    | .o2m ct fk =>
      let st1 := sh.foldl (fun st c => revertF vt arows reg d (subPaths paths r) st c) st
      let keep := sh.map (·.key)
      ((liveChildren st1.1 ct fk v.key.2).foldl (fun l k => if keep.contains k then l else liveDel l k) st1.1,
       st1.2.1, st1.2.2)
    | .m2o _ _ => sh.foldl (fun st c => revertF vt arows reg d (subPaths paths r) st c) st

/-- the final `session.add(self.version_parent)` step -/
def finalF (v : VRow TKey) (st' : FState) : FState :=
  (if (liveGet st'.1 v.key).isNone then liveSet st'.1 v.key v.vals else st'.1, st'.2.1, st'.2.2)

theorem revertF_zero (vt : VTable TKey) (arows : List ARow) (reg : Nat → Nat → Option RelSpec)
    (paths : List Path) (st : FState) (v : VRow TKey) : revertF vt arows reg 0 paths st v = st := by
  rw [revertF]

theorem revertF_succ (vt : VTable TKey) (arows : List ARow) (reg : Nat → Nat → Option RelSpec)
    (d : Nat) (paths : List Path) (live : Live) (links : List Link) (vis : List TKey) (v : VRow TKey) :
    revertF vt arows reg (d + 1) paths (live, links, vis) v =
      if vis.contains v.key then (live, links, vis)
      else if v.op = .delete then (liveDel live v.key, links, vis)
      else finalF v ((firstLevel paths).foldl (relStepF vt arows reg d paths v)
            (liveSet live v.key v.vals, links, vis ++ [v.key])) := by
  rw [revertF]
  rfl

/-- the joint invariant "`b` extends `a`": every entity reverted in `a` is still reverted in `b` and its row is
the same or absent (reflexive and transitive: "same or absent" composes); links of association tables no
registered many-to-many relationship uses are the same -/
def FExt (reg : Nat → Nat → Option RelSpec) (a b : FState) : Prop :=
  (∀ k ∈ a.2.2, k ∈ b.2.2 ∧ (liveGet b.1 k = liveGet a.1 k ∨ liveGet b.1 k = none)) ∧
  (∀ x : Link, (∀ t r rt lf, reg t r ≠ some (.m2m rt x.1 lf)) → (x ∈ b.2.1 ↔ x ∈ a.2.1))

theorem FExt_refl (reg : Nat → Nat → Option RelSpec) (a : FState) : FExt reg a a :=
  ⟨fun _ hk => ⟨hk, Or.inl rfl⟩, fun _ _ => Iff.rfl⟩

theorem FExt_trans {reg : Nat → Nat → Option RelSpec} {a b c : FState}
    (h1 : FExt reg a b) (h2 : FExt reg b c) : FExt reg a c := by
  refine ⟨fun k hk => ?_, fun x hx => (h2.2 x hx).trans (h1.2 x hx)⟩
  have ⟨hb, e1⟩ := h1.1 k hk
  have ⟨hc, e2⟩ := h2.1 k hb
  refine ⟨hc, ?_⟩
  rcases e2 with e2 | e2
  · rw [e2]; exact e1
  · exact Or.inr e2

theorem foldl_FExt {α : Type} (reg : Nat → Nat → Option RelSpec) (f : FState → α → FState)
    (hf : ∀ st a, FExt reg st (f st a)) (l : List α) (st : FState) : FExt reg st (l.foldl f st) := by
  induction l generalizing st with
  | nil => exact FExt_refl reg st
  | cons a l ih =>
    rw [List.foldl_cons]
    exact FExt_trans (hf st a) (ih (f st a))

/-- the delete fold of a one-to-many step leaves a row as it is or removes it -/
theorem lget_delFold_or (keep ks : List TKey) (l : Live) (k : TKey) :
    liveGet (ks.foldl (fun l k => if keep.contains k then l else liveDel l k) l) k = liveGet l k ∨
    liveGet (ks.foldl (fun l k => if keep.contains k then l else liveDel l k) l) k = none := by
  induction ks generalizing l with
  | nil => exact Or.inl rfl
  | cons k0 ks ih =>
    rw [List.foldl_cons]
    rcases ih (if keep.contains k0 then l else liveDel l k0) with h | h
    · rw [h]
      split
      · exact Or.inl rfl
      · rw [lget_del]
        split
        · exact Or.inr rfl
        · exact Or.inl rfl
    · exact Or.inr h

/-- one first-level relationship extends the state, given that the recursive calls do -/
theorem relStepF_FExt (vt : VTable TKey) (arows : List ARow) (reg : Nat → Nat → Option RelSpec)
    (d : Nat) (ih : ∀ (paths : List Path) (st : FState) (v : VRow TKey), FExt reg st (revertF vt arows reg d paths st v))
    (paths : List Path) (v : VRow TKey) (st : FState) (r : Nat) :
    FExt reg st (relStepF vt arows reg d paths v st r) := by
  unfold relStepF
  cases h : reg v.key.1 r with
  | none => exact FExt_refl reg st
  | some spec =>
    cases spec with
    | o2m ct fk =>
      dsimp only
      have h1 : FExt reg st ((shownOf vt arows (.o2m ct fk) v).foldl
          (fun st c => revertF vt arows reg d (subPaths paths r) st c) st) :=
        foldl_FExt reg _ (fun st c => ih (subPaths paths r) st c) _ st
      refine FExt_trans h1 ⟨fun k hk => ⟨hk, ?_⟩, fun x _ => Iff.rfl⟩
      exact lget_delFold_or _ _ _ k
    | m2o pt fk =>
      dsimp only
      exact foldl_FExt reg _ (fun st c => ih (subPaths paths r) st c) _ st
    | m2m rt atb lf =>
      dsimp only
      have h0 : FExt reg st (st.1, st.2.1.filter (fun x => !linkOfParent atb lf v.key.2 x), st.2.2) := by
        refine ⟨fun k hk => ⟨hk, Or.inl rfl⟩, fun x hx => ?_⟩
        have hne : x.1 ≠ atb := fun e => hx v.key.1 r rt lf (e ▸ h)
        show x ∈ st.2.1.filter (fun x => !linkOfParent atb lf v.key.2 x) ↔ x ∈ st.2.1
        rw [List.mem_filter]
        simp [linkOfParent, hne]
      refine FExt_trans h0 (foldl_FExt reg _ ?_ _ _)
      intro st c
      refine FExt_trans (ih (subPaths paths r) st c) ⟨fun k hk => ⟨hk, Or.inl rfl⟩, fun x hx => ?_⟩
      have hne : x ≠ (atb, mkLink lf v.key.2 c.key.2) := fun e => hx v.key.1 r rt lf (by rw [e]; exact h)
      dsimp only
      split
      · exact Iff.rfl
      · rw [List.mem_append]
        simp [hne]

/-- the joint statement, by induction on the depth bound, for all paths, states and versions -/
theorem revertF_FExt (vt : VTable TKey) (arows : List ARow) (reg : Nat → Nat → Option RelSpec) (d : Nat) :
    ∀ (paths : List Path) (st : FState) (v : VRow TKey), FExt reg st (revertF vt arows reg d paths st v) := by
  induction d with
  | zero =>
    intro paths st v
    rw [revertF_zero]
    exact FExt_refl reg st
  | succ d ih =>
    intro paths st v
    obtain ⟨live, links, vis⟩ := st
    rw [revertF_succ]
    by_cases hvis : vis.contains v.key = true
    · rw [if_pos hvis]
      exact FExt_refl reg _
    · rw [if_neg hvis]
      have hnot : v.key ∉ vis := fun hm => hvis (List.contains_iff_mem.mpr hm)
      by_cases hop : v.op = .delete
      · rw [if_pos hop]
        refine ⟨fun k hk => ⟨hk, Or.inl ?_⟩, fun x _ => Iff.rfl⟩
        have hne : k ≠ v.key := fun e => hnot (e ▸ hk)
        exact lget_del_ne live v.key hne
      · rw [if_neg hop]
        have hstep : FExt reg (live, links, vis) (liveSet live v.key v.vals, links, vis ++ [v.key]) := by
          refine ⟨fun k hk => ⟨List.mem_append_left _ hk, Or.inl ?_⟩, fun x _ => Iff.rfl⟩
          have hne : k ≠ v.key := fun e => hnot (e ▸ hk)
          exact lget_set_ne live v.key v.vals hne
        have hfold := FExt_trans hstep
          (foldl_FExt reg (relStepF vt arows reg d paths v) (relStepF_FExt vt arows reg d ih paths v)
            (firstLevel paths) (liveSet live v.key v.vals, links, vis ++ [v.key]))
        refine ⟨fun k hk => ?_, fun x hx => hfold.2 x hx⟩
        have ⟨hm, hv⟩ := hfold.1 k hk
        refine ⟨hm, ?_⟩
        have hne : k ≠ v.key := fun e => hnot (e ▸ hk)
        show liveGet (finalF v _).1 k = _ ∨ liveGet (finalF v _).1 k = _
        have e : ∀ s : FState, liveGet (finalF v s).1 k = liveGet s.1 k := by
          intro s
          unfold finalF
          dsimp only
          split
          · exact lget_set_ne s.1 v.key v.vals hne
          · rfl
        rw [e]
        exact hv

/-! ## the theorems -/

/-- entities reverted so far only grow -/
theorem revertF_visited_mono (vt : VTable TKey) (arows : List ARow) (reg : Nat → Nat → Option RelSpec)
    (d : Nat) (paths : List Path) (st : FState) (v : VRow TKey) :
    ∀ k ∈ st.2.2, k ∈ (revertF vt arows reg d paths st v).2.2 :=
  fun k hk => ((revertF_FExt vt arows reg d paths st v).1 k hk).1

/-- the row of an entity reverted earlier in the call is never CHANGED afterwards: it keeps its values or
(a deeper one-to-many step found it "related now but not shown") it is deleted -/
theorem revertF_visited_rows (vt : VTable TKey) (arows : List ARow) (reg : Nat → Nat → Option RelSpec)
    (d : Nat) (paths : List Path) (st : FState) (v : VRow TKey) (k : TKey) (hk : k ∈ st.2.2) :
    liveGet (revertF vt arows reg d paths st v).1 k = liveGet st.1 k ∨
    liveGet (revertF vt arows reg d paths st v).1 k = none :=
  ((revertF_FExt vt arows reg d paths st v).1 k hk).2

/-- **target clause for the whole recursion**: whatever the paths, the registry of relationships and the
version tables (hence whatever related versions are shown, including cycles back to the target and
one-to-many steps that would delete it), after the call the target carries the target version's values -/
theorem c05_target_full (vt : VTable TKey) (arows : List ARow) (reg : Nat → Nat → Option RelSpec)
    (d : Nat) (paths : List Path) (live : Live) (links : List Link) (v : VRow TKey) (hop : v.op ≠ .delete) :
    liveGet (revertF vt arows reg (d + 1) paths (live, links, []) v).1 v.key = some v.vals := by
  rw [revertF_succ]
  have hvis : ¬ (([] : List TKey).contains v.key = true) := by simp
  rw [if_neg hvis, if_neg hop]
  have hfold := foldl_FExt reg (relStepF vt arows reg d paths v)
    (relStepF_FExt vt arows reg d (revertF_FExt vt arows reg d) paths v)
    (firstLevel paths) (liveSet live v.key v.vals, links, [] ++ [v.key])
  have h := (hfold.1 v.key (by simp)).2
  rw [show liveGet (liveSet live v.key v.vals, links, ([] : List TKey) ++ [v.key]).1 v.key = some v.vals from
    lget_set_self live v.key v.vals] at h
  unfold finalF
  dsimp only
  rcases h with h | h
  · rw [h]; simpa using h
  · rw [h]; simpa using lget_set_self _ v.key v.vals

/-- a DELETE target leaves the entity absent -/
theorem c05_delete_target_full (vt : VTable TKey) (arows : List ARow) (reg : Nat → Nat → Option RelSpec)
    (d : Nat) (paths : List Path) (live : Live) (links : List Link) (v : VRow TKey) (hop : v.op = .delete) :
    liveGet (revertF vt arows reg (d + 1) paths (live, links, []) v).1 v.key = none := by
  rw [revertF_succ]
  have hvis : ¬ (([] : List TKey).contains v.key = true) := by simp
  rw [if_neg hvis, if_pos hop]
  exact lget_del_self live v.key

/-- with no relationship named the recursion is `revertTarget` and touches no link -/
theorem revertF_no_paths (vt : VTable TKey) (arows : List ARow) (reg : Nat → Nat → Option RelSpec)
    (d : Nat) (live : Live) (links : List Link) (v : VRow TKey) :
    (revertF vt arows reg (d + 1) [] (live, links, []) v).2.1 = links ∧
    ∀ k, liveGet (revertF vt arows reg (d + 1) [] (live, links, []) v).1 k = liveGet (revertTarget live v) k := by
  rw [revertF_succ]
  have hvis : ¬ (([] : List TKey).contains v.key = true) := by simp
  rw [if_neg hvis]
  unfold revertTarget
  by_cases hop : v.op = .delete
  · rw [if_pos hop, if_pos hop]
    exact ⟨rfl, fun _ => rfl⟩
  · rw [if_neg hop, if_neg hop]
    have hf : firstLevel [] = [] := by simp [firstLevel]
    rw [hf, List.foldl_nil]
    unfold finalF
    dsimp only
    rw [lget_set_self]
    exact ⟨rfl, fun _ => rfl⟩

/-- links of association tables that no registered many-to-many relationship uses are never touched -/
theorem revertF_links_frame (vt : VTable TKey) (arows : List ARow) (reg : Nat → Nat → Option RelSpec)
    (d : Nat) (paths : List Path) (st : FState) (v : VRow TKey) (x : Link)
    (hx : ∀ t r rt lf, reg t r ≠ some (.m2m rt x.1 lf)) :
    x ∈ (revertF vt arows reg d paths st v).2.1 ↔ x ∈ st.2.1 :=
  (revertF_FExt vt arows reg d paths st v).2 x hx

end Continuum
