import Continuum.Props.FlushTime

/-!
# Association statements written at commit (finding F-COREASSOC)

Since the repair of F-COREASSOC `VersioningManager.before_commit` writes the association statements
that are still pending (Core statements executed after the last flush), creating the transaction
record first if there is none.  The trace recorder shows this to the model as an optional late
transaction record (`manualTx newId`) followed by an ordinary `afterFlush` step.  That is exact
only if an `afterFlush` step in a state where every recorded operation has been processed does
nothing but write the pending association statements - which is what this file proves.
-/

namespace Continuum

/-- every recorded operation has been turned into version rows already -/
def AllProcessed (s : St) : Prop := ∀ o ∈ s.uowD.ops, o.processed = true

/-- the change rows of transaction `T` already cover every class among the recorded operations -/
def ChangesCover (s : St) (T : Nat) : Prop := ∀ o ∈ s.uowD.ops, (T, o.cls) ∈ s.db.changes

/-- `create_association_versions` alone: what `before_commit` does when a transaction record exists -/
def writePending (s : St) : St :=
  match s.uowD.cur with
  | none => { s with uow := some s.uowD }
  | some T =>
    let r := addAssoc s.db.assoc T s.uowD.pending
    { s with db := { s.db with assoc := r.1 }, uow := some { s.uowD with pending := [] }, err := s.err || r.2 }

/-! ## Helper lemmas -/

/-- `create_version_objects` skips processed operations: nothing is written -/
theorem ct_processOps_id (cfg : Cfg) (T : Nat) (ops : List OpEntry)
    (h : ∀ o ∈ ops, o.processed = true) (t : VTable TKey) : processOps cfg t T ops = t := by
  unfold processOps
  induction ops generalizing t with
  | nil => rfl
  | cons o ops ih =>
    have ho : o.processed = true := h o (List.mem_cons_self ..)
    simp only [List.foldl_cons, ho, if_true]
    exact ih (fun o' h' => h o' (List.mem_cons_of_mem _ h')) t

/-- `TransactionChangesPlugin` adds no row when every class is covered already -/
theorem ct_addChanges_id (T : Nat) (ops : List OpEntry) (ch : List (Nat × Nat))
    (h : ∀ o ∈ ops, (T, o.cls) ∈ ch) : addChanges ch T ops = ch := by
  unfold addChanges
  induction ops with
  | nil => rfl
  | cons o ops ih =>
    have ho : ch.contains (T, o.cls) = true :=
      List.contains_iff_mem.mpr (h o (List.mem_cons_self ..))
    simp only [List.foldl_cons, ho, if_true]
    exact ih (fun o' h' => h o' (List.mem_cons_of_mem _ h'))

/-- marking processed operations as processed is the identity -/
theorem ct_map_processed_id (ops : List OpEntry) (h : ∀ o ∈ ops, o.processed = true) :
    ops.map (fun e => { e with processed := true }) = ops := by
  induction ops with
  | nil => rfl
  | cons o ops ih =>
    have ho : o.processed = true := h o (List.mem_cons_self ..)
    rw [List.map_cons, ih (fun o' h' => h o' (List.mem_cons_of_mem _ h'))]
    congr 1
    cases o
    simp only at ho
    subst ho
    rfl

/-- no new keys for the version-object cache -/
theorem ct_filter_unprocessed_nil (ops : List OpEntry) (h : ∀ o ∈ ops, o.processed = true) :
    ops.filter (fun e => !e.processed) = [] := by
  rw [List.filter_eq_nil_iff]
  intro o ho
  simp [h o ho]

/-! ## The theorems -/

/-- without a transaction record (and the recorder then announces one first) nothing happens at all -/
theorem afterFlush_no_tx (cfg : Cfg) (s : St) (h : s.uowD.cur = none) :
    step cfg s .afterFlush = { s with uow := some s.uowD } := by
  have h' : ({ s with uow := some s.uowD } : St).uowD.cur = none := h
  simp only [step]
  split
  · rfl
  · rename_i T hT
    rw [h'] at hT
    cases hT

/-- the whole state, not only the tables: with nothing left to process and the change rows in
place, `afterFlush` IS `writePending` (version-object cache and error flag included) -/
theorem ct_afterFlush_eq_writePending (cfg : Cfg) (s : St) (hp : AllProcessed s)
    (hc : ∀ T, s.uowD.cur = some T → ChangesCover s T) :
    step cfg s .afterFlush = writePending s := by
  cases hcur : s.uowD.cur with
  | none =>
    rw [afterFlush_no_tx cfg s hcur]
    simp only [writePending, hcur]
  | some T =>
    have h1 := ct_processOps_id cfg T s.uowD.ops hp s.db.versions
    have h2 := ct_addChanges_id T s.uowD.ops s.db.changes (hc T hcur)
    have h3 := ct_map_processed_id s.uowD.ops hp
    have h4 := ct_filter_unprocessed_nil s.uowD.ops hp
    have h' : ({ s with uow := some s.uowD } : St).uowD.cur = some T := hcur
    simp only [step, writePending]
    split
    · rename_i hN; rw [h'] at hN; cases hN
    · rename_i T' hT
      rw [h'] at hT
      cases hT
      simp only [ft_uowD_some, hcur, h1, h2, h3, h4, ite_self, List.map_nil, List.foldl_nil]

/- The statement as first written is FALSE (the leftover hypothesis `hv : … ∨ True`, which carries
no information, is dropped here):

theorem afterFlush_processed (cfg : Cfg) (s : St) (hp : AllProcessed s)
    (hc : ∀ T, s.uowD.cur = some T → ChangesCover s T) :
    (step cfg s .afterFlush).db.versions = s.db.versions ∧
    (step cfg s .afterFlush).db.txs = s.db.txs ∧
    (step cfg s .afterFlush).db.live = s.db.live ∧
    (step cfg s .afterFlush).db.changes = s.db.changes ∧
    (step cfg s .afterFlush).db.assoc = (writePending s).db.assoc ∧
    (step cfg s .afterFlush).uowD.pending = [] ∧
    (step cfg s .afterFlush).uowD.cur = s.uowD.cur ∧
    (step cfg s .afterFlush).uowD.ops = s.uowD.ops

Counterexample: no transaction record (`cur = none`) and a pending association statement.  Both
hypotheses hold (no operations; `hc` is vacuous), but without a record `afterFlush` returns before
`create_association_versions`, so the statement stays pending: the sixth conjunct fails.  Every
other conjunct is true as written; in particular the one about `.uowD.ops` needs no weakening
(`ct_map_processed_id`). -/

/-- the counterexample state: no record, one pending INSERT of the link `[1, 2]` in table `5` -/
def ct_cexSt : St := { uow := some { pending := [(5, .insert, [1, 2])] } }

/-- the counterexample to the statement as first written -/
theorem ct_afterFlush_processed_cex :
    AllProcessed ct_cexSt ∧
    (∀ T, ct_cexSt.uowD.cur = some T → ChangesCover ct_cexSt T) ∧
    (step {} ct_cexSt .afterFlush).uowD.pending = [(5, .insert, [1, 2])] ∧
    (step {} ct_cexSt .afterFlush).uowD.pending ≠ [] := by
  refine ⟨?_, ?_, by decide, by decide⟩
  · intro o ho
    cases ho
  · intro T hT
    cases hT

/-- **an `afterFlush` step with nothing left to process only writes the pending association statements**
(version rows, transaction table, live rows untouched; change rows untouched when they cover the classes already).
Minimal correction of `afterFlush_processed`: the pending statements are those `writePending`
leaves (none if a transaction record exists - `afterFlush_processed_tx` -, all of them otherwise) -/
theorem afterFlush_processed_corrected (cfg : Cfg) (s : St) (hp : AllProcessed s)
    (hc : ∀ T, s.uowD.cur = some T → ChangesCover s T) :
    (step cfg s .afterFlush).db.versions = s.db.versions ∧
    (step cfg s .afterFlush).db.txs = s.db.txs ∧
    (step cfg s .afterFlush).db.live = s.db.live ∧
    (step cfg s .afterFlush).db.changes = s.db.changes ∧
    (step cfg s .afterFlush).db.assoc = (writePending s).db.assoc ∧
    (step cfg s .afterFlush).uowD.pending = (writePending s).uowD.pending ∧
    (step cfg s .afterFlush).uowD.cur = s.uowD.cur ∧
    (step cfg s .afterFlush).uowD.ops = s.uowD.ops := by
  rw [ct_afterFlush_eq_writePending cfg s hp hc]
  cases hcur : s.uowD.cur with
  | none =>
    simp only [writePending, hcur]
    refine ⟨?_, ?_, ?_, ?_, ?_, ?_, ?_, ?_⟩ <;> first | trivial | rfl | exact hcur
  | some T =>
    simp only [writePending, hcur]
    refine ⟨?_, ?_, ?_, ?_, ?_, ?_, ?_, ?_⟩ <;> first | trivial | rfl | exact hcur

/-- the statement as first written, under the hypothesis it was missing: a transaction record
exists (which is how `before_commit` calls it - it creates the record first if there is none) -/
theorem afterFlush_processed_tx (cfg : Cfg) (s : St) (T : Nat) (hcur : s.uowD.cur = some T)
    (hp : AllProcessed s) (hc : ChangesCover s T) :
    (step cfg s .afterFlush).db.versions = s.db.versions ∧
    (step cfg s .afterFlush).db.txs = s.db.txs ∧
    (step cfg s .afterFlush).db.live = s.db.live ∧
    (step cfg s .afterFlush).db.changes = s.db.changes ∧
    (step cfg s .afterFlush).db.assoc = (addAssoc s.db.assoc T s.uowD.pending).1 ∧
    (step cfg s .afterFlush).uowD.pending = [] ∧
    (step cfg s .afterFlush).uowD.cur = s.uowD.cur ∧
    (step cfg s .afterFlush).uowD.ops = s.uowD.ops := by
  have hc' : ∀ T', s.uowD.cur = some T' → ChangesCover s T' := by
    intro T' h
    rw [hcur] at h
    cases h
    exact hc
  rw [ct_afterFlush_eq_writePending cfg s hp hc']
  simp only [writePending, hcur]
  refine ⟨?_, ?_, ?_, ?_, ?_, ?_, ?_, ?_⟩ <;> first | trivial | rfl | exact hcur

/-! ## Non-vacuity -/

/-- one versioned class with one column and one version table; `TransactionChangesPlugin` on;
association table `5` registered -/
def ct_exCfg : Cfg :=
  { classes := [{ versioned := true, ncols := 1, excl := [], incl := [], rels := [],
                  tables := [(0, [some 0])] }],
    txChanges := true, assocTables := [5] }

/-- transaction 2 has inserted the object `pk = [1]` (flushed: version row, change row, operation
processed); a Core INSERT of the link `[1, 2]` into table `5` came after that flush -/
def ct_exSt : St :=
  { db := { versions := [{ key := (0, [1]), tx := 2, endTx := none, op := .insert,
                           vals := [some 7], mods := [] }],
            txs := [2], changes := [(2, 0)], live := [((0, [1]), [some 7])] },
    uow := some { cur := some 2,
                  ops := [{ cls := 0, pk := [1], op := .insert, processed := true,
                            vals := [some 7], changed := [true] }],
                  vobjs := [(0, [1], 2)],
                  pending := [(5, .insert, [1, 2])] } }

/-- non-vacuity: a state with one processed operation, its change row, and one pending INSERT of a link -/
example :
    (∀ o ∈ ct_exSt.uowD.ops, o.processed = true) ∧                        -- `AllProcessed`
    ct_exSt.uowD.cur = some 2 ∧
    (∀ o ∈ ct_exSt.uowD.ops, (2, o.cls) ∈ ct_exSt.db.changes) ∧           -- `ChangesCover _ 2`
    ct_exSt.db.assoc = [] ∧
    (step ct_exCfg ct_exSt .afterFlush).db.assoc
      = [{ tbl := 5, link := [1, 2], tx := 2, op := .insert }] ∧
    (step ct_exCfg ct_exSt .afterFlush).uowD.pending = [] ∧
    (step ct_exCfg ct_exSt .afterFlush).db.versions = ct_exSt.db.versions ∧
    (step ct_exCfg ct_exSt .afterFlush).db.changes = [(2, 0)] ∧
    (step ct_exCfg ct_exSt .afterFlush).uowD.ops = ct_exSt.uowD.ops ∧
    -- `ChangesCover` is needed: without the change row the step writes it
    (step ct_exCfg { ct_exSt with db := { ct_exSt.db with changes := [] } } .afterFlush).db.changes
      = [(2, 0)] := by
  decide

/-- the hypotheses of `afterFlush_processed_corrected` hold in that state -/
example : AllProcessed ct_exSt ∧ (∀ T, ct_exSt.uowD.cur = some T → ChangesCover ct_exSt T) := by
  refine ⟨by unfold AllProcessed; decide, ?_⟩
  intro T hT
  cases hT
  unfold ChangesCover
  decide

end Continuum
