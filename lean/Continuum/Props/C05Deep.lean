import Continuum.Props.C05Nested

/-!
# Revert with dotted paths: the target clause at EVERY level (C05)

`c05_target_nested` speaks about the outermost target only.  The recursion of `Reverter.__call__`
reverts related versions at deeper levels too (`revert_child`), each of them "to that version".
This file keeps, next to the rows, the LOG of the versions the call actually reverted (the real
`visited_objects` list holds exactly these version objects) and proves that after the call EVERY
logged version's entity carries that version's values - whatever the paths, whatever the versions
show, however the paths cycle.  The log is what decides which version of an entity wins when several
paths reach it: the first one reached (F-REVCYCLE).

`revertNL` is `revertN` with the log in place of the list of keys; `revertNL_erase` proves that
forgetting everything but the keys of the log gives `revertN` back, so the two recursions are the
same function.  The driver evaluates `C05.DeepHolds` on the implementation's rows after a revert
with a dotted path, with the log computed by `revertNL` over the relationship model of C04.
-/

namespace Continuum

/-- state of one revert call with the log of reverted versions -/
abbrev LState := Live × List (VRow TKey)

/-- `Reverter.__call__` keeping the reverted version objects (`visited_objects`) -/
def revertNL (shown : VRow TKey → Nat → List (VRow TKey)) : Nat → List Path → LState → VRow TKey → LState
  | 0, _, st, _ => st
  | d + 1, paths, (live, log), v =>
    if (log.map (·.key)).contains v.key then (live, log)
    else if v.op = .delete then (liveDel live v.key, log)
    else
      (firstLevel paths).foldl
        (fun st r => (shown v r).foldl (fun st c => revertNL shown d (subPaths paths r) st c) st)
        (liveSet live v.key v.vals, log ++ [v])

/-- every logged version's entity carries that version's values -/
def C05.DeepHolds (after : Live) (log : List (VRow TKey)) : Prop :=
  ∀ w ∈ log, liveGet after w.key = some w.vals

instance c05d6 (after : Live) (log : List (VRow TKey)) : Decidable (C05.DeepHolds after log) := by
  unfold C05.DeepHolds; infer_instance

/-- forget all but the keys of the log -/
def eraseLog (st : LState) : RState := (st.1, st.2.map (·.key))

theorem revertNL_zero (shown : VRow TKey → Nat → List (VRow TKey)) (paths : List Path)
    (st : LState) (v : VRow TKey) : revertNL shown 0 paths st v = st := by
  simp [revertNL]

theorem revertNL_succ (shown : VRow TKey → Nat → List (VRow TKey)) (d : Nat) (paths : List Path)
    (live : Live) (log : List (VRow TKey)) (v : VRow TKey) :
    revertNL shown (d + 1) paths (live, log) v =
      if (log.map (·.key)).contains v.key then (live, log)
      else if v.op = .delete then (liveDel live v.key, log)
      else
        (firstLevel paths).foldl
          (fun st r => (shown v r).foldl (fun st c => revertNL shown d (subPaths paths r) st c) st)
          (liveSet live v.key v.vals, log ++ [v]) := by
  simp [revertNL]

/-- a fold commutes with a map of states when every step does -/
theorem foldl_erase {α : Type} (f : LState → α → LState) (g : RState → α → RState)
    (h : ∀ st a, eraseLog (f st a) = g (eraseLog st) a) (l : List α) (st : LState) :
    eraseLog (l.foldl f st) = l.foldl g (eraseLog st) := by
  induction l generalizing st with
  | nil => rfl
  | cons a l ih => rw [List.foldl_cons, List.foldl_cons, ih, h]

/-- **the two recursions are one**: forgetting all but the keys of the log gives `revertN` -/
theorem revertNL_erase (shown : VRow TKey → Nat → List (VRow TKey)) (d : Nat) :
    ∀ (paths : List Path) (st : LState) (v : VRow TKey),
      eraseLog (revertNL shown d paths st v) = revertN shown d paths (eraseLog st) v := by
  induction d with
  | zero =>
    intro paths st v
    rw [revertNL_zero, c05n_revertN_zero]
  | succ d ih =>
    intro paths st v
    obtain ⟨live, log⟩ := st
    show eraseLog (revertNL shown (d + 1) paths (live, log) v)
        = revertN shown (d + 1) paths (live, log.map (·.key)) v
    rw [revertNL_succ, c05n_revertN_succ]
    by_cases hvis : (log.map (·.key)).contains v.key = true
    · rw [if_pos hvis, if_pos hvis]; rfl
    · rw [if_neg hvis, if_neg hvis]
      by_cases hop : v.op = .delete
      · rw [if_pos hop, if_pos hop]; rfl
      · rw [if_neg hop, if_neg hop]
        have e0 : eraseLog (liveSet live v.key v.vals, log ++ [v])
            = (liveSet live v.key v.vals, log.map (·.key) ++ [v.key]) := by
          simp [eraseLog]
        rw [← e0]
        apply foldl_erase
        intro st r
        apply foldl_erase
        intro st c
        exact ih (subPaths paths r) st c

/-- a fold of steps that each keep an invariant keeps it -/
theorem foldl_inv {σ α : Type} (P : σ → Prop) (f : σ → α → σ) (hf : ∀ st a, P st → P (f st a))
    (l : List α) (st : σ) (h : P st) : P (l.foldl f st) := by
  induction l generalizing st with
  | nil => exact h
  | cons a l ih => rw [List.foldl_cons]; exact ih (f st a) (hf st a h)

/-- the invariant: every logged version's entity carries that version's values -/
theorem revertNL_inv (shown : VRow TKey → Nat → List (VRow TKey)) (d : Nat) :
    ∀ (paths : List Path) (st : LState) (v : VRow TKey),
      C05.DeepHolds st.1 st.2 → C05.DeepHolds (revertNL shown d paths st v).1 (revertNL shown d paths st v).2 := by
  induction d with
  | zero =>
    intro paths st v h
    rw [revertNL_zero]; exact h
  | succ d ih =>
    intro paths st v h
    obtain ⟨live, log⟩ := st
    rw [revertNL_succ]
    by_cases hvis : (log.map (·.key)).contains v.key = true
    · rw [if_pos hvis]; exact h
    · rw [if_neg hvis]
      have hnot : ∀ w ∈ log, w.key ≠ v.key := by
        intro w hw e
        apply hvis
        rw [List.contains_iff_mem]
        exact e ▸ List.mem_map_of_mem hw
      by_cases hop : v.op = .delete
      · rw [if_pos hop]
        intro w hw
        show liveGet (liveDel live v.key) w.key = some w.vals
        rw [lget_del_ne live v.key (hnot w hw)]
        exact h w hw
      · rw [if_neg hop]
        have h0 : C05.DeepHolds (liveSet live v.key v.vals) (log ++ [v]) := by
          intro w hw
          rcases List.mem_append.mp hw with hw | hw
          · rw [lget_set_ne live v.key v.vals (hnot w hw)]
            exact h w hw
          · have e : w = v := by simpa using hw
            subst e
            exact lget_set_self live w.key w.vals
        refine foldl_inv (fun st : LState => C05.DeepHolds st.1 st.2) _ ?_ _ _ h0
        intro st r hst
        refine foldl_inv (fun st : LState => C05.DeepHolds st.1 st.2) _ ?_ _ _ hst
        intro st c hst
        exact ih (subPaths paths r) st c hst

/-- **C05, every level of a dotted path**: after `revert(relations=paths)` on `v`, every version the
call reverted - the target and every related version reached along the paths - has its entity at
that version's values -/
theorem c05_every_level (shown : VRow TKey → Nat → List (VRow TKey)) (d : Nat) (paths : List Path)
    (live : Live) (v : VRow TKey) :
    C05.DeepHolds (revertNL shown d paths (live, []) v).1 (revertNL shown d paths (live, []) v).2 :=
  revertNL_inv shown d paths (live, []) v (fun _ hw => absurd hw (List.not_mem_nil))

/-- the log never names an entity twice: one version per entity wins (the first one reached) -/
theorem revertNL_log_nodup (shown : VRow TKey → Nat → List (VRow TKey)) (d : Nat) :
    ∀ (paths : List Path) (st : LState) (v : VRow TKey),
      (st.2.map (·.key)).Nodup → ((revertNL shown d paths st v).2.map (·.key)).Nodup := by
  induction d with
  | zero =>
    intro paths st v h
    rw [revertNL_zero]; exact h
  | succ d ih =>
    intro paths st v h
    obtain ⟨live, log⟩ := st
    rw [revertNL_succ]
    by_cases hvis : (log.map (·.key)).contains v.key = true
    · rw [if_pos hvis]; exact h
    · rw [if_neg hvis]
      by_cases hop : v.op = .delete
      · rw [if_pos hop]; exact h
      · rw [if_neg hop]
        have hnot : v.key ∉ log.map (·.key) := fun hm => hvis (List.contains_iff_mem.mpr hm)
        have h0 : ((log ++ [v]).map (·.key)).Nodup := by
          rw [List.map_append, List.nodup_append]
          refine ⟨h, by simp, ?_⟩
          intro a ha b hb
          have : b = v.key := by simpa using hb
          subst this
          exact fun e => hnot (e ▸ ha)
        refine foldl_inv (fun st : LState => (st.2.map (·.key)).Nodup) _ ?_ _
          (liveSet live v.key v.vals, log ++ [v]) h0
        intro st r hst
        refine foldl_inv (fun st : LState => (st.2.map (·.key)).Nodup) _ ?_ _ _ hst
        intro st c hst
        exact ih (subPaths paths r) st c hst

/-- the outermost target is the first entry of the log (it wins over every path leading back) -/
theorem revertNL_target_logged (shown : VRow TKey → Nat → List (VRow TKey)) (d : Nat) (paths : List Path)
    (live : Live) (v : VRow TKey) (hop : v.op ≠ .delete) :
    v ∈ (revertNL shown (d + 1) paths (live, []) v).2 := by
  have hmono : ∀ (d : Nat) (paths : List Path) (st : LState) (c : VRow TKey),
      ∀ w ∈ st.2, w ∈ (revertNL shown d paths st c).2 := by
    intro d
    induction d with
    | zero => intro paths st c w hw; rw [revertNL_zero]; exact hw
    | succ d ih =>
      intro paths st c w hw
      obtain ⟨live, log⟩ := st
      rw [revertNL_succ]
      split
      · exact hw
      · split
        · exact hw
        · refine foldl_inv (fun st : LState => w ∈ st.2) _ ?_ _ _ (List.mem_append_left _ hw)
          intro st r hst
          refine foldl_inv (fun st : LState => w ∈ st.2) _ ?_ _ _ hst
          intro st c hst
          exact ih (subPaths paths r) st c w hst
  rw [revertNL_succ]
  have hvis : ¬ ((([] : List (VRow TKey)).map (·.key)).contains v.key = true) := by simp
  rw [if_neg hvis, if_neg hop]
  refine foldl_inv (fun st : LState => v ∈ st.2) _ ?_ _ _ (by simp)
  intro st r hst
  refine foldl_inv (fun st : LState => v ∈ st.2) _ ?_ _ _ hst
  intro st c hst
  exact hmono d (subPaths paths r) st c v hst

/-! ## the premises are satisfiable, the statement is not empty: the F-REVCYCLE example -/

example :
    (revertNL c05n_exShown 3 [[0, 1]] ([], []) c05n_exArt2).2 = [c05n_exArt2, c05n_exTag]
    ∧ C05.DeepHolds (revertNL c05n_exShown 3 [[0, 1]] ([], []) c05n_exArt2).1 [c05n_exArt2, c05n_exTag] := by
  decide

end Continuum
