import Continuum.Lemmas.UowInv
import Continuum.Props.C02

/-!
# C06 — rolled-back work leaves no versioning trace, on disk or in memory

`c06_db_holds` (Props/C02.lean) is the database half for a whole transaction: whatever prefix of
whatever flush was executed, after `rollback` the tables are those of the last commit.  Here:

* `c06_uow_gone`      – after commit or rollback no unit of work, no savepoint snapshot remains;
* `c06_as_if_never`   – a transaction that is rolled back leaves the state machine in exactly the
                        state it started from, so every continuation behaves as if it had never
                        been attempted;
* savepoints          – releasing a savepoint is transparent (`c06_savepoint_released`); rolling
                        one back always restores the tables (`c06_savepoint_db`);
* `c06_savepoint_rolled_back` – a rolled-back savepoint never happened, whatever was flushed inside
                        it: tables, committed snapshot and savepoint stack are those before the
                        bracket, the unit of work is the one before the bracket with an empty
                        version-object cache and no pending association statement (finding F-SP,
                        repaired: the unit of work is remembered at SAVEPOINT and restored);
* `c06_savepoint_fixed_example` – the history that exhibited F-SP (first versioned flush of the
                        transaction inside a savepoint that is rolled back), now harmless.

The "failure at any point of a flush" of the property is the universal quantification over `evs`
(any prefix of any bracket is an event list).  Atomicity of the DBMS's rollback is the assumption
that `rollback` / `spRollback` restore the snapshot (trusted base).
-/

namespace Continuum

theorem c06_uow_gone (cfg : Cfg) (s : St) (oc : Outcome) :
    (step cfg s (endEv oc)).uow = none ∧ (step cfg s (endEv oc)).sps = [] := by
  cases oc <;> exact ⟨rfl, rfl⟩

/-- at a boundary the tables are those of the last commit -/
theorem Boundary.db_eq {s : St} (hb : Boundary s) : s.db = s.committed := by
  obtain ⟨_, _, h1, h2, h3, h4, h5⟩ := hb
  cases s with
  | mk db committed uow sps err =>
    cases db; cases committed
    simp only at h1 h2 h3 h4 h5
    simp only [Db.mk.injEq]
    exact ⟨h1, h2, h3, h4, h5⟩

theorem c06_as_if_never (cfg : Cfg) (s : St) (evs : List Ev) (hb : Boundary s)
    (hne : ∀ e ∈ evs, e.isEnd = false) (herr : (run cfg s evs).err = s.err) :
    run cfg s (evs ++ [.rollback]) = s := by
  have hdb := hb.db_eq
  obtain ⟨hu, hs, _⟩ := hb
  have hc : (run cfg s evs).committed = s.committed := run_committed hne
  rw [run_append]
  show step cfg (run cfg s evs) .rollback = s
  simp only [step]
  rw [hc, herr]
  cases s with
  | mk db committed uow sps err =>
    simp only at hdb hu hs
    subst hdb hu hs
    rfl

/-- consequently every continuation is versioned exactly as from the original state -/
theorem c06_as_if_never_run (cfg : Cfg) (s : St) (evs t : List Ev) (hb : Boundary s)
    (hne : ∀ e ∈ evs, e.isEnd = false) (herr : (run cfg s evs).err = s.err) :
    run cfg s (evs ++ [.rollback] ++ t) = run cfg s t := by
  rw [run_append, c06_as_if_never cfg s evs hb hne herr]

def Ev.isSp : Ev → Bool
  | .spBegin => true
  | .spCommit => true
  | .spRollback => true
  | _ => false

/-- states that differ only in the savepoint stack -/
def sameButSps (a b : St) : Prop :=
  a.db = b.db ∧ a.committed = b.committed ∧ a.uow = b.uow ∧ a.err = b.err

/-- an event that is neither a transaction end nor a savepoint operation neither reads nor writes
the savepoint stack -/
theorem step_sps_frame (cfg : Cfg) (s : St) (l : List (Db × Option Uow)) (e : Ev)
    (he : e.isEnd = false) (hs : e.isSp = false) :
    step cfg { s with sps := l } e = { step cfg s e with sps := l } := by
  cases e with
  | commit => simp [Ev.isEnd] at he
  | rollback => simp [Ev.isEnd] at he
  | spBegin => simp [Ev.isSp] at hs
  | spCommit => simp [Ev.isSp] at hs
  | spRollback => simp [Ev.isSp] at hs
  | beforeFlush objs newId pm =>
    have e1 : step cfg { s with sps := l } (.beforeFlush objs newId pm) =
        if !(objs.any (objModified cfg) || pm) then { s with sps := l, uow := some s.uowD }
        else if s.uowD.cur.isSome then { s with sps := l, uow := some s.uowD }
        else createTx { s with sps := l, uow := some s.uowD } newId := rfl
    have e2 : step cfg s (.beforeFlush objs newId pm) =
        if !(objs.any (objModified cfg) || pm) then { s with uow := some s.uowD }
        else if s.uowD.cur.isSome then { s with uow := some s.uowD }
        else createTx { s with uow := some s.uowD } newId := rfl
    rw [e1, e2]
    cases (!(objs.any (objModified cfg) || pm)) <;> cases s.uowD.cur.isSome <;> rfl
  | manualTx newId => rfl
  | afterFlush =>
    simp only [step, St.uowD, Option.getD_some]
    split <;> rfl
  | ins cls pk vals changed => simp only [step, St.uowD]; split <;> rfl
  | upd cls pk vals cc rc kc kr =>
    simp only [step, St.uowD]
    split
    · rfl
    · split
      · rfl
      · split <;> rfl
  | del cls pk vals => simp only [step, St.uowD]; split <;> rfl
  | assoc tbl op links => simp only [step, St.uowD]; split <;> rfl

theorem run_sps_frame (cfg : Cfg) (s : St) (l : List (Db × Option Uow)) (body : List Ev)
    (hb : ∀ e ∈ body, e.isEnd = false ∧ e.isSp = false) :
    run cfg { s with sps := l } body = { run cfg s body with sps := l } := by
  induction body generalizing s with
  | nil => rfl
  | cons e es ih =>
    have h := hb e List.mem_cons_self
    rw [run_cons, run_cons, step_sps_frame cfg s l e h.1 h.2,
      ih _ (fun e he => hb e (List.mem_cons_of_mem _ he))]

/-- releasing a savepoint is transparent to versioning -/
theorem c06_savepoint_released (cfg : Cfg) (s : St) (body : List Ev)
    (hb : ∀ e ∈ body, e.isEnd = false ∧ e.isSp = false) :
    sameButSps (run cfg s ([.spBegin] ++ body ++ [.spCommit])) (run cfg s body) ∧
    (run cfg s ([.spBegin] ++ body ++ [.spCommit])).sps = s.sps := by
  have h : run cfg s ([.spBegin] ++ body ++ [.spCommit]) = { run cfg s body with sps := s.sps } := by
    rw [run_append, run_append]
    show step cfg (run cfg { s with sps := (s.db, s.uow) :: s.sps } body) .spCommit = _
    rw [run_sps_frame cfg s _ body hb]
    rfl
  rw [h]
  exact ⟨⟨rfl, rfl, rfl, rfl⟩, rfl⟩

/-- what a rollback to a savepoint leaves of the unit of work: what it knew at SAVEPOINT, with an empty cache -/
def uowAtSavepoint (u : Option Uow) : Option Uow := u.map (fun u => { u with vobjs := [], lookup := true })

/-- the whole state after a rolled-back savepoint bracket: only the error flag is the body's -/
theorem sp_rolled_back_eq (cfg : Cfg) (s : St) (body : List Ev)
    (hb : ∀ e ∈ body, e.isEnd = false ∧ e.isSp = false) :
    run cfg s ([.spBegin] ++ body ++ [.spRollback]) =
      { run cfg s body with db := s.db, uow := uowAtSavepoint s.uow, sps := s.sps } := by
  rw [run_append, run_append]
  show step cfg (run cfg { s with sps := (s.db, s.uow) :: s.sps } body) .spRollback = _
  rw [run_sps_frame cfg s _ body hb]
  rfl

/-- rolling a savepoint back restores every table, whatever was flushed inside it -/
theorem c06_savepoint_db (cfg : Cfg) (s : St) (body : List Ev)
    (hb : ∀ e ∈ body, e.isEnd = false ∧ e.isSp = false) :
    (run cfg s ([.spBegin] ++ body ++ [.spRollback])).db = s.db ∧
    (run cfg s ([.spBegin] ++ body ++ [.spRollback])).sps = s.sps := by
  rw [sp_rolled_back_eq cfg s body hb]
  exact ⟨rfl, rfl⟩

/- OLD STATEMENT (false since a savepoint rollback empties the version-object cache and the pending
association statements):

    theorem c06_savepoint_no_flush (cfg : Cfg) (s : St) :
        run cfg s [.spBegin, .spRollback] = s

Counterexample: `s := { uow := some { vobjs := [(0, [1], 1)] } }`: after `[.spBegin, .spRollback]`
the unit of work is `some { vobjs := [] }` (`sp_no_flush_old_false`).  The closest true statement:
everything is as before except that the unit of work is the one remembered at SAVEPOINT with an empty
cache; and when the cache and the pending list were empty the state is exactly the one before
(`sp_no_flush_clean`). -/
/-- a savepoint inside which nothing was flushed is discarded without any trace but the emptied cache -/
theorem c06_savepoint_no_flush_corrected (cfg : Cfg) (s : St) :
    run cfg s [.spBegin, .spRollback] = { s with uow := uowAtSavepoint s.uow } := by
  cases s; rfl

theorem sp_no_flush_clean (cfg : Cfg) (s : St) (hv : s.uowD.vobjs = []) (hp : s.uowD.pending = [])
    (hl : s.uow.isSome → s.uowD.lookup = true) :
    run cfg s [.spBegin, .spRollback] = s := by
  rw [c06_savepoint_no_flush_corrected]
  cases s with
  | mk db committed uow sps err =>
    cases uow with
    | none => rfl
    | some u =>
      cases u with
      | mk cur ops vobjs pending lookup =>
        simp only [St.uowD, Option.getD_some] at hv hp hl
        have hl' := hl rfl
        subst hv hp hl'
        rfl

/-- the old statement of `c06_savepoint_no_flush` fails on a state with a non-empty cache -/
theorem sp_no_flush_old_false :
    ¬ ∀ (cfg : Cfg) (s : St), run cfg s [.spBegin, .spRollback] = s := by
  intro h
  have h1 := congrArg (fun s => s.uowD.vobjs) (h {} { uow := some { vobjs := [(0, [1], 1)] } })
  exact absurd h1 (by decide)

/-- **a rolled-back savepoint never happened** (whatever was flushed inside it): tables, committed snapshot
and savepoint stack are those before the bracket, the unit of work is the one before the bracket with an
empty cache (and no pending association statement).  The error flag is the body's (`sp_rolled_back_err`),
which in this model is the one before the bracket too (`run_err` in `Lemmas/LinkLemmas.lean`). -/
theorem c06_savepoint_rolled_back (cfg : Cfg) (s : St) (body : List Ev)
    (hb : ∀ e ∈ body, e.isEnd = false ∧ e.isSp = false) :
    let s' := run cfg s ([.spBegin] ++ body ++ [.spRollback])
    s'.db = s.db ∧ s'.committed = s.committed ∧ s'.sps = s.sps ∧ s'.uow = uowAtSavepoint s.uow := by
  intro s'
  have h : s' = { run cfg s body with db := s.db, uow := uowAtSavepoint s.uow, sps := s.sps } :=
    sp_rolled_back_eq cfg s body hb
  rw [h]
  exact ⟨rfl, run_committed (fun e he => (hb e he).1), rfl, rfl⟩

/-- the error flag after the bracket is the one the body alone produces (association duplicates) -/
theorem sp_rolled_back_err (cfg : Cfg) (s : St) (body : List Ev)
    (hb : ∀ e ∈ body, e.isEnd = false ∧ e.isSp = false) :
    (run cfg s ([.spBegin] ++ body ++ [.spRollback])).err = (run cfg s body).err := by
  rw [sp_rolled_back_eq cfg s body hb]

/-- the old counterexample history, now harmless: first versioned flush inside a savepoint that is rolled
back (before the repair the unit of work kept pointing at transaction 1, whose record was gone) -/
theorem c06_savepoint_fixed_example :
    let cls : ClassCfg :=
      { versioned := true, ncols := 1, excl := [false], incl := [false], rels := [],
        tables := [(0, [some 0])] }
    let cfg : Cfg := { classes := [cls] }
    let view : ObjView :=
      { cls := 0, isNew := true, isDeleted := false, colChanged := [true], relChanged := [] }
    let evs : List Ev := [.spBegin, .beforeFlush [view] 1 false, .ins 0 [1] [some 5] [true],
                          .afterFlush, .spRollback]
    let s := run cfg {} evs
    s.uow = none ∧ s.db.txs = [] ∧ s.db.versions = [] := by
  decide

end Continuum
