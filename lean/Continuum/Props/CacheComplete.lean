import Continuum.Props.C06Cache
import Continuum.Lemmas.UowOps

/-!
# The version-object cache is complete unless the lookup flag says otherwise (C06, C11)

`UnitOfWork.get_or_create_version_object` decides in three steps: a version object cached under
`(class, key, current transaction)` is re-used; otherwise, while `lookup_version_objs` is set, the
stored row `(key, current transaction)` is looked up; otherwise a NEW version object is created
and INSERTed.  The third step is safe only if no row `(key, current transaction)` exists.  The
model writes version rows by upsert (`writeVersion`), i.e. it assumes the decision is always
right.  This file proves the assumption from the way the cache and the flag are maintained:

* `afterFlush` caches every operation it processes,
* a rollback to a savepoint empties the cache AND sets the flag (`step … .spRollback`),
* the flag is never cleared while the unit of work lives,
* a new transaction id is larger than every id in the version tables.

`CacheComplete`: while the flag is clear, every version row stamped with the current transaction has
its entity key in the cache (under a class that owns the row's table).  Consequence
(`fresh_version_object_safe`): a key cached under no class has no row of the current transaction, so
a fresh INSERT cannot collide.  The two seeded regressions of round 8 (C06d: flag cleared by the first
flush after the rollback; C07c: flag cleared by a second rollback) break exactly this invariant.

Unlike the history theorems this one is proved for histories WITH savepoint rollbacks (it is about
them), under its own small contract `IdFresh`.
-/

namespace Continuum

/-- contract: an id handed out for a new transaction record is larger than every id in the version tables -/
def IdFresh (s : St) : Ev → Prop
  | .beforeFlush _ newId _ => ∀ r ∈ s.db.versions, r.tx < newId
  | .manualTx newId => ∀ r ∈ s.db.versions, r.tx < newId
  | _ => True

/-- every event of the history satisfies `IdFresh` in the state it meets -/
def IdFreshRun (cfg : Cfg) (s : St) : List Ev → Prop
  | [] => True
  | e :: es => IdFresh s e ∧ IdFreshRun cfg (step cfg s e) es

/-- while `lookup` is clear, every version row of the current transaction is cached under a class
that owns the row's table -/
def CacheComplete (cfg : Cfg) (s : St) : Prop :=
  ∀ u, s.uow = some u → u.lookup = false → ∀ T, u.cur = some T →
    ∀ r ∈ s.db.versions, r.tx = T →
      ∃ c, (c, r.key.2, T) ∈ u.vobjs ∧ r.key.1 ∈ (cfg.cls c).tables.map (·.1)

/-! ## Helper lemmas -/

/-- the cache update of `afterFlush`: the old keys stay, every new key is in -/
theorem mem_cacheFold (ks acc : List (Nat × List Int × Nat)) (k : Nat × List Int × Nat) :
    k ∈ ks.foldl (fun acc k => if acc.contains k then acc else acc ++ [k]) acc ↔ k ∈ acc ∨ k ∈ ks := by
  induction ks generalizing acc with
  | nil => simp
  | cons x ks ih =>
    rw [List.foldl_cons, ih]
    by_cases hx : acc.contains x = true
    · rw [if_pos hx]
      have hx' : x ∈ acc := List.contains_iff_mem.1 hx
      constructor
      · rintro (h | h)
        · exact Or.inl h
        · exact Or.inr (List.mem_cons_of_mem _ h)
      · rintro (h | h)
        · exact Or.inl h
        · rcases List.mem_cons.1 h with rfl | h
          · exact Or.inl hx'
          · exact Or.inr h
    · rw [if_neg hx]
      constructor
      · rintro (h | h)
        · rcases List.mem_append.1 h with h | h
          · exact Or.inl h
          · rw [List.mem_singleton] at h
            exact Or.inr (h ▸ List.mem_cons_self ..)
        · exact Or.inr (List.mem_cons_of_mem _ h)
      · rintro (h | h)
        · exact Or.inl (List.mem_append_left _ h)
        · rcases List.mem_cons.1 h with rfl | h
          · exact Or.inl (List.mem_append_right _ (List.mem_singleton.2 rfl))
          · exact Or.inr h

/-- where a row stamped `T` comes from after `processOps`: it was there (same key), or its key is
`(table, pk)` for an unprocessed operation and a table of the operation's class -/
theorem processOps_row_origin (cfg : Cfg) (V : VTable TKey) (T : Nat) (ops : List OpEntry)
    (r : VRow TKey) (hr : r ∈ processOps cfg V T ops) :
    (∃ r0 ∈ V, r0.key = r.key ∧ r0.tx = r.tx) ∨
    (r.tx = T ∧ ∃ e ∈ ops, e.processed = false ∧ e.pk = r.key.2 ∧
      r.key.1 ∈ (cfg.cls e.cls).tables.map (·.1)) := by
  have hh : Has (processOps cfg V T ops) r.key r.tx := ⟨r, hr, rfl, rfl⟩
  rw [UowOps.processOps_eq, UowOps.applyW_has] at hh
  rcases hh with ⟨r0, hr0, h1, h2⟩ | ⟨hT, w, hw, hk⟩
  · exact Or.inl ⟨r0, hr0, h1, h2⟩
  · obtain ⟨ho, hp, htc⟩ := (UowOps.mem_writes cfg ops w).1 hw
    refine Or.inr ⟨hT, w.1, ho, hp, ?_, ?_⟩
    · rw [← hk]; rfl
    · rw [← hk]; exact List.mem_map.2 ⟨w.2, htc, rfl⟩

/-- only `db.versions` and the unit of work's `cur`, `vobjs`, `lookup` matter -/
theorem cacheComplete_congr {cfg : Cfg} {s s' : St} (h : CacheComplete cfg s)
    (hv : s'.db.versions = s.db.versions)
    (hu : ∀ u', s'.uow = some u' →
      u'.cur = s.uowD.cur ∧ u'.vobjs = s.uowD.vobjs ∧ u'.lookup = s.uowD.lookup) :
    CacheComplete cfg s' := by
  intro u' hu' hl T hT r hr htx
  obtain ⟨e1, e2, e3⟩ := hu u' hu'
  cases hs : s.uow with
  | none =>
    have hc : s.uowD.cur = none := by unfold St.uowD; rw [hs]; rfl
    rw [hc, hT] at e1
    cases e1
  | some u =>
    have hd : s.uowD = u := by unfold St.uowD; rw [hs]; rfl
    rw [hd] at e1 e2 e3
    rw [hv] at hr
    rw [e2]
    exact h u hs (e3 ▸ hl) T (e1 ▸ hT) r hr htx

/-- the same unit of work over the same version rows -/
theorem cacheComplete_same {cfg : Cfg} {s s' : St} (h : CacheComplete cfg s)
    (hv : s'.db.versions = s.db.versions) (hu : s'.uow = s.uow) : CacheComplete cfg s' := by
  intro u hu' hl T hT r hr htx
  rw [hu] at hu'
  rw [hv] at hr
  exact h u hu' hl T hT r hr htx

/-- `manager.before_flush` materialises the unit of work -/
theorem cacheComplete_touch {cfg : Cfg} {s : St} (h : CacheComplete cfg s) :
    CacheComplete cfg { s with uow := some s.uowD } := by
  refine cacheComplete_congr h rfl ?_
  intro u' hu'
  cases hu'
  exact ⟨rfl, rfl, rfl⟩

/-- a fresh transaction id has no version rows yet -/
theorem cacheComplete_createTx {cfg : Cfg} {s : St} {newId : Nat}
    (hf : ∀ r ∈ s.db.versions, r.tx < newId) : CacheComplete cfg (createTx s newId) := by
  intro u hu hl T hT r hr htx
  have hu2 : u.cur = some newId := by
    cases hu
    rfl
  rw [hu2] at hT
  cases hT
  have := hf r hr
  omega

/-- `afterFlush` when a transaction is current -/
theorem step_afterFlush_cache {cfg : Cfg} {s : St} {u0 : Uow} {T : Nat} (hu : s.uow = some u0)
    (hc : u0.cur = some T) :
    (step cfg s .afterFlush).db.versions = processOps cfg s.db.versions T u0.ops ∧
    ∃ u1, (step cfg s .afterFlush).uow = some u1 ∧ u1.cur = some T ∧ u1.lookup = u0.lookup ∧
      u1.vobjs = ((u0.ops.filter (fun e => !e.processed)).map (fun e => (e.cls, e.pk, T))).foldl
        (fun acc k => if acc.contains k then acc else acc ++ [k]) u0.vobjs := by
  cases s with
  | mk db c uow sps err =>
    simp only at hu
    subst hu
    cases u0 with
    | mk cur ops vobjs pending lookup =>
      simp only at hc
      subst hc
      exact ⟨rfl, _, rfl, rfl, rfl, rfl⟩

theorem cacheComplete_afterFlush {cfg : Cfg} {s : St} (h : CacheComplete cfg s) :
    CacheComplete cfg (step cfg s .afterFlush) := by
  cases hs : s.uow with
  | none =>
    have hc : s.uowD.cur = none := by unfold St.uowD; rw [hs]; rfl
    rw [step_afterFlush_none hc]
    exact cacheComplete_touch h
  | some u0 =>
    have hd : s.uowD = u0 := by unfold St.uowD; rw [hs]; rfl
    cases hc : u0.cur with
    | none =>
      rw [step_afterFlush_none (by rw [hd]; exact hc)]
      exact cacheComplete_touch h
    | some T =>
      obtain ⟨hv, u1, hu1, hcur, hlk, hvo⟩ := step_afterFlush_cache (cfg := cfg) hs hc
      intro u hu hl T' hT' r hr htx
      rw [hu1] at hu
      cases hu
      rw [hcur] at hT'
      cases hT'
      rw [hv] at hr
      rw [hlk] at hl
      rcases processOps_row_origin cfg _ _ _ r hr with ⟨r0, hr0, hk, ht⟩ | ⟨_, e, he, hp, hpk, htb⟩
      · obtain ⟨c, hc1, hc2⟩ := h u0 hs hl _ hc r0 hr0 (ht.trans htx)
        refine ⟨c, ?_, hk ▸ hc2⟩
        rw [hvo, mem_cacheFold]
        exact Or.inl (hk ▸ hc1)
      · refine ⟨e.cls, ?_, htb⟩
        rw [hvo, mem_cacheFold]
        refine Or.inr (List.mem_map.2 ⟨e, List.mem_filter.2 ⟨he, by simp [hp]⟩, ?_⟩)
        rw [hpk]

/-! ## The theorems -/

theorem cacheComplete_init (cfg : Cfg) : CacheComplete cfg {} := by
  intro u hu
  cases hu

/-- one step keeps the invariant -/
theorem cacheComplete_step (cfg : Cfg) (s : St) (e : Ev) (hf : IdFresh s e) (h : CacheComplete cfg s) :
    CacheComplete cfg (step cfg s e) := by
  have hk : ∀ (s' : St), s'.db.versions = s.db.versions →
      (∀ u', s'.uow = some u' →
        u'.cur = s.uowD.cur ∧ u'.vobjs = s.uowD.vobjs ∧ u'.lookup = s.uowD.lookup) →
      CacheComplete cfg s' := fun s' hv hu => cacheComplete_congr h hv hu
  cases e with
  | beforeFlush objs newId pm =>
    simp only [step]
    split
    · exact cacheComplete_touch h
    · split
      · exact cacheComplete_touch h
      · exact cacheComplete_createTx hf
  | manualTx newId => exact cacheComplete_createTx hf
  | ins cls pk vals changed =>
    simp only [step]
    split
    · exact h
    · exact hk _ rfl (fun u' hu' => by cases hu'; exact ⟨rfl, rfl, rfl⟩)
  | upd cls pk vals cc rc ccs crs =>
    simp only [step]
    split
    · exact h
    · split
      · exact cacheComplete_same h rfl rfl
      · split
        · exact cacheComplete_same h rfl rfl
        · exact hk _ rfl (fun u' hu' => by cases hu'; exact ⟨rfl, rfl, rfl⟩)
  | del cls pk vals =>
    simp only [step]
    split
    · exact h
    · exact hk _ rfl (fun u' hu' => by cases hu'; exact ⟨rfl, rfl, rfl⟩)
  | assoc tbl op links =>
    simp only [step]
    split
    · exact h
    · exact hk _ rfl (fun u' hu' => by cases hu'; exact ⟨rfl, rfl, rfl⟩)
  | afterFlush => exact cacheComplete_afterFlush h
  | commit =>
    intro u hu
    cases hu
  | rollback =>
    intro u hu
    cases hu
  | spBegin => exact h
  | spCommit => exact h
  | spRollback =>
    cases s with
    | mk db c uow sps err =>
      cases sps with
      | nil => exact h
      | cons p rest =>
        obtain ⟨snap, u0⟩ := p
        intro u hu hl
        cases u0 with
        | none => cases hu
        | some u0 =>
          cases hu
          cases hl

/-- **every reachable state**, savepoint rollbacks included -/
theorem cacheComplete_run (cfg : Cfg) (s : St) (evs : List Ev) (hf : IdFreshRun cfg s evs)
    (h : CacheComplete cfg s) : CacheComplete cfg (run cfg s evs) := by
  induction evs generalizing s with
  | nil => exact h
  | cons e es ih =>
    rw [run_cons]
    exact ih _ hf.2 (cacheComplete_step cfg s e hf.1 h)

/-- a key cached under no class has no version row of the current transaction: creating a fresh
version object for it cannot collide with a stored row -/
theorem fresh_version_object_safe (cfg : Cfg) (s : St) (u : Uow) (T : Nat) (pk : List Int)
    (h : CacheComplete cfg s) (hu : s.uow = some u) (hl : u.lookup = false) (hT : u.cur = some T)
    (hn : ∀ c, (c, pk, T) ∉ u.vobjs) :
    ∀ r ∈ s.db.versions, r.tx = T → r.key.2 ≠ pk := by
  intro r hr htx hpk
  obtain ⟨c, hc, _⟩ := h u hu hl T hT r hr htx
  rw [hpk] at hc
  exact hn c hc

/-- the configuration of the witness: one versioned class with one version table (id 0, no columns) -/
def flagCfg : Cfg :=
  { classes := [{ versioned := true, ncols := 0, excl := [], incl := [], rels := [], tables := [(0, [])] }] }

/-- the state of the witness after `flush`: transaction 1 is current, it wrote the row `((0, []), 1)`
and cached the version object `(class 0, [], 1)`; the flag is clear -/
def flagSt : St :=
  { db := { versions := [{ key := (0, []), tx := 1, endTx := none, op := .insert, vals := [], mods := [] }] }
    uow := some { cur := some 1, vobjs := [(0, [], 1)] } }

/-- the flag is what makes the rollback safe: the state after `flush; SAVEPOINT; ROLLBACK TO` with the
flag forced clear violates the invariant (this is what the regression C07c / C06d produce) -/
theorem cacheComplete_needs_flag :
    ∃ (cfg : Cfg) (s : St), CacheComplete cfg s ∧
      ¬ CacheComplete cfg
        (let s' := run cfg s [.spBegin, .spRollback]
         { s' with uow := s'.uow.map (fun u => { u with lookup := false }) }) := by
  refine ⟨flagCfg, flagSt, ?_, ?_⟩
  · intro u hu hl T hT r hr htx
    cases hu
    cases hT
    rcases List.mem_singleton.1 hr with rfl
    exact ⟨0, List.mem_singleton.2 rfl, List.mem_singleton.2 rfl⟩
  · intro hcc
    obtain ⟨c, hc, _⟩ := hcc { cur := some 1, vobjs := [], lookup := false } rfl rfl 1 rfl
      { key := (0, []), tx := 1, endTx := none, op := .insert, vals := [], mods := [] }
      (List.mem_singleton.2 rfl) rfl
    cases hc

end Continuum
