import Continuum.Spec.Uow

/-!
# Transaction records created inside `after_flush` (finding F-FLUSHTIME)

Since the repair of F-FLUSHTIME `UnitOfWork.process_after_flush` creates the transaction record
itself when tracked operations are waiting and no record exists yet (rows of versioned classes
written by the flush itself, e.g. a foreign key nulled because a non-versioned parent was deleted;
nothing versioned was modified at `before_flush`).  The state machine `step` keeps the simpler
reading in which a record is only ever created at `beforeFlush` / `manualTx`; the trace recorder
therefore reports such a flush to the model with a `manualTx newId` event inserted right after the
`beforeFlush` event.  This file proves that the two readings agree: creating the record at the END
of the flush (`afterFlushLate`, what the code does) gives exactly the state obtained by creating it
at the START of the flush and running the ordinary `afterFlush` (what the model is shown).
-/

namespace Continuum

/-- the events a flush produces between `beforeFlush` and `afterFlush` -/
def Ev.isMapper : Ev → Bool
  | .ins .. => true
  | .upd .. => true
  | .del .. => true
  | .assoc .. => true
  | _ => false

/-- `process_after_flush` after the repair: without a current transaction, but with unprocessed
operations, the record is created now (id `newId`) and the versions are made; otherwise as before -/
def afterFlushLate (cfg : Cfg) (s : St) (newId : Nat) : St :=
  if s.uowD.cur.isNone && s.uowD.ops.any (fun e => !e.processed) then
    step cfg (createTx { s with uow := some s.uowD } newId) .afterFlush
  else
    step cfg s .afterFlush

/-! ## Helper lemmas -/

/-- the state in which the transaction record `newId` has just been created
(`step cfg s (.manualTx newId)`) -/
def ft_withTx (s : St) (newId : Nat) : St :=
  createTx { s with uow := some s.uowD } newId

theorem ft_withTx_eq_manualTx (cfg : Cfg) (s : St) (newId : Nat) :
    step cfg s (.manualTx newId) = ft_withTx s newId := rfl

theorem ft_uowD_some (s : St) (u : Uow) : ({ s with uow := some u } : St).uowD = u := rfl

/-- one mapper event commutes with the creation of the record -/
theorem ft_step_withTx (cfg : Cfg) (s : St) (newId : Nat) (e : Ev) (he : e.isMapper = true) :
    step cfg (ft_withTx s newId) e = ft_withTx (step cfg s e) newId := by
  cases e <;> simp [Ev.isMapper] at he
  all_goals
    simp only [step, ft_withTx, createTx, St.uowD, Option.getD_some]
    repeat' split
    all_goals rfl

/-- mapper events commute with the creation of the record -/
theorem ft_run_withTx (cfg : Cfg) (newId : Nat) (evs : List Ev)
    (hm : ∀ e ∈ evs, e.isMapper = true) (s : St) :
    run cfg (ft_withTx s newId) evs = ft_withTx (run cfg s evs) newId := by
  induction evs generalizing s with
  | nil => rfl
  | cons e evs ih =>
    have he : e.isMapper = true := hm e (List.mem_cons_self ..)
    have hm' : ∀ e' ∈ evs, e'.isMapper = true := fun e' h => hm e' (List.mem_cons_of_mem _ h)
    show run cfg (step cfg (ft_withTx s newId) e) evs = ft_withTx (run cfg (step cfg s e) evs) newId
    rw [ft_step_withTx cfg s newId e he, ih hm']

/-- a mapper event leaves the current transaction of the unit of work alone -/
theorem ft_step_cur (cfg : Cfg) (s : St) (e : Ev) (he : e.isMapper = true) :
    (step cfg s e).uowD.cur = s.uowD.cur := by
  cases e <;> simp [Ev.isMapper] at he
  all_goals
    simp only [step, St.uowD]
    repeat' split
    all_goals rfl

theorem ft_run_cur (cfg : Cfg) (evs : List Ev) (hm : ∀ e ∈ evs, e.isMapper = true) (s : St) :
    (run cfg s evs).uowD.cur = s.uowD.cur := by
  induction evs generalizing s with
  | nil => rfl
  | cons e evs ih =>
    have he : e.isMapper = true := hm e (List.mem_cons_self ..)
    have hm' : ∀ e' ∈ evs, e'.isMapper = true := fun e' h => hm e' (List.mem_cons_of_mem _ h)
    show (run cfg (step cfg s e) evs).uowD.cur = s.uowD.cur
    rw [ih hm', ft_step_cur cfg s e he]

/-! ## The theorems -/

/-- creating the record before the mapper events of the flush or after them is the same -/
theorem createTx_commutes_mapper (cfg : Cfg) (s : St) (newId : Nat) (evs : List Ev)
    (hm : ∀ e ∈ evs, e.isMapper = true) (hcur : s.uowD.cur = none) :
    run cfg (createTx { s with uow := some s.uowD } newId) evs
      = createTx { (run cfg s evs) with uow := some (run cfg s evs).uowD } newId := by
  -- `hcur` is not needed: `createTx` overwrites `cur` whatever it was
  have _ := hcur
  exact ft_run_withTx cfg newId evs hm s

/-- **the recorder's reading is sound**: the late creation of the record equals `manualTx` at the
start of the flush followed by the ordinary `afterFlush` -/
theorem flushtime_sound (cfg : Cfg) (s : St) (newId : Nat) (evs : List Ev)
    (hm : ∀ e ∈ evs, e.isMapper = true) (hcur : s.uowD.cur = none)
    (hops : (run cfg s evs).uowD.ops.any (fun e => !e.processed) = true) :
    afterFlushLate cfg (run cfg s evs) newId
      = step cfg (run cfg (step cfg s (.manualTx newId)) evs) .afterFlush := by
  have hc : (run cfg s evs).uowD.cur = none := by rw [ft_run_cur cfg evs hm s, hcur]
  rw [ft_withTx_eq_manualTx, ft_run_withTx cfg newId evs hm s]
  unfold afterFlushLate
  rw [hc, hops]
  rfl

/-- and when nothing is waiting the repaired `after_flush` is the old one -/
theorem flushtime_noop (cfg : Cfg) (s : St) (newId : Nat)
    (h : s.uowD.ops.any (fun e => !e.processed) = false) :
    afterFlushLate cfg s newId = step cfg s .afterFlush := by
  unfold afterFlushLate
  rw [h, Bool.and_false]
  rfl

/-! ## Non-vacuity -/

/-- one versioned class with one column (the foreign key), one version table -/
def ft_exCfg : Cfg :=
  { classes := [{ versioned := true, ncols := 1, excl := [], incl := [], rels := [],
                  tables := [(0, [some 0])] }] }

/-- the child row `pk = [1]`, foreign key `7`, committed in transaction 1; no unit of work yet -/
def ft_exDb : Db :=
  { versions := [{ key := (0, [1]), tx := 1, endTx := none, op := .insert, vals := [some 7],
                   mods := [] }],
    txs := [1],
    live := [((0, [1]), [some 7])] }

def ft_exSt : St := { db := ft_exDb, committed := ft_exDb }

/-- the flush nulls the foreign key: a tracked `after_update` with a changed column -/
def ft_exEvs : List Ev := [.upd 0 [1] [none] [true] [] [true] []]

/-- non-vacuity: the finding's own history - a versioned child whose foreign key is nulled by the
flush (an `upd` event with a changed column and no transaction announced at `beforeFlush`) - gets
a version row in the late reading -/
example :
    (∀ e ∈ ft_exEvs, e.isMapper = true) ∧
    ft_exSt.uowD.cur = none ∧
    (run ft_exCfg ft_exSt ft_exEvs).uowD.ops.any (fun e => !e.processed) = true ∧
    (afterFlushLate ft_exCfg (run ft_exCfg ft_exSt ft_exEvs) 2).db.versions
      = [{ key := (0, [1]), tx := 1, endTx := some 2, op := .insert, vals := [some 7], mods := [] },
         { key := (0, [1]), tx := 2, endTx := none, op := .update, vals := [none], mods := [] }] ∧
    (afterFlushLate ft_exCfg (run ft_exCfg ft_exSt ft_exEvs) 2).db.versions.length = 2 ∧
    2 ∈ (afterFlushLate ft_exCfg (run ft_exCfg ft_exSt ft_exEvs) 2).db.txs ∧
    -- whereas the old `after_flush` (no record at the end of the flush) wrote nothing
    (step ft_exCfg (run ft_exCfg ft_exSt ft_exEvs) .afterFlush).db.versions.length = 1 := by
  decide

end Continuum
