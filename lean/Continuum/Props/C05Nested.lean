import Continuum.Props.C05Rel

/-!
# Revert with dotted relationship paths (C05: "every subset / dotted path of relationships")

`Reverter.__call__` recurses: after setting the target's columns it reverts, for every relationship
named at the first level of the given paths, each related version the target version shows, passing
the sub-paths down (`revert_child` with `subpaths(relations, prop.key)`).  A path such as
`tags.article` leads back to (another version of) an entity that has been reverted already.  Since the
repair of F-REVCYCLE the reverter skips every version whose ENTITY was reverted earlier in the same
call (`is_visited`), so the outermost target wins.  This file models the recursion and proves the
target clause for arbitrary paths and arbitrary "shown" functions.

Model: relationships are numbered; `shown v r` is the list of related versions version `v` shows
for relationship `r` (computed by the relationship model of C04 in the driver; here an arbitrary
function).  Paths are lists of relationship numbers.  The recursion is on a depth bound `d`
(paths are finite, so `d` = the length of the longest path + 1 suffices).
-/

namespace Continuum

abbrev Path := List Nat

/-- `first_level(paths)` -/
def firstLevel (paths : List Path) : List Nat := (paths.filterMap List.head?).eraseDups

/-- `subpaths(paths, r)` -/
def subPaths (paths : List Path) (r : Nat) : List Path :=
  paths.filterMap (fun p => match p with
    | x :: y :: rest => if x = r then some (y :: rest) else none
    | _ => none)

/-- state of one revert call: the application's rows and the entities reverted so far -/
abbrev RState := Live × List TKey

/-- `Reverter.__call__` for version `v` with the given paths, depth bound `d` -/
def revertN (shown : VRow TKey → Nat → List (VRow TKey)) : Nat → List Path → RState → VRow TKey → RState
  | 0, _, st, _ => st
  | d + 1, paths, (live, visited), v =>
    if visited.contains v.key then (live, visited)
    else if v.op = .delete then (liveDel live v.key, visited)
    else
      (firstLevel paths).foldl
        (fun st r => (shown v r).foldl (fun st c => revertN shown d (subPaths paths r) st c) st)
        (liveSet live v.key v.vals, visited ++ [v.key])

/-! ## helper lemmas (joint invariant: visited only grows, rows of visited entities are kept) -/

/-- `st'` extends `st`: every entity visited in `st` is still visited in `st'` and its row is unchanged -/
def c05n_Good (st st' : RState) : Prop :=
  ∀ k ∈ st.2, k ∈ st'.2 ∧ liveGet st'.1 k = liveGet st.1 k

theorem c05n_Good_refl (st : RState) : c05n_Good st st := fun _ hk => ⟨hk, rfl⟩

theorem c05n_Good_trans {a b c : RState} (h1 : c05n_Good a b) (h2 : c05n_Good b c) : c05n_Good a c := by
  intro k hk
  have ⟨hb, e1⟩ := h1 k hk
  have ⟨hc, e2⟩ := h2 k hb
  exact ⟨hc, e2.trans e1⟩

/-- a fold of steps that each extend the state extends the state -/
theorem c05n_foldl_Good {α : Type} (f : RState → α → RState) (hf : ∀ st a, c05n_Good st (f st a))
    (l : List α) (st : RState) : c05n_Good st (l.foldl f st) := by
  induction l generalizing st with
  | nil => exact c05n_Good_refl st
  | cons a l ih =>
    rw [List.foldl_cons]
    exact c05n_Good_trans (hf st a) (ih (f st a))

theorem c05n_revertN_zero (shown : VRow TKey → Nat → List (VRow TKey)) (paths : List Path)
    (st : RState) (v : VRow TKey) : revertN shown 0 paths st v = st := by
  simp [revertN]

theorem c05n_revertN_succ (shown : VRow TKey → Nat → List (VRow TKey)) (d : Nat) (paths : List Path)
    (live : Live) (visited : List TKey) (v : VRow TKey) :
    revertN shown (d + 1) paths (live, visited) v =
      if visited.contains v.key then (live, visited)
      else if v.op = .delete then (liveDel live v.key, visited)
      else
        (firstLevel paths).foldl
          (fun st r => (shown v r).foldl (fun st c => revertN shown d (subPaths paths r) st c) st)
          (liveSet live v.key v.vals, visited ++ [v.key]) := by
  simp [revertN]

/-- the joint statement, by induction on the depth bound -/
theorem c05n_revertN_Good (shown : VRow TKey → Nat → List (VRow TKey)) (d : Nat) :
    ∀ (paths : List Path) (st : RState) (v : VRow TKey), c05n_Good st (revertN shown d paths st v) := by
  induction d with
  | zero =>
    intro paths st v
    rw [c05n_revertN_zero]
    exact c05n_Good_refl st
  | succ d ih =>
    intro paths st v
    obtain ⟨live, visited⟩ := st
    rw [c05n_revertN_succ]
    by_cases hvis : visited.contains v.key = true
    · rw [if_pos hvis]
      exact c05n_Good_refl _
    · rw [if_neg hvis]
      have hnot : v.key ∉ visited := by
        intro hm
        exact hvis (List.contains_iff_mem.mpr hm)
      by_cases hop : v.op = .delete
      · rw [if_pos hop]
        intro k hk
        refine ⟨hk, ?_⟩
        have hne : k ≠ v.key := fun e => hnot (e ▸ hk)
        exact lget_del_ne live v.key hne
      · rw [if_neg hop]
        have hstep : c05n_Good (live, visited) (liveSet live v.key v.vals, visited ++ [v.key]) := by
          intro k hk
          refine ⟨List.mem_append_left _ hk, ?_⟩
          have hne : k ≠ v.key := fun e => hnot (e ▸ hk)
          exact lget_set_ne live v.key v.vals hne
        refine c05n_Good_trans hstep ?_
        apply c05n_foldl_Good
        intro st r
        apply c05n_foldl_Good
        intro st c
        exact ih (subPaths paths r) st c

/-- the entities reverted so far only grow -/
theorem revertN_visited_mono (shown : VRow TKey → Nat → List (VRow TKey)) (d : Nat) (paths : List Path)
    (st : RState) (v : VRow TKey) : ∀ k ∈ st.2, k ∈ (revertN shown d paths st v).2 :=
  fun k hk => (c05n_revertN_Good shown d paths st v k hk).1

/-- rows of entities reverted earlier in the call are not touched again -/
theorem revertN_keeps_visited (shown : VRow TKey → Nat → List (VRow TKey)) (d : Nat) (paths : List Path)
    (st : RState) (v : VRow TKey) (k : TKey) (hk : k ∈ st.2) :
    liveGet (revertN shown d paths st v).1 k = liveGet st.1 k :=
  (c05n_revertN_Good shown d paths st v k hk).2

/-- **target clause for arbitrary dotted paths**: whatever the paths, whatever related versions the
versions show (including other versions of the target itself), after the call the target entity
carries the target version's values -/
theorem c05_target_nested (shown : VRow TKey → Nat → List (VRow TKey)) (d : Nat) (paths : List Path)
    (live : Live) (v : VRow TKey) (hop : v.op ≠ .delete) :
    liveGet (revertN shown (d + 1) paths (live, []) v).1 v.key = some v.vals := by
  rw [c05n_revertN_succ]
  have hvis : ¬ (([] : List TKey).contains v.key = true) := by simp
  rw [if_neg hvis, if_neg hop]
  have hgood : c05n_Good (liveSet live v.key v.vals, [] ++ [v.key])
      ((firstLevel paths).foldl
        (fun st r => (shown v r).foldl (fun st c => revertN shown d (subPaths paths r) st c) st)
        (liveSet live v.key v.vals, [] ++ [v.key])) := by
    apply c05n_foldl_Good
    intro st r
    apply c05n_foldl_Good
    intro st c
    exact c05n_revertN_Good shown d (subPaths paths r) st c
  have h := (hgood v.key (by simp)).2
  rw [h]
  exact lget_set_self live v.key v.vals

/-- a DELETE target leaves the entity absent, whatever the paths -/
theorem c05_delete_target_nested (shown : VRow TKey → Nat → List (VRow TKey)) (d : Nat) (paths : List Path)
    (live : Live) (v : VRow TKey) (hop : v.op = .delete) :
    liveGet (revertN shown (d + 1) paths (live, []) v).1 v.key = none := by
  rw [c05n_revertN_succ]
  have hvis : ¬ (([] : List TKey).contains v.key = true) := by simp
  rw [if_neg hvis, if_pos hop]
  exact lget_del_self live v.key

/-- the OLD behaviour (visited compared by version object, i.e. by `(key, tx)`): a cyclic path reverts
the target a second time to another of its versions - the finding F-REVCYCLE as a checked counterexample.
`revertOld` is `revertN` with the visited test on `(v.key, v.tx)` -/
def revertOld (shown : VRow TKey → Nat → List (VRow TKey)) : Nat → List Path → (Live × List (TKey × Nat)) → VRow TKey →
    (Live × List (TKey × Nat))
  | 0, _, st, _ => st
  | d + 1, paths, (live, visited), v =>
    if visited.contains (v.key, v.tx) then (live, visited)
    else if v.op = .delete then (liveDel live v.key, visited)
    else
      (firstLevel paths).foldl
        (fun st r => (shown v r).foldl (fun st c => revertOld shown d (subPaths paths r) st c) st)
        (liveSet live v.key v.vals, visited ++ [(v.key, v.tx)])

/-! ## F-REVCYCLE as a checked counterexample

article (table 0, key [1]) with versions tx 1 (vals [some 1]) and tx 2 (vals [some 2]); tag (table 1, key [1])
with one version tx 1; relationship 0 = article→tags, relationship 1 = tag→article; `shown` maps the article
version tx 2 / rel 0 to [tag version], the tag version / rel 1 to [article version tx 1]; path [[0, 1]]:
`revertOld` leaves the article at [some 1] (≠ target [some 2]) while `revertN` leaves it at [some 2] -/

def c05n_exArt1 : VRow TKey := ⟨(0, [1]), 1, none, .insert, [some 1], []⟩
def c05n_exArt2 : VRow TKey := ⟨(0, [1]), 2, none, .update, [some 2], []⟩
def c05n_exTag : VRow TKey := ⟨(1, [1]), 1, none, .insert, [some 7], []⟩

def c05n_exShown (v : VRow TKey) (r : Nat) : List (VRow TKey) :=
  if v = c05n_exArt2 ∧ r = 0 then [c05n_exTag]
  else if v = c05n_exTag ∧ r = 1 then [c05n_exArt1]
  else []

/-- the old reverter violates the target clause (article ends at the values of version tx 1), the
repaired one satisfies it, on the same input -/
example :
    liveGet (revertOld c05n_exShown 3 [[0, 1]] ([], []) c05n_exArt2).1 c05n_exArt2.key = some [some 1]
    ∧ liveGet (revertOld c05n_exShown 3 [[0, 1]] ([], []) c05n_exArt2).1 c05n_exArt2.key ≠ some c05n_exArt2.vals
    ∧ liveGet (revertN c05n_exShown 3 [[0, 1]] ([], []) c05n_exArt2).1 c05n_exArt2.key = some c05n_exArt2.vals := by
  decide

end Continuum
