import Continuum.Spec.Tables
import Continuum.Lemmas.Chain
import Continuum.Lemmas.Backfill

/-!
# C16 — the end-transaction backfill reproduces the validity chain from ids alone
-/

namespace Continuum
variable {K : Type} [DecidableEq K]

/-- the tool sets the min successor and leaves rows without successor untouched -/
theorem c16_contract (t : VTable K) : C16.Holds t (backfillEnd t) := by
  unfold C16.Holds
  rw [backfillEnd_eq_map]
  exact allPairs_map _ _ (fun r _ => ⟨backfillRow_sameButEnd t r, backfillRow_endTx t r⟩)

/-- on a table whose newest rows are open (subquery-strategy table, or end column wiped) the
result carries a well-formed validity chain -/
theorem c16_chain (t : VTable K) (h : NewestOpen t) : Chain (backfillEnd t) := by
  intro r' hr'
  rw [nextTx_backfillEnd]
  rw [backfillEnd_eq_map, List.mem_map] at hr'
  obtain ⟨r, hr, rfl⟩ := hr'
  rw [(backfillRow_skeleton t r).1, (backfillRow_skeleton t r).2, backfillRow_endTx]
  cases hn : nextTx t r.key r.tx with
  | some n => rfl
  | none => exact h r hr hn

theorem c16_chain_of_wiped (t : VTable K) : Chain (backfillEnd (wipeEnd t)) := by
  exact c16_chain _ (newestOpen_wipeEnd t)

/-- applying it twice changes nothing -/
theorem c16_idempotent (t : VTable K) : backfillEnd (backfillEnd t) = backfillEnd t := by
  rw [backfillEnd_eq_map (backfillEnd t), backfillRow_congr (nextTx_backfillEnd t) |> funext]
  rw [backfillEnd_eq_map, List.map_map]
  apply List.map_congr_left
  intro r _
  simp only [Function.comp_apply]
  cases hn : nextTx t r.key r.tx with
  | some n =>
    rw [backfillRow_of_some hn]
    exact backfillRow_of_some (r := { r with endTx := some n }) hn
  | none =>
    rw [backfillRow_of_none hn]
    exact backfillRow_of_none hn

/-- a validity-strategy table whose end column is wiped is restored exactly -/
theorem c16_restores (t : VTable K) (hc : Chain t) : backfillEnd (wipeEnd t) = t := by
  rw [backfillEnd_eq_map, backfillRow_congr (nextTx_wipeEnd t) |> funext]
  unfold wipeEnd
  rw [List.map_map]
  conv => rhs; rw [← List.map_id t]
  apply List.map_congr_left
  intro r hr
  have hc' := hc r hr
  simp only [Function.comp_apply, id_eq]
  cases hn : nextTx t r.key r.tx with
  | some n =>
    rw [backfillRow_of_some (r := { r with endTx := none }) hn]
    rw [hn] at hc'
    cases r; simp_all
  | none =>
    rw [backfillRow_of_none (r := { r with endTx := none }) hn]
    rw [hn] at hc'
    cases r; simp_all

/-- a chain is determined by the `(key, id)` skeleton: two tables that agree row by row on
everything but the end column and both carry a chain are equal ("indistinguishable") -/
theorem c16_chain_unique (t t' : VTable K) (hs : AllPairs sameButEnd t t')
    (hc : Chain t) (hc' : Chain t') : t' = t := by
  apply allPairs_eq
  refine hs.imp ?_
  intro r hr r' hr' hsb
  obtain ⟨hk, htx, hop, hv, hm⟩ := hsb
  have he : r'.endTx = r.endTx := by
    rw [hc r hr, hc' r' hr', hk, htx]
    exact nextTx_congr (fun k n => has_of_allPairs_sameButEnd hs k n) _ _
  cases r; cases r'; simp_all

example :
    let t : VTable (List Int) :=
      [⟨[1, 1], 1, none, .insert, [some 5], []⟩, ⟨[1, 2], 1, none, .insert, [none], []⟩,
       ⟨[1, 2], 2, none, .delete, [none], []⟩, ⟨[1, 1], 3, none, .delete, [some 5], []⟩,
       ⟨[1, 1], 4, none, .insert, [some 6], []⟩]
    NewestOpen t ∧ (backfillEnd t).map (·.endTx) = [some 3, some 2, none, some 4, none] := by
  decide


end Continuum
