import Continuum.Lemmas.UowInvDef
import Continuum.Lemmas.Chain
import Continuum.Lemmas.AsOf
import Continuum.Lemmas.UowStep

/-!
# C01 — every committed change is captured faithfully, and only real changes are

For the segment the model produces from any boundary state in which the newest version of every
live entity equals its live row (and the newest version of every removed entity is a DELETE),
for every configuration satisfying `CfgOK` and every well-formed event list, all six clauses of
`C01.Holds` hold; in particular the boundary condition is re-established, so by induction it
holds after every commit of every history that starts from the empty database.

`hinv` is discharged by `inv_run` (Props/C02.lean).

## Corrections with respect to the first statement

The statements of `c01_holds` and `liveInv_after_commit` as first written (kept below in comments)
are FALSE; concrete counterexamples are evaluated in `Props/C01Cex.lean`.  Three assumptions were
missing; the `_corrected` theorems carry them as explicit hypotheses:

* `TablesNodup cfg`  – a class lists every version table of its hierarchy once
                        (otherwise clause `deleteVals` fails: the last listed column set wins);
* `ColsInRange cfg`  – a column stored in a version table is one of the class' `ncols` mapped
                        column attributes (`isModified` only inspects indices `< ncols`, so a change
                        of a stored column with a larger index is never captured);
* `WFShape cfg s evs` – the missing half of W2 in `EvOK`: when an `upd` is delivered the stored
                        row of every table of the class has the *shape* of the class' projection
                        (one value per version column, NULL in every column the class does not
                        map).  `unchangedKept` only speaks about the mapped columns, so without it
                        an update that is not captured could still change the projected row
                        (boundary state with a wider row; or single-table inheritance, a row
                        written by the subclass and then "updated" through the base class).
-/

namespace Continuum

/-- the boundary condition that C01 maintains from commit to commit -/
def LiveInv (s : St) : Prop :=
  (∀ p ∈ s.db.live, liveRowOK s.db.versions p = true) ∧
  (∀ r ∈ s.db.versions, newest s.db.versions r.key = some r → liveGet s.db.live r.key = none → r.op = .delete) ∧
  (s.db.live.map (·.1)).Nodup

theorem liveInv_init : LiveInv {} := by
  refine ⟨?_, ?_, ?_⟩
  · intro p hp; exact absurd hp List.not_mem_nil
  · intro r hr; exact absurd hr List.not_mem_nil
  · exact List.nodup_nil

/-! ## `Settled` versus the observable formulation -/

theorem liveRowOK_of_settled {V : VTable TKey} {L : Live} {p : TKey × List Val}
    (hs : Settled V L p.1) (hg : liveGet L p.1 = some p.2) : liveRowOK V p = true := by
  obtain ⟨op, hnd, hop⟩ := hs.1 p.2 hg
  rw [← newest_data] at hnd
  unfold liveRowOK
  cases hn : newest V p.1 with
  | none => rw [hn] at hnd; cases hnd
  | some r =>
    rw [hn] at hnd
    simp only [Option.map_some, Option.some.injEq, Prod.mk.injEq] at hnd
    simp only [decide_eq_true_eq]
    exact ⟨by rw [hnd.1]; exact hop, hnd.2⟩

theorem delete_of_settled {V : VTable TKey} {L : Live} {k : TKey} {r : VRow TKey}
    (hs : Settled V L k) (hn : newest V k = some r) (hg : liveGet L k = none) : r.op = .delete := by
  have := hs.2 hg (r.op, r.vals) (by rw [← newest_data, hn]; rfl)
  exact this

theorem settled_of_liveInv {s : St} (hlive : LiveInv s) (k : TKey) :
    Settled s.db.versions s.db.live k := by
  constructor
  · intro v hv
    have hm := mem_of_liveGet hv
    have hok := hlive.1 (k, v) hm
    unfold liveRowOK at hok
    rw [← newest_data]
    cases hn : newest s.db.versions k with
    | none => rw [hn] at hok; cases hok
    | some r =>
      rw [hn] at hok
      simp only [decide_eq_true_eq] at hok
      exact ⟨r.op, by simp [hok.2], hok.1⟩
  · intro hn d hd
    rw [← newest_data] at hd
    cases hnw : newest s.db.versions k with
    | none => rw [hnw] at hd; cases hd
    | some r =>
      rw [hnw] at hd
      simp only [Option.map_some, Option.some.injEq] at hd
      obtain ⟨hr, hk⟩ := newest_mem hnw
      have := hlive.2.1 r hr (by rw [hk]; exact hnw) (by rw [hk]; exact hn)
      rw [← hd]; exact this

theorem txInvS_init (cfg : Cfg) (s : St) (hb : Boundary s) (hlive : LiveInv s) :
    TxInvS cfg s [] s := by
  have hu : s.uowD = {} := by unfold St.uowD; rw [hb.1]; rfl
  unfold TxInvS
  rw [hu]
  exact
    { cur_some := fun h => absurd rfl h
      uniq := List.Pairwise.nil
      ncs := fun o ho => absurd ho List.not_mem_nil
      dirty := fun o ho => absurd ho List.not_mem_nil
      settled := fun k _ => settled_of_liveInv hlive k
      nodup := hlive.2.2
      rowsrc := fun r hr => Or.inl ⟨r, hr, rfl, rfl⟩
      livesrc := fun k => Or.inl rfl
      evsrc := fun o ho => absurd ho List.not_mem_nil
      entry := fun e he => absurd he List.not_mem_nil
      done := fun o ho => absurd ho List.not_mem_nil }

/-! ## the committed snapshot does not move inside a transaction -/

theorem step_committed_l (cfg : Cfg) (s : St) (e : Ev) (he : e.isEnd = false) :
    (step cfg s e).committed = s.committed := by
  cases e with
  | beforeFlush objs newId pm => simp only [step]; split; rfl; split <;> rfl
  | manualTx newId => rfl
  | ins c pk vals ch => simp only [step]; split <;> rfl
  | upd c pk vals cc rc kc kr =>
    simp only [step]; split; rfl; split; rfl; split <;> rfl
  | del c pk vals => simp only [step]; split <;> rfl
  | assoc tbl op links => simp only [step]; split <;> rfl
  | afterFlush =>
    cases hc : s.uowD.cur with
    | none => rw [step_afterFlush_none_l cfg s hc]
    | some T =>
      simp only [step, uowD_some, hc]
  | commit => cases he
  | rollback => cases he
  | spBegin => rfl
  | spCommit => rfl
  | spRollback => simp only [step]; split <;> rfl

theorem run_committed_l (cfg : Cfg) (evs : List Ev) (s : St) (hne : ∀ e ∈ evs, e.isEnd = false) :
    (run cfg s evs).committed = s.committed := by
  induction evs generalizing s with
  | nil => rfl
  | cons e es ih =>
    rw [run_cons_l, ih _ (fun e' he' => hne e' (List.mem_cons_of_mem _ he'))]
    exact step_committed_l cfg s e (hne e List.mem_cons_self)

/-! ## the state just before the commit -/

structure PreCommit (cfg : Cfg) (s : St) (evs : List Ev) (sf : St) : Prop where
  tx : TxInvS cfg s evs sf
  allDone : ∀ o ∈ sf.uowD.ops, o.processed = true
  inv : Inv cfg sf
  inv0 : Inv cfg s
  comm : sf.committed = s.committed

theorem preCommit (cfg : Cfg) (hcfg : CfgOK cfg) (hnd : TablesNodup cfg) (hrange : ColsInRange cfg)
    (s : St) (evs : List Ev) (hb : Boundary s)
    (hinv : ∀ pre, pre <+: (evs ++ [.commit]) → Inv cfg (run cfg s pre))
    (hlive : LiveInv s) (hne : ∀ e ∈ evs, e.isEnd = false) (hwf : WF cfg s (evs ++ [.commit]))
    (hshape : WFShape cfg s evs) : PreCommit cfg s evs (run cfg s evs) := by
  have hwf' := (wf_append' cfg evs [.commit] s).1 hwf
  refine ⟨?_, ?_, hinv evs (List.prefix_append _ _), hinv [] List.nil_prefix, run_committed_l cfg evs s hne⟩
  · have := txInvS_run cfg hcfg hnd hrange s evs [] s (txInvS_init cfg s hb hlive)
      (fun p hp => hinv p (List.IsPrefix.trans hp (List.prefix_append _ _))) hwf'.1 hshape hne
    simpa using this
  · have hc : EvOK cfg (run cfg s evs) .commit := hwf'.2.1
    simp only [EvOK] at hc
    exact hc.1

theorem PreCommit.settled {cfg : Cfg} {s sf : St} {evs : List Ev} (h : PreCommit cfg s evs sf)
    (k : TKey) : Settled sf.db.versions sf.db.live k :=
  h.tx.settled k (fun o ho hp => by rw [h.allDone o ho] at hp; cases hp)

theorem mem_newIds {cfg : Cfg} {s : St} {evs : List Ev} {x : Nat} :
    x ∈ newIds (modelSeg cfg s evs .commit) ↔ x ∈ (run cfg s evs).db.txs ∧ x ∉ s.db.txs := by
  show x ∈ (run cfg s evs).db.txs.filter (fun x => !s.db.txs.contains x) ↔ _
  simp [List.mem_filter]

theorem PreCommit.cur_of_new {cfg : Cfg} {s sf : St} {evs : List Ev} (h : PreCommit cfg s evs sf)
    (hb : Boundary s) {x : Nat} (hx : x ∈ sf.db.txs) (hnx : x ∉ s.db.txs) : sf.uowD.cur = some x := by
  apply h.inv.fresh x hx
  rw [h.comm, ← hb.2.2.2.2.1]; exact hnx

theorem PreCommit.new_of_cur {cfg : Cfg} {s sf : St} {evs : List Ev} (h : PreCommit cfg s evs sf)
    (hb : Boundary s) {T : Nat} (hT : sf.uowD.cur = some T) : T ∈ sf.db.txs ∧ T ∉ s.db.txs := by
  obtain ⟨h1, _, h3⟩ := h.inv.cur_in T hT
  refine ⟨h1, ?_⟩
  rw [h.comm, ← hb.2.2.2.2.1] at h3; exact h3

/-! ## the six clauses -/

section clauses
variable {cfg : Cfg} {s : St} {evs : List Ev}

theorem c01_newestIsLive (h : PreCommit cfg s evs (run cfg s evs)) :
    C01.newestIsLive (modelSeg cfg s evs .commit) := by
  intro p hp
  have hp' : p ∈ (run cfg s evs).db.live := hp
  exact liveRowOK_of_settled (h.settled p.1) (liveGet_of_mem h.tx.nodup hp')

theorem c01_removedIsDelete (h : PreCommit cfg s evs (run cfg s evs)) :
    C01.removedIsDelete (modelSeg cfg s evs .commit) := by
  intro r _ hnew hlv
  exact delete_of_settled (h.settled r.key) hnew hlv

theorem c01_onlyRealChanges (h : PreCommit cfg s evs (run cfg s evs)) :
    C01.onlyRealChanges cfg (modelSeg cfg s evs .commit) := by
  intro r hr htx
  have hr' : r ∈ (run cfg s evs).db.versions := hr
  rw [mem_newIds] at htx
  rcases h.tx.rowsrc r hr' with ⟨r', hr', _, ht'⟩ | ⟨o, ho, hocc⟩
  · exact absurd (by rw [← ht']; exact h.inv0.db.txs_in r' hr') htx.2
  · obtain ⟨e, hlast, _, _⟩ := h.tx.evsrc o ho
    obtain ⟨hmem, htr, hent⟩ := mem_of_entityEvents_last hlast
    refine ⟨e, hmem, tracked_realChange htr, ?_⟩
    unfold evTouches
    rw [hent]
    obtain ⟨tc, htc, hk⟩ := hocc
    simp only [entityKeys, List.map_map, List.contains_iff_mem, List.mem_map]
    exact ⟨tc, htc, hk.symm⟩

theorem c01_changedHasRow (hb : Boundary s) (h : PreCommit cfg s evs (run cfg s evs)) :
    C01.changedHasRow (modelSeg cfg s evs .commit) := by
  intro k _ hne'
  rcases h.tx.livesrc k with h1 | ⟨o, ho, tc, htc, hk⟩
  · exact absurd h1.symm hne'
  · obtain ⟨T, hT, ⟨r, hr, hrk, hrt⟩, _⟩ := h.tx.done o ho (h.allDone o ho) tc htc
    refine ⟨r, hr, hrk.trans hk.symm, ?_⟩
    rw [mem_newIds, hrt]
    exact h.new_of_cur hb hT

theorem c01_deleteVals (hb : Boundary s) (h : PreCommit cfg s evs (run cfg s evs)) :
    C01.deleteVals cfg (modelSeg cfg s evs .commit) := by
  intro ent hent e he hdel kc hkc r hr hrk hrt
  have hent' : ent ∈ trackedEntities cfg evs := hent
  have he' : e ∈ (entityEvents cfg evs ent.1 ent.2).getLast?.toList := he
  have hr' : r ∈ (run cfg s evs).db.versions := hr
  unfold trackedEntities at hent'
  rw [List.mem_eraseDups, List.mem_filterMap] at hent'
  obtain ⟨e0, he0, hf⟩ := hent'
  have htr0 : e0.tracked cfg = true ∧ e0.entity = some ent := by
    cases ht : e0.tracked cfg with
    | false => rw [ht] at hf; simp at hf
    | true => rw [ht] at hf; exact ⟨rfl, by simpa using hf⟩
  obtain ⟨o, ho, hoc, hop⟩ := h.tx.entry e0 he0 htr0.1 ent.1 ent.2 htr0.2
  obtain ⟨e1, hlast, hvals, hisdel⟩ := h.tx.evsrc o ho
  rw [hoc, hop] at hlast
  rw [Option.mem_toList, hlast, Option.some.injEq] at he'
  subst he'
  have hodel : o.op = .delete := hisdel.1 hdel
  simp only [entityKeys, List.mem_map] at hkc
  obtain ⟨tc, htc, rfl⟩ := hkc
  obtain ⟨T, hT, _, hdata⟩ := h.tx.done o ho (h.allDone o ho) tc (by rw [hoc]; exact htc)
  rw [mem_newIds] at hrt
  have hcur := h.cur_of_new hb hrt.1 hrt.2
  have hTT : r.tx = T := by rw [hT] at hcur; exact (Option.some.inj hcur).symm
  have := hdata r hr' (by rw [hop]; exact hrk) hTT
  refine ⟨this.1.trans hodel, ?_⟩
  rw [this.2]
  unfold wvals expectedVals
  rw [hodel, hdel, hvals]
  simp

theorem c01_pastKept (hb : Boundary s) (h : PreCommit cfg s evs (run cfg s evs)) :
    C01.pastKept (modelSeg cfg s evs .commit) := by
  intro r' hr'
  have hr'' : r' ∈ s.db.versions := hr'
  exact h.inv.past r' (by rw [h.comm, ← hb.2.2.1]; exact hr'')

end clauses

/- FALSE as first stated (see the header and `Props/C01Cex.lean`):

theorem c01_holds (cfg : Cfg) (hcfg : CfgOK cfg) (s : St) (evs : List Ev) (hb : Boundary s)
    (hinv : ∀ pre, pre <+: (evs ++ [.commit]) → Inv cfg (run cfg s pre))
    (hlive : LiveInv s)
    (hne : ∀ e ∈ evs, e.isEnd = false) (hwf : WF cfg s (evs ++ [.commit])) :
    C01.Holds cfg (modelSeg cfg s evs .commit)
-/

theorem c01_holds_corrected (cfg : Cfg) (hcfg : CfgOK cfg) (hnd : TablesNodup cfg)
    (hrange : ColsInRange cfg) (s : St) (evs : List Ev) (hb : Boundary s)
    (hinv : ∀ pre, pre <+: (evs ++ [.commit]) → Inv cfg (run cfg s pre))
    (hlive : LiveInv s)
    (hne : ∀ e ∈ evs, e.isEnd = false) (hwf : WF cfg s (evs ++ [.commit]))
    (hshape : WFShape cfg s evs) :
    C01.Holds cfg (modelSeg cfg s evs .commit) := by
  intro _
  have h := preCommit cfg hcfg hnd hrange s evs hb hinv hlive hne hwf hshape
  exact ⟨c01_newestIsLive h, c01_removedIsDelete h, c01_onlyRealChanges h, c01_changedHasRow hb h,
    c01_deleteVals hb h, c01_pastKept hb h⟩

/- FALSE as first stated (same counterexamples):

theorem liveInv_after_commit (cfg : Cfg) (hcfg : CfgOK cfg) (s : St) (evs : List Ev) (hb : Boundary s)
    (hinv : ∀ pre, pre <+: (evs ++ [.commit]) → Inv cfg (run cfg s pre))
    (hlive : LiveInv s)
    (hne : ∀ e ∈ evs, e.isEnd = false) (hwf : WF cfg s (evs ++ [.commit])) :
    LiveInv (run cfg s (evs ++ [.commit]))
-/

/-- the boundary condition is re-established by every committed transaction -/
theorem liveInv_after_commit_corrected (cfg : Cfg) (hcfg : CfgOK cfg) (hnd : TablesNodup cfg)
    (hrange : ColsInRange cfg) (s : St) (evs : List Ev) (hb : Boundary s)
    (hinv : ∀ pre, pre <+: (evs ++ [.commit]) → Inv cfg (run cfg s pre))
    (hlive : LiveInv s)
    (hne : ∀ e ∈ evs, e.isEnd = false) (hwf : WF cfg s (evs ++ [.commit]))
    (hshape : WFShape cfg s evs) :
    LiveInv (run cfg s (evs ++ [.commit])) := by
  have h := preCommit cfg hcfg hnd hrange s evs hb hinv hlive hne hwf hshape
  rw [run_append_l]
  show LiveInv (step cfg (run cfg s evs) .commit)
  refine ⟨?_, ?_, ?_⟩
  · intro p hp
    have hp' : p ∈ (run cfg s evs).db.live := hp
    exact liveRowOK_of_settled (h.settled p.1) (liveGet_of_mem h.tx.nodup hp')
  · intro r _ hnew hlv
    exact delete_of_settled (h.settled r.key) hnew hlv
  · exact h.tx.nodup

/-- ... and trivially by a rolled-back one -/
theorem liveInv_after_rollback (cfg : Cfg) (s : St) (evs : List Ev) (hb : Boundary s)
    (hlive : LiveInv s) (hne : ∀ e ∈ evs, e.isEnd = false) :
    LiveInv (run cfg s (evs ++ [.rollback])) := by
  rw [run_append_l]
  show LiveInv (step cfg (run cfg s evs) .rollback)
  have hc := run_committed_l cfg evs s hne
  unfold LiveInv at hlive ⊢
  show (∀ p ∈ (run cfg s evs).committed.live, liveRowOK (run cfg s evs).committed.versions p = true) ∧
    (∀ r ∈ (run cfg s evs).committed.versions,
      newest (run cfg s evs).committed.versions r.key = some r →
        liveGet (run cfg s evs).committed.live r.key = none → r.op = .delete) ∧
    ((run cfg s evs).committed.live.map (·.1)).Nodup
  rw [hc, ← hb.2.2.1, ← hb.2.2.2.2.2.2]
  exact hlive

end Continuum
