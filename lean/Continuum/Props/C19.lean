import Continuum.Spec.Tables
import Continuum.Lemmas.Chain
import Continuum.Lemmas.Vacuum

/-!
# C19 — vacuum never discards a version that recorded a real change
# C20 — count_versions equals the number of versions
-/

namespace Continuum
variable {K : Type} [DecidableEq K]

/-- every row vacuum deletes is data-equal to the immediately preceding surviving version of the
same entity; the first version of every entity and every version that differs from its
predecessor are kept -/
theorem c19_holds (t : VTable K) (hpk : PKUnique t) : C19.Holds t (vacuum t) := by
  refine ⟨fun d hd => List.mem_mergeSort.1 (mem_of_mem_vacuumPass _ _ hd), fun r _ => ?_⟩
  have hnd : (t.mergeSort (fun a b => decide (a.tx ≤ b.tx))).Nodup :=
    (hpk.perm (List.mergeSort_perm t _).symm).nodup
  have h := vacuumPass_ok r.key _ ([] : List (K × VRow K)) hnd
  rw [filter_mergeSort_eq_versionsOf hpk] at h
  exact h

/-- The defect F-VAC (a), formally: remembering only the first row deletes the third row of
A, B, A although it differs from its predecessor. -/
theorem c19_old_aba_counterexample :
    let t : VTable Nat := [⟨1, 1, none, .update, [some 0], []⟩, ⟨1, 2, none, .update, [some 1], []⟩,
                           ⟨1, 3, none, .update, [some 0], []⟩]
    PKUnique t ∧ ¬ C19.Holds t (vacuumPassOld id [] t) ∧ vacuum t = [] := by
  intro t
  have hpk : PKUnique t := by decide
  have hs : t.mergeSort (fun a b => decide (a.tx ≤ b.tx)) = t :=
    List.mergeSort_of_pairwise (by decide)
  refine ⟨hpk, ?_, ?_⟩
  · rintro ⟨_, h⟩
    have h1 := h ⟨1, 1, none, .update, [some 0], []⟩ (by decide)
    rw [← filter_mergeSort_eq_versionsOf hpk, hs] at h1
    revert h1
    decide
  · unfold vacuum
    rw [hs]
    decide

/-- The defect F-VAC (b), formally: keying on the first key column only deletes the first
version of another entity. -/
theorem c19_old_composite_counterexample :
    let t : VTable (List Int) := [⟨[1, 1], 1, none, .insert, [some 0], []⟩,
                                  ⟨[1, 2], 1, none, .insert, [some 0], []⟩]
    PKUnique t ∧ ¬ C19.Holds t (vacuumPassOld (fun k => k.take 1) [] t) ∧ vacuum t = [] := by
  intro t
  have hpk : PKUnique t := by decide
  have hs : t.mergeSort (fun a b => decide (a.tx ≤ b.tx)) = t :=
    List.mergeSort_of_pairwise (by decide)
  refine ⟨hpk, ?_, ?_⟩
  · rintro ⟨_, h⟩
    have h1 := h ⟨[1, 2], 1, none, .insert, [some 0], []⟩ (by decide)
    rw [← filter_mergeSort_eq_versionsOf hpk, hs] at h1
    revert h1
    decide
  · unfold vacuum
    rw [hs]
    decide

/-- C20: the count equals the length of the versions collection, for every key type -/
theorem c20_count (t : VTable K) (k : K) : C20.Holds t k (countVersions t k) := by
  unfold C20.Holds countVersions versionsOf rowsOf
  rw [List.length_mergeSort]

end Continuum
