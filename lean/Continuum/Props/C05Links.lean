import Continuum.Props.C05Bridge

/-!
# Second-level links after a dotted revert (C05)

`revert(relations=['articles.tags'])` on a tag version: every article the version shows is reverted,
and for each of them the tags IT shows are linked again.  `C05.SecondLevelLinksHold` is the decidable
statement of the "links come back" half for a two-level path whose second component is many-to-many;
the driver evaluates it on the implementation's links after such a revert (finding F-REVSHARED: an
entity re-created earlier in the call was not linked to the second parent that shows it).  The
theorem says the whole-recursion model `revertF` satisfies it.
-/

namespace Continuum

/-- second-level entity `w` is linked (association table of `r2`) with every entity it shows under `r2`, when `r2`
is many-to-many -/
def secondLevelOK (links : List Link) (vt : VTable TKey) (arows : List ARow) (reg : Nat → Nat → Option RelSpec)
    (r2 : Nat) (w : VRow TKey) : Bool :=
  match reg w.key.1 r2 with
  | some (.m2m rt atb lf) =>
    (shownOf vt arows (.m2m rt atb lf) w).all (fun c => links.contains (atb, mkLink lf w.key.2 c.key.2))
  | _ => true

/-- the entities `v` shows under `r1` -/
def firstShown (vt : VTable TKey) (arows : List ARow) (reg : Nat → Nat → Option RelSpec) (v : VRow TKey) (r1 : Nat) :
    List (VRow TKey) :=
  match reg v.key.1 r1 with
  | some s => shownOf vt arows s v
  | none => []

/-- every second-level entity shown by `v` under `r1` has its `r2` links back -/
def C05.SecondLevelLinksHold (links : List Link) (vt : VTable TKey) (arows : List ARow)
    (reg : Nat → Nat → Option RelSpec) (v : VRow TKey) (r1 r2 : Nat) : Prop :=
  ∀ w ∈ firstShown vt arows reg v r1, secondLevelOK links vt arows reg r2 w = true

instance c05d7 (links : List Link) (vt : VTable TKey) (arows : List ARow) (reg : Nat → Nat → Option RelSpec)
    (v : VRow TKey) (r1 r2 : Nat) : Decidable (C05.SecondLevelLinksHold links vt arows reg v r1 r2) := by
  unfold C05.SecondLevelLinksHold; infer_instance

/-! ## Result

`revertF_second_level_links` is FALSE as first stated (the informal hypotheses of its docstring were not in the
statement).  Counterexample `revertF_second_level_links_old_false`: `r1` is a self-referential many-to-many
relationship and the target shows ITSELF under it; it is visited when it is reached as a second-level entity, so
its `r2` links are not restored.  The corrected statement has three more hypotheses:

* `h1`: `r1` leads to another table than the target's;
* `h2`: `r2` (when many-to-many) leads from the table of the first-level shown entities to another table (otherwise an
  earlier second-level entity reverts a later one as a LEAF, and the later one's links are not restored);
* `hlen`: the first-level shown entities have keys of one length (`linkOfParent` is a prefix / suffix test: with keys
  `[1]` and `[1, 2]` the emptying of the collection of `[1]` removes the links of `[1, 2]` restored before).

Pairwise distinct keys of the shown lists follow from `PKUnique vt`. -/

/-- the table a relationship leads to -/
def specTarget : RelSpec → Nat
  | .o2m ct _ => ct
  | .m2o pt _ => pt
  | .m2m rt _ _ => rt

theorem lk_shown_table {vt : VTable TKey} {arows : List ARow} {spec : RelSpec} {w c : VRow TKey}
    (h : c ∈ shownOf vt arows spec w) : c.key.1 = specTarget spec ∧ c.op ≠ .delete := by
  cases spec with
  | o2m ct fk =>
    rw [br_shownOf_o2m] at h
    rcases List.mem_map.1 h with ⟨r, hr, rfl⟩
    exact ⟨rfl, br_oneToMany_op hr⟩
  | m2m rt atb lf =>
    rw [br_shownOf_m2m] at h
    rcases List.mem_map.1 h with ⟨r, hr, rfl⟩
    exact ⟨rfl, br_manyToMany_op hr⟩
  | m2o pt fk =>
    rw [br_shownOf_m2o] at h
    rcases List.mem_map.1 h with ⟨r, hr, rfl⟩
    exact ⟨rfl, br_manyToOne_op (Option.mem_toList.1 hr)⟩

theorem lk_nodup_lift (ct : Nat) (shown : List (VRow Key)) (h : (shown.map (·.key)).Nodup) :
    ((shown.map (liftVRow ct)).map (·.key)).Nodup := by
  rw [br_keys_lift]
  unfold List.Nodup at *
  rw [List.pairwise_map] at *
  exact h.imp (fun hab e => hab (Prod.mk.inj e).2)

theorem lk_shown_nodup {vt : VTable TKey} (hpk : PKUnique vt) (arows : List ARow) (spec : RelSpec) (w : VRow TKey) :
    ((shownOf vt arows spec w).map (·.key)).Nodup := by
  cases spec with
  | o2m ct fk =>
    rw [br_shownOf_o2m]
    exact lk_nodup_lift ct _ (br_oneToMany_nodup (br_pk_tableOfV hpk ct) fk w.key.2 w.tx)
  | m2m rt atb lf =>
    rw [br_shownOf_m2m]
    exact lk_nodup_lift rt _ (br_manyToMany_nodup (br_pk_tableOfV hpk rt) arows atb lf w.key.2 w.tx)
  | m2o pt fk =>
    rw [br_shownOf_m2o]
    generalize manyToOne _ _ _ = o
    cases o <;> simp

/-- a leaf call (no paths) touches no link and visits at most its own entity -/
theorem lk_leaf (vt : VTable TKey) (arows : List ARow) (reg : Nat → Nat → Option RelSpec)
    (d : Nat) (st : FState) (c : VRow TKey) :
    (revertF vt arows reg (d + 1) [] st c).2.1 = st.2.1 ∧
    ∀ k ∈ (revertF vt arows reg (d + 1) [] st c).2.2, k ∈ st.2.2 ∨ k = c.key := by
  obtain ⟨live, links, vis⟩ := st
  rw [revertF_succ]
  by_cases hvis : vis.contains c.key = true
  · rw [if_pos hvis]; exact ⟨rfl, fun k hk => Or.inl hk⟩
  · rw [if_neg hvis]
    by_cases hop : c.op = .delete
    · rw [if_pos hop]; exact ⟨rfl, fun k hk => Or.inl hk⟩
    · rw [if_neg hop]
      have hf : firstLevel [] = [] := by simp [firstLevel]
      rw [hf, List.foldl_nil]
      refine ⟨rfl, fun k hk => ?_⟩
      have hk' : k ∈ vis ++ [c.key] := hk
      rcases List.mem_append.1 hk' with h | h
      · exact Or.inl h
      · exact Or.inr (by simpa using h)

/-- the third level of a path `[r1, r2]`, `r2` many-to-many: leaf calls, every link added, none removed -/
theorem lk_third_fold (vt : VTable TKey) (arows : List ARow) (reg : Nat → Nat → Option RelSpec)
    (d rt atb : Nat) (lf : Bool) (pk : List Int) (l : List (VRow TKey)) (hl : ∀ c ∈ l, c.key.1 = rt) (st : FState) :
    (∀ k ∈ (l.foldl (m2mStepF vt arows reg (d + 1) [] atb lf pk) st).2.2, k ∈ st.2.2 ∨ k.1 = rt) ∧
    (∀ c ∈ l, (atb, mkLink lf pk c.key.2) ∈ (l.foldl (m2mStepF vt arows reg (d + 1) [] atb lf pk) st).2.1) ∧
    (∀ x ∈ st.2.1, x ∈ (l.foldl (m2mStepF vt arows reg (d + 1) [] atb lf pk) st).2.1) := by
  induction l generalizing st with
  | nil => exact ⟨fun k hk => Or.inl hk, fun c hc => absurd hc List.not_mem_nil, fun x hx => hx⟩
  | cons c0 tl ih =>
    rw [List.foldl_cons]
    have ⟨i1, i2, i3⟩ := ih (fun c hc => hl c (List.mem_cons_of_mem _ hc))
      (m2mStepF vt arows reg (d + 1) [] atb lf pk st c0)
    have ⟨e1, e2⟩ := lk_leaf vt arows reg d st c0
    have hlinks : ∀ x, x ∈ (m2mStepF vt arows reg (d + 1) [] atb lf pk st c0).2.1 ↔
        x ∈ st.2.1 ∨ (atb, mkLink lf pk c0.key.2) = x := by
      intro x
      unfold m2mStepF
      dsimp only
      rw [br_mem_addLink, e1]
    have hvis : (m2mStepF vt arows reg (d + 1) [] atb lf pk st c0).2.2 =
        (revertF vt arows reg (d + 1) [] st c0).2.2 := rfl
    refine ⟨fun k hk => ?_, fun c hc => ?_, fun x hx => i3 x ((hlinks x).2 (Or.inl hx))⟩
    · rcases i1 k hk with h | h
      · rw [hvis] at h
        rcases e2 k h with h | h
        · exact Or.inl h
        · exact Or.inr (by rw [h]; exact hl c0 List.mem_cons_self)
      · exact Or.inr h
    · rcases List.mem_cons.1 hc with rfl | hc
      · exact i3 _ ((hlinks _).2 (Or.inr rfl))
      · exact i2 c hc

theorem lk_firstLevel_two (r1 r2 : Nat) : firstLevel [[r1, r2]] = [r1] := by
  simp [firstLevel, List.eraseDups_cons]

theorem lk_subPaths_two (r1 r2 : Nat) : subPaths [[r1, r2]] r1 = [[r2]] := by
  simp [subPaths]

/-- a second-level call from an ARBITRARY state in which the entity is not visited: it visits itself and entities of
the remote table, adds every shown link, and removes only links of its own collection -/
theorem lk_second_call (vt : VTable TKey) (arows : List ARow) (reg : Nat → Nat → Option RelSpec)
    (d r2 rt atb : Nat) (lf : Bool) (st : FState) (w : VRow TKey)
    (hreg : reg w.key.1 r2 = some (.m2m rt atb lf)) (hop : w.op ≠ .delete) (hv : w.key ∉ st.2.2) :
    (∀ k ∈ (revertF vt arows reg (d + 2) [[r2]] st w).2.2, k ∈ st.2.2 ∨ k = w.key ∨ k.1 = rt) ∧
    (∀ c ∈ shownOf vt arows (.m2m rt atb lf) w,
      (atb, mkLink lf w.key.2 c.key.2) ∈ (revertF vt arows reg (d + 2) [[r2]] st w).2.1) ∧
    (∀ x ∈ st.2.1, linkOfParent atb lf w.key.2 x = false → x ∈ (revertF vt arows reg (d + 2) [[r2]] st w).2.1) := by
  obtain ⟨live, links, vis⟩ := st
  rw [revertF_succ vt arows reg (d + 1)]
  have hvis : ¬ (vis.contains w.key = true) := fun h => hv (List.contains_iff_mem.1 h)
  rw [if_neg hvis, if_neg hop, br_firstLevel_single, List.foldl_cons, List.foldl_nil,
    br_relStepF_m2m vt arows reg (d + 1) [[r2]] w _ r2 rt atb lf hreg, br_subPaths_single]
  have ⟨i1, i2, i3⟩ := lk_third_fold vt arows reg d rt atb lf w.key.2 (shownOf vt arows (.m2m rt atb lf) w)
    (fun c hc => (lk_shown_table hc).1)
    (liveSet live w.key w.vals, links.filter (fun x => !linkOfParent atb lf w.key.2 x), vis ++ [w.key])
  refine ⟨fun k hk => ?_, fun c hc => i2 c hc, fun x hx hp => i3 x ?_⟩
  · rcases i1 k hk with h | h
    · rcases List.mem_append.1 h with h | h
      · exact Or.inl h
      · exact Or.inr (Or.inl (by simpa using h))
    · exact Or.inr (Or.inr h)
  · exact List.mem_filter.2 ⟨hx, by simp [hp]⟩

/-- a link of parent `pk` is not a link of another parent whose key has the same length -/
theorem lk_linkOfParent_other (atb : Nat) (lf : Bool) (pk pk' ck : List Int) (hlen : pk.length = pk'.length)
    (hne : pk ≠ pk') : linkOfParent atb lf pk' (atb, mkLink lf pk ck) = false := by
  unfold linkOfParent mkLink
  cases lf with
  | true =>
    have e : (pk ++ ck).take pk'.length = pk := by rw [← hlen]; simp
    simp [e, hne]
  | false =>
    have e : (ck ++ pk).drop (ck.length + pk.length - pk'.length) = pk := by
      rw [← hlen, Nat.add_sub_cancel]; simp
    simp [e, hne]

/-- the fold over the first-level shown entities (all in table `t1`, `r2` many-to-many from `t1` to `rt ≠ t1`):
links restored for an entity survive the steps of the later ones -/
theorem lk_fold (vt : VTable TKey) (arows : List ARow) (reg : Nat → Nat → Option RelSpec)
    (d r2 t1 rt atb : Nat) (lf : Bool) (hrt : rt ≠ t1) (hreg : reg t1 r2 = some (.m2m rt atb lf))
    (g : FState → VRow TKey → FState)
    (hg : ∀ st w, (g st w).2.2 = (revertF vt arows reg (d + 2) [[r2]] st w).2.2 ∧
      ∀ x ∈ (revertF vt arows reg (d + 2) [[r2]] st w).2.1, x ∈ (g st w).2.1)
    (l : List (VRow TKey)) (ht : ∀ w ∈ l, w.key.1 = t1) (hop : ∀ w ∈ l, w.op ≠ .delete)
    (hnd : (l.map (·.key)).Nodup) (hlen : ∀ w ∈ l, ∀ w' ∈ l, w.key.2.length = w'.key.2.length)
    (st : FState) (hv : ∀ w ∈ l, w.key ∉ st.2.2) :
    (∀ x ∈ st.2.1, (∀ w ∈ l, linkOfParent atb lf w.key.2 x = false) → x ∈ (l.foldl g st).2.1) ∧
    (∀ w ∈ l, ∀ c ∈ shownOf vt arows (.m2m rt atb lf) w,
      (atb, mkLink lf w.key.2 c.key.2) ∈ (l.foldl g st).2.1) := by
  induction l generalizing st with
  | nil => exact ⟨fun x hx _ => hx, fun w hw => absurd hw List.not_mem_nil⟩
  | cons w0 tl ih =>
    rw [List.map_cons, List.nodup_cons] at hnd
    rw [List.foldl_cons]
    have hreg0 : reg w0.key.1 r2 = some (.m2m rt atb lf) := by rw [ht w0 List.mem_cons_self]; exact hreg
    have ⟨s1, s2, s3⟩ := lk_second_call vt arows reg d r2 rt atb lf st w0 hreg0 (hop w0 List.mem_cons_self)
      (hv w0 List.mem_cons_self)
    have ⟨g1, g2⟩ := hg st w0
    have hv' : ∀ w ∈ tl, w.key ∉ (g st w0).2.2 := by
      intro w hw hm
      rw [g1] at hm
      rcases s1 _ hm with h | h | h
      · exact hv w (List.mem_cons_of_mem _ hw) h
      · exact hnd.1 (by rw [← h]; exact List.mem_map_of_mem hw)
      · exact hrt (h.symm.trans (ht w (List.mem_cons_of_mem _ hw)))
    have ⟨a1, a2⟩ := ih (fun w hw => ht w (List.mem_cons_of_mem _ hw)) (fun w hw => hop w (List.mem_cons_of_mem _ hw))
      hnd.2 (fun w hw w' hw' => hlen w (List.mem_cons_of_mem _ hw) w' (List.mem_cons_of_mem _ hw')) (g st w0) hv'
    refine ⟨fun x hx hall => ?_, fun w hw c hc => ?_⟩
    · exact a1 x (g2 x (s3 x hx (hall w0 List.mem_cons_self))) (fun w hw => hall w (List.mem_cons_of_mem _ hw))
    · rcases List.mem_cons.1 hw with rfl | hw
      · refine a1 _ (g2 _ (s2 c hc)) (fun w' hw' => ?_)
        refine lk_linkOfParent_other atb lf w.key.2 w'.key.2 c.key.2
          (hlen w List.mem_cons_self w' (List.mem_cons_of_mem _ hw')) (fun e => hnd.1 ?_)
        have ek : w.key = w'.key :=
          Prod.ext ((ht w List.mem_cons_self).trans (ht w' (List.mem_cons_of_mem _ hw')).symm) e
        rw [ek]
        exact List.mem_map_of_mem hw'
      · exact a2 w hw c hc

/-- **the whole-recursion model restores the second-level links** (corrected statement).  Hypotheses: the target
is not a DELETE version, the version primary key holds, `r1` leads to another table than the target's (`h1`), `r2`
- when many-to-many - leads from the first-level shown entities' table to another table (`h2`), the first-level
shown entities have keys of one length (`hlen`), and nothing is visited at the start. -/
theorem revertF_second_level_links_corrected (vt : VTable TKey) (arows : List ARow) (reg : Nat → Nat → Option RelSpec)
    (d r1 r2 : Nat) (live : Live) (links : List Link) (v : VRow TKey)
    (hop : v.op ≠ .delete) (hpk : PKUnique vt)
    (h1 : ∀ s, reg v.key.1 r1 = some s → specTarget s ≠ v.key.1)
    (h2 : ∀ w ∈ firstShown vt arows reg v r1, ∀ rt atb lf, reg w.key.1 r2 = some (.m2m rt atb lf) → rt ≠ w.key.1)
    (hlen : ∀ w ∈ firstShown vt arows reg v r1, ∀ w' ∈ firstShown vt arows reg v r1,
      w.key.2.length = w'.key.2.length) :
    C05.SecondLevelLinksHold (revertF vt arows reg (d + 3) [[r1, r2]] (live, links, []) v).2.1 vt arows reg v r1 r2 := by
  intro w hw
  unfold firstShown at hw h2 hlen
  cases hs : reg v.key.1 r1 with
  | none => rw [hs] at hw; cases hw
  | some spec =>
    rw [hs] at hw h2 hlen
    dsimp only at hw h2 hlen
    have ht1 := h1 spec hs
    unfold secondLevelOK
    cases hr : reg w.key.1 r2 with
    | none => rfl
    | some s2 =>
      cases s2 with
      | o2m ct fk => rfl
      | m2o pt fk => rfl
      | m2m rt atb lf =>
        dsimp only
        rw [List.all_eq_true]
        intro c hc
        rw [List.contains_iff_mem]
        have hwt : w.key.1 = specTarget spec := (lk_shown_table hw).1
        have hrt : rt ≠ specTarget spec := hwt ▸ h2 w hw rt atb lf hr
        have hreg : reg (specTarget spec) r2 = some (.m2m rt atb lf) := hwt ▸ hr
        -- the fold over the first-level shown entities, for any step that keeps the links of the second-level call
        have key : ∀ (g : FState → VRow TKey → FState)
            (_ : ∀ st w, (g st w).2.2 = (revertF vt arows reg (d + 2) [[r2]] st w).2.2 ∧
              ∀ x ∈ (revertF vt arows reg (d + 2) [[r2]] st w).2.1, x ∈ (g st w).2.1)
            (st : FState) (_ : st.2.2 = [v.key]),
            (atb, mkLink lf w.key.2 c.key.2) ∈ ((shownOf vt arows spec v).foldl g st).2.1 := by
          intro g hg st hst
          refine (lk_fold vt arows reg d r2 (specTarget spec) rt atb lf hrt hreg g hg (shownOf vt arows spec v)
            (fun w hw => (lk_shown_table hw).1) (fun w hw => (lk_shown_table hw).2)
            (lk_shown_nodup hpk arows spec v) hlen st ?_).2 w hw c hc
          intro w' hw' hm
          rw [hst, List.mem_singleton] at hm
          exact ht1 (by rw [← (lk_shown_table hw').1, hm])
        rw [revertF_succ vt arows reg (d + 2)]
        have hvis : ¬ (([] : List TKey).contains v.key = true) := by simp
        rw [if_neg hvis, if_neg hop, lk_firstLevel_two, List.foldl_cons, List.foldl_nil, List.nil_append]
        show _ ∈ (relStepF vt arows reg (d + 2) [[r1, r2]] v (liveSet live v.key v.vals, links, [v.key]) r1).2.1
        cases spec with
        | o2m ct fk =>
          rw [br_relStepF_o2m vt arows reg (d + 2) [[r1, r2]] v _ r1 ct fk hs, lk_subPaths_two]
          exact key (fun st c => revertF vt arows reg (d + 2) [[r2]] st c) (fun _ _ => ⟨rfl, fun _ hx => hx⟩) _ rfl
        | m2o pt fk =>
          rw [br_relStepF_m2o vt arows reg (d + 2) [[r1, r2]] v _ r1 pt fk hs, lk_subPaths_two]
          exact key (fun st c => revertF vt arows reg (d + 2) [[r2]] st c) (fun _ _ => ⟨rfl, fun _ hx => hx⟩) _ rfl
        | m2m rt1 atb1 lf1 =>
          rw [br_relStepF_m2m vt arows reg (d + 2) [[r1, r2]] v _ r1 rt1 atb1 lf1 hs, lk_subPaths_two]
          refine key (m2mStepF vt arows reg (d + 2) [[r2]] atb1 lf1 v.key.2) (fun st c => ⟨rfl, fun x hx => ?_⟩) _ rfl
          unfold m2mStepF
          dsimp only
          rw [br_mem_addLink]
          exact Or.inl hx

/-! ## the statement without the extra hypotheses is false

Table `0`: the target `[1]`; `r1 = 0` is a self-referential many-to-many relationship (association table `0`) and the
target is linked with itself; `r2 = 1` is many-to-many to table `1` (association table `1`), the target shows
`[7]`.  The target is visited when it is reached at the second level: the link `[1, 7]` is not restored. -/

def lkCexV : VRow TKey := { key := (0, [1]), tx := 1, endTx := none, op := .insert, vals := [some 5], mods := [] }

def lkCexVt : VTable TKey :=
  [lkCexV, { key := (1, [7]), tx := 1, endTx := none, op := .insert, vals := [some 1], mods := [] }]

def lkCexArows : List ARow :=
  [{ tbl := 0, link := [1, 1], tx := 1, op := .insert }, { tbl := 1, link := [1, 7], tx := 1, op := .insert }]

def lkCexReg : Nat → Nat → Option RelSpec := fun t r =>
  if t = 0 ∧ r = 0 then some (.m2m 0 0 true) else if t = 0 ∧ r = 1 then some (.m2m 1 1 true) else none

theorem lk_cex :
    PKUnique lkCexVt ∧ lkCexV.op ≠ .delete ∧
    ¬ C05.SecondLevelLinksHold (revertF lkCexVt lkCexArows lkCexReg 3 [[0, 1]] ([], [], []) lkCexV).2.1
        lkCexVt lkCexArows lkCexReg lkCexV 0 1 := by
  decide

/- OLD STATEMENT (false):
theorem revertF_second_level_links (vt : VTable TKey) (arows : List ARow) (reg : Nat → Nat → Option RelSpec)
    (d r1 r2 : Nat) (live : Live) (links : List Link) (v : VRow TKey)
    (hop : v.op ≠ .delete) (hpk : PKUnique vt) :
    C05.SecondLevelLinksHold (revertF vt arows reg (d + 3) [[r1, r2]] (live, links, []) v).2.1 vt arows reg v r1 r2
-/
theorem revertF_second_level_links_old_false :
    ¬ (∀ (vt : VTable TKey) (arows : List ARow) (reg : Nat → Nat → Option RelSpec)
        (d r1 r2 : Nat) (live : Live) (links : List Link) (v : VRow TKey),
        v.op ≠ .delete → PKUnique vt →
        C05.SecondLevelLinksHold (revertF vt arows reg (d + 3) [[r1, r2]] (live, links, []) v).2.1
          vt arows reg v r1 r2) := by
  intro h
  exact lk_cex.2.2 (h lkCexVt lkCexArows lkCexReg 0 0 1 [] [] lkCexV lk_cex.2.1 lk_cex.1)

/-- non-vacuity of the corrected statement: two articles `[7]`, `[8]` of table `1` shown by the tag `[1]`, each showing
tags of table `2`; hypotheses hold and the conclusion is checked by evaluation -/
example :
    let reg : Nat → Nat → Option RelSpec := fun t r =>
      if t = 0 ∧ r = 0 then some (.m2m 1 0 true) else if t = 1 ∧ r = 1 then some (.m2m 2 1 true) else none
    let vt : VTable TKey :=
      [lkCexV,
       { key := (1, [7]), tx := 1, endTx := none, op := .insert, vals := [some 1], mods := [] },
       { key := (1, [8]), tx := 1, endTx := none, op := .insert, vals := [some 2], mods := [] },
       { key := (2, [3]), tx := 1, endTx := none, op := .insert, vals := [some 3], mods := [] }]
    let arows : List ARow :=
      [{ tbl := 0, link := [1, 7], tx := 1, op := .insert }, { tbl := 0, link := [1, 8], tx := 1, op := .insert },
       { tbl := 1, link := [7, 3], tx := 1, op := .insert }, { tbl := 1, link := [8, 3], tx := 1, op := .insert }]
    PKUnique vt ∧ (firstShown vt arows reg lkCexV 0).map (·.key) = [(1, [7]), (1, [8])] ∧
    (revertF vt arows reg 3 [[0, 1]] ([], [], []) lkCexV).2.1 = [(1, [7, 3]), (0, [1, 7]), (1, [8, 3]), (0, [1, 8])] := by
  decide

end Continuum
