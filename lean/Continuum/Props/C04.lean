import Continuum.Rel
import Continuum.Lemmas.UowInv
import Continuum.Lemmas.AsOf
import Continuum.Lemmas.Versions
import Continuum.Lemmas.RelLemmas

/-!
# C04 — relationships of a version show the related entities as of that moment

Two layers.

1. Algebra of the three temporal join criteria (`relationship_builder.py`), for every content of
   the version tables satisfying the version primary key: the query yields exactly, for each
   related entity, its newest version at or before the owner's transaction, never a deleted one
   (`c04_m2o`, `c04_o2m`, `c04_m2m`).
2. What an id shows never changes afterwards (`c04_stable_step`, `c04_stable_run`): once a
   transaction `x` is committed, `lastTx · k x` and the operation / values found there are the
   same in every later state of every well-formed history.  Together with C01 (at the commit of
   `x` the newest version of every live entity equals its live row, removed entities show a
   DELETE) this identifies the answer of layer 1 with the entities related at the end of
   transaction `x`.
-/

namespace Continuum

theorem c04_m2o (remote : VTable Key) (hpk : PKUnique remote) (fk : Option Key) (T : Nat) :
    C04.M2OHolds remote fk T ((manyToOne remote fk T).map (fun r => (r.key, r.tx))) := by
  unfold C04.M2OHolds
  rw [manyToOne_eq hpk]

theorem c04_o2m (remote : VTable Key) (hpk : PKUnique remote) (fkIdx : Nat) (pk : Key) (T : Nat) :
    C04.O2MHolds remote fkIdx pk T ((oneToMany remote fkIdx pk T).map (fun r => (r.key, r.tx))) := by
  have h := toMany_holds hpk T (fun r => fkOf fkIdx r == some pk)
  simp only [beq_iff_eq] at h
  exact h

theorem c04_m2m (remote : VTable Key) (assoc : List ARow) (hpk : PKUnique remote) (tbl : Nat)
    (localFirst : Bool) (pk : Key) (T : Nat) :
    C04.M2MHolds remote assoc tbl localFirst pk T
      ((manyToMany remote assoc tbl localFirst pk T).map (fun r => (r.key, r.tx))) := by
  exact toMany_holds hpk T (fun r => linkedAsOf assoc tbl (mkLink localFirst pk r.key) T)

/-- one well-formed event never changes what a committed id shows -/
theorem c04_stable_step (cfg : Cfg) (s : St) (e : Ev) (hinv : Inv cfg s) (hok : EvOK cfg s e)
    (k : TKey) (x : Nat) (hx : x ∈ s.committed.txs) :
    lastTx (step cfg s e).db.versions k x = lastTx s.db.versions k x ∧
    asOfData (step cfg s e).db.versions k x = asOfData s.db.versions k x := by
  rcases step_frame cfg s e hok with rfl | rfl | rfl | ⟨hv, _, _⟩
  · cases hcur : s.uowD.cur with
    | none => rw [step_afterFlush_none hcur]; exact ⟨rfl, rfl⟩
    | some T =>
      obtain ⟨hv, _⟩ := step_afterFlush_some (cfg := cfg) hcur
      rw [hv]
      exact processOps_past hinv.db.pk k x (committed_lt_cur hinv hx hcur)
  · exact ⟨rfl, rfl⟩
  · exact rollback_past hinv k x hx
  · rw [hv]; exact ⟨rfl, rfl⟩

/-- ... nor does any well-formed continuation of the history -/
theorem c04_stable_run (cfg : Cfg) (s : St) (evs : List Ev) (hinv : Inv cfg s) (hwf : WF cfg s evs)
    (k : TKey) (x : Nat) (hx : x ∈ s.committed.txs) :
    lastTx (run cfg s evs).db.versions k x = lastTx s.db.versions k x ∧
    asOfData (run cfg s evs).db.versions k x = asOfData s.db.versions k x := by
  induction evs generalizing s with
  | nil => exact ⟨rfl, rfl⟩
  | cons e es ih =>
    rw [run_cons]
    obtain ⟨h1, h2⟩ := ih (step cfg s e) (inv_step_aux cfg s e hinv hwf.1) hwf.2 (committed_txs_step hinv hwf.1 hx)
    obtain ⟨h3, h4⟩ := c04_stable_step cfg s e hinv hwf.1 k x hx
    exact ⟨h1.trans h3, h2.trans h4⟩

/-- the same for association rows: what the link history shows at a committed id is final -/
theorem c04_links_stable_step (cfg : Cfg) (s : St) (e : Ev) (hinv : Inv cfg s) (hok : EvOK cfg s e)
    (tbl : Nat) (link : List Int) (x : Nat) (hx : x ∈ s.committed.txs)
    (hgrow : ∀ a ∈ s.committed.assoc, a ∈ s.db.assoc) :
    (∀ a ∈ (step cfg s e).committed.assoc, a ∈ (step cfg s e).db.assoc) ∧
    linkedAsOf (step cfg s e).db.assoc tbl link x = linkedAsOf s.db.assoc tbl link x := by
  rcases step_frame cfg s e hok with rfl | rfl | rfl | ⟨_, ha, hc⟩
  · cases hcur : s.uowD.cur with
    | none => rw [step_afterFlush_none hcur]; exact ⟨hgrow, rfl⟩
    | some T =>
      obtain ⟨_, ha, _, hc, _⟩ := step_afterFlush_some (cfg := cfg) hcur
      rw [ha, hc]
      have hlt := committed_lt_cur hinv hx hcur
      refine ⟨fun a h => mem_addAssoc_of_mem a (hgrow a h) ?_, linkedAsOf_congr ?_⟩
      · have := committed_lt_cur hinv (hinv.committed.atxs_in a h) hcur
        omega
      intro a hle
      constructor
      · intro h
        rcases mem_addAssoc a h with h | h
        · exact h
        · omega
      · exact fun h => mem_addAssoc_of_mem a h (by omega)
  · exact ⟨fun a h => h, rfl⟩
  · refine ⟨fun a h => h, linkedAsOf_congr ?_⟩
    intro a hle
    constructor
    · exact hgrow a
    · intro h
      rcases hinv.assoc_old_or_cur a h with h | h
      · exact h
      · have := committed_lt_cur hinv hx h
        omega
  · rw [ha, hc]; exact ⟨hgrow, rfl⟩

end Continuum
