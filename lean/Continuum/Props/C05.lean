import Continuum.Revert
import Continuum.Lemmas.LiveLemmas

/-!
# C05 — reverting to a version restores exactly the state that version recorded (row level)

The theorems are about the row-level model of the reverter (`Revert.lean`): what the entity and
its first-level relationships look like after `revert()` + commit.  That the revert is itself
versioned like any other change is `history_all` (the revert's flush is an ordinary event list).
Nested / cyclic relation paths are covered by the correspondence runs only.
-/

namespace Continuum

theorem c05_target (live : Live) (v : VRow TKey) : C05.TargetHolds (revertTarget live v) v := by
  unfold C05.TargetHolds revertTarget
  by_cases h : v.op = .delete
  · rw [if_pos h, if_pos h]; exact lget_del_self live v.key
  · rw [if_neg h, if_neg h]; exact lget_set_self live v.key v.vals

/-- reverting a DELETE version leaves the entity absent — also when it is absent already -/
theorem c05_delete_target (live : Live) (v : VRow TKey) (h : v.op = .delete) :
    liveGet (revertTarget live v) v.key = none := by
  unfold revertTarget
  rw [if_pos h]; exact lget_del_self live v.key

/-- nothing but the target row is touched when no relationship is named -/
theorem c05_target_frame (live : Live) (v : VRow TKey) (hnd : (live.map (·.1)).Nodup) :
    C05.FrameHolds live (revertTarget live v) [v.key] := by
  have hget : ∀ k : TKey, k ∉ [v.key] → liveGet (revertTarget live v) k = liveGet live k := by
    intro k hk
    have hne : k ≠ v.key := fun e => hk (by rw [e]; exact List.mem_cons_self)
    unfold revertTarget
    split
    · exact lget_del_ne live v.key hne
    · exact lget_set_ne live v.key v.vals hne
  have hnd' : ((revertTarget live v).map (·.1)).Nodup := by
    unfold revertTarget
    split
    · exact lnodup_del _ hnd
    · exact lnodup_set _ _ hnd
  refine ⟨fun p hp ht => ?_, fun p hp ht => ?_⟩
  · rw [hget _ ht]; exact lget_of_mem hnd hp
  · rw [← hget _ ht]; exact lget_of_mem hnd' hp

/- `hl` is not needed for this statement (`liveSet` / `liveDel` drop every row with the key); it is
kept so that the signature matches the other C05 theorems -/
set_option linter.unusedVariables false in
theorem c05_o2m (live : Live) (ct fkIdx : Nat) (pk : List Int) (shown : List (VRow Key))
    (hnd : (shown.map (·.key)).Nodup) (hl : (live.map (·.1)).Nodup) :
    C05.O2MHolds (revertO2M live ct fkIdx pk shown) ct fkIdx pk shown := by
  rw [revertO2M_eq]
  refine ⟨fun r hr => lget_setFold_of_mem ct shown _ hnd hr, fun k hk => ?_⟩
  rcases mem_liveChildren.1 hk with ⟨p, hp, hc, rfl⟩
  rcases lmem_setFold hp with h1 | h1
  · exact h1
  · have ⟨h2, h3⟩ := lmem_delFold h1
    exact h3 (mem_liveChildren.2 ⟨p, h2, hc, rfl⟩)

/-- children that are neither related now nor shown by the version are untouched -/
theorem c05_o2m_frame (live : Live) (ct fkIdx : Nat) (pk : List Int) (shown : List (VRow Key))
    (hl : (live.map (·.1)).Nodup) :
    C05.FrameHolds live (revertO2M live ct fkIdx pk shown)
      (liveChildren live ct fkIdx pk ++ shown.map (fun r => (ct, r.key))) := by
  rw [revertO2M_eq]
  refine ⟨fun p hp ht => ?_, fun p hp ht => ?_⟩
  · rw [List.mem_append, not_or] at ht
    rw [lget_setFold_of_not_mem _ _ _ ht.2, lget_delFold_of_not_mem _ _ _ ht.1]
    exact lget_of_mem hl hp
  · rw [List.mem_append, not_or] at ht
    rcases lmem_setFold hp with h1 | h1
    · exact absurd h1 ht.2
    · exact lget_of_mem hl (lmem_delFold h1).1

/-- non-vacuity / example: children removed since come back, children added since go away -/
example :
    let live : Live := [((0, [1]), [some 5]), ((1, [7]), [some 1, some 1]), ((1, [8]), [some 2, some 1])]
    let shown : List (VRow Key) := [{ key := [9], tx := 1, endTx := none, op := .insert, vals := [some 3, some 1], mods := [] },
                                    { key := [7], tx := 1, endTx := none, op := .insert, vals := [some 0, some 1], mods := [] }]
    revertO2M live 1 1 [1] shown =
      [((1, [7]), [some 0, some 1]), ((1, [9]), [some 3, some 1]), ((0, [1]), [some 5])] := by
  decide

end Continuum
