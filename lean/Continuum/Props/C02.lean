import Continuum.Lemmas.UowInvDef
import Continuum.Lemmas.Chain
import Continuum.Lemmas.AsOf
import Continuum.Lemmas.UowInv

/-!
# C02 — one transaction record groups a commit; ids never dangle or leak
# C03 — validity intervals form one gap-free, open-ended chain (history level)
# C06 (database half) — a rolled-back transaction leaves no row
# C11 (first clause) — at most one version row per entity and transaction

All by one induction over the event trace: `Inv` holds initially and is preserved by every
well-formed event.
-/

namespace Continuum

theorem inv_init (cfg : Cfg) : Inv cfg {} := by
  refine ⟨⟨?_, ?_, ?_, ?_⟩, ⟨?_, ?_, ?_, ?_⟩, ?_, ?_, ?_, ?_, ?_, ?_⟩
  · intro r hr; cases hr
  · intro a ha; cases ha
  · exact List.Pairwise.nil
  · intro _ r hr; cases hr
  · intro r hr; cases hr
  · intro a ha; cases ha
  · exact List.Pairwise.nil
  · intro _ r hr; cases hr
  · intro T hT; cases hT
  · intro x hx; cases hx
  · intro x hx; cases hx
  · intro r hr; cases hr
  · intro a ha; cases ha
  · intro r hr; cases hr

/-- one well-formed event preserves the invariant -/
theorem inv_step (cfg : Cfg) (s : St) (e : Ev) (h : Inv cfg s) (hok : EvOK cfg s e) :
    Inv cfg (step cfg s e) := by
  exact inv_step_aux cfg s e h hok

/-- every state reachable by a well-formed trace satisfies the invariant -/
theorem inv_run (cfg : Cfg) (s : St) (evs : List Ev) (h : Inv cfg s) (hwf : WF cfg s evs) :
    Inv cfg (run cfg s evs) := by
  induction evs generalizing s with
  | nil => exact h
  | cons e es ih => exact ih (step cfg s e) (inv_step cfg s e h hwf.1) hwf.2

theorem wf_append (cfg : Cfg) (s : St) (a b : List Ev) :
    WF cfg s (a ++ b) ↔ WF cfg s a ∧ WF cfg (run cfg s a) b := by
  induction a generalizing s with
  | nil => simp [WF, run]
  | cons e es ih =>
    simp only [List.cons_append, WF, run_cons, ih, and_assoc]

/-- **C03**: after every event of every well-formed trace from the empty database (any number of
transactions, flushes, entities, tables of a joined hierarchy, deletes and re-inserts), under the
validity strategy every version table carries a well-formed chain. -/
theorem c03_chain (cfg : Cfg) (evs : List Ev) (hwf : WF cfg {} evs) :
    C03.Holds cfg (run cfg {} evs).db.versions := by
  exact (inv_run cfg {} evs (inv_init cfg) hwf).db.chain

/-- **C11, first clause / C08 hypothesis**: the version primary key holds in every reachable state -/
theorem c11_pk_unique (cfg : Cfg) (evs : List Ev) (hwf : WF cfg {} evs) :
    PKUnique (run cfg {} evs).db.versions := by
  exact (inv_run cfg {} evs (inv_init cfg) hwf).db.pk

/-- **C02** for the segment the model produces from any boundary state satisfying the invariant -/
theorem c02_holds (cfg : Cfg) (s : St) (evs : List Ev) (hb : Boundary s) (hinv : Inv cfg s)
    (hne : ∀ e ∈ evs, e.isEnd = false) (hwf : WF cfg s (evs ++ [.commit])) :
    C02.Holds cfg (modelSeg cfg s evs .commit) := by
  obtain ⟨huow, _, hbv, hba, hbt, _, _⟩ := hb
  obtain ⟨hwf1, _⟩ := (wf_append cfg s evs [.commit]).1 hwf
  obtain ⟨h1, hone⟩ := inv_newOne_run hinv (newOne_of_eq hbt) hwf1
  have hcm : (run cfg s evs).committed = s.committed := run_committed hne
  -- the segment, field by field
  have hbefore : (modelSeg cfg s evs .commit).before.db = s.db := rfl
  have hafter : (modelSeg cfg s evs .commit).after.db = (run cfg s evs).db := rfl
  have hevs : (modelSeg cfg s evs .commit).evs = evs := rfl
  have hnew : newIds (modelSeg cfg s evs .commit) =
      (run cfg s evs).db.txs.filter (fun x => !(run cfg s evs).committed.txs.contains x) := by
    unfold newIds; rw [hbefore, hafter, hcm, hbt]
  have hmem : ∀ n, n ∈ newIds (modelSeg cfg s evs .commit) ↔
      n ∈ (run cfg s evs).db.txs ∧ n ∉ (run cfg s evs).committed.txs := by
    intro n; rw [hnew]; simp
  have hcur : ∀ n ∈ newIds (modelSeg cfg s evs .commit), (run cfg s evs).uowD.cur = some n :=
    fun n hn => h1.fresh n ((hmem n).1 hn).1 ((hmem n).1 hn).2
  have hcur' : ∀ n, (run cfg s evs).uowD.cur = some n → n ∈ newIds (modelSeg cfg s evs .commit) :=
    fun n hn => (hmem n).2 ⟨(h1.cur_in n hn).1, (h1.cur_in n hn).2.2⟩
  intro _
  rw [hbefore, hafter, hevs]
  refine ⟨?_, ?_, ?_, ?_, ?_, ?_, ?_, ?_⟩
  · intro x hx
    apply h1.grow
    rw [hcm, ← hbt]; exact hx
  · rw [hnew]; exact hone
  · intro n hn x hx
    have hc := hcur n hn
    obtain ⟨_, hmax, hnc⟩ := h1.cur_in n hc
    have hxc : x ∈ (run cfg s evs).committed.txs := by rw [hcm, ← hbt]; exact hx
    have hle := hmax x (h1.grow x hxc)
    have hneq : x ≠ n := fun heq => hnc (heq ▸ hxc)
    omega
  · intro r hr
    rcases h1.rows_old_or_cur r hr with ⟨r', hr', hk, ht⟩ | hc
    · right
      rw [hcm, ← hbv] at hr'
      exact ⟨r', hr', hk, ht⟩
    · exact Or.inl (hcur' _ hc)
  · intro a ha
    rcases h1.assoc_old_or_cur a ha with hc | hc
    · right
      rw [hcm, ← hba] at hc
      exact hc
    · exact Or.inl (hcur' _ hc)
  · exact h1.db.txs_in
  · exact h1.db.atxs_in
  · intro hnil
    obtain ⟨n, hn⟩ := List.exists_mem_of_ne_nil _ hnil
    have hc := hcur n hn
    have hsome : (run cfg s evs).uowD.cur.isSome = true := by rw [hc]; rfl
    rcases run_cur_cause_corrected (wf_no_spRollback hwf1) hsome with h2 | h2
    · have : s.uowD.cur = none := by unfold St.uowD; rw [huow]; rfl
      rw [this] at h2; cases h2
    · exact h2

/-- **C06, database half**: whatever happened (any prefix of any flush), after `rollback` the
tables are those of the last commit -/
theorem c06_db_holds (cfg : Cfg) (s : St) (evs : List Ev) (hb : Boundary s)
    (hne : ∀ e ∈ evs, e.isEnd = false) :
    C06.DbHolds (modelSeg cfg s evs .rollback) := by
  obtain ⟨_, _, hbv, hba, hbt, hbc, _⟩ := hb
  have hcm : (run cfg s evs).committed = s.committed := run_committed hne
  have hbefore : (modelSeg cfg s evs .rollback).before.db = s.db := rfl
  have hafter : (modelSeg cfg s evs .rollback).after.db = s.committed := by
    rw [← hcm]; rfl
  intro _
  rw [hbefore, hafter, hbv, hba, hbt, hbc]
  exact ⟨⟨fun _ h => h, fun _ h => h⟩, ⟨fun _ h => h, fun _ h => h⟩,
    ⟨fun _ h => h, fun _ h => h⟩, ⟨fun _ h => h, fun _ h => h⟩⟩

/-- a boundary state is reached after every commit and every rollback -/
theorem boundary_after_end (cfg : Cfg) (s : St) (oc : Outcome) :
    Boundary (step cfg s (endEv oc)) := by
  cases oc <;> exact ⟨rfl, rfl, rfl, rfl, rfl, rfl, rfl⟩

end Continuum
