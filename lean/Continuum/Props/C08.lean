import Continuum.Spec.Tables
import Continuum.Lemmas.Chain
import Continuum.Lemmas.Versions

/-!
# C08 — versions / previous / next / index describe one consistent ordering

For every table satisfying the version table's primary key, every entity `k` (any key type,
composite included; other entities' rows are in `t` throughout) the answers of the four
accessors (as modelled in `Temporal.lean`) satisfy `C08.Holds`; under the validity strategy the
table must additionally carry a well-formed validity chain (C03 establishes that for every table
the unit of work writes; C16 for every table the backfill tool produces).
-/

namespace Continuum
variable {K : Type} [DecidableEq K]

theorem c08_subquery (t : VTable K) (hpk : PKUnique t) (k : K) :
    C08.Holds t k (modelAnswers .subquery t k) := by
  have hkey : ∀ {i : Nat} (hi : i < (versionsOf t k).length), ((versionsOf t k)[i]).key = k :=
    fun hi => (mem_versionsOf.1 (List.getElem_mem hi)).2
  show C08.Holds t k ⟨txsOf t k, _, _, _⟩
  refine ⟨txsOf_strict hpk k, fun x hx => mem_txsOf.1 hx,
    fun r hr hk => mem_txsOf.2 ⟨r, hr, hk, rfl⟩, ?_, ?_, ?_⟩
  · apply List.ext_getElem
    · simp [length_txsOf]
    · intro i h1 h2
      have hi : i < (versionsOf t k).length := by simpa using h1
      simp only [List.getElem_map, List.getElem_range]
      rw [← getElem_txsOf hi]
      exact indexOf_txsOf hpk k _
  · apply List.ext_getElem
    · simp [length_txsOf]
    · intro i h1 h2
      have hi : i < (versionsOf t k).length := by simpa using h1
      simp only [List.getElem_map, List.getElem_range, nextOf]
      rw [nextSub_map_tx, hkey hi, ← getElem_txsOf hi]
      exact nextTx_txsOf hpk k _
  · apply List.ext_getElem
    · simp [length_txsOf]
    · intro i h1 h2
      have hi : i < (versionsOf t k).length := by simpa using h1
      simp only [List.getElem_map, List.getElem_range, prevOf]
      rw [prevSub_map_tx, hkey hi, ← getElem_txsOf hi]
      exact prevTx_txsOf hpk k _

theorem c08_validity (t : VTable K) (hpk : PKUnique t) (hc : Chain t) (k : K) :
    C08.Holds t k (modelAnswers .validity t k) := by
  have heq : modelAnswers .validity t k = modelAnswers .subquery t k := by
    unfold modelAnswers
    simp only [nextOf, prevOf, Answers.mk.injEq, true_and]
    constructor
    · apply List.map_congr_left
      intro v hv
      rw [nextVal_eq_nextSub hc (mem_versionsOf.1 hv).1]
    · apply List.map_congr_left
      intro v hv
      rw [prevVal_eq_prevSub hc (mem_versionsOf.1 hv).1]
  rw [heq]
  exact c08_subquery t hpk k

/-- under a well-formed chain both strategies navigate identically -/
theorem c08_strategies_agree (t : VTable K) (hpk : PKUnique t) (hc : Chain t) (v : VRow K)
    (hv : v ∈ t) : nextVal t v = nextSub t v ∧ prevVal t v = prevSub t v :=
  -- (the primary key is not needed for this direction; `hpk` is kept for a uniform interface)
  have _ := hpk
  ⟨nextVal_eq_nextSub hc hv, prevVal_eq_prevSub hc hv⟩

/-- The defect F-IDX, formally: without the key filter the index counts other entities' rows. -/
theorem c08_index_no_key_filter_counterexample :
    let t : VTable Nat := [⟨1, 1, none, .insert, [], []⟩, ⟨2, 1, none, .insert, [], []⟩,
                           ⟨1, 2, none, .update, [], []⟩]
    PKUnique t ∧ indexOfNoKeyFilter t 1 2 = 2 ∧ indexOf t 1 2 = 1 := by
  decide

/-- non-vacuity: a concrete interleaved two-entity table with a re-created key satisfies the
hypotheses of both theorems -/
example :
    let t : VTable (List Int) :=
      [⟨[1, 1], 1, some 3, .insert, [some 5], []⟩, ⟨[1, 2], 1, some 2, .insert, [none], []⟩,
       ⟨[1, 2], 2, none, .delete, [none], []⟩, ⟨[1, 1], 3, some 4, .delete, [some 5], []⟩,
       ⟨[1, 1], 4, none, .insert, [some 6], []⟩]
    PKUnique t ∧ Chain t ∧ (modelAnswers .validity t [1, 1]).vs = [1, 3, 4] := by
  refine ⟨by decide, by decide, ?_⟩
  -- `mergeSort` is defined by well-founded recursion; the entity's rows are already in order
  show (versionsOf _ _).map (·.tx) = _
  unfold versionsOf
  rw [List.mergeSort_of_pairwise (by decide)]
  decide

end Continuum
