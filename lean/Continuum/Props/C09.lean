import Continuum.Mgr
import Continuum.Lemmas.UowInv
import Continuum.Lemmas.MgrLemmas

/-!
# C09 — interleaved sessions never mix or leak unit-of-work state

For ANY number of sessions, each on a connection of its own, and ANY interleaving of their event
streams (by induction over the interleaved list): what the manager holds for connection `c` after
the interleaved run is exactly what the solo run of `c`'s own events produces (`c09_projection`);
an event of one connection changes nothing of another open connection (`c09_frame`); and when
every connection's last event ended its transaction, no unit of work and no session registration
is left (`c09_quiescent`).
-/

namespace Continuum

theorem c09_frame (cfg : Cfg) (m : Mgr) (sess conn : Nat) (e : Ev) (c' : Nat) (hne : c' ≠ conn)
    (hopen : c' ∉ m.closed)
    (hreg : ∀ p ∈ m.scm, p.1 = sess → p.2 = conn) :
    (mgrStep cfg m (.ev sess conn e)).get c' = m.get c' := by
  have hother : ∀ m1 : Mgr, m1.conns = m.conns →
      (m1.set conn (step cfg (m1.get conn) e)).get c' = m.get c' := by
    intro m1 h1
    rw [Mgr.get_set_other _ _ _ _ hne]; exact Mgr.get_congr_conns h1 c'
  have hreg1 : ∀ m1 : Mgr, (if e.needsUow then m.register sess conn else m) = m1 →
      m1.conns = m.conns := by
    intro m1 h; subst h; split
    · exact Mgr.register_conns _ _ _
    · rfl
  have key : ∀ e' : Ev, Mgr.get (match m.scm.find? (fun p => p.1 = sess) with
      | none => m.set conn { (step cfg (m.get conn) e') with uow := (m.get conn).uow }
      | some p =>
        let m1 : Mgr := { m with scm := m.scm.filter (fun q => q.1 ≠ sess) }
        let m2 := if p.2 = conn then m1.set conn (step cfg (m.get conn) e')
                  else (m1.set conn { (step cfg (m.get conn) e') with uow := (m.get conn).uow }).set p.2
                    { (m1.get p.2) with uow := none }
        m2.sweepClosed) c' = m.get c' := by
    intro e'
    cases hf : m.scm.find? (fun p => p.1 = sess) with
    | none => exact Mgr.get_set_other _ _ _ _ hne
    | some p =>
      have hp := List.mem_of_find?_eq_some hf
      have hp1 : p.1 = sess := by simpa using List.find?_some hf
      have hp2 : p.2 = conn := hreg p hp hp1
      simp only [hp2, if_true]
      rw [Mgr.get_sweepClosed _ _ (by exact hopen), Mgr.get_set_other _ _ _ _ hne]
      rfl
  cases e with
  | commit => exact key _
  | rollback => exact key _
  | _ => exact hother _ (hreg1 _ rfl)

theorem c09_projection (cfg : Cfg) (evs : List MEv) (h : OwnConn evs) (c : Nat) :
    (mgrRun cfg {} evs).get c = run cfg {} (projConn c evs) :=
  projection_gen cfg c evs {} MInv.init (MGood.of_ownConn h)

/-- registrations and units of work exist only for connections whose transaction is still open -/
theorem c09_quiescent (cfg : Cfg) (evs : List MEv) (h : OwnConn evs)
    (hend : ∀ c, ∀ e ∈ (projConn c evs).getLast?.toList, e.isEnd = true) :
    (mgrRun cfg {} evs).liveUows = [] ∧ (mgrRun cfg {} evs).scm = [] := by
  have hinv : MInv (mgrRun cfg {} evs) := mgrRun_inv cfg evs {} MInv.init (MGood.of_ownConn h)
  have hnoreg : ∀ c, ¬ Reg (mgrRun cfg {} evs) c := by
    intro c hr
    rcases quiescent_gen cfg c evs {} MInv.init (MGood.of_ownConn h) hr with ⟨e, he, hne⟩ | ⟨_, s, hs⟩
    · have := hend c e (by simpa using he)
      rw [this] at hne; cases hne
    · cases hs
  have hscm : (mgrRun cfg {} evs).scm = [] := by
    cases hs : (mgrRun cfg {} evs).scm with
    | nil => rfl
    | cons p tl => exact absurd ⟨p.1, by rw [hs]; exact List.mem_cons_self⟩ (hnoreg p.2)
  refine ⟨?_, hscm⟩
  unfold Mgr.liveUows
  rw [List.map_eq_nil_iff, List.filter_eq_nil_iff]
  intro p hp hu
  obtain ⟨s, hs⟩ := hinv.reg p hp hu
  rw [hscm] at hs; cases hs

/-- What goes wrong without `OwnConn`: two sessions sharing one connection — the second session
is never registered, so its commit does not clear the unit of work (the current transaction of
session 1 leaks into the next transaction). -/
theorem c09_shared_connection_counterexample :
    let cls : ClassCfg :=
      { versioned := true, ncols := 1, excl := [false], incl := [false], rels := [],
        tables := [(0, [some 0])] }
    let cfg : Cfg := { classes := [cls] }
    let view : ObjView :=
      { cls := 0, isNew := true, isDeleted := false, colChanged := [true], relChanged := [] }
    let evs : List MEv :=
      [.ev 1 0 (.beforeFlush [] 0 false), .ev 1 0 .afterFlush,
       .ev 2 0 (.beforeFlush [view] 1 false), .ev 2 0 (.ins 0 [1] [some 5] [true]), .ev 2 0 .afterFlush,
       .ev 2 0 .commit]
    ((mgrRun cfg {} evs).get 0).uowD.cur = some 1 := by
  decide

end Continuum
