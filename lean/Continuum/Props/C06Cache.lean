import Continuum.Props.C06
import Continuum.Lemmas.LinkLemmas

/-!
# C06, continued — the version-object cache is bookkeeping only

`Uow.vobjs` (the keys of `UnitOfWork.version_objs`) is written by `afterFlush` and emptied by a
savepoint rollback, and nothing ever reads it: two states that agree on everything except the cache
(of the unit of work and of what the open savepoints remember) stay so under every event
(`step_sameButCache`, `run_sameButCache`).  With `c06_savepoint_rolled_back` this gives
`sp_bracket_erase`: a rolled-back savepoint bracket can be erased from a history, and every
continuation writes exactly the same tables.
-/

namespace Continuum

/-- equal except for the version-object cache (and the flag that says it was emptied) -/
def sameButCache (a b : St) : Prop :=
  a.db = b.db ∧ a.committed = b.committed ∧ a.err = b.err ∧
  a.uow.map (fun u => (u.cur, u.ops, u.pending)) = b.uow.map (fun u => (u.cur, u.ops, u.pending)) ∧
  a.sps.map (fun p => (p.1, p.2.map (fun u => (u.cur, u.ops, u.pending)))) = b.sps.map (fun p => (p.1, p.2.map (fun u => (u.cur, u.ops, u.pending))))

/-- the shape of two states that are equal except for the cache -/
theorem sp_same_cases {a b : St} (h : sameButCache a b) :
    (∃ db c err sa sb, a = ⟨db, c, none, sa, err⟩ ∧ b = ⟨db, c, none, sb, err⟩ ∧
      sa.map (fun p => (p.1, p.2.map (fun u => (u.cur, u.ops, u.pending)))) = sb.map (fun p => (p.1, p.2.map (fun u => (u.cur, u.ops, u.pending))))) ∨
    (∃ db c err sa sb cur ops pend va vb la lb, a = ⟨db, c, some ⟨cur, ops, va, pend, la⟩, sa, err⟩ ∧
      b = ⟨db, c, some ⟨cur, ops, vb, pend, lb⟩, sb, err⟩ ∧
      sa.map (fun p => (p.1, p.2.map (fun u => (u.cur, u.ops, u.pending)))) = sb.map (fun p => (p.1, p.2.map (fun u => (u.cur, u.ops, u.pending))))) := by
  obtain ⟨h1, h2, h3, h4, h5⟩ := h
  cases a with
  | mk dba ca ua sa ea =>
    cases b with
    | mk dbb cb ub sb eb =>
      simp only at h1 h2 h3 h4 h5
      subst h1 h2 h3
      cases ua with
      | none =>
        cases ub with
        | none => exact Or.inl ⟨_, _, _, _, _, rfl, rfl, h5⟩
        | some ub => simp at h4
      | some ua =>
        cases ub with
        | none => simp at h4
        | some ub =>
          cases ua; cases ub
          simp only [Option.map_some, Option.some.injEq, Prod.mk.injEq] at h4
          obtain ⟨e1, e2, e3⟩ := h4
          subst e1 e2 e3
          exact Or.inr ⟨_, _, _, _, _, _, _, _, _, _, _, _, rfl, rfl, h5⟩

/-- the part of a savepoint's memory that is not cache -/
theorem sp_key_tail {sa sb : List (Db × Option Uow)}
    (hs : sa.map (fun p => (p.1, p.2.map (fun u => (u.cur, u.ops, u.pending)))) =
          sb.map (fun p => (p.1, p.2.map (fun u => (u.cur, u.ops, u.pending))))) :
    sa.tail.map (fun p => (p.1, p.2.map (fun u => (u.cur, u.ops, u.pending)))) =
    sb.tail.map (fun p => (p.1, p.2.map (fun u => (u.cur, u.ops, u.pending)))) := by
  rw [List.map_tail, List.map_tail, hs]

theorem sp_key_restore {x y : Option Uow}
    (h : x.map (fun u => (u.cur, u.ops, u.pending)) = y.map (fun u => (u.cur, u.ops, u.pending))) :
    (x.map (fun u => ({ u with vobjs := [], lookup := true } : Uow))).map (fun u => (u.cur, u.ops, u.pending)) =
    (y.map (fun u => ({ u with vobjs := [], lookup := true } : Uow))).map (fun u => (u.cur, u.ops, u.pending)) := by
  rw [Option.map_map, Option.map_map]
  exact h

/-- a savepoint rollback on two states that are equal except for the cache -/
theorem sp_same_spRollback (cfg : Cfg) {a b : St} (h : sameButCache a b) :
    sameButCache (step cfg a .spRollback) (step cfg b .spRollback) := by
  obtain ⟨h1, h2, h3, h4, hs⟩ := h
  cases a with
  | mk dba ca ua sa ea =>
    cases b with
    | mk dbb cb ub sb eb =>
      simp only at h1 h2 h3 h4 hs
      cases sa with
      | nil =>
        cases sb with
        | nil => exact ⟨h1, h2, h3, h4, rfl⟩
        | cons y sb => simp at hs
      | cons x sa =>
        cases sb with
        | nil => simp at hs
        | cons y sb =>
          obtain ⟨x1, x2⟩ := x
          obtain ⟨y1, y2⟩ := y
          simp only [List.map_cons, List.cons.injEq, Prod.mk.injEq] at hs
          obtain ⟨⟨e1, e2⟩, e3⟩ := hs
          exact ⟨e1, h2, h3, sp_key_restore e2, e3⟩

theorem step_sameButCache (cfg : Cfg) (a b : St) (e : Ev) (h : sameButCache a b) :
    sameButCache (step cfg a e) (step cfg b e) := by
  cases e with
  | spRollback => exact sp_same_spRollback cfg h
  | spCommit =>
    obtain ⟨h1, h2, h3, h4, hs⟩ := h
    exact ⟨h1, h2, h3, h4, sp_key_tail hs⟩
  | spBegin =>
    obtain ⟨h1, h2, h3, h4, hs⟩ := h
    refine ⟨h1, h2, h3, h4, ?_⟩
    show List.map _ (_ :: _) = List.map _ (_ :: _)
    rw [List.map_cons, List.map_cons, hs, h1, h4]
  | commit =>
    obtain ⟨h1, h2, h3, h4, hs⟩ := h
    exact ⟨h1, h1, h3, rfl, rfl⟩
  | rollback =>
    obtain ⟨h1, h2, h3, h4, hs⟩ := h
    exact ⟨h2, h2, h3, rfl, rfl⟩
  | afterFlush =>
    rcases sp_same_cases h with ⟨db, c, err, sa, sb, rfl, rfl, hs⟩ |
      ⟨db, c, err, sa, sb, cur, ops, pend, va, vb, la, lb, rfl, rfl, hs⟩
    · exact ⟨rfl, rfl, rfl, rfl, hs⟩
    · cases cur with
      | none => exact ⟨rfl, rfl, rfl, rfl, hs⟩
      | some T => exact ⟨rfl, rfl, rfl, rfl, hs⟩
  | beforeFlush objs newId pm =>
    rcases sp_same_cases h with ⟨db, c, err, sa, sb, rfl, rfl, hs⟩ |
      ⟨db, c, err, sa, sb, cur, ops, pend, va, vb, la, lb, rfl, rfl, hs⟩
    · simp only [step, createTx, St.uowD, Option.getD]
      cases (!(objs.any (objModified cfg) || pm)) <;> exact ⟨rfl, rfl, rfl, rfl, hs⟩
    · simp only [step, createTx, St.uowD, Option.getD]
      cases (!(objs.any (objModified cfg) || pm)) <;> cases cur <;> exact ⟨rfl, rfl, rfl, rfl, hs⟩
  | _ =>
    rcases sp_same_cases h with ⟨db, c, err, sa, sb, rfl, rfl, hs⟩ |
      ⟨db, c, err, sa, sb, cur, ops, pend, va, vb, la, lb, rfl, rfl, hs⟩ <;>
    simp only [step, createTx, St.uowD, Option.getD] <;> (repeat' split) <;>
        exact ⟨rfl, rfl, rfl, rfl, hs⟩

theorem run_sameButCache (cfg : Cfg) (a b : St) (evs : List Ev) (h : sameButCache a b) :
    sameButCache (run cfg a evs) (run cfg b evs) := by
  induction evs generalizing a b with
  | nil => exact h
  | cons e es ih =>
    rw [run_cons, run_cons]
    exact ih _ _ (step_sameButCache cfg a b e h)

/-- **erasing a rolled-back savepoint bracket from a history changes nothing but the cache**

The rollback restores the pending association statements the unit of work held at SAVEPOINT as well
(a Core statement on an association table issued before the savepoint and not flushed yet is still
mirrored by the next flush), so no hypothesis on `pending` is needed.  `herr` is never a restriction
in this model (`run_err`: continuum's own writes raise nothing), see `sp_bracket_erase_noerr`. -/
theorem sp_bracket_erase (cfg : Cfg) (s : St) (body rest : List Ev)
    (hb : ∀ e ∈ body, e.isEnd = false ∧ e.isSp = false)
    (herr : (run cfg s body).err = s.err) :
    sameButCache (run cfg s ([.spBegin] ++ body ++ [.spRollback] ++ rest)) (run cfg s rest) := by
  rw [run_append]
  apply run_sameButCache
  rw [sp_rolled_back_eq cfg s body hb]
  refine ⟨rfl, run_committed (fun e he => (hb e he).1), herr, ?_, rfl⟩
  cases s with
  | mk db c uow sps err =>
    cases uow with
    | none => rfl
    | some u => rfl

/-- the same without the hypothesis on the error flag (it never changes: `run_err`) -/
theorem sp_bracket_erase_noerr (cfg : Cfg) (s : St) (body rest : List Ev)
    (hb : ∀ e ∈ body, e.isEnd = false ∧ e.isSp = false) :
    sameButCache (run cfg s ([.spBegin] ++ body ++ [.spRollback] ++ rest)) (run cfg s rest) :=
  sp_bracket_erase cfg s body rest hb (run_err cfg s body)

/-- in particular the tables every continuation writes are the same -/
theorem sp_bracket_erase_db (cfg : Cfg) (s : St) (body rest : List Ev)
    (hb : ∀ e ∈ body, e.isEnd = false ∧ e.isSp = false) :
    (run cfg s ([.spBegin] ++ body ++ [.spRollback] ++ rest)).db = (run cfg s rest).db ∧
    (run cfg s ([.spBegin] ++ body ++ [.spRollback] ++ rest)).committed = (run cfg s rest).committed :=
  ⟨(sp_bracket_erase_noerr cfg s body rest hb).1, (sp_bracket_erase_noerr cfg s body rest hb).2.1⟩

end Continuum
