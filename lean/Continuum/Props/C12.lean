import Continuum.Schema
import Continuum.Lemmas.SchemaLemmas

/-!
# C12 — the version schema is derived correctly for every model configuration (one table)

For every well-formed configuration the table the model derives satisfies the statement of C12.
The same decidable statement `SchemaOK` is kernel-checked on the REAL builder's output for every
sampled configuration in the per-run generated file (`harness/props/c12.py`).
-/

namespace Continuum.Schema

theorem c12_derive_ok (i : TblIn) (h : InOK i) : SchemaOK i (deriveTable i) := by
  have hInOK := h
  obtain ⟨hnd, _, _, _, hint, hpm, hmi⟩ := h
  -- the reflected column of a kept parent column is in the table
  have hrefl : ∀ c ∈ i.cols, isExcluded i c = false → reflect i c ∈ deriveCols i :=
    fun c hc hex => mem_deriveCols.2 (Or.inl ⟨c, hc, hex, rfl⟩)
  -- no column of the table is named like an excluded column
  have hexName : ∀ c ∈ i.cols, isExcluded i c = true → ∀ v ∈ deriveCols i, v.name ≠ c.name := by
    intro c hc hex v hv hvn
    rcases mem_deriveCols.1 hv with ⟨d, hd, hdex, rfl⟩ | hv | hv
    · have : d = c := nodup_map_inj (fun c : PCol => c.name) i.cols hnd hd hc hvn
      subst this; rw [hex] at hdex; cases hdex
    · have hci := hint c hc
      rcases (mem_internalCols.1 hv).2 with rfl | ⟨_, rfl⟩ | rfl
      · exact hci.1 hvn.symm
      · exact hci.2.1 hvn.symm
      · exact hci.2.2 hvn.symm
    · obtain ⟨_, d, hd, _, _, rfl⟩ := mem_modCols.1 hv
      exact hpm c hc d hd hvn
  -- no column other than a flag column is named like a flag column
  have hmodName : ∀ c ∈ i.cols, ∀ v ∈ deriveCols i, v.name = c.name ++ modSuffix →
      (i.modTracker && i.hasModel) = true ∧ isExcluded i c = false ∧ c.pk = false ∧
        v = modColumn c := by
    intro c hc v hv hvn
    rcases mem_deriveCols.1 hv with ⟨d, hd, _, rfl⟩ | hv | hv
    · exact absurd hvn.symm (hpm d hd c hc)
    · have hci := hmi c hc
      rcases (mem_internalCols.1 hv).2 with rfl | ⟨_, rfl⟩ | rfl
      · exact absurd hvn.symm hci.1
      · exact absurd hvn.symm hci.2.1
      · exact absurd hvn.symm hci.2.2
    · obtain ⟨hm, d, hd, hdex, hdpk, rfl⟩ := mem_modCols.1 hv
      have hdn : d.name = c.name := append_modSuffix_inj hvn
      have : d = c := nodup_map_inj (fun c : PCol => c.name) i.cols hnd hd hc hdn
      subst this
      exact ⟨hm, hdex, hdpk, rfl⟩
  refine ⟨rfl, rfl, ?_, ?_, ?_, ?_, ?_, ?_⟩
  · -- parentColsOK
    intro c hc hex
    have hm := hrefl c hc hex
    refine ⟨countCol_derive_one hInOK hm, ?_⟩
    intro v hv
    have hv' : v = reflect i c := findCol_derive hInOK hm hv
    subst hv'
    have hntx : c.name ≠ i.txCol := (hint c hc).1
    refine ⟨rfl, rfl, rfl, rfl, rfl, rfl, ?_, ?_⟩
    · intro hpk
      cases hcn : c.nullable
      · left; simp [reflect, hpk, hntx, hcn]
      · right; rfl
    · intro hpk; simp [reflect, hpk]
  · -- excludedAbsent
    intro c hc hex
    refine ⟨countCol_derive_zero (hexName c hc hex), countCol_derive_zero ?_⟩
    intro v hv hvn
    have := (hmodName c hc v hv hvn).2.1
    rw [hex] at this; cases this
  · -- internalOK
    intro hs
    have htx : txColumn i ∈ deriveCols i :=
      mem_deriveCols.2 (Or.inr (Or.inl (mem_internalCols.2 ⟨hs, Or.inl rfl⟩)))
    have hop : opColumn i ∈ deriveCols i :=
      mem_deriveCols.2 (Or.inr (Or.inl (mem_internalCols.2 ⟨hs, Or.inr (Or.inr rfl)⟩)))
    refine ⟨⟨countCol_derive_one hInOK htx, ?_⟩, ⟨?_, ?_⟩, ⟨countCol_derive_one hInOK hop, ?_⟩⟩
    · intro v hv
      have : v = txColumn i := findCol_derive hInOK htx hv
      subst this; exact ⟨rfl, rfl, rfl, rfl⟩
    · cases hval : i.validity
      · -- no end column
        apply countCol_derive_zero
        intro v hv hvn
        rcases mem_deriveCols.1 hv with ⟨d, hd, _, rfl⟩ | hv | hv
        · exact (hint d hd).2.1 hvn
        · rcases (mem_internalCols.1 hv).2 with rfl | ⟨hv', rfl⟩ | rfl
          · exact hInOK.2.1 hvn
          · rw [hval] at hv'; cases hv'
          · exact hInOK.2.2.2.1 hvn.symm
        · obtain ⟨_, d, hd, _, _, rfl⟩ := mem_modCols.1 hv
          exact (hmi d hd).2.1 hvn
      · have hend : endColumn i ∈ deriveCols i :=
          mem_deriveCols.2 (Or.inr (Or.inl (mem_internalCols.2 ⟨hs, Or.inr (Or.inl ⟨hval, rfl⟩)⟩)))
        exact countCol_derive_one hInOK hend
    · intro v hv
      have hfind : (deriveTable i).cols.find? (fun c => decide (c.name = i.endCol)) = some v := by
        simpa [findCol] using hv
      have hmem : v ∈ deriveCols i := List.mem_of_find?_eq_some hfind
      have hname : v.name = i.endCol := by simpa using List.find?_some hfind
      rcases mem_deriveCols.1 hmem with ⟨d, hd, _, rfl⟩ | hv' | hv'
      · exact absurd hname (hint d hd).2.1
      · rcases (mem_internalCols.1 hv').2 with rfl | ⟨_, rfl⟩ | rfl
        · exact absurd hname hInOK.2.1
        · exact ⟨rfl, rfl, rfl⟩
        · exact absurd hname.symm hInOK.2.2.2.1
      · obtain ⟨_, d, hd, _, _, rfl⟩ := mem_modCols.1 hv'
        exact absurd hname (hmi d hd).2.1
    · intro v hv
      have : v = opColumn i := findCol_derive hInOK hop hv
      subst this; exact ⟨rfl, rfl, rfl⟩
  · -- pkOK
    intro v hv hpk
    rcases mem_deriveCols.1 hv with ⟨d, hd, _, rfl⟩ | hv | hv
    · exact Or.inr ⟨d, hd, hpk, rfl⟩
    · obtain ⟨hs, rfl | ⟨_, rfl⟩ | rfl⟩ := mem_internalCols.1 hv
      · exact Or.inl ⟨rfl, hs⟩
      · cases hpk
      · cases hpk
    · obtain ⟨_, d, _, _, _, rfl⟩ := mem_modCols.1 hv
      cases hpk
  · -- modsOK
    intro c hc hex hpk
    cases hm : (i.modTracker && i.hasModel)
    · have hnone : ∀ v ∈ deriveCols i, v.name ≠ c.name ++ modSuffix := by
        intro v hv hvn
        have := (hmodName c hc v hv hvn).1
        rw [hm] at this; cases this
      refine ⟨by simpa using countCol_derive_zero hnone, ?_⟩
      intro v hv
      exact (findCol_derive_none hnone hv).elim
    · have hmem : modColumn c ∈ deriveCols i :=
        mem_deriveCols.2 (Or.inr (Or.inr (mem_modCols.2 ⟨hm, c, hc, hex, hpk, rfl⟩)))
      refine ⟨by rw [if_pos rfl]; exact countCol_derive_one hInOK hmem, ?_⟩
      intro v hv
      have : v = modColumn c := findCol_derive hInOK hmem hv
      subst this; exact ⟨rfl, rfl, rfl⟩
  · -- countOK
    show (deriveCols i).length = _
    rw [deriveCols_eq]
    simp only [List.length_append, List.length_map, internalCols, modCols]
    cases (i.hasModel && i.single) <;> cases i.validity <;> cases (i.modTracker && i.hasModel) <;>
      simp

/-- C13, schema half: an excluded column (and its flag column) never appears in the derived table -/
theorem c13_no_column (i : TblIn) (h : InOK i) (c : PCol) (hc : c ∈ i.cols)
    (hex : isExcluded i c = true) :
    ∀ v ∈ (deriveTable i).cols, v.name ≠ c.name ∧ v.name ≠ c.name ++ modSuffix := by
  have hok := c12_derive_ok i h
  obtain ⟨_, _, _, hexA, _⟩ := hok
  obtain ⟨h0, h1⟩ := hexA c hc hex
  intro v hv
  constructor
  · intro hvn
    have hmem : v ∈ (deriveTable i).cols.filter (fun c' => decide (c'.name = c.name)) :=
      List.mem_filter.2 ⟨hv, by simpa using hvn⟩
    have : (deriveTable i).cols.filter (fun c' => decide (c'.name = c.name)) = [] :=
      List.eq_nil_of_length_eq_zero h0
    rw [this] at hmem; cases hmem
  · intro hvn
    have hmem : v ∈ (deriveTable i).cols.filter (fun c' => decide (c'.name = c.name ++ modSuffix)) :=
      List.mem_filter.2 ⟨hv, by simpa using hvn⟩
    have : (deriveTable i).cols.filter (fun c' => decide (c'.name = c.name ++ modSuffix)) = [] :=
      List.eq_nil_of_length_eq_zero h1
    rw [this] at hmem; cases hmem

/-- include beats exclude -/
theorem include_beats_exclude (i : TblIn) (c : PCol) (k : Name) (hk : c.key = some k)
    (hin : k ∈ i.includ) : isExcluded i c = false := by
  simp [isExcluded, hk, hin]

/-- non-vacuity: a concrete configuration (validity, tracker plugin, one excluded column, custom
names) satisfies `InOK`, and its derived table has the expected shape -/
example :
    let i : TblIn :=
      { name := [97], schema := none, hasModel := true, single := false,
        cols := [⟨[105, 100], 1, true, false, false, true, false, false, false, some [105, 100]⟩,
                 ⟨[110], 2, false, false, true, false, true, true, true, some [110]⟩,
                 ⟨[115], 2, false, true, false, false, false, false, false, some [115]⟩],
        exclude := [[115]], includ := [], fmt := ([], [95, 118]), validity := true,
        txCol := [116], endCol := [101], opCol := [111], modTracker := true }
    InOK i ∧ ((deriveTable i).cols.map (·.name)) = [[105, 100], [110], [116], [101], [111], [110, 95, 109, 111, 100]] := by
  decide

end Continuum.Schema
