import Continuum.Spec.Links
import Continuum.Lemmas.UowInv
import Continuum.Lemmas.RelLemmas
import Continuum.Props.C02
import Continuum.Lemmas.LinkLemmas

/-!
# C10 — many-to-many link history is recorded per transaction and reconstructible

For the segment the model produces from any boundary state whose association-version rows replay
to the link set `links0` (`LinkInv`), for every well-formed event list (links added and removed in
any number of flushes, several pairs per statement, the same pair changed several times): after
the commit the rows replay to exactly the link set the statements produce (`applyAssoc`), old rows
are kept, every touched link has exactly one row stamped with the new transaction whose type is
that of the last statement that touched it, and untouched links have none.  Since `LinkInv` is
re-established, by induction it holds after every commit of every history; with
`c04_links_stable_step` the replay up to ANY past transaction yields the links that existed when
that transaction committed.
-/

namespace Continuum

theorem c10_linkInv_init : LinkInv [] [] := linkInv_nil

theorem c10_holds (cfg : Cfg) (s : St) (evs : List Ev) (links0 : List Link) (hb : Boundary s)
    (hinv : Inv cfg s) (hlinks : LinkInv s.db.assoc links0)
    (hne : ∀ e ∈ evs, e.isEnd = false) (hwf : WF cfg s (evs ++ [.commit])) :
    C10.Holds cfg (modelSeg cfg s evs .commit) links0 := by
  obtain ⟨T, hlt, hN, hP, ha⟩ := c10_end_state cfg s evs hb hinv hne hwf
  have hbefore : (modelSeg cfg s evs .commit).before.db = s.db := rfl
  have hafter : (modelSeg cfg s evs .commit).after.db = (run cfg s evs).db := rfl
  have hevs : (modelSeg cfg s evs .commit).evs = evs := rfl
  intro _
  rw [hbefore, hafter, hevs, ha]
  exact c10_core cfg evs s.db.assoc links0 T _ hlt hlinks hN hP

/-- the replay invariant is re-established by a committed transaction ... -/
theorem c10_linkInv_after_commit (cfg : Cfg) (s : St) (evs : List Ev) (links0 : List Link) (hb : Boundary s)
    (hinv : Inv cfg s) (hlinks : LinkInv s.db.assoc links0)
    (hne : ∀ e ∈ evs, e.isEnd = false) (hwf : WF cfg s (evs ++ [.commit])) :
    LinkInv (run cfg s (evs ++ [.commit])).db.assoc (applyAssoc cfg links0 evs) := by
  have h := (c10_holds cfg s evs links0 hb hinv hlinks hne hwf rfl).1
  rw [run_append]
  exact h

/-- ... and untouched by a rolled-back one -/
theorem c10_linkInv_after_rollback (cfg : Cfg) (s : St) (evs : List Ev) (links0 : List Link) (hb : Boundary s)
    (hlinks : LinkInv s.db.assoc links0) (hne : ∀ e ∈ evs, e.isEnd = false) :
    LinkInv (run cfg s (evs ++ [.rollback])).db.assoc links0 := by
  have hcm : (run cfg s evs).committed = s.committed := run_committed hne
  have : (run cfg s (evs ++ [.rollback])).db = (run cfg s evs).committed := by
    rw [run_append]; rfl
  rw [this, hcm, ← hb.2.2.2.1]
  exact hlinks

/-- continuum's own writes never raise since the repair of F-M2M -/
theorem c10_no_error (cfg : Cfg) (s : St) (evs : List Ev) (h : s.err = false) : (run cfg s evs).err = false := by
  rw [run_err]; exact h

/-- The repaired defect F-M2M, formally: with plain inserts (no coalescing) a pair linked in one
flush and unlinked in a later flush of the same transaction would have two rows with one primary
key; with `addAssoc` it has exactly one, the DELETE. -/
theorem c10_twice_counterexample :
    let a := (addAssoc [] 1 [(0, Op.insert, [1, 2])]).1
    let b := (addAssoc a 1 [(0, Op.delete, [1, 2])]).1
    b = [{ tbl := 0, link := [1, 2], tx := 1, op := .delete }] ∧
    (a ++ [({ tbl := 0, link := [1, 2], tx := 1, op := .delete } : ARow)]).length = 2 := by
  decide

end Continuum
