import Continuum.Uow

/-!
# C07 — versioning is transparent to the application's own data (model-level lemma only)

The property proper is relational over two runs of Python code (with and without versioning) and
is decided by differential twin runs (`harness/props/c07.py`).  What can be said about the MODEL is
stated as what it is: the model has no write path from versioning state (unit of work, version
tables, transaction table) to application data.  The ghost component `live` — the parent rows as
the mapper events imply them — evolves as a function of its own previous value and the event
alone.  It cannot exhibit a Python exception raised by a listener.
-/

namespace Continuum

/-- the application-data projection of a state: working copy, committed copy, savepoint copies -/
def appData (s : St) : List (TKey × List Val) × List (TKey × List Val) × List (List (TKey × List Val)) :=
  (s.db.live, s.committed.live, s.sps.map (·.1.live))

/-- the application data after an event, computed from the application data before it alone -/
def appStep (cfg : Cfg) (a : List (TKey × List Val) × List (TKey × List Val) × List (List (TKey × List Val)))
    (e : Ev) : List (TKey × List Val) × List (TKey × List Val) × List (List (TKey × List Val)) :=
  match e with
  | .ins c pk vals _ => if (cfg.cls c).versioned then (liveWrite cfg a.1 c pk vals, a.2.1, a.2.2) else a
  | .upd c pk vals _ _ _ _ => if (cfg.cls c).versioned then (liveWrite cfg a.1 c pk vals, a.2.1, a.2.2) else a
  | .del c pk _ => if (cfg.cls c).versioned then (liveRemove cfg a.1 c pk, a.2.1, a.2.2) else a
  | .commit => (a.1, a.1, [])
  | .rollback => (a.2.1, a.2.1, [])
  | .spBegin => (a.1, a.2.1, a.1 :: a.2.2)
  | .spCommit => (a.1, a.2.1, a.2.2.tail)
  | .spRollback => match a.2.2 with
    | [] => a
    | x :: rest => (x, a.2.1, rest)
  | _ => a

/-- the model has no write path from versioning state to application data -/
theorem c07_appData_step (cfg : Cfg) (s : St) (e : Ev) : appData (step cfg s e) = appStep cfg (appData s) e := by
  cases e with
  | beforeFlush objs newId pm =>
    simp only [step, appData, appStep, createTx, St.uowD]
    split
    · rfl
    · simp only [Option.getD_some]
      by_cases hc : (s.uow.getD {}).cur.isSome = true <;> simp [hc]
  | manualTx newId => rfl
  | ins c pk vals ch =>
    simp only [step, appData, appStep, St.uowD]
    cases (cfg.cls c).versioned <;> simp
  | upd c pk vals cc rc cmc cmr =>
    simp only [step, appData, appStep, St.uowD]
    cases (cfg.cls c).versioned
    · simp
    · simp only [Bool.not_true, Bool.false_eq_true, if_false, if_true]
      split
      · rfl
      · split <;> rfl
  | del c pk vals =>
    simp only [step, appData, appStep, St.uowD]
    cases (cfg.cls c).versioned <;> simp
  | assoc tbl op links =>
    simp only [step, appData, appStep, St.uowD]
    split <;> rfl
  | afterFlush =>
    simp only [step, appData, appStep, St.uowD]
    split <;> rfl
  | commit => rfl
  | rollback => rfl
  | spBegin => rfl
  | spCommit => simp [step, appData, appStep, List.map_tail]
  | spRollback =>
    simp only [step, appData, appStep]
    split <;> simp_all

theorem c07_live_independent (cfg : Cfg) (s1 s2 : St) (e : Ev) (h : appData s1 = appData s2) :
    appData (step cfg s1 e) = appData (step cfg s2 e) := by
  rw [c07_appData_step, c07_appData_step, h]

/-- ... along whole traces -/
theorem c07_live_independent_run (cfg : Cfg) (evs : List Ev) (s1 s2 : St) (h : appData s1 = appData s2) :
    appData (run cfg s1 evs) = appData (run cfg s2 evs) := by
  induction evs generalizing s1 s2 with
  | nil => exact h
  | cons e evs ih =>
    simp only [run, List.foldl_cons]
    exact ih _ _ (c07_live_independent cfg s1 s2 e h)

end Continuum
