import Continuum.Props.C05

/-!
# Revert of many-to-many and many-to-one relationships (C05, the part that was correspondence-only)

`Reverter.revert_relationship` (sqlalchemy_continuum/reverter.py):

* relationship with a `secondary` table (`revert_association`, uselist): the parent's collection is
  emptied, every related version the target version shows (never a DELETE version - see C04) is
  reverted itself (`revert_child`, which sets the related entity's versioned columns to that
  version's values, re-creating the entity if it had been deleted) and appended to the collection.
  At the level of rows: the link rows of the association table whose LOCAL half is the target's key
  are replaced by one link per shown version; links of other parents and of other association
  tables stay.
* scalar relationship without `secondary` (many-to-one): the shown version (if any) is reverted;
  nothing else changes (the foreign key column itself is a versioned column of the target and is
  restored by `revert_properties`, i.e. by `revertTarget`).

`C05.M2MHolds` is defined in `Continuum/Revert.lean`; `mkLink`, `Link` in `Continuum/Spec/Links.lean` / `Rel.lean`.
-/

namespace Continuum

/-- the as-of answer of C04 never holds two versions of one entity -/
def ShownUnique (shown : List (VRow Key)) : Prop := (shown.map (·.key)).Nodup

/-- every shown key has the width of the remote key (so that `mkLink` can be split again) -/
def ShownWidth (n : Nat) (shown : List (VRow Key)) : Prop := ∀ r ∈ shown, r.key.length = n

/-! ## helper lemmas -/

/-- `linkOfParent` is the Boolean form of the two premises of the second half of `C05.M2MHolds` -/
theorem c05r_linkOfParent_iff (atbl : Nat) (localFirst : Bool) (pk : List Int) (x : Link) :
    linkOfParent atbl localFirst pk x = true ↔
      (x.1 = atbl ∧
        (if localFirst then x.2.take pk.length = pk else x.2.drop (x.2.length - pk.length) = pk)) := by
  unfold linkOfParent
  cases localFirst <;> simp

/-- a link made by `mkLink` for the parent `pk` is a link of the parent `pk` - whatever the width of
the remote key is (this is why no width hypothesis is needed below) -/
theorem c05r_linkOfParent_mkLink (atbl : Nat) (localFirst : Bool) (pk k : List Int) :
    linkOfParent atbl localFirst pk (atbl, mkLink localFirst pk k) = true := by
  unfold linkOfParent mkLink
  cases localFirst <;> simp

theorem c05r_revertM2M_fst (live : Live) (links : List Link) (rt atbl : Nat) (localFirst : Bool)
    (pk : List Int) (shown : List (VRow Key)) :
    (revertM2M live links rt atbl localFirst pk shown).1 = setFold rt shown live := rfl

theorem c05r_mem_links {links : List Link} {atbl : Nat} {localFirst : Bool} {pk : List Int}
    {shown : List (VRow Key)} {live : Live} {rt : Nat} {x : Link} :
    x ∈ (revertM2M live links rt atbl localFirst pk shown).2 ↔
      (x ∈ links ∧ linkOfParent atbl localFirst pk x = false) ∨
      ∃ r ∈ shown, (atbl, mkLink localFirst pk r.key) = x := by
  unfold revertM2M
  simp only [List.mem_append, List.mem_filter, List.mem_map, Bool.not_eq_eq_eq_not, Bool.not_true]

/-- the link half of `C05.M2MHolds` - it needs no hypothesis at all -/
theorem c05r_m2m_links (live : Live) (links : List Link) (rt atbl : Nat) (localFirst : Bool) (pk : List Int)
    (shown : List (VRow Key)) :
    (∀ r ∈ shown, (atbl, mkLink localFirst pk r.key) ∈ (revertM2M live links rt atbl localFirst pk shown).2) ∧
    (∀ x ∈ (revertM2M live links rt atbl localFirst pk shown).2, x.1 = atbl →
      (if localFirst then x.2.take pk.length = pk else x.2.drop (x.2.length - pk.length) = pk) →
      ∃ r ∈ shown, x.2 = mkLink localFirst pk r.key) := by
  refine ⟨fun r hr => c05r_mem_links.2 (Or.inr ⟨r, hr, rfl⟩), fun x hx h1 h2 => ?_⟩
  rcases c05r_mem_links.1 hx with ⟨_, hf⟩ | ⟨r, hr, e⟩
  · rw [(c05r_linkOfParent_iff atbl localFirst pk x).2 ⟨h1, h2⟩] at hf
    cases hf
  · exact ⟨r, hr, by rw [← e]⟩

/-- shown versions of one entity agree on the values: what is really needed of the as-of answer
(`ShownUnique` implies it; it is also necessary, see `c05r_m2m_consistent_iff`) -/
def ShownConsistent (shown : List (VRow Key)) : Prop :=
  ∀ r ∈ shown, ∀ r' ∈ shown, r.key = r'.key → r.vals = r'.vals

theorem c05r_consistent_of_unique {shown : List (VRow Key)} (hu : ShownUnique shown) :
    ShownConsistent shown := by
  unfold ShownUnique at hu
  induction shown with
  | nil => intro r hr; cases hr
  | cons a s ih =>
    rw [List.map_cons, List.nodup_cons] at hu
    intro r hr r' hr' e
    rcases List.mem_cons.1 hr with h1 | h1
    · rcases List.mem_cons.1 hr' with h2 | h2
      · rw [h1, h2]
      · exact absurd (by rw [← h1, e]; exact List.mem_map_of_mem h2) hu.1
    · rcases List.mem_cons.1 hr' with h2 | h2
      · exact absurd (by rw [← h2, ← e]; exact List.mem_map_of_mem h1) hu.1
      · exact ih hu.2 r h1 r' h2 e

/-- the set fold under the weaker hypothesis: versions with one key carry one value list -/
theorem c05r_lget_setFold_of_mem (ct : Nat) (shown : List (VRow Key)) (l : Live)
    (hc : ShownConsistent shown) {r : VRow Key} (hr : r ∈ shown) :
    liveGet (setFold ct shown l) (ct, r.key) = some r.vals := by
  induction shown generalizing l r with
  | nil => cases hr
  | cons r0 shown ih =>
    rw [setFold_cons]
    by_cases hm : ∃ r' ∈ shown, r'.key = r.key
    · rcases hm with ⟨r', hr', e⟩
      have h1 := ih (liveSet l (ct, r0.key) r0.vals)
        (fun a ha b hb => hc a (List.mem_cons_of_mem _ ha) b (List.mem_cons_of_mem _ hb)) hr'
      rw [e] at h1
      rw [h1, hc r' (List.mem_cons_of_mem _ hr') r hr e]
    · have hr0 : r = r0 := by
        rcases List.mem_cons.1 hr with h | h
        · exact h
        · exact absurd ⟨r, h, rfl⟩ hm
      subst hr0
      rw [lget_setFold_of_not_mem]
      · exact lget_set_self l _ _
      · intro hm'
        rcases List.mem_map.1 hm' with ⟨r', hr', e⟩
        exact hm ⟨r', hr', (Prod.mk.injEq _ _ _ _ ▸ e).2⟩

/-! ## many-to-many -/

/-- proved as stated.  No width hypothesis (`ShownWidth`) and no `pk ≠ []` is needed: the second half
of `C05.M2MHolds` is about the links that `linkOfParent` recognises, `revertM2M` removes exactly
those, and a link made by `mkLink … pk …` is recognised whatever the width of the remote key
(`c05r_linkOfParent_mkLink`). -/
theorem c05_m2m (live : Live) (links : List Link) (rt atbl : Nat) (localFirst : Bool) (pk : List Int)
    (shown : List (VRow Key)) (hu : ShownUnique shown) :
    C05.M2MHolds (revertM2M live links rt atbl localFirst pk shown).1
      (revertM2M live links rt atbl localFirst pk shown).2 rt atbl localFirst pk shown := by
  have hl := c05r_m2m_links live links rt atbl localFirst pk shown
  refine ⟨fun r hr => ⟨?_, hl.1 r hr⟩, hl.2⟩
  rw [c05r_revertM2M_fst]
  exact lget_setFold_of_mem rt shown live hu hr

/-- stronger version: `ShownUnique` weakened to `ShownConsistent` -/
theorem c05_m2m_strong (live : Live) (links : List Link) (rt atbl : Nat) (localFirst : Bool) (pk : List Int)
    (shown : List (VRow Key)) (hc : ShownConsistent shown) :
    C05.M2MHolds (revertM2M live links rt atbl localFirst pk shown).1
      (revertM2M live links rt atbl localFirst pk shown).2 rt atbl localFirst pk shown := by
  have hl := c05r_m2m_links live links rt atbl localFirst pk shown
  refine ⟨fun r hr => ⟨?_, hl.1 r hr⟩, hl.2⟩
  rw [c05r_revertM2M_fst]
  exact c05r_lget_setFold_of_mem rt shown live hc hr

/-- `ShownConsistent` is exactly what the statement needs -/
theorem c05r_m2m_consistent_iff (live : Live) (links : List Link) (rt atbl : Nat) (localFirst : Bool)
    (pk : List Int) (shown : List (VRow Key)) :
    C05.M2MHolds (revertM2M live links rt atbl localFirst pk shown).1
      (revertM2M live links rt atbl localFirst pk shown).2 rt atbl localFirst pk shown ↔
    ShownConsistent shown := by
  refine ⟨fun h r hr r' hr' e => ?_, c05_m2m_strong live links rt atbl localFirst pk shown⟩
  have h1 := (h.1 r hr).1
  have h2 := (h.1 r' hr').1
  rw [e, h2] at h1
  exact (Option.some.inj h1).symm

/-- the hypothesis of `c05_m2m` cannot simply be dropped: two shown versions of one entity with
different values -/
example :
    let shown : List (VRow Key) :=
      [{ key := [4], tx := 1, endTx := none, op := .insert, vals := [some 1], mods := [] },
       { key := [4], tx := 2, endTx := none, op := .update, vals := [some 2], mods := [] }]
    ¬ C05.M2MHolds (revertM2M [] [] 1 0 true [1] shown).1 (revertM2M [] [] 1 0 true [1] shown).2
        1 0 true [1] shown := by
  decide

/-- links of other parents / other association tables are untouched, and rows of entities that are
not shown are untouched -/
theorem c05_m2m_frame (live : Live) (links : List Link) (rt atbl : Nat) (localFirst : Bool) (pk : List Int)
    (shown : List (VRow Key)) :
    (∀ x, linkOfParent atbl localFirst pk x = false →
        (x ∈ (revertM2M live links rt atbl localFirst pk shown).2 ↔ x ∈ links)) ∧
    (∀ k, k ∉ shown.map (fun r => (rt, r.key)) →
        liveGet (revertM2M live links rt atbl localFirst pk shown).1 k = liveGet live k) := by
  refine ⟨fun x hx => ⟨fun h => ?_, fun h => c05r_mem_links.2 (Or.inl ⟨h, hx⟩)⟩, fun k hk => ?_⟩
  · rcases c05r_mem_links.1 h with ⟨h1, _⟩ | ⟨r, _, e⟩
    · exact h1
    · rw [← e, c05r_linkOfParent_mkLink] at hx
      cases hx
  · rw [c05r_revertM2M_fst]
    exact lget_setFold_of_not_mem rt shown live hk

/-- reverting twice is reverting once (idempotence of the relationship revert) -/
theorem c05_m2m_idem (live : Live) (links : List Link) (rt atbl : Nat) (localFirst : Bool) (pk : List Int)
    (shown : List (VRow Key)) (hu : ShownUnique shown) :
    let r1 := revertM2M live links rt atbl localFirst pk shown
    C05.M2MHolds (revertM2M r1.1 r1.2 rt atbl localFirst pk shown).1
      (revertM2M r1.1 r1.2 rt atbl localFirst pk shown).2 rt atbl localFirst pk shown := by
  intro r1
  exact c05_m2m r1.1 r1.2 rt atbl localFirst pk shown hu

theorem c05r_setFold_eq (ct : Nat) (shown : List (VRow Key)) (l : Live) (hu : ShownUnique shown) :
    setFold ct shown l =
      shown.reverse.map (fun r => ((ct, r.key), r.vals)) ++
        l.filter (fun p => p.1 ∉ shown.map (fun r => (ct, r.key))) := by
  unfold ShownUnique at hu
  induction shown generalizing l with
  | nil =>
    simp only [setFold_nil, List.reverse_nil, List.map_nil, List.nil_append, List.not_mem_nil, not_false_eq_true, decide_true]
    exact (List.filter_eq_self.2 (fun _ _ => rfl)).symm
  | cons r s ih =>
    rw [List.map_cons, List.nodup_cons] at hu
    have hk : (ct, r.key) ∉ s.map (fun r => (ct, r.key)) := by
      intro hm
      rcases List.mem_map.1 hm with ⟨r', hr', e⟩
      exact hu.1 (List.mem_map.2 ⟨r', hr', (Prod.mk.injEq _ _ _ _ ▸ e).2⟩)
    rw [setFold_cons, ih _ hu.2]
    unfold liveSet
    rw [List.filter_cons_of_pos (by simpa using hk), List.filter_filter, List.reverse_cons,
      List.map_append, List.append_assoc]
    congr 1
    simp only [List.map_cons, List.map_nil, List.singleton_append, List.cons.injEq, true_and]
    apply List.filter_congr
    intro p _
    simp [List.mem_cons, not_or, Bool.and_comm]

theorem c05r_setFold_idem (ct : Nat) (shown : List (VRow Key)) (l : Live) (hu : ShownUnique shown) :
    setFold ct shown (setFold ct shown l) = setFold ct shown l := by
  rw [c05r_setFold_eq ct shown (setFold ct shown l) hu, c05r_setFold_eq ct shown l hu]
  rw [List.filter_append, List.filter_filter]
  have h1 : (shown.reverse.map (fun r => ((ct, r.key), r.vals))).filter
      (fun p => p.1 ∉ shown.map (fun r => (ct, r.key))) = [] := by
    rw [List.filter_eq_nil_iff]
    intro p hp
    rcases List.mem_map.1 hp with ⟨r, hr, rfl⟩
    simp only [decide_not, Bool.not_eq_true', decide_eq_false_iff_not, Decidable.not_not]
    exact List.mem_map.2 ⟨r, List.mem_reverse.1 hr, rfl⟩
  rw [h1, List.nil_append]
  congr 1
  apply List.filter_congr
  intro p _
  simp

/-- links: reverting again changes nothing (no hypothesis needed) -/
theorem c05r_m2m_links_idem (live live' : Live) (links : List Link) (rt atbl : Nat) (localFirst : Bool)
    (pk : List Int) (shown : List (VRow Key)) :
    (revertM2M live' (revertM2M live links rt atbl localFirst pk shown).2 rt atbl localFirst pk shown).2 =
      (revertM2M live links rt atbl localFirst pk shown).2 := by
  unfold revertM2M
  simp only
  rw [List.filter_append, List.filter_filter]
  have h1 : (shown.map (fun r => (atbl, mkLink localFirst pk r.key))).filter
      (fun x => !linkOfParent atbl localFirst pk x) = [] := by
    rw [List.filter_eq_nil_iff]
    intro x hx
    rcases List.mem_map.1 hx with ⟨r, _, rfl⟩
    rw [c05r_linkOfParent_mkLink]
    simp
  rw [h1, List.append_nil]
  congr 1
  apply List.filter_congr
  intro x _
  simp

/-- reverting twice IS reverting once: the second revert returns the very same rows and links -/
theorem c05_m2m_idem_eq (live : Live) (links : List Link) (rt atbl : Nat) (localFirst : Bool) (pk : List Int)
    (shown : List (VRow Key)) (hu : ShownUnique shown) :
    let r1 := revertM2M live links rt atbl localFirst pk shown
    revertM2M r1.1 r1.2 rt atbl localFirst pk shown = r1 := by
  intro r1
  apply Prod.ext
  · show setFold rt shown (setFold rt shown live) = setFold rt shown live
    exact c05r_setFold_idem rt shown live hu
  · exact c05r_m2m_links_idem live r1.1 links rt atbl localFirst pk shown

/-! ## many-to-one -/

theorem c05_m2o (live : Live) (rt : Nat) (shown : Option (VRow Key)) :
    C05.M2OHolds (revertM2O live rt shown) rt shown := by
  intro r hr
  cases shown with
  | none => cases hr
  | some r0 =>
    have e : r0 = r := Option.some.inj hr
    subst e
    exact lget_set_self live _ _

theorem c05_m2o_frame (live : Live) (rt : Nat) (shown : Option (VRow Key)) (k : TKey)
    (hk : ∀ r ∈ shown, k ≠ (rt, r.key)) :
    liveGet (revertM2O live rt shown) k = liveGet live k := by
  cases shown with
  | none => rfl
  | some r0 => exact lget_set_ne live _ _ (hk r0 rfl)

/-! ## non-vacuity -/

/-- non-vacuity, `localFirst = true`: parent `[1]` of association table `0`, remote table `1`.
Before: tag `[8]` linked (stale - the version does not show it), tag `[7]` linked to the OTHER parent
`[2]`, and a link `[1,8]` in the OTHER association table `5`.  The version shows tags `[7]` (live,
other values) and `[6]` (deleted since).  After: the stale link is gone, the two foreign links are
kept, the two shown links are there; tag `[7]` has its old values, tag `[6]` is back, tag `[8]` and
the parent's own row are untouched. -/
example :
    let live : Live := [((0, [1]), [some 5]), ((1, [7]), [some 70]), ((1, [8]), [some 80])]
    let links : List Link := [(0, [1, 8]), (0, [2, 7]), (5, [1, 8])]
    let shown : List (VRow Key) :=
      [{ key := [7], tx := 1, endTx := none, op := .insert, vals := [some 71], mods := [] },
       { key := [6], tx := 1, endTx := some 3, op := .insert, vals := [some 60], mods := [] }]
    let r := revertM2M live links 1 0 true [1] shown
    ShownUnique shown ∧
    C05.M2MHolds r.1 r.2 1 0 true [1] shown ∧
    ¬ C05.M2MHolds live links 1 0 true [1] shown ∧
    r.2 = [(0, [2, 7]), (5, [1, 8]), (0, [1, 7]), (0, [1, 6])] ∧
    r.1 = [((1, [6]), [some 60]), ((1, [7]), [some 71]), ((0, [1]), [some 5]), ((1, [8]), [some 80])] := by
  unfold ShownUnique
  decide

/-- non-vacuity, `localFirst = false` (the parent's key is the LAST link column): the same scene
mirrored.  Note that `(0, [1, 8])` - parent `[1]` FIRST - is now a link of the other parent `[8]` and
is kept. -/
example :
    let live : Live := [((0, [1]), [some 5]), ((1, [7]), [some 70]), ((1, [8]), [some 80])]
    let links : List Link := [(0, [8, 1]), (0, [7, 2]), (5, [8, 1]), (0, [1, 8])]
    let shown : List (VRow Key) :=
      [{ key := [7], tx := 1, endTx := none, op := .insert, vals := [some 71], mods := [] },
       { key := [6], tx := 1, endTx := some 3, op := .insert, vals := [some 60], mods := [] }]
    let r := revertM2M live links 1 0 false [1] shown
    ShownUnique shown ∧
    C05.M2MHolds r.1 r.2 1 0 false [1] shown ∧
    ¬ C05.M2MHolds live links 1 0 false [1] shown ∧
    r.2 = [(0, [7, 2]), (5, [8, 1]), (0, [1, 8]), (0, [7, 1]), (0, [6, 1])] ∧
    r.1 = [((1, [6]), [some 60]), ((1, [7]), [some 71]), ((0, [1]), [some 5]), ((1, [8]), [some 80])] := by
  unfold ShownUnique
  decide

/-- many-to-one, both cases -/
example :
    let live : Live := [((0, [1]), [some 5]), ((1, [7]), [some 70])]
    let v : VRow Key := { key := [7], tx := 1, endTx := none, op := .insert, vals := [some 71], mods := [] }
    revertM2O live 1 (some v) = [((1, [7]), [some 71]), ((0, [1]), [some 5])] ∧
    revertM2O live 1 none = live := by
  decide

end Continuum
