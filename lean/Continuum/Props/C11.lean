import Continuum.Lemmas.UowInvDef
import Continuum.Lemmas.Chain
import Continuum.Lemmas.AsOf
import Continuum.Lemmas.UowOps

/-!
# C11 — flushes inside one transaction coalesce into one version per entity
# C17 — a transaction's recorded entity names are exactly the classes it versioned

For the segment the model produces from any boundary state, for every configuration and every
well-formed event list (any number of flushes, any interleaving of entities, inserts / updates /
deletes / re-inserts of one key): the row an entity gets in each table of its hierarchy holds the
values of its last tracked event, its operation type is the value of the three-state automaton
`specOp` on its tracked events, and its modification flags are the column-wise OR over them.

`hcfg` (the version tables of one class' hierarchy are pairwise different tables) is an EXTRA
hypothesis of `c11_holds` compared with the first draft of the statement: without it the statement
is false (`c11_holds_needs_hcfg` below is a machine-checked counterexample: a class whose table
list names the same version table twice with different column lists).

`hinv` is discharged by `inv_run` (Props/C02.lean); it is a hypothesis here only so that the two
files can be checked independently.
-/

namespace Continuum

open UowOps

/- Original statement (FALSE, see `c11_holds_needs_hcfg`):
theorem c11_holds (cfg : Cfg) (s : St) (evs : List Ev) (hb : Boundary s)
    (hinv : ∀ pre, pre <+: (evs ++ [.commit]) → Inv cfg (run cfg s pre))
    (hne : ∀ e ∈ evs, e.isEnd = false) (hwf : WF cfg s (evs ++ [.commit])) :
    C11.Holds cfg (modelSeg cfg s evs .commit)
-/
theorem c11_holds (cfg : Cfg) (hcfg : ∀ c ∈ cfg.classes, (c.tables.map (·.1)).Nodup)
    (s : St) (evs : List Ev) (hb : Boundary s)
    (hinv : ∀ pre, pre <+: (evs ++ [.commit]) → Inv cfg (run cfg s pre))
    (hne : ∀ e ∈ evs, e.isEnd = false) (hwf : WF cfg s (evs ++ [.commit])) :
    C11.Holds cfg (modelSeg cfg s evs .commit) := by
  intro _
  obtain ⟨hrel, _, hcomm⟩ := good_run cfg s evs [.commit] hb hinv hne hwf
  have hI : Inv cfg (run cfg s evs) := hinv evs (List.prefix_append _ _)
  have hok : EvOK cfg (run cfg s evs) .commit := wf_at cfg s evs .commit [] hwf
  refine ⟨hI.db.pk, ?_⟩
  intro ent hent kc hkc
  rw [mem_trackedEntities] at hent
  obtain ⟨o, ho, hoc, hop⟩ := hrel.covered ent.1 ent.2 hent
  obtain ⟨T, hT, init, last, h1, h2, _, _, _, h6⟩ := hrel.entries o ho
  have hproc : o.processed = true := hok.1 o ho
  obtain ⟨tc, htc, rfl⟩ := List.mem_map.1 hkc
  have hrow := h6 (tablesOK_of hcfg) tc (by rw [hoc]; exact htc)
  rw [if_pos hproc, ← h1, hoc, hop] at hrow
  obtain ⟨r, hr, hk, ht, hrop, hvals, hmods⟩ := hrow.2 hent
  obtain ⟨hTin, _, hTnew⟩ := hI.cur_in T hT
  refine ⟨r, hr, hk, ?_, hrop, hvals, hmods⟩
  show r.tx ∈ (run cfg s evs).db.txs.filter (fun x => !s.db.txs.contains x)
  rw [List.mem_filter, ht]
  refine ⟨hTin, ?_⟩
  rw [hcomm, ← hb.2.2.2.2.1] at hTnew
  simpa using hTnew

theorem c17_holds (cfg : Cfg) (s : St) (evs : List Ev) (hb : Boundary s)
    (hinv : ∀ pre, pre <+: (evs ++ [.commit]) → Inv cfg (run cfg s pre))
    (hcn : s.db.changes.Nodup)
    (hne : ∀ e ∈ evs, e.isEnd = false) (hwf : WF cfg s (evs ++ [.commit])) :
    C17.Holds cfg (modelSeg cfg s evs .commit) := by
  intro _ htc
  obtain ⟨hrel, hchg, hcomm⟩ := good_run cfg s evs [.commit] hb hinv hne hwf
  have hI : Inv cfg (run cfg s evs) := hinv evs (List.prefix_append _ _)
  have hok : EvOK cfg (run cfg s evs) .commit := wf_at cfg s evs .commit [] hwf
  have hnew : ∀ n, n ∈ newIds (modelSeg cfg s evs .commit) ↔
      n ∈ (run cfg s evs).db.txs ∧ n ∉ (run cfg s evs).committed.txs := by
    intro n
    show n ∈ (run cfg s evs).db.txs.filter (fun x => !s.db.txs.contains x) ↔ _
    rw [List.mem_filter, hcomm, ← hb.2.2.2.2.1]
    simp
  refine ⟨hchg.keep, hchg.nodup hcn, ?_, ?_⟩
  · intro p hp hnb
    obtain ⟨hcur, o, ho, hoc⟩ := hchg.new p hp hnb
    obtain ⟨hTin, _, hTnew⟩ := hI.cur_in p.1 hcur
    refine ⟨(hnew p.1).2 ⟨hTin, hTnew⟩, ?_⟩
    rw [List.mem_map]
    refine ⟨(o.cls, o.pk), ?_, hoc⟩
    rw [mem_trackedEntities]
    exact (relC_events_ne_iff hrel o.cls o.pk).2 ⟨o, ho, rfl, rfl⟩
  · intro ent hent n hn
    rw [mem_trackedEntities] at hent
    obtain ⟨o, ho, hoc, _⟩ := hrel.covered ent.1 ent.2 hent
    obtain ⟨hnin, hnnew⟩ := (hnew n).1 hn
    have hcur := hI.fresh n hnin hnnew
    have := hchg.done htc o ho (hok.1 o ho) n hcur
    rw [hoc] at this
    exact this

/-- the automaton of C11, transition by transition -/
theorem specOp_insert_first (v ch) (c pk) : specOp [Ev.ins c pk v ch] = some .insert := rfl

theorem specOp_snoc_ins (es : List Ev) (e : Ev) (h : es ≠ []) (c pk v ch)
    (he : e = Ev.ins c pk v ch) : specOp (es ++ [e]) = some .update := by
  subst he
  exact specOp_snoc_ins' es h c pk v ch

theorem specOp_snoc_del (es : List Ev) (c pk v) : specOp (es ++ [Ev.del c pk v]) = some .delete :=
  specOp_snoc_del' es c pk v

/-! ## The extra hypothesis `hcfg` of `c11_holds` is necessary -/

/-- a class whose hierarchy lists version table 0 twice, with different column lists -/
def cexCfg : Cfg := { classes := [ClassCfg.mk true 2 [] [] [] [(0, [some 0]), (0, [some 1])]] }

def cexEvs : List Ev :=
  [.beforeFlush [ObjView.mk 0 true false [] []] 1 false,
   .ins 0 [7] [some 1, some 2] [true, true], .afterFlush]

/-- Without `hcfg` the statement of `c11_holds` is false: all its other hypotheses hold for
`cexCfg`, the empty initial state and `cexEvs`, but the single row written for key `(0, [7])` holds
the values of the second column list only. -/
theorem c11_holds_needs_hcfg :
    Boundary ({} : St) ∧
    (∀ pre, pre <+: (cexEvs ++ [.commit]) → Inv cexCfg (run cexCfg {} pre)) ∧
    (∀ e ∈ cexEvs, e.isEnd = false) ∧ WF cexCfg {} (cexEvs ++ [.commit]) ∧
    ¬ C11.Holds cexCfg (modelSeg cexCfg {} cexEvs .commit) := by
  refine ⟨⟨rfl, rfl, rfl, rfl, rfl, rfl, rfl⟩, ?_, ?_, ?_, ?_⟩
  · apply inv_prefixes
    decide
  · decide
  · decide
  · decide

end Continuum
