import Continuum.Props.C01
import Continuum.Props.C02
import Continuum.Props.C11
import Continuum.Props.C06
import Continuum.Lemmas.HistLemmas

/-!
# The history-level statements, for every history from the empty database

A *history* is a list of database transactions, each a list of listener events followed by how
it ended.  `runHist` replays it through the model from the empty database.  `HistWF` is the
contract of SQLAlchemy / the DBMS for the whole flattened event stream.  `history_all` then says:
EVERY segment of EVERY well-formed history (any number of transactions, rolled back or
committed, any number of flushes and entities) satisfies C01, C02, C03, C06 (database half), C11
and C17 — by induction over the history, re-establishing the boundary invariants (`Inv`,
`LiveInv`, `Boundary`, no duplicate change rows) after every segment.
-/

namespace Continuum

abbrev Hist := List (List Ev × Outcome)

def flatten (h : Hist) : List Ev := h.flatMap (fun p => p.1 ++ [endEv p.2])

/-- state before the `i`-th segment -/
def stateBefore (cfg : Cfg) (h : Hist) (i : Nat) : St := run cfg {} (flatten (h.take i))

/-- configuration hypotheses used by the segment theorems -/
structure CfgGood (cfg : Cfg) : Prop where
  ok : CfgOK cfg
  nodup : TablesNodup cfg
  range : ColsInRange cfg

/-- the contract for the whole history -/
structure HistWF (cfg : Cfg) (h : Hist) : Prop where
  noEnd : ∀ p ∈ h, ∀ e ∈ p.1, e.isEnd = false
  wf : WF cfg {} (flatten h)
  shape : WFShape cfg {} (flatten h)

/-- what holds at every transaction boundary of a well-formed history -/
structure Good (cfg : Cfg) (s : St) : Prop where
  boundary : Boundary s
  inv : Inv cfg s
  live : LiveInv s
  changes : s.db.changes.Nodup

theorem good_init (cfg : Cfg) : Good cfg {} :=
  ⟨⟨rfl, rfl, rfl, rfl, rfl, rfl, rfl⟩, inv_init cfg, liveInv_init, List.nodup_nil⟩

theorem inv_prefixes (cfg : Cfg) (s : St) (l : List Ev) (hinv : Inv cfg s) (hwf : WF cfg s l) :
    ∀ pre, pre <+: l → Inv cfg (run cfg s pre) := by
  intro pre ⟨suf, hl⟩
  subst hl
  exact inv_run cfg s pre hinv ((wf_append cfg s pre suf).1 hwf).1

/-! ## Splitting the flattened history at a segment -/

theorem flatten_take_succ (h : Hist) (i : Nat) (hi : i < h.length) :
    flatten (h.take (i + 1)) = flatten (h.take i) ++ (h[i].1 ++ [endEv h[i].2]) :=
  flatMap_take_succ _ h i hi

theorem flatten_split_at (h : Hist) (i : Nat) (hi : i < h.length) :
    flatten h = flatten (h.take i) ++ ((h[i].1 ++ [endEv h[i].2]) ++ flatten (h.drop (i + 1))) :=
  flatMap_split_at _ h i hi

theorem stateBefore_succ (cfg : Cfg) (h : Hist) (i : Nat) (hi : i < h.length) :
    stateBefore cfg h (i + 1) = run cfg (stateBefore cfg h i) (h[i].1 ++ [endEv h[i].2]) := by
  unfold stateBefore
  rw [flatten_take_succ h i hi, run_append]

/-- the contract of the `i`-th segment, from the state before it -/
theorem seg_wf (cfg : Cfg) (h : Hist) (hwf : HistWF cfg h) (i : Nat) (hi : i < h.length) :
    WF cfg (stateBefore cfg h i) (h[i].1 ++ [endEv h[i].2]) ∧
    WFShape cfg (stateBefore cfg h i) (h[i].1 ++ [endEv h[i].2]) := by
  have h1 := hwf.wf
  have h2 := hwf.shape
  rw [flatten_split_at h i hi] at h1 h2
  exact ⟨((wf_append _ _ _ _).1 ((wf_append _ _ _ _).1 h1).2).1,
    ((wfShape_append _ _ _ _).1 ((wfShape_append _ _ _ _).1 h2).2).1⟩

/-! ## One segment from a `Good` boundary -/

theorem chgNodup_of_good {cfg : Cfg} {s : St} (hg : Good cfg s) : ChgNodup s := by
  refine ⟨hg.changes, ?_, ?_⟩
  · rw [← hg.boundary.2.2.2.2.2.1]; exact hg.changes
  · rw [hg.boundary.2.1]; intro d hd; cases hd

/-- `Good` is re-established by every well-formed segment -/
theorem good_seg (cfg : Cfg) (hc : CfgGood cfg) (s : St) (evs : List Ev) (oc : Outcome)
    (hg : Good cfg s) (hne : ∀ e ∈ evs, e.isEnd = false)
    (hwf : WF cfg s (evs ++ [endEv oc])) (hshape : WFShape cfg s (evs ++ [endEv oc])) :
    Good cfg (run cfg s (evs ++ [endEv oc])) := by
  refine ⟨?_, inv_run cfg s _ hg.inv hwf, ?_, (chgNodup_run cfg s _ (chgNodup_of_good hg)).1⟩
  · rw [run_append]
    exact boundary_after_end cfg _ oc
  · cases oc with
    | commit =>
      exact liveInv_after_commit_corrected cfg hc.ok hc.nodup hc.range s evs hg.boundary
        (inv_prefixes cfg s _ hg.inv hwf) hg.live hne hwf ((wfShape_append _ _ _ _).1 hshape).1
    | rollback =>
      exact liveInv_after_rollback cfg s evs hg.boundary hg.live hne

/-- all history-level properties of one well-formed segment from a `Good` boundary -/
theorem seg_all (cfg : Cfg) (hc : CfgGood cfg) (s : St) (evs : List Ev) (oc : Outcome)
    (hg : Good cfg s) (hne : ∀ e ∈ evs, e.isEnd = false)
    (hwf : WF cfg s (evs ++ [endEv oc])) (hshape : WFShape cfg s (evs ++ [endEv oc])) :
    let seg := modelSeg cfg s evs oc
    C01.Holds cfg seg ∧ C02.Holds cfg seg ∧ C03.Holds cfg seg.after.db.versions ∧ C06.DbHolds seg ∧
    C11.Holds cfg seg ∧ C17.Holds cfg seg := by
  intro seg
  have hafter : Inv cfg (step cfg (run cfg s evs) (endEv oc)) := by
    have := inv_run cfg s _ hg.inv hwf
    rwa [run_append] at this
  have h03 : C03.Holds cfg seg.after.db.versions := hafter.db.chain
  cases oc with
  | commit =>
    have hpre := inv_prefixes cfg s _ hg.inv hwf
    refine ⟨?_, ?_, h03, ?_, ?_, ?_⟩
    · exact c01_holds_corrected cfg hc.ok hc.nodup hc.range s evs hg.boundary hpre hg.live hne hwf
        ((wfShape_append _ _ _ _).1 hshape).1
    · exact c02_holds cfg s evs hg.boundary hg.inv hne hwf
    · intro (ho : Outcome.commit = Outcome.rollback); cases ho
    · exact c11_holds cfg hc.nodup s evs hg.boundary hpre hne hwf
    · exact c17_holds cfg s evs hg.boundary hpre hg.changes hne hwf
  | rollback =>
    refine ⟨?_, ?_, h03, ?_, ?_, ?_⟩
    · intro (ho : Outcome.rollback = Outcome.commit); cases ho
    · intro (ho : Outcome.rollback = Outcome.commit); cases ho
    · exact c06_db_holds cfg s evs hg.boundary hne
    · intro (ho : Outcome.rollback = Outcome.commit); cases ho
    · intro (ho : Outcome.rollback = Outcome.commit); cases ho

/-- every boundary of a well-formed history is `Good` -/
theorem good_before (cfg : Cfg) (hc : CfgGood cfg) (h : Hist) (hwf : HistWF cfg h) (i : Nat) (hi : i ≤ h.length) :
    Good cfg (stateBefore cfg h i) := by
  induction i with
  | zero => exact good_init cfg
  | succ i ih =>
    have hi' : i < h.length := hi
    rw [stateBefore_succ cfg h i hi']
    obtain ⟨h1, h2⟩ := seg_wf cfg h hwf i hi'
    exact good_seg cfg hc _ _ _ (ih (Nat.le_of_lt hi')) (hwf.noEnd _ (List.getElem_mem hi')) h1 h2

/-- **Every segment of every well-formed history** satisfies the history-level properties. -/
theorem history_all (cfg : Cfg) (hc : CfgGood cfg) (h : Hist) (hwf : HistWF cfg h) (i : Nat) (hi : i < h.length) :
    let p := h[i]
    let seg := modelSeg cfg (stateBefore cfg h i) p.1 p.2
    C01.Holds cfg seg ∧ C02.Holds cfg seg ∧ C03.Holds cfg seg.after.db.versions ∧ C06.DbHolds seg ∧
    C11.Holds cfg seg ∧ C17.Holds cfg seg := by
  obtain ⟨h1, h2⟩ := seg_wf cfg h hwf i hi
  exact seg_all cfg hc _ _ _ (good_before cfg hc h hwf i (Nat.le_of_lt hi))
    (hwf.noEnd _ (List.getElem_mem hi)) h1 h2

/-- non-vacuity: a concrete three-transaction history (insert; update in two flushes with a
dropped same-value update; rolled-back delete) satisfies `HistWF` -/
example :
    let cls : ClassCfg :=
      { versioned := true, ncols := 2, excl := [false, false], incl := [false, false], rels := [],
        tables := [(0, [some 0, some 1])] }
    let cfg : Cfg := { classes := [cls], modTracker := true }
    let vNew : ObjView := { cls := 0, isNew := true, isDeleted := false, colChanged := [true, true], relChanged := [] }
    let vUpd : ObjView := { cls := 0, isNew := false, isDeleted := false, colChanged := [true, false], relChanged := [] }
    let vSame : ObjView := { cls := 0, isNew := false, isDeleted := false, colChanged := [false, false], relChanged := [] }
    let vDel : ObjView := { cls := 0, isNew := false, isDeleted := true, colChanged := [false, false], relChanged := [] }
    let h : Hist :=
      [([.beforeFlush [vNew] 1 false, .ins 0 [7] [some 1, some 2] [true, true], .afterFlush], .commit),
       ([.beforeFlush [vUpd] 2 false, .upd 0 [7] [some 3, some 2] [true, false] [] [true, false] [], .afterFlush,
         .beforeFlush [vSame] 0 false, .upd 0 [7] [some 3, some 2] [false, false] [] [false, false] [], .afterFlush], .commit),
       ([.beforeFlush [vDel] 3 false, .del 0 [7] [some 3, some 2], .afterFlush], .rollback)]
    CfgGood cfg ∧ HistWF cfg h ∧ (run cfg {} (flatten h)).db.versions.length = 2 := by
  intro cls cfg vNew vUpd vSame vDel h
  refine ⟨⟨by decide, by decide, by decide⟩, ⟨by decide, by decide, by decide⟩, by decide⟩

end Continuum
