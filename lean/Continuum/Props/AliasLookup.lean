import Continuum.Schema

/-!
# Attributes named differently from their columns: which lookup finds the reflecting column

`TableBuilder.reflect_column` copies a parent column into the version table and sets the copy's
KEY to the attribute name the model maps the column under (`column_copy.key = key`).  Every later
lookup in the version table's column collection therefore has three candidates for "the same
column": the column NAME, the ORIGINAL key of the parent column, and the ATTRIBUTE key.  The
findings F-ALIASCLASH and F-ALIASKEY were all lookups by the wrong one of the three.  This file
states, for arbitrary column lists, which lookup is right, and keeps the failing configuration of
F-ALIASCLASH as a checked counterexample.

Tie to the code: the `clash` variant of the aliased shape (C01/C11/C13/C15 traces), the `aliaskeys`
variant of C04 and the `alias_keys` shapes of C08 C15 C19 C20 run the real builder and accessors on
such models; this file is the statement of why the repaired lookups are the right ones.
-/

namespace Continuum.Alias

open Continuum.Schema

/-- a mapped parent column: its name, its own (original) key, the attribute it is mapped under -/
structure ACol where
  name : Name
  origKey : Name
  attr : Name
deriving DecidableEq, Repr

/-- a column of the version table: name and collection key -/
structure KCol where
  name : Name
  key : Name
deriving DecidableEq, Repr

/-- `reflect_column` for every column of a model: the copy keeps the name, its key is the attribute -/
def versionCols (cs : List ACol) : List KCol := cs.map (fun c => ⟨c.name, c.attr⟩)

/-- `table.c.get(k)` / `table.c[k]`: lookup by collection key -/
def byKey (vs : List KCol) (k : Name) : Option KCol := vs.find? (fun v => v.key = k)

/-- the repaired lookup: by column name -/
def byName (vs : List KCol) (n : Name) : Option KCol := vs.find? (fun v => v.name = n)

/-- the version column that reflects `c` -/
def reflecting (c : ACol) : KCol := ⟨c.name, c.attr⟩

/-- `create_column_aliases` before the repair: for an attribute named differently from the original
key, the column found BY THE ORIGINAL KEY is (re-)mapped under the attribute -/
def aliasOld (cs : List ACol) (c : ACol) : Option KCol :=
  if c.attr ≠ c.origKey then byKey (versionCols cs) c.origKey else none

/-- after the repair: found by name, left alone when its key is the attribute already -/
def aliasNew (cs : List ACol) (c : ACol) : Option KCol :=
  if c.attr ≠ c.origKey then (byName (versionCols cs) c.name).filter (fun v => v.key ≠ c.attr) else none

theorem byName_versionCols (cs : List ACol) (hn : (cs.map (·.name)).Nodup) (c : ACol) (hc : c ∈ cs) :
    byName (versionCols cs) c.name = some (reflecting c) := by
  induction cs with
  | nil => cases hc
  | cons d cs ih =>
    have hn' : d.name ∉ cs.map (·.name) ∧ (cs.map (·.name)).Nodup := by
      rw [List.map_cons] at hn
      exact List.nodup_cons.mp hn
    rcases List.mem_cons.mp hc with rfl | hc'
    · simp [byName, versionCols, reflecting]
    · have hne : d.name ≠ c.name := by
        intro e
        exact hn'.1 (by rw [e]; exact List.mem_map_of_mem hc')
      have := ih hn'.2 hc'
      simp only [byName, versionCols, List.map_cons, List.find?_cons] at this ⊢
      simp [hne, this]

/-- **lookup by name is right**: with distinct column names it returns the column reflecting `c`,
whatever the attributes are called - also when an attribute is named like another column -/
theorem byName_reflects (cs : List ACol) (hn : (cs.map (·.name)).Nodup) (c : ACol) (hc : c ∈ cs) :
    byName (versionCols cs) c.name = some (reflecting c) := byName_versionCols cs hn c hc

/-- the repaired `create_column_aliases` never re-maps an attribute whose column the table builder
reflected itself: declarative mapping by key already put it under the attribute name -/
theorem aliasNew_none (cs : List ACol) (hn : (cs.map (·.name)).Nodup) (c : ACol) (hc : c ∈ cs) :
    aliasNew cs c = none := by
  unfold aliasNew
  split
  · rw [byName_reflects cs hn c hc]
    simp [reflecting, Option.filter]
  · rfl

/-- lookup by the ORIGINAL key is right only when no attribute is named like it: if some other
column's attribute equals `c.origKey`, and it comes first, that other column is returned -/
theorem byKey_finds_other (d c : ACol) (rest : List ACol) (h : d.attr = c.origKey) :
    byKey (versionCols (d :: rest)) c.origKey = some (reflecting d) := by
  simp [byKey, versionCols, reflecting, h]

/-! ## F-ALIASCLASH as a checked counterexample

`code = Column('sku')`, `vendor_code = Column('code')` (names: sku = [1], code = [2], vendor_code = [3]) -/

def exSku : ACol := ⟨[1], [1], [2]⟩          -- column sku, attribute code
def exCode : ACol := ⟨[2], [2], [3]⟩         -- column code, attribute vendor_code

/-- the old rule maps `vendor_code` onto the copy of column `sku`; the repaired one leaves both alone;
lookup by name finds the copy of column `code` -/
example :
    aliasOld [exSku, exCode] exCode = some ⟨[1], [2]⟩
    ∧ aliasOld [exSku, exCode] exCode ≠ some (reflecting exCode)
    ∧ aliasNew [exSku, exCode] exCode = none ∧ aliasNew [exSku, exCode] exSku = none
    ∧ byName (versionCols [exSku, exCode]) exCode.name = some (reflecting exCode) := by
  decide

/-- F-ALIASKEY: `VersionExpressionReflector` looked the version column up with `table.c[column.name]`,
i.e. BY KEY with the column's name: for `ident = Column('id')` there is no such key -/
example : byKey (versionCols [⟨[1], [1], [9]⟩]) [1] = none
    ∧ byName (versionCols [⟨[1], [1], [9]⟩]) [1] = some ⟨[1], [9]⟩ := by
  decide

end Continuum.Alias
