import Continuum.Spec.Tables
import Continuum.Lemmas.Chain
import Continuum.Lemmas.Mods

/-!
# C15 — changesets and modification flags equal the column-wise difference (table level)

The trace-level statement about the flags written by the tracker plugin while versions are
created lives in `Props/C15Flags.lean`.
-/

namespace Continuum
variable {K : Type} [DecidableEq K]

/-- old value of column `i` as `changeset` sees it: NULL when there is no previous version -/
def oldAt (prev : Option (VRow K)) (i : Nat) : Val :=
  match prev with
  | none => none
  | some p => (p.vals[i]?).getD none

omit [DecidableEq K] in
theorem changesetVals_eq (prev : Option (VRow K)) (v : VRow K) :
    changesetVals prev v = (List.range v.vals.length).filterMap (fun i =>
      if oldAt prev i ≠ (v.vals[i]?).getD none then
        some (i, oldAt prev i, (v.vals[i]?).getD none) else none) := by
  unfold changesetVals
  cases prev with
  | none =>
    have h : ∀ i : Nat, ((v.vals.map (fun _ => (none : Val)))[i]?).getD none = none := by
      intro i
      simp only [List.getElem?_map]
      cases v.vals[i]? <;> rfl
    simp only [h, oldAt]
    rfl
  | some p => rfl

/-- declarative characterisation of the changeset: exactly the differing columns, each once,
with `(old, new)` -/
theorem c15_changeset_mem (prev : Option (VRow K)) (v : VRow K) (i : Nat) (o n : Val) :
    (i, o, n) ∈ changesetVals prev v ↔
      i < v.vals.length ∧ o = oldAt prev i ∧ n = (v.vals[i]?).getD none ∧ o ≠ n := by
  rw [changesetVals_eq]
  simp only [List.mem_filterMap, List.mem_range]
  constructor
  · rintro ⟨j, hj, h⟩
    by_cases hne : oldAt prev j ≠ (v.vals[j]?).getD none
    · rw [if_pos hne] at h
      simp only [Option.some.injEq, Prod.mk.injEq] at h
      obtain ⟨rfl, rfl, rfl⟩ := h
      exact ⟨hj, rfl, rfl, hne⟩
    · rw [if_neg hne] at h
      cases h
  · rintro ⟨hi, rfl, rfl, hne⟩
    exact ⟨i, hi, by rw [if_pos hne]⟩

theorem c15_changeset_nodup (prev : Option (VRow K)) (v : VRow K) :
    ((changesetVals prev v).map (·.1)).Pairwise (· < ·) := by
  rw [changesetVals_eq, List.pairwise_map]
  apply List.Pairwise.filterMap (R := (· < ·))
  · intro a a' hlt b hb b' hb'
    split at hb
    · split at hb'
      · cases hb; cases hb'; exact hlt
      · cases hb'
    · cases hb
  · exact List.pairwise_lt_range

/-- the changeset computed through the validity fetcher's `previous` equals the one computed
against the immediately preceding version, on every table with a well-formed chain -/
theorem c15_changeset_validity (t : VTable K) (hpk : PKUnique t) (hc : Chain t) (v : VRow K)
    (hv : v ∈ t) : C15.ChangesetHolds t v (changesetVals (prevVal t v) v) := by
  have _ := hpk
  unfold C15.ChangesetHolds predOf
  rw [prevVal_eq_prevSub_mods hc hv]

theorem c15_changeset_subquery (t : VTable K) (v : VRow K) :
    C15.ChangesetHolds t v (changesetVals (prevSub t v) v) := by
  unfold C15.ChangesetHolds predOf
  rfl

/-- the backfill tool, with the null-safe comparison, recomputes exactly the expected flags -/
theorem c15_backfill (t : VTable K) (hpk : PKUnique t) (hc : Chain t) (hm : ModsClear t) :
    C15.BackfillHolds t (backfillMods t) := by
  unfold C15.BackfillHolds backfillMods backfillModsWith
  apply allPairs_map_self
  intro r hr
  refine ⟨rfl, rfl, rfl, rfl, rfl, ?_⟩
  simp only
  rw [preds_eq_prevSub_toList hpk hc hr, hm r hr]
  unfold expectedMods predOf
  cases prevSub t r with
  | none =>
    simp only [Option.toList_none, List.isEmpty_nil, if_true]
    exact orFlags_false_true r.vals
  | some p =>
    simp only [Option.toList_some, List.isEmpty_cons, Bool.false_eq_true, if_false,
      List.foldl_cons, List.foldl_nil]
    rw [orFlags_false_left _ _ (zipFlags_length _ _ _), orFlags_false_left _ _ (zipFlags_length _ _ _)]

/-- The defect F-MODNULL, formally: with SQL's three-valued `!=` a transition to or from NULL is
not flagged. -/
theorem c15_backfill_sql_ne_counterexample :
    let t : VTable Nat := [⟨1, 1, some 2, .insert, [none], [false]⟩,
                           ⟨1, 2, some 3, .update, [some 7], [false]⟩,
                           ⟨1, 3, none, .update, [none], [false]⟩]
    PKUnique t ∧ Chain t ∧ ModsClear t ∧ ¬ C15.BackfillHolds t (backfillModsWith sqlNeTruthy t) ∧
    C15.BackfillHolds t (backfillMods t) := by
  decide

end Continuum
