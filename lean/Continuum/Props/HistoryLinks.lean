import Continuum.Props.History
import Continuum.Props.C10

/-!
# C10 for every history

`history_all` (Props/History.lean) covers C01 C02 C03 C06 C11 C17.  C10 needs, in addition to the
boundary invariants, the *replay invariant* `LinkInv` between the association-version rows and the
list of live links, which depends on the links that existed before the segment.  `linksBefore`
computes those links for a history from the empty database (committed segments replay their
association statements with `applyAssoc`; rolled-back segments leave the links alone); the theorems
say that the invariant holds at every boundary of every well-formed history and that therefore
every segment satisfies `C10.Holds`.
-/

namespace Continuum

/-- the live links after the first `i` transactions of a history -/
def linksBefore (cfg : Cfg) (h : Hist) : Nat → List Link
  | 0 => []
  | i + 1 =>
    match h[i]? with
    | some (evs, .commit) => applyAssoc cfg (linksBefore cfg h i) evs
    | _ => linksBefore cfg h i

/-- the live links after one segment -/
def hl_nextLinks (cfg : Cfg) (links0 : List Link) (evs : List Ev) : Outcome → List Link
  | .commit => applyAssoc cfg links0 evs
  | .rollback => links0

theorem hl_linksBefore_succ (cfg : Cfg) (h : Hist) (i : Nat) (hi : i < h.length) :
    linksBefore cfg h (i + 1) = hl_nextLinks cfg (linksBefore cfg h i) h[i].1 h[i].2 := by
  rw [linksBefore, List.getElem?_eq_getElem hi]
  rcases h[i] with ⟨evs, oc⟩
  cases oc <;> rfl

/-- one segment: the replay invariant is carried from one boundary to the next -/
theorem hl_linkInv_seg (cfg : Cfg) (s : St) (evs : List Ev) (oc : Outcome) (links0 : List Link)
    (hb : Boundary s) (hinv : Inv cfg s) (hlinks : LinkInv s.db.assoc links0)
    (hne : ∀ e ∈ evs, e.isEnd = false) (hwf : WF cfg s (evs ++ [endEv oc])) :
    LinkInv (run cfg s (evs ++ [endEv oc])).db.assoc (hl_nextLinks cfg links0 evs oc) := by
  cases oc with
  | commit => exact c10_linkInv_after_commit cfg s evs links0 hb hinv hlinks hne hwf
  | rollback => exact c10_linkInv_after_rollback cfg s evs links0 hb hlinks hne

/-- the replay invariant holds at every boundary of every well-formed history -/
theorem linkInv_before (cfg : Cfg) (hc : CfgGood cfg) (h : Hist) (hwf : HistWF cfg h) (i : Nat) (hi : i ≤ h.length) :
    LinkInv (stateBefore cfg h i).db.assoc (linksBefore cfg h i) := by
  induction i with
  | zero => exact c10_linkInv_init
  | succ i ih =>
    have hi' : i < h.length := hi
    have hg := good_before cfg hc h hwf i (Nat.le_of_lt hi')
    rw [stateBefore_succ cfg h i hi', hl_linksBefore_succ cfg h i hi']
    exact hl_linkInv_seg cfg _ _ _ _ hg.boundary hg.inv (ih (Nat.le_of_lt hi'))
      (hwf.noEnd _ (List.getElem_mem hi')) (seg_wf cfg h hwf i hi').1

/-- **every segment of every well-formed history satisfies C10** -/
theorem history_c10 (cfg : Cfg) (hc : CfgGood cfg) (h : Hist) (hwf : HistWF cfg h) (i : Nat) (hi : i < h.length) :
    let p := h[i]
    C10.Holds cfg (modelSeg cfg (stateBefore cfg h i) p.1 p.2) (linksBefore cfg h i) := by
  intro p
  have hg := good_before cfg hc h hwf i (Nat.le_of_lt hi)
  have hl := linkInv_before cfg hc h hwf i (Nat.le_of_lt hi)
  have hne : ∀ e ∈ p.1, e.isEnd = false := hwf.noEnd _ (List.getElem_mem hi)
  have h1 : WF cfg (stateBefore cfg h i) (p.1 ++ [endEv p.2]) := (seg_wf cfg h hwf i hi).1
  rcases p with ⟨evs, oc⟩
  cases oc with
  | commit => exact c10_holds cfg _ evs _ hg.boundary hg.inv hl hne h1
  | rollback => intro (ho : Outcome.rollback = Outcome.commit); cases ho

/-- non-vacuity: a two-transaction history on a many-to-many configuration (link a pair in the
first transaction, unlink it in the second) is well-formed, and its links are first `[x]`, then `[]` -/
example :
    let cls : ClassCfg :=
      { versioned := true, ncols := 1, excl := [false], incl := [false],
        rels := [{ dir := .manyToMany, localCols := [0] }], tables := [(0, [some 0])] }
    let cfg : Cfg := { classes := [cls], assocTables := [5] }
    let vRel : ObjView := { cls := 0, isNew := false, isDeleted := false, colChanged := [false], relChanged := [true] }
    let h : Hist :=
      [([.beforeFlush [vRel] 1 false, .assoc 5 .insert [[1, 2]], .afterFlush], .commit),
       ([.beforeFlush [vRel] 2 false, .assoc 5 .delete [[1, 2]], .afterFlush], .commit)]
    CfgGood cfg ∧ HistWF cfg h ∧
    linksBefore cfg h 1 = [(5, [1, 2])] ∧ linksBefore cfg h 2 = [] ∧
    (stateBefore cfg h 2).db.assoc =
      [{ tbl := 5, link := [1, 2], tx := 1, op := .insert }, { tbl := 5, link := [1, 2], tx := 2, op := .delete }] := by
  intro cls cfg vRel h
  refine ⟨⟨by decide, by decide, by decide⟩, ⟨by decide, by decide, by decide⟩, by decide, by decide, by decide⟩

end Continuum
