import Continuum.Revert

/-!
# Association-list lemmas for `liveGet` / `liveSet` / `liveDel` and the folds of `revertO2M`

Used by `Props/C05.lean`.  (`Lemmas/UowLive.lean` has the same basic facts, but it declares its own
`Continuum.Live`, so it cannot be imported together with `Revert.lean`; the lemmas here carry
distinct names — prefix `lget_` / `lmem_` / `lnodup_` — so that both files can coexist.)
Core Lean only.
-/

namespace Continuum

/-! ## `liveGet` -/

theorem lget_nil (k : TKey) : liveGet [] k = none := rfl

theorem lget_cons (p : TKey × List Val) (l : Live) (k : TKey) :
    liveGet (p :: l) k = if p.1 = k then some p.2 else liveGet l k := by
  unfold liveGet
  rw [List.find?_cons]
  by_cases h : p.1 = k <;> simp [h]

theorem lget_filter (l : Live) (k k' : TKey) :
    liveGet (l.filter (fun p => p.1 ≠ k)) k' = if k' = k then none else liveGet l k' := by
  induction l with
  | nil => simp [lget_nil]
  | cons p l ih =>
    rw [List.filter_cons]
    by_cases hp : p.1 = k
    · have : decide (p.1 ≠ k) = false := by simp [hp]
      rw [this]
      simp only [Bool.false_eq_true, ↓reduceIte]
      rw [ih, lget_cons]
      by_cases hk : k' = k
      · simp [hk]
      · have : ¬ p.1 = k' := fun h => hk (h.symm.trans hp)
        simp [hk, this]
    · have : decide (p.1 ≠ k) = true := by simp [hp]
      rw [this]
      simp only [↓reduceIte]
      rw [lget_cons, lget_cons, ih]
      by_cases hk : k' = k
      · simp [hk, hp]
      · simp [hk]

theorem lget_set (l : Live) (k : TKey) (v : List Val) (k' : TKey) :
    liveGet (liveSet l k v) k' = if k' = k then some v else liveGet l k' := by
  unfold liveSet
  rw [lget_cons, lget_filter]
  by_cases hk : k' = k
  · simp [hk]
  · have : ¬ k = k' := fun h => hk h.symm
    simp [hk, this]

theorem lget_del (l : Live) (k k' : TKey) :
    liveGet (liveDel l k) k' = if k' = k then none else liveGet l k' := by
  unfold liveDel
  exact lget_filter l k k'

theorem lget_set_self (l : Live) (k : TKey) (v : List Val) : liveGet (liveSet l k v) k = some v := by
  rw [lget_set]; simp

theorem lget_set_ne (l : Live) (k : TKey) (v : List Val) {k' : TKey} (h : k' ≠ k) :
    liveGet (liveSet l k v) k' = liveGet l k' := by
  rw [lget_set]; simp [h]

theorem lget_del_self (l : Live) (k : TKey) : liveGet (liveDel l k) k = none := by
  rw [lget_del]; simp

theorem lget_del_ne (l : Live) (k : TKey) {k' : TKey} (h : k' ≠ k) :
    liveGet (liveDel l k) k' = liveGet l k' := by
  rw [lget_del]; simp [h]

/-! ## membership -/

theorem lmem_set {l : Live} {k : TKey} {v : List Val} {p : TKey × List Val} :
    p ∈ liveSet l k v ↔ p = (k, v) ∨ (p ∈ l ∧ p.1 ≠ k) := by
  unfold liveSet
  simp [List.mem_cons, List.mem_filter]

theorem lmem_del {l : Live} {k : TKey} {p : TKey × List Val} :
    p ∈ liveDel l k ↔ p ∈ l ∧ p.1 ≠ k := by
  unfold liveDel
  simp [List.mem_filter]

/-! ## key uniqueness -/

theorem lnodup_filter {l : Live} (k : TKey) (h : (l.map (·.1)).Nodup) :
    ((l.filter (fun p => p.1 ≠ k)).map (·.1)).Nodup :=
  List.Nodup.sublist (List.Sublist.map _ List.filter_sublist) h

theorem lnodup_set {l : Live} (k : TKey) (v : List Val) (h : (l.map (·.1)).Nodup) :
    ((liveSet l k v).map (·.1)).Nodup := by
  unfold liveSet
  rw [List.map_cons, List.nodup_cons]
  refine ⟨?_, lnodup_filter k h⟩
  simp only [List.mem_map, List.mem_filter]
  rintro ⟨p, ⟨_, hp⟩, rfl⟩
  simp at hp

theorem lnodup_del {l : Live} (k : TKey) (h : (l.map (·.1)).Nodup) :
    ((liveDel l k).map (·.1)).Nodup := lnodup_filter k h

theorem lget_of_mem {l : Live} (h : (l.map (·.1)).Nodup) {p : TKey × List Val} (hp : p ∈ l) :
    liveGet l p.1 = some p.2 := by
  induction l with
  | nil => cases hp
  | cons q l ih =>
    rw [List.map_cons, List.nodup_cons] at h
    rw [lget_cons]
    rcases List.mem_cons.1 hp with rfl | hp
    · simp
    · have : ¬ q.1 = p.1 := fun hq => h.1 (by rw [hq]; exact List.mem_map_of_mem hp)
      simp only [this, ↓reduceIte]
      exact ih h.2 hp

theorem lmem_of_get {l : Live} {k : TKey} {v : List Val} (h : liveGet l k = some v) :
    (k, v) ∈ l := by
  induction l with
  | nil => cases h
  | cons q l ih =>
    rw [lget_cons] at h
    by_cases hq : q.1 = k
    · simp only [hq, ↓reduceIte, Option.some.injEq] at h
      have : q = (k, v) := by rw [← hq, ← h]
      rw [this]; exact List.mem_cons_self
    · simp only [hq, ↓reduceIte] at h
      exact List.mem_cons_of_mem _ (ih h)

/-- under unique keys, membership is lookup -/
theorem lmem_iff_get {l : Live} (h : (l.map (·.1)).Nodup) (p : TKey × List Val) :
    p ∈ l ↔ liveGet l p.1 = some p.2 :=
  ⟨lget_of_mem h, fun hg => lmem_of_get hg⟩

/-! ## the delete fold of `revertO2M` -/

/-- first fold of `revertO2M`, over an explicit key list -/
def delFold (keep ks : List TKey) (l : Live) : Live :=
  ks.foldl (fun l k => if keep.contains k then l else liveDel l k) l

theorem delFold_nil (keep : List TKey) (l : Live) : delFold keep [] l = l := rfl

theorem delFold_cons (keep : List TKey) (k : TKey) (ks : List TKey) (l : Live) :
    delFold keep (k :: ks) l = delFold keep ks (if keep.contains k then l else liveDel l k) := rfl

theorem lget_delFold_of_not_mem (keep ks : List TKey) (l : Live) {k : TKey} (h : k ∉ ks) :
    liveGet (delFold keep ks l) k = liveGet l k := by
  induction ks generalizing l with
  | nil => rfl
  | cons k0 ks ih =>
    rw [delFold_cons, ih _ (fun hm => h (List.mem_cons_of_mem _ hm))]
    have hne : k ≠ k0 := fun e => h (by rw [e]; exact List.mem_cons_self)
    split
    · rfl
    · exact lget_del_ne l k0 hne

theorem lget_delFold_of_keep (keep ks : List TKey) (l : Live) {k : TKey} (h : k ∈ keep) :
    liveGet (delFold keep ks l) k = liveGet l k := by
  induction ks generalizing l with
  | nil => rfl
  | cons k0 ks ih =>
    rw [delFold_cons, ih]
    split
    · rfl
    · rename_i hc
      have hne : k ≠ k0 := fun e => hc (by rw [← e]; exact List.contains_iff_mem.2 h)
      exact lget_del_ne l k0 hne

theorem lget_delFold_removed (keep ks : List TKey) (l : Live) {k : TKey} (h : k ∈ ks)
    (hk : k ∉ keep) : liveGet (delFold keep ks l) k = none := by
  induction ks generalizing l with
  | nil => cases h
  | cons k0 ks ih =>
    rw [delFold_cons]
    by_cases hm : k ∈ ks
    · exact ih _ hm
    · rw [lget_delFold_of_not_mem _ _ _ hm]
      rcases List.mem_cons.1 h with rfl | h'
      · have : keep.contains k = false := by
          cases hc : keep.contains k with
          | false => rfl
          | true => exact absurd (List.contains_iff_mem.1 hc) hk
        rw [this]
        simp only [Bool.false_eq_true, ↓reduceIte]
        exact lget_del_self l k
      · exact absurd h' hm

theorem lmem_delFold {keep ks : List TKey} {l : Live} {p : TKey × List Val}
    (h : p ∈ delFold keep ks l) : p ∈ l ∧ (p.1 ∈ ks → p.1 ∈ keep) := by
  induction ks generalizing l with
  | nil => exact ⟨h, fun hm => by cases hm⟩
  | cons k0 ks ih =>
    rw [delFold_cons] at h
    have ⟨h1, h2⟩ := ih h
    by_cases hc : keep.contains k0 = true
    · rw [if_pos hc] at h1
      refine ⟨h1, fun hm => ?_⟩
      rcases List.mem_cons.1 hm with e | hm
      · rw [e]; exact List.contains_iff_mem.1 hc
      · exact h2 hm
    · rw [if_neg hc] at h1
      have ⟨h3, h4⟩ := lmem_del.1 h1
      refine ⟨h3, fun hm => ?_⟩
      rcases List.mem_cons.1 hm with e | hm
      · exact absurd e h4
      · exact h2 hm

theorem lnodup_delFold (keep ks : List TKey) {l : Live} (h : (l.map (·.1)).Nodup) :
    ((delFold keep ks l).map (·.1)).Nodup := by
  induction ks generalizing l with
  | nil => exact h
  | cons k0 ks ih =>
    rw [delFold_cons]
    apply ih
    split
    · exact h
    · exact lnodup_del k0 h

/-! ## the set fold of `revertO2M` -/

/-- second fold of `revertO2M` -/
def setFold (ct : Nat) (shown : List (VRow Key)) (l : Live) : Live :=
  shown.foldl (fun l r => liveSet l (ct, r.key) r.vals) l

theorem setFold_nil (ct : Nat) (l : Live) : setFold ct [] l = l := rfl

theorem setFold_cons (ct : Nat) (r : VRow Key) (shown : List (VRow Key)) (l : Live) :
    setFold ct (r :: shown) l = setFold ct shown (liveSet l (ct, r.key) r.vals) := rfl

theorem lget_setFold_of_not_mem (ct : Nat) (shown : List (VRow Key)) (l : Live) {k : TKey}
    (h : k ∉ shown.map (fun r => (ct, r.key))) : liveGet (setFold ct shown l) k = liveGet l k := by
  induction shown generalizing l with
  | nil => rfl
  | cons r shown ih =>
    rw [List.map_cons] at h
    rw [setFold_cons, ih _ (fun hm => h (List.mem_cons_of_mem _ hm))]
    exact lget_set_ne l _ _ (fun e => h (by rw [e]; exact List.mem_cons_self))

theorem lget_setFold_of_mem (ct : Nat) (shown : List (VRow Key)) (l : Live)
    (hnd : (shown.map (·.key)).Nodup) {r : VRow Key} (hr : r ∈ shown) :
    liveGet (setFold ct shown l) (ct, r.key) = some r.vals := by
  induction shown generalizing l with
  | nil => cases hr
  | cons r0 shown ih =>
    rw [List.map_cons, List.nodup_cons] at hnd
    rw [setFold_cons]
    rcases List.mem_cons.1 hr with rfl | hr
    · rw [lget_setFold_of_not_mem]
      · exact lget_set_self l _ _
      · intro hm
        rcases List.mem_map.1 hm with ⟨r', hr', e⟩
        have : r'.key = r.key := (Prod.mk.injEq _ _ _ _ ▸ e).2
        exact hnd.1 (by rw [← this]; exact List.mem_map_of_mem hr')
    · exact ih _ hnd.2 hr

theorem lmem_setFold {ct : Nat} {shown : List (VRow Key)} {l : Live} {p : TKey × List Val}
    (h : p ∈ setFold ct shown l) : p.1 ∈ shown.map (fun r => (ct, r.key)) ∨ p ∈ l := by
  induction shown generalizing l with
  | nil => exact Or.inr h
  | cons r shown ih =>
    rw [setFold_cons] at h
    rw [List.map_cons]
    rcases ih h with h1 | h1
    · exact Or.inl (List.mem_cons_of_mem _ h1)
    · rcases lmem_set.1 h1 with e | ⟨h2, _⟩
      · left; rw [e]; exact List.mem_cons_self
      · exact Or.inr h2

theorem lnodup_setFold (ct : Nat) (shown : List (VRow Key)) {l : Live} (h : (l.map (·.1)).Nodup) :
    ((setFold ct shown l).map (·.1)).Nodup := by
  induction shown generalizing l with
  | nil => exact h
  | cons r shown ih =>
    rw [setFold_cons]
    exact ih (lnodup_set _ _ h)

/-! ## `revertO2M` and `liveChildren` -/

theorem revertO2M_eq (live : Live) (ct fkIdx : Nat) (pk : List Int) (shown : List (VRow Key)) :
    revertO2M live ct fkIdx pk shown =
      setFold ct shown (delFold (shown.map (fun r => (ct, r.key))) (liveChildren live ct fkIdx pk) live) := rfl

/-- the condition of `liveChildren` on one row -/
def isChild (ct fkIdx : Nat) (pk : List Int) (p : TKey × List Val) : Bool :=
  p.1.1 == ct && (match p.2[fkIdx]? with
    | some (some x) => [x] == pk
    | _ => false)

theorem mem_liveChildren {live : Live} {ct fkIdx : Nat} {pk : List Int} {k : TKey} :
    k ∈ liveChildren live ct fkIdx pk ↔ ∃ p ∈ live, isChild ct fkIdx pk p = true ∧ p.1 = k := by
  unfold liveChildren
  rw [List.mem_map]
  constructor
  · rintro ⟨p, hp, e⟩
    rw [List.mem_filter] at hp
    exact ⟨p, hp.1, hp.2, e⟩
  · rintro ⟨p, hp, hc, e⟩
    exact ⟨p, List.mem_filter.2 ⟨hp, hc⟩, e⟩

theorem lnodup_revertO2M (live : Live) (ct fkIdx : Nat) (pk : List Int) (shown : List (VRow Key))
    (h : (live.map (·.1)).Nodup) : ((revertO2M live ct fkIdx pk shown).map (·.1)).Nodup := by
  rw [revertO2M_eq]
  exact lnodup_setFold _ _ (lnodup_delFold _ _ h)

end Continuum
