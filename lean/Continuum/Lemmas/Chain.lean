import Continuum.Basic

namespace Continuum
variable {K : Type} [DecidableEq K]

theorem nextTx_eq_some {t : VTable K} {k : K} {x n : Nat} :
    nextTx t k x = some n ↔
      (∃ r ∈ t, r.key = k ∧ r.tx = n) ∧ x < n ∧ ∀ r ∈ t, r.key = k → x < r.tx → n ≤ r.tx := by
  unfold nextTx txsAbove
  rw [List.min?_eq_some_iff]
  simp only [List.mem_map, List.mem_filter, decide_eq_true_eq]
  constructor
  · rintro ⟨⟨r, ⟨hr, hk, hx⟩, rfl⟩, hmin⟩
    exact ⟨⟨r, hr, hk, rfl⟩, hx, fun r' hr' hk' hx' => hmin _ ⟨r', ⟨hr', hk', hx'⟩, rfl⟩⟩
  · rintro ⟨⟨r, hr, hk, rfl⟩, hx, hmin⟩
    exact ⟨⟨r, ⟨hr, hk, hx⟩, rfl⟩, by rintro b ⟨r', ⟨hr', hk', hx'⟩, rfl⟩; exact hmin r' hr' hk' hx'⟩

theorem nextTx_eq_none {t : VTable K} {k : K} {x : Nat} :
    nextTx t k x = none ↔ ∀ r ∈ t, r.key = k → ¬ x < r.tx := by
  unfold nextTx txsAbove
  simp [List.filter_eq_nil_iff]

theorem prevTx_eq_some {t : VTable K} {k : K} {x n : Nat} :
    prevTx t k x = some n ↔
      (∃ r ∈ t, r.key = k ∧ r.tx = n) ∧ n < x ∧ ∀ r ∈ t, r.key = k → r.tx < x → r.tx ≤ n := by
  unfold prevTx txsBelow
  rw [List.max?_eq_some_iff]
  simp only [List.mem_map, List.mem_filter, decide_eq_true_eq]
  constructor
  · rintro ⟨⟨r, ⟨hr, hk, hx⟩, rfl⟩, hmax⟩
    exact ⟨⟨r, hr, hk, rfl⟩, hx, fun r' hr' hk' hx' => hmax _ ⟨r', ⟨hr', hk', hx'⟩, rfl⟩⟩
  · rintro ⟨⟨r, hr, hk, rfl⟩, hx, hmax⟩
    exact ⟨⟨r, ⟨hr, hk, hx⟩, rfl⟩, by rintro b ⟨r', ⟨hr', hk', hx'⟩, rfl⟩; exact hmax r' hr' hk' hx'⟩

theorem prevTx_eq_none {t : VTable K} {k : K} {x : Nat} :
    prevTx t k x = none ↔ ∀ r ∈ t, r.key = k → ¬ r.tx < x := by
  unfold prevTx txsBelow
  simp [List.filter_eq_nil_iff]


theorem nextTx_congr {t t' : VTable K} (h : ∀ k n, Has t k n ↔ Has t' k n) (k : K) (x : Nat) :
    nextTx t k x = nextTx t' k x := by
  cases hn : nextTx t' k x with
  | none =>
    rw [nextTx_eq_none] at hn ⊢
    intro r hr hk hx
    obtain ⟨r', hr', hk', htx'⟩ := (h k r.tx).1 ⟨r, hr, hk, rfl⟩
    exact hn r' hr' hk' (by omega)
  | some n =>
    rw [nextTx_eq_some] at hn ⊢
    obtain ⟨hex, hx, hmin⟩ := hn
    refine ⟨(h k n).2 hex, hx, ?_⟩
    intro r hr hk hxr
    obtain ⟨r', hr', hk', htx'⟩ := (h k r.tx).1 ⟨r, hr, hk, rfl⟩
    have := hmin r' hr' hk' (by omega)
    omega

theorem has_closePrev {t : VTable K} {k : K} {T : Nat} (k' : K) (n : Nat) :
    Has (closePrev t k T) k' n ↔ Has t k' n := by
  unfold closePrev
  split
  · rfl
  · unfold Has
    simp only [List.mem_map]
    constructor
    · rintro ⟨r, ⟨a, ha, rfl⟩, hk, hn⟩
      refine ⟨a, ha, ?_⟩
      split at hk <;> split at hn <;> simp_all
    · rintro ⟨r, hr, hk, hn⟩
      refine ⟨_, ⟨r, hr, rfl⟩, ?_⟩
      split <;> simp_all

theorem has_upsert {t : VTable K} {k : K} {T : Nat} {op : Op} {vals mods} (k' : K) (n : Nat) :
    Has (upsert t k T op vals mods) k' n ↔ Has t k' n ∨ (k' = k ∧ n = T) := by
  unfold upsert
  split
  · rename_i hany
    simp only [List.any_eq_true, decide_eq_true_eq] at hany
    unfold Has
    simp only [List.mem_map]
    constructor
    · rintro ⟨r, ⟨a, ha, rfl⟩, hk, hn⟩
      left
      refine ⟨a, ha, ?_⟩
      split at hk <;> split at hn <;> simp_all
    · rintro (⟨r, hr, hk, hn⟩ | ⟨rfl, rfl⟩)
      · refine ⟨_, ⟨r, hr, rfl⟩, ?_⟩
        split <;> simp_all
      · obtain ⟨r, hr, hk, hn⟩ := hany
        refine ⟨_, ⟨r, hr, rfl⟩, ?_⟩
        simp [hk, hn]
  · unfold Has
    simp only [List.mem_append, List.mem_singleton]
    constructor
    · rintro ⟨r, (hr | rfl), hk, hn⟩
      · exact Or.inl ⟨r, hr, hk, hn⟩
      · exact Or.inr ⟨hk.symm, hn.symm⟩
    · rintro (⟨r, hr, hk, hn⟩ | ⟨rfl, rfl⟩)
      · exact ⟨r, Or.inl hr, hk, hn⟩
      · exact ⟨_, Or.inr rfl, rfl, rfl⟩

theorem nextTx_congr_key {t t' : VTable K} {k : K} (h : ∀ n, Has t k n ↔ Has t' k n) (x : Nat) :
    nextTx t k x = nextTx t' k x := by
  cases hn : nextTx t' k x with
  | none =>
    rw [nextTx_eq_none] at hn ⊢
    intro r hr hk hx
    obtain ⟨r', hr', hk', htx'⟩ := (h r.tx).1 ⟨r, hr, hk, rfl⟩
    exact hn r' hr' hk' (by omega)
  | some n =>
    rw [nextTx_eq_some] at hn ⊢
    obtain ⟨hex, hx, hmin⟩ := hn
    refine ⟨(h n).2 hex, hx, ?_⟩
    intro r hr hk hxr
    obtain ⟨r', hr', hk', htx'⟩ := (h r.tx).1 ⟨r, hr, hk, rfl⟩
    have := hmin r' hr' hk' (by omega)
    omega

/-- closing the predecessor of an existing (k,T) row completes the chain -/
theorem chain_closePrev {u : VTable K} {k : K} {T : Nat} (hT : Has u k T)
    (hU : ∀ r ∈ u, (r.key = k ∧ prevTx u k T = some r.tx) ∨ r.endTx = nextTx u r.key r.tx) :
    Chain (closePrev u k T) := by
  intro r' hr'
  have hcongr : ∀ k' x, nextTx (closePrev u k T) k' x = nextTx u k' x :=
    fun k' x => nextTx_congr (fun a b => has_closePrev a b) k' x
  rw [hcongr]
  unfold closePrev at hr'
  split at hr'
  · rename_i hnone
    rcases hU r' hr' with ⟨_, hp⟩ | h
    · rw [hnone] at hp; cases hp
    · exact h
  · rename_i p hp
    simp only [List.mem_map] at hr'
    obtain ⟨r, hr, rfl⟩ := hr'
    split
    · rename_i hm
      obtain ⟨hk, hpx⟩ := hm
      simp only
      rw [prevTx_eq_some] at hp
      obtain ⟨_, hlt, hmax⟩ := hp
      symm
      rw [hk, hpx, nextTx_eq_some]
      refine ⟨hT, hlt, ?_⟩
      intro r2 hr2 hk2 hx2
      by_cases h : r2.tx < T
      · have := hmax r2 hr2 hk2 h; omega
      · omega
    · rename_i hm
      rcases hU r hr with ⟨hk, hp'⟩ | h
      · rw [hp] at hp'
        exact absurd ⟨hk, (Option.some.inj hp').symm⟩ hm
      · exact h

theorem upsert_claim {t : VTable K} {k : K} {T : Nat} {op : Op} {vals mods}
    (hb : Bounded t T) (hc : Chain t) :
    ∀ r ∈ upsert t k T op vals mods,
      (r.key = k ∧ prevTx (upsert t k T op vals mods) k T = some r.tx) ∨
      r.endTx = nextTx (upsert t k T op vals mods) r.key r.tx := by
  intro r hr
  by_cases hex : Has t k T
  · -- skeleton unchanged
    right
    have hsk : ∀ k' n, Has (upsert t k T op vals mods) k' n ↔ Has t k' n := by
      intro k' n; rw [has_upsert]
      constructor
      · rintro (h | ⟨rfl, rfl⟩); exact h; exact hex
      · exact Or.inl
    rw [nextTx_congr hsk]
    unfold upsert at hr
    have hany : (t.any fun r => decide (r.key = k ∧ r.tx = T)) = true := by
      obtain ⟨r0, hr0, h1, h2⟩ := hex
      simp only [List.any_eq_true, decide_eq_true_eq]; exact ⟨r0, hr0, h1, h2⟩
    rw [if_pos hany] at hr
    simp only [List.mem_map] at hr
    obtain ⟨a, ha, rfl⟩ := hr
    have := hc a ha
    split <;> simpa using this
  · have hany : ¬ (t.any fun r => decide (r.key = k ∧ r.tx = T)) = true := by
      simp only [List.any_eq_true, decide_eq_true_eq]
      rintro ⟨r0, hr0, h1, h2⟩; exact hex ⟨r0, hr0, h1, h2⟩
    have hu : upsert t k T op vals mods = t ++ [{key := k, tx := T, endTx := none, op := op, vals := vals, mods := mods}] := by
      unfold upsert; rw [if_neg hany]
    have hlt : ∀ r ∈ t, r.key = k → r.tx < T := by
      intro r0 hr0 hk0
      have := hb r0 hr0
      have : r0.tx ≠ T := fun h => hex ⟨r0, hr0, hk0, h⟩
      omega
    rw [hu] at hr ⊢
    simp only [List.mem_append, List.mem_singleton] at hr
    rcases hr with hr | rfl
    · by_cases hk : r.key = k
      · cases hn : nextTx t k r.tx with
        | none =>
          left
          refine ⟨hk, ?_⟩
          rw [prevTx_eq_some]
          rw [nextTx_eq_none] at hn
          refine ⟨⟨r, by simp [hr], hk, rfl⟩, hlt r hr hk, ?_⟩
          intro r2 hr2 hk2 hx2
          simp only [List.mem_append, List.mem_singleton] at hr2
          rcases hr2 with hr2 | rfl
          · have := hn r2 hr2 hk2; omega
          · simp at hx2
        | some m =>
          right
          have h1 := hc r hr
          rw [hk] at h1 ⊢
          rw [h1, hn]
          symm
          rw [nextTx_eq_some] at hn ⊢
          obtain ⟨⟨r1, hr1, hk1, hm1⟩, hx, hmin⟩ := hn
          refine ⟨⟨r1, by simp [hr1], hk1, hm1⟩, hx, ?_⟩
          intro r2 hr2 hk2 hx2
          simp only [List.mem_append, List.mem_singleton] at hr2
          rcases hr2 with hr2 | rfl
          · exact hmin r2 hr2 hk2 hx2
          · have := hlt r1 hr1 hk1; simp only; omega
      · right
        rw [hc r hr]
        apply nextTx_congr_key
        intro n
        unfold Has
        simp only [List.mem_append, List.mem_singleton]
        constructor
        · rintro ⟨a, ha, h1, h2⟩; exact ⟨a, Or.inl ha, h1, h2⟩
        · rintro ⟨a, (ha | rfl), h1, h2⟩
          · exact ⟨a, ha, h1, h2⟩
          · exact absurd h1.symm hk
    · right
      simp only
      symm
      rw [nextTx_eq_none]
      intro r2 hr2 hk2
      simp only [List.mem_append, List.mem_singleton] at hr2
      rcases hr2 with hr2 | rfl
      · have := hlt r2 hr2 hk2; omega
      · simp

/-- One version write preserves the validity chain (C03 one-step). -/
theorem chain_writeVersion {t : VTable K} {k : K} {T : Nat} {op : Op} {vals mods}
    (hb : Bounded t T) (hc : Chain t) : Chain (writeVersion t k T op vals mods) := by
  unfold writeVersion
  apply chain_closePrev
  · rw [has_upsert]; exact Or.inr ⟨rfl, rfl⟩
  · exact upsert_claim hb hc


end Continuum
