import Continuum.Spec.Tables
import Continuum.Lemmas.Chain

/-!
# Helper lemmas for the end-transaction backfill (C16)

* maps that keep the `(key, tx)` skeleton keep `Has` and therefore `nextTx`
* `backfillEnd` / `wipeEnd` are such maps
* small toolkit for `AllPairs`
-/

namespace Continuum
variable {K : Type} [DecidableEq K]

/-! ## Skeleton-preserving maps -/

omit [DecidableEq K] in
theorem has_map_of_skeleton {f : VRow K → VRow K}
    (hf : ∀ r, (f r).key = r.key ∧ (f r).tx = r.tx) (t : VTable K) (k : K) (n : Nat) :
    Has (t.map f) k n ↔ Has t k n := by
  unfold Has
  simp only [List.mem_map]
  constructor
  · rintro ⟨r, ⟨a, ha, rfl⟩, hk, hn⟩
    exact ⟨a, ha, (hf a).1 ▸ hk, (hf a).2 ▸ hn⟩
  · rintro ⟨r, hr, hk, hn⟩
    exact ⟨f r, ⟨r, hr, rfl⟩, (hf r).1.trans hk, (hf r).2.trans hn⟩

theorem nextTx_map_of_skeleton {f : VRow K → VRow K}
    (hf : ∀ r, (f r).key = r.key ∧ (f r).tx = r.tx) (t : VTable K) (k : K) (x : Nat) :
    nextTx (t.map f) k x = nextTx t k x :=
  nextTx_congr (fun k n => has_map_of_skeleton hf t k n) k x

/-- the row transformer of `backfillEnd`, with the reference table as a parameter -/
def backfillRow (t : VTable K) (r : VRow K) : VRow K :=
  match nextTx t r.key r.tx with
  | some n => { r with endTx := some n }
  | none => r

theorem backfillEnd_eq_map (t : VTable K) : backfillEnd t = t.map (backfillRow t) := rfl

theorem backfillRow_skeleton (t : VTable K) (r : VRow K) :
    (backfillRow t r).key = r.key ∧ (backfillRow t r).tx = r.tx := by
  unfold backfillRow; split <;> exact ⟨rfl, rfl⟩

theorem backfillRow_sameButEnd (t : VTable K) (r : VRow K) : sameButEnd r (backfillRow t r) := by
  unfold backfillRow sameButEnd; split <;> exact ⟨rfl, rfl, rfl, rfl, rfl⟩

theorem backfillRow_endTx (t : VTable K) (r : VRow K) :
    (backfillRow t r).endTx =
      (match nextTx t r.key r.tx with | some n => some n | none => r.endTx) := by
  unfold backfillRow; split <;> rfl

theorem backfillRow_of_some {t : VTable K} {r : VRow K} {n : Nat}
    (h : nextTx t r.key r.tx = some n) : backfillRow t r = { r with endTx := some n } := by
  unfold backfillRow; rw [h]

theorem backfillRow_of_none {t : VTable K} {r : VRow K}
    (h : nextTx t r.key r.tx = none) : backfillRow t r = r := by
  unfold backfillRow; rw [h]

theorem backfillRow_congr {t t' : VTable K} (h : ∀ k x, nextTx t k x = nextTx t' k x)
    (r : VRow K) : backfillRow t r = backfillRow t' r := by
  unfold backfillRow; rw [h]

theorem has_backfillEnd (t : VTable K) (k : K) (n : Nat) : Has (backfillEnd t) k n ↔ Has t k n :=
  has_map_of_skeleton (backfillRow_skeleton t) t k n

theorem nextTx_backfillEnd (t : VTable K) (k : K) (x : Nat) :
    nextTx (backfillEnd t) k x = nextTx t k x :=
  nextTx_map_of_skeleton (backfillRow_skeleton t) t k x

omit [DecidableEq K] in
theorem has_wipeEnd (t : VTable K) (k : K) (n : Nat) : Has (wipeEnd t) k n ↔ Has t k n :=
  has_map_of_skeleton (f := fun r => { r with endTx := none }) (fun _ => ⟨rfl, rfl⟩) t k n

theorem nextTx_wipeEnd (t : VTable K) (k : K) (x : Nat) :
    nextTx (wipeEnd t) k x = nextTx t k x :=
  nextTx_map_of_skeleton (f := fun r => { r with endTx := none }) (fun _ => ⟨rfl, rfl⟩) t k x

theorem newestOpen_wipeEnd (t : VTable K) : NewestOpen (wipeEnd t) := by
  intro r hr _
  unfold wipeEnd at hr
  simp only [List.mem_map] at hr
  obtain ⟨a, _, rfl⟩ := hr
  rfl

/-! ## `AllPairs` toolkit -/

theorem allPairs_map {α β : Type} {P : α → β → Prop} (f : α → β) (l : List α)
    (h : ∀ a ∈ l, P a (f a)) : AllPairs P l (l.map f) := by
  refine ⟨List.length_map f, ?_⟩
  induction l with
  | nil => intro p hp; simp at hp
  | cons a l ih =>
    intro p hp
    simp only [List.map_cons, List.zip_cons_cons, List.mem_cons] at hp
    rcases hp with rfl | hp
    · exact h a (List.mem_cons_self)
    · exact ih (fun b hb => h b (List.mem_cons_of_mem _ hb)) p hp

/-- weaken the relation, knowing where both components come from -/
theorem AllPairs.imp {α β : Type} {P Q : α → β → Prop} {l : List α} {l' : List β}
    (h : AllPairs P l l') (hPQ : ∀ a ∈ l, ∀ b ∈ l', P a b → Q a b) : AllPairs Q l l' :=
  ⟨h.1, fun p hp => hPQ p.1 (List.of_mem_zip hp).1 p.2 (List.of_mem_zip hp).2 (h.2 p hp)⟩

theorem allPairs_eq {α : Type} {l l' : List α} (h : AllPairs (fun a b => b = a) l l') :
    l' = l := by
  obtain ⟨hlen, hp⟩ := h
  induction l generalizing l' with
  | nil => simpa using hlen
  | cons a l ih =>
    cases l' with
    | nil => simp at hlen
    | cons b l' =>
      have hb : b = a := hp (a, b) (by simp)
      have := ih (l' := l') (by simpa using hlen)
        (fun p hp' => hp p (by simp only [List.zip_cons_cons]; exact List.mem_cons_of_mem _ hp'))
      rw [hb, this]

omit [DecidableEq K] in
/-- position-wise `sameButEnd` tables have the same `(key, tx)` skeleton -/
theorem has_of_allPairs_sameButEnd {t t' : VTable K} (hs : AllPairs sameButEnd t t')
    (k : K) (n : Nat) : Has t' k n ↔ Has t k n := by
  obtain ⟨hlen, hp⟩ := hs
  unfold Has
  constructor
  · rintro ⟨r', hr', hk, hn⟩
    obtain ⟨i, hi, rfl⟩ := List.getElem_of_mem hr'
    have hi' : i < t.length := hlen ▸ hi
    have hmem : (t[i], t'[i]) ∈ t.zip t' := by
      rw [List.mem_iff_getElem]
      exact ⟨i, by simp [List.length_zip]; omega, by simp⟩
    have hsb := hp _ hmem
    exact ⟨t[i], List.getElem_mem hi', hsb.1 ▸ hk, hsb.2.1 ▸ hn⟩
  · rintro ⟨r, hr, hk, hn⟩
    obtain ⟨i, hi, rfl⟩ := List.getElem_of_mem hr
    have hi' : i < t'.length := hlen ▸ hi
    have hmem : (t[i], t'[i]) ∈ t.zip t' := by
      rw [List.mem_iff_getElem]
      exact ⟨i, by simp [List.length_zip]; omega, by simp⟩
    have hsb := hp _ hmem
    exact ⟨t'[i], List.getElem_mem hi', hsb.1.trans hk, hsb.2.1.trans hn⟩

end Continuum
