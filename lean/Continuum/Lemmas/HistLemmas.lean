import Continuum.Lemmas.UowInv
import Continuum.Lemmas.UowLive

/-!
# Helper lemmas for the history-level assembly (`Props/History.lean`)

* `wfShape_append`   – `WFShape` splits over `++` like `WF` does (`wf_append`);
* `ChgNodup`         – "no duplicate `transaction_changes` row" in the working database, in the
                        committed snapshot and in every savepoint snapshot; preserved by EVERY
                        step of the model (no contract needed: `addChanges` only appends a pair
                        that is not there yet);
* `flatMap_take_succ`, `flatMap_split_at` – splitting a flattened history at its `i`-th segment.
-/

namespace Continuum

/-! ## `WFShape` over `++` -/

theorem wfShape_append (cfg : Cfg) (s : St) (a b : List Ev) :
    WFShape cfg s (a ++ b) ↔ WFShape cfg s a ∧ WFShape cfg (run cfg s a) b := by
  induction a generalizing s with
  | nil => simp [WFShape, run]
  | cons e es ih =>
    simp only [List.cons_append, WFShape, run_cons, ih, and_assoc]

/-- `WF` does not care about a trailing `rollback` -/
theorem wf_snoc_rollback (cfg : Cfg) (s : St) (evs : List Ev) :
    WF cfg s (evs ++ [.rollback]) ↔ WF cfg s evs := by
  induction evs generalizing s with
  | nil => simp [WF, EvOK]
  | cons e es ih => simp only [List.cons_append, WF, ih]

/-! ## No duplicate `transaction_changes` rows -/

theorem addChanges_nodup (ch : List (Nat × Nat)) (T : Nat) (ops : List OpEntry) (h : ch.Nodup) :
    (addChanges ch T ops).Nodup := by
  unfold addChanges
  induction ops generalizing ch with
  | nil => exact h
  | cons e es ih =>
    rw [List.foldl_cons]
    apply ih
    split
    · exact h
    · rename_i hc
      have hc' : (T, e.cls) ∉ ch := by
        intro hm
        exact hc (List.contains_iff_mem.2 hm)
      rw [List.nodup_append]
      refine ⟨h, List.pairwise_singleton _ _, ?_⟩
      intro a ha b hb
      rw [List.mem_singleton] at hb
      subst hb
      intro heq
      exact hc' (heq ▸ ha)

/-- no duplicate change row in the working database, the committed snapshot, and every open
savepoint snapshot -/
def ChgNodup (s : St) : Prop :=
  s.db.changes.Nodup ∧ s.committed.changes.Nodup ∧ ∀ d ∈ s.sps, d.1.changes.Nodup

theorem step_afterFlush_changes {cfg : Cfg} {s : St} {T : Nat} (h : s.uowD.cur = some T) :
    (step cfg s .afterFlush).db.changes =
      (if cfg.txChanges && !s.uowD.ops.isEmpty then addChanges s.db.changes T s.uowD.ops
       else s.db.changes) ∧
    (step cfg s .afterFlush).committed = s.committed ∧
    (step cfg s .afterFlush).sps = s.sps := by
  have h' : ({ s with uow := some s.uowD } : St).uowD.cur = some T := h
  simp only [step]
  rw [h']
  exact ⟨rfl, rfl, rfl⟩

theorem chgNodup_createTx {s : St} {n : Nat} (h : ChgNodup s) : ChgNodup (createTx s n) := h

theorem chgNodup_step (cfg : Cfg) (s : St) (e : Ev) (h : ChgNodup s) : ChgNodup (step cfg s e) := by
  obtain ⟨hd, hc, hs⟩ := h
  cases e with
  | beforeFlush objs newId pm =>
    simp only [step]
    split
    · exact ⟨hd, hc, hs⟩
    · split
      · exact ⟨hd, hc, hs⟩
      · exact ⟨hd, hc, hs⟩
  | manualTx newId => exact ⟨hd, hc, hs⟩
  | ins c pk vals ch =>
    simp only [step]
    split
    · exact ⟨hd, hc, hs⟩
    · exact ⟨hd, hc, hs⟩
  | upd c pk vals cc rc kc kr =>
    simp only [step]
    split
    · exact ⟨hd, hc, hs⟩
    · split
      · exact ⟨hd, hc, hs⟩
      · split
        · exact ⟨hd, hc, hs⟩
        · exact ⟨hd, hc, hs⟩
  | del c pk vals =>
    simp only [step]
    split
    · exact ⟨hd, hc, hs⟩
    · exact ⟨hd, hc, hs⟩
  | assoc tbl op links =>
    simp only [step]
    split
    · exact ⟨hd, hc, hs⟩
    · exact ⟨hd, hc, hs⟩
  | afterFlush =>
    cases hcur : s.uowD.cur with
    | none =>
      rw [step_afterFlush_none hcur]
      exact ⟨hd, hc, hs⟩
    | some T =>
      obtain ⟨h1, h2, h3⟩ := step_afterFlush_changes (cfg := cfg) hcur
      refine ⟨?_, ?_, ?_⟩
      · rw [h1]
        split
        · exact addChanges_nodup _ _ _ hd
        · exact hd
      · rw [h2]
        exact hc
      · rw [h3]
        exact hs
  | commit => exact ⟨hd, hd, fun _ hm => absurd hm List.not_mem_nil⟩
  | rollback => exact ⟨hc, hc, fun _ hm => absurd hm List.not_mem_nil⟩
  | spBegin =>
    refine ⟨hd, hc, ?_⟩
    intro d hm
    rcases List.mem_cons.1 hm with rfl | hm
    · exact hd
    · exact hs d hm
  | spCommit =>
    refine ⟨hd, hc, ?_⟩
    intro d hm
    exact hs d (List.mem_of_mem_tail hm)
  | spRollback =>
    simp only [step]
    split
    · exact ⟨hd, hc, hs⟩
    · rename_i snap u rest heq
      refine ⟨hs (snap, u) (by rw [heq]; exact List.mem_cons_self), hc, ?_⟩
      intro d hm
      exact hs d (by rw [heq]; exact List.mem_cons_of_mem _ hm)

theorem chgNodup_run (cfg : Cfg) (s : St) (evs : List Ev) (h : ChgNodup s) :
    ChgNodup (run cfg s evs) := by
  induction evs generalizing s with
  | nil => exact h
  | cons e es ih =>
    rw [run_cons]
    exact ih _ (chgNodup_step cfg s e h)

/-! ## Splitting a flattened list of segments -/

theorem flatMap_take_succ {α β : Type} (f : α → List β) (l : List α) (i : Nat) (hi : i < l.length) :
    (l.take (i + 1)).flatMap f = (l.take i).flatMap f ++ f l[i] := by
  rw [List.take_add_one, List.flatMap_append, List.getElem?_eq_getElem hi]
  simp

theorem flatMap_split_at {α β : Type} (f : α → List β) (l : List α) (i : Nat) (hi : i < l.length) :
    l.flatMap f = (l.take i).flatMap f ++ (f l[i] ++ (l.drop (i + 1)).flatMap f) := by
  conv => lhs; rw [← List.take_append_drop i l]
  rw [List.flatMap_append, List.drop_eq_getElem_cons hi, List.flatMap_cons]

end Continuum
