import Continuum.Rel
import Continuum.Lemmas.UowInv
import Continuum.Lemmas.AsOf
import Continuum.Lemmas.Versions

/-!
# Helper lemmas for C04 (`Props/C04.lean`)

* `asOf` / `aliveAsOf` characterised row-wise under the version primary key;
* `(key, tx)` of a filtered version table has no duplicates;
* `asOf_agree`: two tables that hold the same rows (up to end column / flags) of `k` at ids `≤ x`
  show the same `lastTx` / `asOfData` at `x`;
* `linkedAsOf_congr`: the same for association rows;
* which events touch `db.versions`, `db.assoc`, `committed`.

Core Lean only.
-/

namespace Continuum

section Table
variable {K : Type} [DecidableEq K]

/-- under the primary key a row is determined by `(key, tx)` -/
theorem pk_eq {t : VTable K} (hpk : PKUnique t) {r r' : VRow K} (hr : r ∈ t) (hr' : r' ∈ t)
    (hk : r.key = r'.key) (ht : r.tx = r'.tx) : r = r' := by
  have h1 := rowAt_eq_of_mem hpk hr
  have h2 := rowAt_eq_of_mem hpk hr'
  rw [hk, ht, h2] at h1
  exact (Option.some.inj h1).symm

theorem asOf_eq_some_iff {t : VTable K} (hpk : PKUnique t) {k : K} {T : Nat} {r : VRow K} :
    asOf t k T = some r ↔ r ∈ t ∧ r.key = k ∧ lastTx t k T = some r.tx := by
  unfold asOf
  constructor
  · intro h
    cases hm : lastTx t k T with
    | none => rw [hm] at h; simp at h
    | some m =>
      rw [hm] at h
      simp only [Option.bind_some] at h
      obtain ⟨h1, h2, h3⟩ := rowAt_eq_some h
      exact ⟨h1, h2, by rw [h3]⟩
  · rintro ⟨hr, hk, hl⟩
    rw [hl]
    simp only [Option.bind_some]
    rw [← hk]
    exact rowAt_eq_of_mem hpk hr

omit [DecidableEq K] in
/-- `(key, tx)` is injective on a table satisfying the primary key -/
theorem nodup_keytx {t : VTable K} (hpk : PKUnique t) (p : VRow K → Bool) :
    ((t.filter p).map (fun r => (r.key, r.tx))).Nodup := by
  unfold List.Nodup
  rw [List.pairwise_map]
  refine List.Pairwise.imp ?_ (List.Pairwise.filter p hpk)
  intro a b hab heq
  simp only [Prod.mk.injEq] at heq
  exact hab heq

/-- Two tables holding the same rows of `k` (up to end column and flags) at every id `≤ x` show
the same thing at `x`. -/
theorem asOf_agree {t t' : VTable K} {k : K} {x : Nat} (hpk' : PKUnique t')
    (hback : ∀ n, n ≤ x → Has t' k n → Has t k n)
    (hkeep : ∀ r ∈ t, r.key = k → r.tx ≤ x → ∃ r' ∈ t', SameData r r') :
    lastTx t k x = lastTx t' k x ∧ asOfData t k x = asOfData t' k x := by
  have hl : lastTx t k x = lastTx t' k x := by
    apply lastTx_congr
    intro n hn
    constructor
    · rintro ⟨r, hr, hk, rfl⟩
      obtain ⟨r', hr', h1, h2, _⟩ := hkeep r hr hk hn
      exact ⟨r', hr', h1.trans hk, h2⟩
    · exact hback n hn
  refine ⟨hl, ?_⟩
  unfold asOfData
  rw [hl]
  cases hm : lastTx t' k x with
  | none => rfl
  | some m =>
    simp only [Option.bind_some]
    obtain ⟨hex, hmx, _⟩ := lastTx_eq_some.1 hm
    obtain ⟨r, hr⟩ := rowAt_isSome_of_has (hback m hmx hex)
    obtain ⟨hrt, hrk, hrm⟩ := rowAt_eq_some hr
    obtain ⟨r', hr', h1, h2, h3, h4⟩ := hkeep r hrt hrk (by omega)
    have hr2 := rowAt_eq_of_mem hpk' hr'
    rw [h1, h2, hrk, hrm] at hr2
    unfold rowAt at hr hr2
    rw [hr, hr2]
    simp [h3, h4]

theorem max?_congr_mem {l l' : List Nat} (h : ∀ n, n ∈ l ↔ n ∈ l') : l.max? = l'.max? := by
  cases hm : l'.max? with
  | none =>
    rw [List.max?_eq_none_iff] at hm ⊢
    subst hm
    exact List.eq_nil_iff_forall_not_mem.2 (fun n hn => by simpa using (h n).1 hn)
  | some m =>
    rw [List.max?_eq_some_iff] at hm ⊢
    exact ⟨(h m).2 hm.1, fun b hb => hm.2 b ((h b).1 hb)⟩

end Table

/-! ## `aliveAsOf` and the three criteria -/

theorem aliveAsOf_eq_some_iff {t : VTable Key} (hpk : PKUnique t) {k : Key} {T : Nat}
    {r : VRow Key} :
    aliveAsOf t k T = some r ↔ r ∈ t ∧ r.key = k ∧ lastTx t k T = some r.tx ∧ r.op ≠ .delete := by
  unfold aliveAsOf
  rw [Option.filter_eq_some_iff, asOf_eq_some_iff hpk]
  simp only [decide_eq_true_eq]
  constructor
  · rintro ⟨⟨h1, h2, h3⟩, h4⟩; exact ⟨h1, h2, h3, h4⟩
  · rintro ⟨h1, h2, h3, h4⟩; exact ⟨⟨h1, h2, h3⟩, h4⟩

theorem manyToOne_eq {remote : VTable Key} (hpk : PKUnique remote) (fk : Option Key) (T : Nat) :
    manyToOne remote fk T = fk.bind (fun k => aliveAsOf remote k T) := by
  cases fk with
  | none => rfl
  | some k =>
    simp only [manyToOne, Option.bind_some]
    have hfwd : ∀ r, remote.find? (fun r => r.key = k ∧ some r.tx = lastTx remote k T ∧
        r.op ≠ .delete) = some r → aliveAsOf remote k T = some r := by
      intro r h
      have hm := List.mem_of_find?_eq_some h
      have hp := List.find?_some h
      simp only [decide_eq_true_eq] at hp
      exact (aliveAsOf_eq_some_iff hpk).2 ⟨hm, hp.1, hp.2.1.symm, hp.2.2⟩
    cases ha : aliveAsOf remote k T with
    | some r =>
      obtain ⟨h1, h2, h3, h4⟩ := (aliveAsOf_eq_some_iff hpk).1 ha
      cases hf : remote.find? (fun r => r.key = k ∧ some r.tx = lastTx remote k T ∧
          r.op ≠ .delete) with
      | some r' =>
        have := hfwd r' hf
        rw [ha] at this
        rw [Option.some.inj this]
      | none =>
        rw [List.find?_eq_none] at hf
        exact absurd (by simp [h2, h3, h4]) (hf r h1)
    | none =>
      cases hf : remote.find? (fun r => r.key = k ∧ some r.tx = lastTx remote k T ∧
          r.op ≠ .delete) with
      | some r' =>
        have := hfwd r' hf
        rw [ha] at this
        cases this
      | none => rfl

/-- the common shape of `one_to_many_criteria` / `many_to_many_criteria` -/
theorem toMany_holds {remote : VTable Key} (hpk : PKUnique remote) (T : Nat)
    (P : VRow Key → Bool) :
    let ans := (remote.filter (fun r => P r = true ∧ some r.tx = lastTx remote r.key T ∧
      r.op ≠ .delete)).map (fun r => (r.key, r.tx))
    ans.Nodup ∧ (∀ a ∈ ans, ansOK remote T P a = true) ∧
    (∀ r ∈ remote, isAliveAsOf remote T r = true → P r = true → (r.key, r.tx) ∈ ans) := by
  intro ans
  refine ⟨nodup_keytx hpk _, ?_, ?_⟩
  · intro a ha
    simp only [ans, List.mem_map, List.mem_filter, decide_eq_true_eq] at ha
    obtain ⟨r, ⟨hr, hP, hl, hop⟩, rfl⟩ := ha
    have : aliveAsOf remote r.key T = some r :=
      (aliveAsOf_eq_some_iff hpk).2 ⟨hr, rfl, hl.symm, hop⟩
    simp [ansOK, this, hP]
  · intro r hr halive hP
    have ha : aliveAsOf remote r.key T = some r := by
      unfold isAliveAsOf at halive
      exact eq_of_beq halive
    obtain ⟨_, _, hl, hop⟩ := (aliveAsOf_eq_some_iff hpk).1 ha
    simp only [ans, List.mem_map, List.mem_filter, decide_eq_true_eq]
    exact ⟨r, ⟨hr, hP, hl.symm, hop⟩, rfl⟩

/-! ## association rows -/

theorem mem_linkTxs {A : List ARow} {tbl : Nat} {link : List Int} {x n : Nat} :
    n ∈ linkTxs A tbl link x ↔ ∃ a ∈ A, a.tbl = tbl ∧ a.link = link ∧ a.tx ≤ x ∧ a.tx = n := by
  unfold linkTxs
  simp only [List.mem_map, List.mem_filter, decide_eq_true_eq]
  constructor
  · rintro ⟨a, ⟨h0, h1, h2, h3⟩, h4⟩; exact ⟨a, h0, h1, h2, h3, h4⟩
  · rintro ⟨a, h0, h1, h2, h3, h4⟩; exact ⟨a, ⟨h0, h1, h2, h3⟩, h4⟩

/-- two association tables with the same rows at ids `≤ x` show the same links at `x` -/
theorem linkedAsOf_congr {A B : List ARow} {tbl : Nat} {link : List Int} {x : Nat}
    (h : ∀ a, a.tx ≤ x → (a ∈ A ↔ a ∈ B)) :
    linkedAsOf A tbl link x = linkedAsOf B tbl link x := by
  have hl : (linkTxs A tbl link x).max? = (linkTxs B tbl link x).max? := by
    apply max?_congr_mem
    intro n
    rw [mem_linkTxs, mem_linkTxs]
    constructor
    · rintro ⟨a, h0, h1, h2, h3, h4⟩; exact ⟨a, (h a h3).1 h0, h1, h2, h3, h4⟩
    · rintro ⟨a, h0, h1, h2, h3, h4⟩; exact ⟨a, (h a h3).2 h0, h1, h2, h3, h4⟩
  have hle : ∀ a : ARow, some a.tx = (linkTxs B tbl link x).max? → a.tx ≤ x := by
    intro a ha
    have := (List.max?_eq_some_iff.1 ha.symm).1
    rw [mem_linkTxs] at this
    obtain ⟨b, _, _, _, h3, h4⟩ := this
    omega
  unfold linkedAsOf
  rw [hl, Bool.eq_iff_iff]
  simp only [List.any_eq_true, decide_eq_true_eq]
  constructor
  · rintro ⟨a, h0, h1, h2, h3, h4⟩; exact ⟨a, (h a (hle a h4)).1 h0, h1, h2, h3, h4⟩
  · rintro ⟨a, h0, h1, h2, h3, h4⟩; exact ⟨a, (h a (hle a h4)).2 h0, h1, h2, h3, h4⟩

/-- `addAssoc` keeps every row not stamped `T` (a row stamped `T` may be replaced by a later change
of the same link within the transaction) -/
theorem mem_addAssoc_of_mem {a : List ARow} {T : Nat} {pending : List (Nat × Op × List Int)} :
    ∀ x ∈ a, x.tx ≠ T → x ∈ (addAssoc a T pending).1 := by
  unfold addAssoc
  generalize false = b
  induction pending generalizing a b with
  | nil => intro x hx _; exact hx
  | cons p ps ih =>
    intro x hx hne
    simp only [List.foldl_cons]
    refine ih _ x (List.mem_append.2 (Or.inl (List.mem_filter.2 ⟨hx, ?_⟩))) hne
    simp only [Bool.not_eq_true', decide_eq_false_iff_not]
    exact fun h => hne h.2.2

/-! ## the state machine -/

/-- a committed id is older than the current one -/
theorem committed_lt_cur {cfg : Cfg} {s : St} (hinv : Inv cfg s) {x T : Nat}
    (hx : x ∈ s.committed.txs) (hc : s.uowD.cur = some T) : x < T := by
  obtain ⟨_, hmax, hnew⟩ := hinv.cur_in T hc
  have h1 := hmax x (hinv.grow x hx)
  have h2 : x ≠ T := fun h => hnew (h ▸ hx)
  omega

/-- only `afterFlush`, `commit`, `rollback` touch the version tables or the committed snapshot -/
theorem step_frame (cfg : Cfg) (s : St) (e : Ev) (hok : EvOK cfg s e) :
    e = .afterFlush ∨ e = .commit ∨ e = .rollback ∨
    ((step cfg s e).db.versions = s.db.versions ∧ (step cfg s e).db.assoc = s.db.assoc ∧
      (step cfg s e).committed = s.committed) := by
  cases e with
  | beforeFlush objs newId pm =>
    right; right; right
    simp only [step]
    split
    · exact ⟨rfl, rfl, rfl⟩
    · split
      · exact ⟨rfl, rfl, rfl⟩
      · exact ⟨rfl, rfl, rfl⟩
  | manualTx newId => exact Or.inr (Or.inr (Or.inr ⟨rfl, rfl, rfl⟩))
  | ins cls pk vals changed =>
    right; right; right
    simp only [step]
    split
    · exact ⟨rfl, rfl, rfl⟩
    · exact ⟨rfl, rfl, rfl⟩
  | upd cls pk vals cc rc kc kr =>
    right; right; right
    simp only [step]
    split
    · exact ⟨rfl, rfl, rfl⟩
    · split
      · exact ⟨rfl, rfl, rfl⟩
      · split
        · exact ⟨rfl, rfl, rfl⟩
        · exact ⟨rfl, rfl, rfl⟩
  | del cls pk vals =>
    right; right; right
    simp only [step]
    split
    · exact ⟨rfl, rfl, rfl⟩
    · exact ⟨rfl, rfl, rfl⟩
  | assoc tbl op links =>
    right; right; right
    simp only [step]
    split
    · exact ⟨rfl, rfl, rfl⟩
    · exact ⟨rfl, rfl, rfl⟩
  | afterFlush => exact Or.inl rfl
  | commit => exact Or.inr (Or.inl rfl)
  | rollback => exact Or.inr (Or.inr (Or.inl rfl))
  | spBegin => exact Or.inr (Or.inr (Or.inr ⟨rfl, rfl, rfl⟩))
  | spCommit => exact Or.inr (Or.inr (Or.inr ⟨rfl, rfl, rfl⟩))
  | spRollback => exact absurd hok (by simp [EvOK])

/-- a committed id stays committed -/
theorem committed_txs_step {cfg : Cfg} {s : St} {e : Ev} (hinv : Inv cfg s) (hok : EvOK cfg s e)
    {x : Nat} (hx : x ∈ s.committed.txs) : x ∈ (step cfg s e).committed.txs := by
  rcases step_frame cfg s e hok with rfl | rfl | rfl | ⟨_, _, hc⟩
  · rw [step_committed (by rfl)]; exact hx
  · exact hinv.grow x hx
  · exact hx
  · rw [hc]; exact hx

/-- a flush stamped `T` does not change what an older id shows -/
theorem processOps_past {cfg : Cfg} {t : VTable TKey} {T : Nat} {ops : List OpEntry}
    (hpk : PKUnique t) (k : TKey) (x : Nat) (hx : x < T) :
    lastTx (processOps cfg t T ops) k x = lastTx t k x ∧
    asOfData (processOps cfg t T ops) k x = asOfData t k x := by
  have := asOf_agree (t := t) (t' := processOps cfg t T ops) (k := k) (x := x)
    (pk_processOps hpk)
    (by
      intro n hn hh
      rcases has_processOps k n hh with h | h
      · exact h
      · omega)
    (by
      intro r hr _ hle
      exact keep_processOps r hr (by omega))
  exact ⟨this.1.symm, this.2.symm⟩

/-- a rollback does not change what a committed id shows -/
theorem rollback_past {cfg : Cfg} {s : St} (hinv : Inv cfg s) (k : TKey) (x : Nat)
    (hx : x ∈ s.committed.txs) :
    lastTx s.committed.versions k x = lastTx s.db.versions k x ∧
    asOfData s.committed.versions k x = asOfData s.db.versions k x := by
  apply asOf_agree hinv.db.pk
  · rintro n hn ⟨r, hr, hk, rfl⟩
    rcases hinv.rows_old_or_cur r hr with ⟨r', hr', hk', ht'⟩ | hc
    · exact ⟨r', hr', hk'.trans hk, ht'⟩
    · have := committed_lt_cur hinv hx hc
      omega
  · intro r' hr' _ _
    obtain ⟨r, hr, h⟩ := hinv.past r' hr'
    exact ⟨r, hr, h⟩

end Continuum
