import Continuum.Mgr
import Continuum.Lemmas.UowInv

/-!
# Helper lemmas for the manager model (`Props/C09.lean`)

* `Mgr.get` / `Mgr.set` are association-list lookup / update;
* `register`, `sweepClosed` (with no closed connection) and updates of `scm` do not change `get`;
* a normal form of `mgrStep` under the invariant `MInv` (no closed connection; a unit of work is
  only held, or remembered by an open savepoint, by a registered connection) and `MGood` (session ↔ connection is a bijection on the
  registered pairs and the events still to come; no `close` event);
* the generalised projection and quiescence statements, by induction over the event list from an
  arbitrary manager state satisfying the invariant.
-/

namespace Continuum

/-! ## association list -/

theorem find_set_self_map (c : Nat) (s : St) : ∀ (l : List (Nat × St)),
    l.any (fun p => p.1 = c) = true →
    (l.map (fun p => if p.1 = c then (c, s) else p)).find? (fun p => p.1 = c) = some (c, s)
  | [], h => by simp at h
  | hd :: tl, h => by
    by_cases hc : hd.1 = c
    · simp [hc]
    · have h' : tl.any (fun p => p.1 = c) = true := by simpa [hc] using h
      have ih := find_set_self_map c s tl h'
      simp only [List.map_cons, hc, if_false]
      rw [List.find?_cons_of_neg (by simpa using hc)]
      exact ih

theorem find_set_other_map (c c' : Nat) (s : St) (hne : c' ≠ c) : ∀ (l : List (Nat × St)),
    (l.map (fun p => if p.1 = c then (c, s) else p)).find? (fun p => p.1 = c') =
      l.find? (fun p => p.1 = c')
  | [] => rfl
  | hd :: tl => by
    have ih := find_set_other_map c c' s hne tl
    by_cases hc : hd.1 = c
    · have h1 : ¬ hd.1 = c' := by rw [hc]; exact fun h => hne h.symm
      have h2 : ¬ c = c' := fun h => hne h.symm
      simp only [List.map_cons, hc, if_true]
      rw [List.find?_cons_of_neg (by simpa using h2), List.find?_cons_of_neg (by simpa using h1)]
      exact ih
    · simp only [List.map_cons, hc, if_false]
      by_cases h1 : hd.1 = c'
      · rw [List.find?_cons_of_pos (by simpa using h1), List.find?_cons_of_pos (by simpa using h1)]
      · rw [List.find?_cons_of_neg (by simpa using h1), List.find?_cons_of_neg (by simpa using h1)]
        exact ih

theorem Mgr.get_set_self (m : Mgr) (c : Nat) (s : St) : (m.set c s).get c = s := by
  unfold Mgr.get Mgr.set
  by_cases h : m.conns.any (fun p => p.1 = c) = true
  · simp only [h, if_true]
    rw [find_set_self_map c s _ h]; rfl
  · simp only [h]
    have hn : m.conns.find? (fun p => p.1 = c) = none := by
      rw [List.find?_eq_none]
      intro x hx hxc
      exact h (List.any_eq_true.2 ⟨x, hx, hxc⟩)
    simp [List.find?_append, hn]

theorem Mgr.get_set_other (m : Mgr) (c c' : Nat) (s : St) (hne : c' ≠ c) :
    (m.set c s).get c' = m.get c' := by
  unfold Mgr.get Mgr.set
  by_cases h : m.conns.any (fun p => p.1 = c) = true
  · simp only [h, if_true]
    rw [find_set_other_map c c' s hne]
  · simp only [h]
    have h2 : ¬ c = c' := fun h => hne h.symm
    simp [List.find?_append, h2]

theorem Mgr.mem_set_conns {m : Mgr} {c : Nat} {s : St} {q : Nat × St}
    (h : q ∈ (m.set c s).conns) : q = (c, s) ∨ (q ∈ m.conns ∧ q.1 ≠ c) := by
  unfold Mgr.set at h
  by_cases ha : m.conns.any (fun p => p.1 = c) = true
  · simp only [ha, if_true] at h
    obtain ⟨p, hp, rfl⟩ := List.mem_map.1 h
    by_cases hc : p.1 = c
    · left; simp [hc]
    · right; simp [hc, hp]
  · simp only [ha] at h
    rcases List.mem_append.1 h with h | h
    · right
      refine ⟨h, fun hc => ha (List.any_eq_true.2 ⟨q, h, by simpa using hc⟩)⟩
    · left; simpa using h

/-- what `get` returns is the default state or an entry of `conns` -/
theorem Mgr.get_mem_or (m : Mgr) (c : Nat) : m.get c = {} ∨ (c, m.get c) ∈ m.conns := by
  unfold Mgr.get
  cases hf : m.conns.find? (fun p => p.1 = c) with
  | none => left; rfl
  | some p =>
    right
    have h1 := List.mem_of_find?_eq_some hf
    have h2 : p.1 = c := by simpa using List.find?_some hf
    simp only [Option.map_some, Option.getD_some]
    rw [← h2]; exact h1

@[simp] theorem Mgr.set_closed (m : Mgr) (c : Nat) (s : St) : (m.set c s).closed = m.closed := rfl
@[simp] theorem Mgr.set_scm (m : Mgr) (c : Nat) (s : St) : (m.set c s).scm = m.scm := rfl

theorem Mgr.get_congr_conns {m m' : Mgr} (h : m'.conns = m.conns) (c : Nat) : m'.get c = m.get c := by
  unfold Mgr.get; rw [h]

theorem Mgr.register_conns (m : Mgr) (sess conn : Nat) : (m.register sess conn).conns = m.conns := by
  unfold Mgr.register; split <;> rfl

theorem Mgr.register_closed (m : Mgr) (sess conn : Nat) :
    (m.register sess conn).closed = m.closed := by
  unfold Mgr.register; split <;> rfl

theorem Mgr.get_register (m : Mgr) (sess conn c : Nat) : (m.register sess conn).get c = m.get c :=
  Mgr.get_congr_conns (Mgr.register_conns m sess conn) c

theorem Mgr.sweepClosed_nil {m : Mgr} (h : m.closed = []) : m.sweepClosed = m := by
  cases m
  simp only at h
  subst h
  simp [Mgr.sweepClosed]

theorem find_map_key (c : Nat) (f : Nat × St → Nat × St) (hf : ∀ p, (f p).1 = p.1) :
    ∀ (l : List (Nat × St)),
      (l.map f).find? (fun p => p.1 = c) = (l.find? (fun p => p.1 = c)).map f
  | [] => rfl
  | hd :: tl => by
    have ih := find_map_key c f hf tl
    by_cases h : hd.1 = c
    · have h' : (f hd).1 = c := by rw [hf]; exact h
      rw [List.map_cons, List.find?_cons_of_pos (by simpa using h'),
        List.find?_cons_of_pos (by simpa using h)]; rfl
    · have h' : ¬ (f hd).1 = c := by rw [hf]; exact h
      rw [List.map_cons, List.find?_cons_of_neg (by simpa using h'),
        List.find?_cons_of_neg (by simpa using h)]; exact ih

theorem Mgr.get_sweepClosed (m : Mgr) (c : Nat) (h : c ∉ m.closed) :
    m.sweepClosed.get c = m.get c := by
  unfold Mgr.get Mgr.sweepClosed
  simp only
  rw [find_map_key c _ (by intro p; split <;> rfl)]
  cases hf : m.conns.find? (fun p => p.1 = c) with
  | none => rfl
  | some p =>
    have h2 : p.1 = c := by simpa using List.find?_some hf
    have : p.1 ∉ m.closed := by rw [h2]; exact h
    simp [this]

/-! ## `step` and the unit of work -/

theorem step_end_uow (cfg : Cfg) (s : St) (e : Ev) (h : e.isEnd = true) :
    (step cfg s e).uow = none := by
  cases e <;> simp [Ev.isEnd] at h <;> rfl

theorem step_end_with_uow (cfg : Cfg) (s : St) (e : Ev) (h : e.isEnd = true) (hs : s.uow = none) :
    { (step cfg s e) with uow := s.uow } = step cfg s e := by
  rw [hs]
  cases e <;> simp [Ev.isEnd] at h <;> rfl

/- OLD STATEMENT (false since a savepoint rollback restores the unit of work remembered at
SAVEPOINT):

    theorem step_sp_uow (cfg : Cfg) (s : St) (e : Ev) (h1 : e.isEnd = false) (h2 : e.needsUow = false) :
        (step cfg s e).uow = s.uow

Counterexample: `e := .spRollback` and `s := { uow := some { vobjs := [(0, [1], 1)] }, sps := [({}, none)] }`:
the step drops the unit of work (`none ≠ some _`).  Corrected: the savepoint rollback is excluded
here and described by `step_spRollback_uow` below. -/
theorem step_sp_uow_corrected (cfg : Cfg) (s : St) (e : Ev) (h1 : e.isEnd = false)
    (h2 : e.needsUow = false) (h3 : e ≠ .spRollback) :
    (step cfg s e).uow = s.uow := by
  cases e <;> simp [Ev.isEnd, Ev.needsUow] at h1 h2 h3
  · rfl
  · rfl

/-- a unit of work that exists after a savepoint rollback existed before it or was remembered by an
open savepoint -/
theorem step_spRollback_uow (cfg : Cfg) (s : St) (h : (step cfg s .spRollback).uow.isSome = true) :
    s.uow.isSome = true ∨ ∃ q ∈ s.sps, q.2.isSome = true := by
  simp only [step] at h
  split at h
  · exact Or.inl h
  · rename_i snap u rest heq
    right
    refine ⟨(snap, u), by rw [heq]; exact List.mem_cons_self, ?_⟩
    cases u with
    | none => cases h
    | some _ => rfl

theorem step_end_sps (cfg : Cfg) (s : St) (e : Ev) (h : e.isEnd = true) :
    (step cfg s e).sps = [] := by
  cases e <;> simp [Ev.isEnd] at h <;> rfl

/-- what an event that does not end the transaction leaves on the savepoint stack was there before,
or is the memory of the savepoint it opens -/
theorem step_sps_mem (cfg : Cfg) (s : St) (e : Ev) (he : e.isEnd = false) :
    ∀ q ∈ (step cfg s e).sps, q ∈ s.sps ∨ q = (s.db, s.uow) := by
  intro q hq
  cases e with
  | commit => simp [Ev.isEnd] at he
  | rollback => simp [Ev.isEnd] at he
  | spBegin =>
    rcases List.mem_cons.1 hq with rfl | h
    · exact Or.inr rfl
    · exact Or.inl h
  | spCommit => exact Or.inl (List.mem_of_mem_tail hq)
  | spRollback =>
    simp only [step] at hq
    split at hq
    · exact Or.inl hq
    · rename_i heq
      left; rw [heq]; exact List.mem_cons_of_mem _ hq
  | manualTx n => exact Or.inl hq
  | beforeFlush objs n pm =>
    left
    simp only [step, createTx] at hq
    split at hq
    · exact hq
    · split at hq <;> exact hq
  | ins c pk vals ch =>
    left
    simp only [step] at hq
    split at hq <;> exact hq
  | upd c pk vals cc rc kc kr =>
    left
    simp only [step] at hq
    split at hq
    · exact hq
    · split at hq
      · exact hq
      · split at hq <;> exact hq
  | del c pk vals =>
    left
    simp only [step] at hq
    split at hq <;> exact hq
  | assoc t op links =>
    left
    simp only [step] at hq
    split at hq <;> exact hq
  | afterFlush =>
    left
    simp only [step] at hq
    split at hq <;> exact hq

/-! ## invariants -/

/-- no closed connection, and a unit of work is only held — or remembered by an open savepoint —
by a registered connection -/
structure MInv (m : Mgr) : Prop where
  closed : m.closed = []
  reg : ∀ p ∈ m.conns, p.2.uow.isSome = true → ∃ s, (s, p.1) ∈ m.scm
  spreg : ∀ p ∈ m.conns, (∃ q ∈ p.2.sps, q.2.isSome = true) → ∃ s, (s, p.1) ∈ m.scm

/-- session ↔ connection is a bijection on the registered pairs and the events to come;
no `close` event to come -/
structure MGood (scm : List (Nat × Nat)) (evs : List MEv) : Prop where
  noClose : ∀ c, MEv.close c ∉ evs
  pair : ∀ s c e s' c' e', MEv.ev s c e ∈ evs → MEv.ev s' c' e' ∈ evs → (s = s' ↔ c = c')
  reg : ∀ p ∈ scm, ∀ s c e, MEv.ev s c e ∈ evs → (p.1 = s ↔ p.2 = c)

theorem MInv.init : MInv {} := ⟨rfl, (by intro p hp; cases hp), (by intro p hp; cases hp)⟩

theorem MGood.of_ownConn {evs : List MEv} (h : OwnConn evs) : MGood [] evs := by
  refine ⟨?_, ?_, ?_⟩
  · intro c hc
    exact h.2 _ hc
  · intro s c e s' c' e' h1 h2
    exact h.1 _ h1 _ h2
  · intro p hp; cases hp

theorem MInv.get_reg {m : Mgr} (hm : MInv m) {c : Nat} (h : (m.get c).uow.isSome = true) :
    ∃ s, (s, c) ∈ m.scm := by
  rcases m.get_mem_or c with h0 | h0
  · rw [h0] at h; cases h
  · exact hm.reg _ h0 h

theorem MInv.get_spreg {m : Mgr} (hm : MInv m) {c : Nat} (h : ∃ q ∈ (m.get c).sps, q.2.isSome = true) :
    ∃ s, (s, c) ∈ m.scm := by
  rcases m.get_mem_or c with h0 | h0
  · rw [h0] at h; obtain ⟨q, hq, _⟩ := h; cases hq
  · exact hm.spreg _ h0 h

def MEv.on (c : Nat) : MEv → Option Ev
  | .ev _ c' e => if c' = c then some e else none
  | .engineRollback c' => if c' = c then some Ev.rollback else none
  | .close _ => none

theorem projConn_cons (c : Nat) (a : MEv) (rest : List MEv) :
    projConn c (a :: rest) = (a.on c).toList ++ projConn c rest := by
  cases a <;> simp only [projConn, MEv.on]
  · split <;> simp
  · split <;> simp
  · simp

/-- `mgrStep` on an end event of a session that owns its connection -/
theorem mgrStep_end (cfg : Cfg) (m : Mgr) (sess conn : Nat) (e : Ev) (he : e.isEnd = true)
    (hm : MInv m) (hreg : ∀ p ∈ m.scm, (p.1 = sess ↔ p.2 = conn)) :
    mgrStep cfg m (.ev sess conn e) =
      { m.set conn (step cfg (m.get conn) e) with scm := m.scm.filter (fun q => q.1 ≠ sess) } := by
  have key : (match m.scm.find? (fun p => p.1 = sess) with
      | none => m.set conn { (step cfg (m.get conn) e) with uow := (m.get conn).uow }
      | some p =>
        let m1 : Mgr := { m with scm := m.scm.filter (fun q => q.1 ≠ sess) }
        let m2 := if p.2 = conn then m1.set conn (step cfg (m.get conn) e)
                  else (m1.set conn { (step cfg (m.get conn) e) with uow := (m.get conn).uow }).set p.2
                    { (m1.get p.2) with uow := none }
        m2.sweepClosed) =
      { m.set conn (step cfg (m.get conn) e) with scm := m.scm.filter (fun q => q.1 ≠ sess) } := by
    cases hf : m.scm.find? (fun p => p.1 = sess) with
    | none =>
      simp only
      have hnone : ∀ p ∈ m.scm, ¬ p.1 = sess := by
        intro p hp; simpa using (List.find?_eq_none.1 hf) p hp
      have hu : (m.get conn).uow = none := by
        cases hu : (m.get conn).uow with
        | none => rfl
        | some u =>
          have : (m.get conn).uow.isSome = true := by rw [hu]; rfl
          obtain ⟨s, hs⟩ := hm.get_reg this
          exact absurd ((hreg _ hs).2 rfl) (hnone _ hs)
      rw [step_end_with_uow cfg _ e he hu]
      have hfil : m.scm.filter (fun q => q.1 ≠ sess) = m.scm := by
        rw [List.filter_eq_self]
        intro p hp; simpa using hnone p hp
      rw [hfil]
      rfl
    | some p =>
      have hp := List.mem_of_find?_eq_some hf
      have hp1 : p.1 = sess := by simpa using List.find?_some hf
      have hp2 : p.2 = conn := (hreg p hp).1 hp1
      simp only [hp2, if_true]
      rw [Mgr.sweepClosed_nil]
      · rfl
      · exact hm.closed
  cases e <;> simp [Ev.isEnd] at he <;> exact key

/-- The shape of one manager step under the invariants: the state of the event's connection is
stepped, nothing else in `conns` changes, and the registrations change as described. -/
theorem step_nf (cfg : Cfg) (m : Mgr) (a : MEv) (rest : List MEv) (hm : MInv m)
    (hg : MGood m.scm (a :: rest)) :
    ∃ conn e scm',
      (∀ c, a.on c = if conn = c then some e else none) ∧
      mgrStep cfg m a = { m.set conn (step cfg (m.get conn) e) with scm := scm' } ∧
      (∀ p ∈ scm', p ∈ m.scm ∨
        (p.2 = conn ∧ ∀ s c ev, MEv.ev s c ev ∈ rest → (p.1 = s ↔ p.2 = c))) ∧
      (e.isEnd = true → ∀ p ∈ scm', p.2 ≠ conn) ∧
      (∀ p ∈ m.scm, p.2 ≠ conn → p ∈ scm') ∧
      ((step cfg (m.get conn) e).uow.isSome = true → ∃ s, (s, conn) ∈ scm') ∧
      ((∃ q ∈ (step cfg (m.get conn) e).sps, q.2.isSome = true) → ∃ s, (s, conn) ∈ scm') := by
  cases a with
  | close c => exact absurd (List.mem_cons_self) (hg.noClose c)
  | engineRollback conn =>
    refine ⟨conn, .rollback, m.scm.filter (fun q => q.2 ≠ conn), ?_, ?_, ?_, ?_, ?_, ?_, ?_⟩
    · intro c; rfl
    · simp only [mgrStep]
      rw [Mgr.sweepClosed_nil]
      · rfl
      · exact hm.closed
    · intro p hp; left; exact (List.mem_filter.1 hp).1
    · intro _ p hp; simpa using (List.mem_filter.1 hp).2
    · intro p hp hne; exact List.mem_filter.2 ⟨hp, by simpa using hne⟩
    · intro h; rw [step_end_uow cfg _ _ rfl] at h; cases h
    · intro h; rw [step_end_sps cfg _ _ rfl] at h; obtain ⟨q, hq, _⟩ := h; cases hq
  | ev sess conn e =>
    have hself : ∀ p ∈ m.scm, (p.1 = sess ↔ p.2 = conn) :=
      fun p hp => hg.reg p hp sess conn e List.mem_cons_self
    by_cases he : e.isEnd = true
    · refine ⟨conn, e, m.scm.filter (fun q => q.1 ≠ sess), ?_, ?_, ?_, ?_, ?_, ?_, ?_⟩
      · intro c; rfl
      · exact mgrStep_end cfg m sess conn e he hm hself
      · intro p hp; left; exact (List.mem_filter.1 hp).1
      · intro _ p hp h2
        have := (List.mem_filter.1 hp)
        exact absurd ((hself p this.1).2 h2) (by simpa using this.2)
      · intro p hp hne
        refine List.mem_filter.2 ⟨hp, ?_⟩
        have : ¬ p.1 = sess := fun h => hne ((hself p hp).1 h)
        simpa using this
      · intro h; rw [step_end_uow cfg _ _ he] at h; cases h
      · intro h; rw [step_end_sps cfg _ _ he] at h; obtain ⟨q, hq, _⟩ := h; cases hq
    · have he' : e.isEnd = false := by simpa using he
      have hstep : mgrStep cfg m (.ev sess conn e) =
          (if e.needsUow then m.register sess conn else m).set conn
            (step cfg ((if e.needsUow then m.register sess conn else m).get conn) e) := by
        cases e <;> first | rfl | (simp [Ev.isEnd] at he')
      have hget : (if e.needsUow then m.register sess conn else m).get conn = m.get conn := by
        split
        · exact Mgr.get_register _ _ _ _
        · rfl
      rw [hget] at hstep
      have hconns : (if e.needsUow then m.register sess conn else m).conns = m.conns := by
        split
        · exact Mgr.register_conns _ _ _
        · rfl
      have hclosed : (if e.needsUow then m.register sess conn else m).closed = m.closed := by
        split
        · exact Mgr.register_closed _ _ _
        · rfl
      have hsub : ∀ p ∈ m.scm, p ∈ (if e.needsUow then m.register sess conn else m).scm := by
        intro p hp
        by_cases hn : e.needsUow = true
        · simp only [hn, if_true]
          unfold Mgr.register
          split
          · exact hp
          · exact List.mem_append_left _ hp
        · simp only [hn]
          exact hp
      have hkeep : (∃ s, (s, conn) ∈ m.scm) →
          ∃ s, (s, conn) ∈ (if e.needsUow then m.register sess conn else m).scm :=
        fun ⟨s, hs⟩ => ⟨s, hsub _ hs⟩
      refine ⟨conn, e, (if e.needsUow then m.register sess conn else m).scm, ?_, ?_, ?_, ?_, ?_, ?_, ?_⟩
      · intro c; rfl
      · rw [hstep]
        generalize (if e.needsUow then m.register sess conn else m) = m1 at hconns hclosed ⊢
        cases m1; cases m
        simp only at hconns hclosed
        subst hconns hclosed
        rfl
      · intro p hp
        by_cases hn : e.needsUow = true
        · simp only [hn, if_true] at hp
          unfold Mgr.register at hp
          split at hp
          · left; exact hp
          · rcases List.mem_append.1 hp with hp | hp
            · left; exact hp
            · right
              have : p = (sess, conn) := by simpa using hp
              subst this
              refine ⟨rfl, ?_⟩
              intro s c ev hev
              exact hg.pair sess conn e s c ev List.mem_cons_self (List.mem_cons_of_mem _ hev)
        · simp only [hn] at hp
          left; exact hp
      · intro h; exact absurd h he
      · intro p hp _
        by_cases hn : e.needsUow = true
        · simp only [hn, if_true]
          unfold Mgr.register
          split
          · exact hp
          · exact List.mem_append_left _ hp
        · simp only [hn]
          exact hp
      · intro hu
        by_cases hn : e.needsUow = true
        · simp only [hn, if_true]
          unfold Mgr.register
          split
          · rename_i hany
            obtain ⟨p, hp, hpc⟩ := List.any_eq_true.1 hany
            have hpc : p.2 = conn := by simpa using hpc
            exact ⟨p.1, by rw [← hpc]; exact hp⟩
          · exact ⟨sess, List.mem_append_right _ (by simp)⟩
        · have hn' : e.needsUow = false := by simpa using hn
          by_cases hsp : e = .spRollback
          · subst hsp
            rcases step_spRollback_uow cfg _ hu with h | h
            · exact hkeep (hm.get_reg h)
            · exact hkeep (hm.get_spreg h)
          · simp only [hn]
            rw [step_sp_uow_corrected cfg _ e he' hn' hsp] at hu
            exact hm.get_reg hu
      · rintro ⟨q, hq, hsome⟩
        rcases step_sps_mem cfg _ e he' q hq with h | h
        · exact hkeep (hm.get_spreg ⟨q, h, hsome⟩)
        · subst h
          exact hkeep (hm.get_reg hsome)

def Reg (m : Mgr) (c : Nat) : Prop := ∃ s, (s, c) ∈ m.scm

/-- everything the inductions need to know about one step -/
theorem step_facts (cfg : Cfg) (m : Mgr) (a : MEv) (rest : List MEv) (hm : MInv m)
    (hg : MGood m.scm (a :: rest)) :
    MInv (mgrStep cfg m a) ∧ MGood (mgrStep cfg m a).scm rest ∧
    (∀ c, (mgrStep cfg m a).get c = run cfg (m.get c) (a.on c).toList) ∧
    (∀ c e, a.on c = some e → e.isEnd = true → ¬ Reg (mgrStep cfg m a) c) ∧
    (∀ c, a.on c = none → Reg (mgrStep cfg m a) c → Reg m c) := by
  obtain ⟨conn, e, scm', hon, hstep, h1, h2, h3, h4, h4'⟩ := step_nf cfg m a rest hm hg
  rw [hstep]
  refine ⟨⟨hm.closed, ?_, ?_⟩, ⟨?_, ?_, ?_⟩, ?_, ?_, ?_⟩
  · intro p hp hu
    rcases Mgr.mem_set_conns (m := m) hp with rfl | ⟨hp, hne⟩
    · exact h4 hu
    · obtain ⟨s, hs⟩ := hm.reg p hp hu
      exact ⟨s, h3 _ hs hne⟩
  · intro p hp hu
    rcases Mgr.mem_set_conns (m := m) hp with rfl | ⟨hp, hne⟩
    · exact h4' hu
    · obtain ⟨s, hs⟩ := hm.spreg p hp hu
      exact ⟨s, h3 _ hs hne⟩
  · intro c hc; exact hg.noClose c (List.mem_cons_of_mem _ hc)
  · intro s c e s' c' e' ha hb
    exact hg.pair s c e s' c' e' (List.mem_cons_of_mem _ ha) (List.mem_cons_of_mem _ hb)
  · intro p hp s c ev hev
    rcases h1 p hp with h | ⟨_, h⟩
    · exact hg.reg p h s c ev (List.mem_cons_of_mem _ hev)
    · exact h s c ev hev
  · intro c
    have hget : ∀ st, ({ m.set conn st with scm := scm' } : Mgr).get c = (m.set conn st).get c :=
      fun st => rfl
    rw [hget, hon c]
    by_cases hc : conn = c
    · subst hc
      simp only [if_true, Option.toList_some]
      rw [Mgr.get_set_self]; rfl
    · simp only [hc, if_false, Option.toList_none]
      rw [Mgr.get_set_other _ _ _ _ (fun h => hc h.symm)]; rfl
  · intro c e' hc he ⟨s, hs⟩
    rw [hon c] at hc
    by_cases hcc : conn = c
    · subst hcc
      simp only [if_true, Option.some.injEq] at hc
      subst hc
      exact h2 he _ hs rfl
    · simp [hcc] at hc
  · intro c hc ⟨s, hs⟩
    rw [hon c] at hc
    have hcc : ¬ conn = c := by
      intro h; simp [h] at hc
    rcases h1 _ hs with h | ⟨h, _⟩
    · exact ⟨s, h⟩
    · exact absurd h.symm hcc

theorem mgrRun_cons (cfg : Cfg) (m : Mgr) (a : MEv) (rest : List MEv) :
    mgrRun cfg m (a :: rest) = mgrRun cfg (mgrStep cfg m a) rest := rfl

theorem mgrRun_inv (cfg : Cfg) : ∀ (evs : List MEv) (m : Mgr), MInv m → MGood m.scm evs →
    MInv (mgrRun cfg m evs)
  | [], _, hm, _ => hm
  | a :: rest, m, hm, hg => by
    obtain ⟨h1, h2, _⟩ := step_facts cfg m a rest hm hg
    exact mgrRun_inv cfg rest _ h1 h2

theorem projection_gen (cfg : Cfg) (c : Nat) : ∀ (evs : List MEv) (m : Mgr), MInv m →
    MGood m.scm evs → (mgrRun cfg m evs).get c = run cfg (m.get c) (projConn c evs)
  | [], _, _, _ => rfl
  | a :: rest, m, hm, hg => by
    obtain ⟨h1, h2, h3, _⟩ := step_facts cfg m a rest hm hg
    rw [mgrRun_cons, projection_gen cfg c rest _ h1 h2, projConn_cons, run_append, h3 c]

theorem quiescent_gen (cfg : Cfg) (c : Nat) : ∀ (evs : List MEv) (m : Mgr), MInv m →
    MGood m.scm evs → Reg (mgrRun cfg m evs) c →
    (∃ e ∈ (projConn c evs).getLast?, e.isEnd = false) ∨ (projConn c evs = [] ∧ Reg m c)
  | [], _, _, _, h => Or.inr ⟨rfl, h⟩
  | a :: rest, m, hm, hg, h => by
    obtain ⟨h1, h2, _, h4, h5⟩ := step_facts cfg m a rest hm hg
    rw [mgrRun_cons] at h
    rw [projConn_cons]
    rcases quiescent_gen cfg c rest _ h1 h2 h with ⟨e, he, hne⟩ | ⟨hnil, hreg⟩
    · left
      refine ⟨e, ?_, hne⟩
      have he' : (projConn c rest).getLast? = some e := he
      rw [List.getLast?_append, he']; rfl
    · rw [hnil, List.append_nil]
      cases hon : a.on c with
      | none => right; exact ⟨rfl, h5 c hon hreg⟩
      | some e =>
        left
        refine ⟨e, by simp, ?_⟩
        cases hend : e.isEnd with
        | false => rfl
        | true => exact absurd hreg (h4 c e hon hend)

end Continuum
