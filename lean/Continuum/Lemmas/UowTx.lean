import Continuum.Lemmas.UowLive

/-!
# The in-transaction invariant `TxInv` and its preservation by every well-formed event
-/

namespace Continuum

/-- entity `(c, pk)` occupies table key `k` -/
def occ (cfg : Cfg) (c : Nat) (pk : List Int) (k : TKey) : Prop :=
  ∃ tc ∈ (cfg.cls c).tables, k = (tc.1, pk)

/-- the newest version of `k` agrees with the live row of `k` -/
def Settled (V : VTable TKey) (L : Live) (k : TKey) : Prop :=
  (∀ v, liveGet L k = some v → ∃ op, ndata V k = some (op, v) ∧ op ≠ .delete) ∧
  (liveGet L k = none → ∀ d, ndata V k = some d → d.1 = .delete)

/-- What holds inside a database transaction that started with version rows `V0` and live rows
`L0`, after the events `pre`, for the current version rows `V`, live rows `L`, current transaction
id `cur` and operations `ops`. -/
structure TxInv (cfg : Cfg) (V0 : VTable TKey) (L0 : Live) (pre : List Ev)
    (V : VTable TKey) (L : Live) (cur : Option Nat) (ops : List OpEntry) : Prop where
  cur_some : ops ≠ [] → cur.isSome = true
  uniq : ops.Pairwise (fun a b => ¬ (a.cls = b.cls ∧ a.pk = b.pk))
  ncs : ∀ o ∈ ops, ∀ o' ∈ ops, o.pk = o'.pk → o.cls ≠ o'.cls →
      ∀ tc ∈ (cfg.cls o.cls).tables, ∀ tc' ∈ (cfg.cls o'.cls).tables, tc.1 ≠ tc'.1
  dirty : ∀ o ∈ ops, o.processed = false → ∀ tc ∈ (cfg.cls o.cls).tables,
      liveGet L (tc.1, o.pk) = if o.op = .delete then none else some (tableVals tc.2 o.vals)
  settled : ∀ k, (∀ o ∈ ops, o.processed = false → ¬ occ cfg o.cls o.pk k) → Settled V L k
  nodup : (L.map (·.1)).Nodup
  rowsrc : ∀ r ∈ V, (∃ r' ∈ V0, r'.key = r.key ∧ r'.tx = r.tx) ∨ ∃ o ∈ ops, occ cfg o.cls o.pk r.key
  livesrc : ∀ k, liveGet L k = liveGet L0 k ∨ ∃ o ∈ ops, occ cfg o.cls o.pk k
  evsrc : ∀ o ∈ ops, ∃ e, (entityEvents cfg pre o.cls o.pk).getLast? = some e ∧ e.vals = o.vals ∧
      (e.isDel = true ↔ o.op = .delete)
  entry : ∀ e ∈ pre, e.tracked cfg = true → ∀ c pk, e.entity = some (c, pk) →
      ∃ o ∈ ops, o.cls = c ∧ o.pk = pk
  done : ∀ o ∈ ops, o.processed = true → ∀ tc ∈ (cfg.cls o.cls).tables, ∃ T, cur = some T ∧
      Has V (tc.1, o.pk) T ∧
      ∀ r ∈ V, r.key = (tc.1, o.pk) → r.tx = T → r.op = o.op ∧ r.vals = wvals cfg o tc

variable {cfg : Cfg} {V0 : VTable TKey} {L0 : Live} {pre : List Ev} {V : VTable TKey} {L : Live}
  {cur : Option Nat} {ops : List OpEntry}

theorem TxInv.snoc (h : TxInv cfg V0 L0 pre V L cur ops) (e : Ev) (he : e.tracked cfg = false) :
    TxInv cfg V0 L0 (pre ++ [e]) V L cur ops where
  cur_some := h.cur_some
  uniq := h.uniq
  ncs := h.ncs
  dirty := h.dirty
  settled := h.settled
  nodup := h.nodup
  rowsrc := h.rowsrc
  livesrc := h.livesrc
  evsrc := by
    intro o ho
    rw [entityEvents_snoc_other _ _ _ _ _ (by simp [he])]
    exact h.evsrc o ho
  entry := by
    intro e' he' ht c pk hent
    rcases List.mem_append.1 he' with h1 | h1
    · exact h.entry e' h1 ht c pk hent
    · rw [List.mem_singleton] at h1; subst h1; rw [he] at ht; cases ht
  done := h.done

theorem TxInv.setCur (h : TxInv cfg V0 L0 pre V L cur ops) (hops : ops = []) (cur' : Option Nat) :
    TxInv cfg V0 L0 pre V L cur' ops where
  cur_some := fun hne => absurd hops hne
  uniq := h.uniq
  ncs := h.ncs
  dirty := h.dirty
  settled := h.settled
  nodup := h.nodup
  rowsrc := h.rowsrc
  livesrc := h.livesrc
  evsrc := h.evsrc
  entry := h.entry
  done := by subst hops; intro o ho; cases ho

theorem TxInv.liveCongr (h : TxInv cfg V0 L0 pre V L cur ops) (L' : Live)
    (hL : ∀ k, liveGet L' k = liveGet L k) (hnd : (L'.map (·.1)).Nodup) :
    TxInv cfg V0 L0 pre V L' cur ops where
  cur_some := h.cur_some
  uniq := h.uniq
  ncs := h.ncs
  dirty := by intro o ho hp tc htc; rw [hL]; exact h.dirty o ho hp tc htc
  settled := by
    intro k hk
    have := h.settled k hk
    unfold Settled at this ⊢
    rw [hL]; exact this
  nodup := hnd
  rowsrc := h.rowsrc
  livesrc := by intro k; rw [hL]; exact h.livesrc k
  evsrc := h.evsrc
  entry := h.entry
  done := h.done

/-- a tracked mapper event: the live rows of the entity are rewritten and its entry is (re)placed -/
theorem TxInv.tracked (h : TxInv cfg V0 L0 pre V L cur ops)
    (e : Ev) (c : Nat) (pk : List Int) (htr : e.tracked cfg = true) (hent : e.entity = some (c, pk))
    (en : OpEntry) (hec : en.cls = c) (hep : en.pk = pk) (hepr : en.processed = false)
    (hev : e.vals = en.vals) (hop : e.isDel = true ↔ en.op = .delete)
    (hcur : cur.isSome = true)
    (hproc : ∀ o ∈ ops, o.cls = c → o.pk = pk → o.processed = true)
    (hncs : ∀ o ∈ ops, o.pk = pk → o.cls ≠ c →
      ∀ tc ∈ (cfg.cls c).tables, ∀ tc' ∈ (cfg.cls o.cls).tables, tc.1 ≠ tc'.1)
    (L' : Live)
    (hL1 : ∀ k, ¬ occ cfg c pk k → liveGet L' k = liveGet L k)
    (hL2 : ∀ tc ∈ (cfg.cls c).tables,
      liveGet L' (tc.1, pk) = if en.op = .delete then none else some (tableVals tc.2 en.vals))
    (hL3 : (L'.map (·.1)).Nodup) :
    TxInv cfg V0 L0 (pre ++ [e]) V L' cur (opsAdd ops en) := by
  subst hec hep
  refine
    { cur_some := fun _ => hcur, uniq := pairwise_opsAdd en h.uniq, nodup := hL3,
      ncs := ?_, dirty := ?_, settled := ?_, rowsrc := ?_, livesrc := ?_, evsrc := ?_,
      entry := ?_, done := ?_ }
  · -- ncs
    intro o ho o' ho' hpk hcls tc htc tc' htc'
    rcases mem_opsAdd ho with h1 | ⟨ho1, _⟩ <;> rcases mem_opsAdd ho' with h2 | ⟨ho1', _⟩
    · subst h1 h2; exact absurd rfl hcls
    · subst h1
      exact hncs o' ho1' hpk.symm (fun hc => hcls hc.symm) tc htc tc' htc'
    · subst h2
      exact fun heq => hncs o ho1 hpk hcls tc' htc' tc htc heq.symm
    · exact h.ncs o ho1 o' ho1' hpk hcls tc htc tc' htc'
  · -- dirty
    intro o ho hp tc htc
    rcases mem_opsAdd ho with h1 | ⟨ho1, hne⟩
    · subst h1; exact hL2 tc htc
    · rw [hL1]
      · exact h.dirty o ho1 hp tc htc
      · rintro ⟨tc2, htc2, heq⟩
        have hpk : o.pk = en.pk := (Prod.mk.inj heq).2
        have htid : tc.1 = tc2.1 := (Prod.mk.inj heq).1
        by_cases hcl : o.cls = en.cls
        · have := hproc o ho1 hcl hpk
          rw [hp] at this; cases this
        · exact hncs o ho1 hpk hcl tc2 htc2 tc htc htid.symm
  · -- settled
    intro k hk
    have hnocc : ¬ occ cfg en.cls en.pk k := hk en (mem_opsAdd_self ops en) hepr
    have hs := h.settled k (by
      intro o ho hp
      apply hk o _ hp
      apply mem_opsAdd_of_ne ho
      intro hc
      have := hproc o ho hc.1 hc.2
      rw [hp] at this; cases this)
    unfold Settled at hs ⊢
    rw [hL1 k hnocc]; exact hs
  · -- rowsrc
    intro r hr
    rcases h.rowsrc r hr with h1 | ⟨o, ho, hocc⟩
    · exact Or.inl h1
    · obtain ⟨o', ho', hc, hp⟩ := opsAdd_keeps (e := en) ho
      exact Or.inr ⟨o', ho', by rw [hc, hp]; exact hocc⟩
  · -- livesrc
    intro k
    by_cases hocc : occ cfg en.cls en.pk k
    · exact Or.inr ⟨en, mem_opsAdd_self ops en, hocc⟩
    · rw [hL1 k hocc]
      rcases h.livesrc k with h1 | ⟨o, ho, hocc'⟩
      · exact Or.inl h1
      · obtain ⟨o', ho', hc, hp⟩ := opsAdd_keeps (e := en) ho
        exact Or.inr ⟨o', ho', by rw [hc, hp]; exact hocc'⟩
  · -- evsrc
    intro o ho
    rcases mem_opsAdd ho with h1 | ⟨ho1, hne⟩
    · subst h1
      exact ⟨e, entityEvents_snoc_self cfg pre e _ _ htr hent, hev, hop⟩
    · rw [entityEvents_snoc_other]
      · exact h.evsrc o ho1
      · rintro ⟨_, he⟩
        rw [hent] at he
        simp only [Option.some.injEq, Prod.mk.injEq] at he
        exact hne ⟨he.1.symm, he.2.symm⟩
  · -- entry
    intro e' he' ht c' pk' hent'
    rcases List.mem_append.1 he' with h1 | h1
    · obtain ⟨o, ho, hc, hp⟩ := h.entry e' h1 ht c' pk' hent'
      obtain ⟨o', ho', hc', hp'⟩ := opsAdd_keeps (e := en) ho
      exact ⟨o', ho', hc'.trans hc, hp'.trans hp⟩
    · rw [List.mem_singleton] at h1; subst h1
      rw [hent] at hent'
      simp only [Option.some.injEq, Prod.mk.injEq] at hent'
      exact ⟨en, mem_opsAdd_self ops en, hent'.1, hent'.2⟩
  · -- done
    intro o ho hp tc htc
    rcases mem_opsAdd ho with h1 | ⟨ho1, _⟩
    · subst h1; rw [hepr] at hp; cases hp
    · exact h.done o ho1 hp tc htc

theorem eq_of_nodup_fst {α β : Type} {l : List (α × β)} (h : (l.map (·.1)).Nodup)
    {a b : α × β} (ha : a ∈ l) (hb : b ∈ l) (hab : a.1 = b.1) : a = b := by
  induction l with
  | nil => cases ha
  | cons x l ih =>
    rw [List.map_cons, List.nodup_cons] at h
    rcases List.mem_cons.1 ha with ha' | ha' <;> rcases List.mem_cons.1 hb with hb' | hb'
    · rw [ha', hb']
    · subst ha'; exact absurd (by rw [hab]; exact List.mem_map_of_mem hb') h.1
    · subst hb'; exact absurd (by rw [← hab]; exact List.mem_map_of_mem ha') h.1
    · exact ih h.2 ha' hb'

/-- inside one transaction a table key is occupied by at most one operation entry -/
theorem TxInv.occ_unique (h : TxInv cfg V0 L0 pre V L cur ops) {o o2 : OpEntry} (ho : o ∈ ops)
    (ho2 : o2 ∈ ops) {tc tc2 : Nat × List (Option Nat)} (htc : tc ∈ (cfg.cls o.cls).tables)
    (htc2 : tc2 ∈ (cfg.cls o2.cls).tables) (heq : (tc2.1, o2.pk) = (tc.1, o.pk)) : o2 = o := by
  have hpk : o2.pk = o.pk := (Prod.mk.inj heq).2
  have htid : tc2.1 = tc.1 := (Prod.mk.inj heq).1
  by_cases hcl : o2.cls = o.cls
  · exact eq_of_pairwise h.uniq ho2 ho hcl hpk
  · exact absurd htid (h.ncs o2 ho2 o ho hpk hcl tc2 htc2 tc htc)

/-- `after_flush` with a current transaction: every pending operation becomes a version -/
theorem TxInv.flush (hnd : TablesNodup cfg) {T : Nat} (h : TxInv cfg V0 L0 pre V L (some T) ops)
    (hb : Bounded V T) :
    TxInv cfg V0 L0 pre (processOps cfg V T ops) L (some T)
      (ops.map (fun e => { e with processed := true })) := by
  rw [processOps_eq]
  have hmemW : ∀ o ∈ ops, o.processed = false → ∀ tc ∈ (cfg.cls o.cls).tables,
      mkW cfg o tc ∈ allWrites cfg ops :=
    fun o ho hp tc htc => mem_allWrites.2 ⟨o, ho, hp, tc, htc, rfl⟩
  refine
    { cur_some := fun _ => rfl, nodup := h.nodup,
      uniq := ?_, ncs := ?_, dirty := ?_, settled := ?_, rowsrc := ?_, livesrc := ?_, evsrc := ?_,
      entry := ?_, done := ?_ }
  · -- uniq
    rw [List.pairwise_map]
    exact h.uniq
  · -- ncs
    intro o' ho' o'' ho''
    simp only [List.mem_map] at ho' ho''
    obtain ⟨o, ho, rfl⟩ := ho'
    obtain ⟨o2, ho2, rfl⟩ := ho''
    exact h.ncs o ho o2 ho2
  · -- dirty
    intro o' ho' hp
    simp only [List.mem_map] at ho'
    obtain ⟨o, ho, rfl⟩ := ho'
    simp at hp
  · -- settled
    intro k _
    by_cases hex : ∃ w ∈ allWrites cfg ops, w.key = k
    · obtain ⟨l1, w, l2, hsplit, hwk, hl2⟩ := last_split _ k hex
      have hw : w ∈ allWrites cfg ops := by rw [hsplit]; simp
      obtain ⟨o, ho, hp, tc, htc, hwe⟩ := mem_allWrites.1 hw
      have hL := h.dirty o ho hp tc htc
      have hk : k = (tc.1, o.pk) := by rw [← hwk, hwe]; rfl
      have hnd' : ndata (wrs cfg.strategy V T (allWrites cfg ops)) k = some (o.op, wvals cfg o tc) := by
        rw [hsplit, ← hwk]
        have := ndata_wrs_last cfg.strategy T l1 l2 w V hb (by rw [hwk]; exact hl2)
        rw [this, hwe]; rfl
      rw [← hk] at hL
      constructor
      · intro v hv
        rw [hL] at hv
        by_cases hd : o.op = .delete
        · simp [hd] at hv
        · simp only [hd, ↓reduceIte, Option.some.injEq] at hv
          refine ⟨o.op, ?_, hd⟩
          rw [hnd', ← hv]
          unfold wvals
          simp [hd]
      · intro hn d hd'
        rw [hnd'] at hd'
        rw [hL] at hn
        by_cases hd : o.op = .delete
        · simp only [Option.some.injEq] at hd'
          rw [← hd']; exact hd
        · simp [hd] at hn
    · have hs := h.settled k (by
        rintro o ho hp ⟨tc, htc, hk⟩
        exact hex ⟨mkW cfg o tc, hmemW o ho hp tc htc, hk.symm⟩)
      unfold Settled at hs ⊢
      rw [ndata_wrs_ne _ _ _ _ _ (fun w hw hk => hex ⟨w, hw, hk⟩)]
      exact hs
  · -- rowsrc
    intro r hr
    have hhas : Has (wrs cfg.strategy V T (allWrites cfg ops)) r.key r.tx := ⟨r, hr, rfl, rfl⟩
    rw [has_wrs] at hhas
    rcases hhas with ⟨r0, hr0, hk0, ht0⟩ | ⟨_, w, hw, hk⟩
    · rcases h.rowsrc r0 hr0 with ⟨r', hr', hk', ht'⟩ | ⟨o, ho, hocc⟩
      · exact Or.inl ⟨r', hr', hk'.trans hk0, ht'.trans ht0⟩
      · refine Or.inr ⟨_, List.mem_map_of_mem ho, ?_⟩
        rw [← hk0]; exact hocc
    · obtain ⟨o, ho, hp, tc, htc, hwe⟩ := mem_allWrites.1 hw
      refine Or.inr ⟨_, List.mem_map_of_mem ho, tc, htc, ?_⟩
      rw [← hk, hwe]; rfl
  · -- livesrc
    intro k
    rcases h.livesrc k with h1 | ⟨o, ho, hocc⟩
    · exact Or.inl h1
    · exact Or.inr ⟨_, List.mem_map_of_mem ho, hocc⟩
  · -- evsrc
    intro o' ho'
    simp only [List.mem_map] at ho'
    obtain ⟨o, ho, rfl⟩ := ho'
    exact h.evsrc o ho
  · -- entry
    intro e he ht c pk hent
    obtain ⟨o, ho, hc, hp⟩ := h.entry e he ht c pk hent
    exact ⟨_, List.mem_map_of_mem ho, hc, hp⟩
  · -- done
    intro o' ho' _ tc htc
    simp only [List.mem_map] at ho'
    obtain ⟨o, ho, rfl⟩ := ho'
    have htc' : tc ∈ (cfg.cls o.cls).tables := htc
    refine ⟨T, rfl, ?_⟩
    -- any write to this key stems from `o` and `tc`
    have huniq : ∀ w ∈ allWrites cfg ops, w.key = (tc.1, o.pk) →
        o.processed = false ∧ w = mkW cfg o tc := by
      intro w hw hk
      obtain ⟨o2, ho2, hp2, tc2, htc2, hwe⟩ := mem_allWrites.1 hw
      have heq : (tc2.1, o2.pk) = (tc.1, o.pk) := by rw [← hk, hwe]; rfl
      have ho2e : o2 = o := h.occ_unique ho ho2 htc' htc2 heq
      subst ho2e
      have : tc2 = tc := eq_of_nodup_fst (tables_nodup hnd _) htc2 htc' (Prod.mk.inj heq).1
      subst this
      exact ⟨hp2, hwe⟩
    cases hp : o.processed with
    | false =>
      have hw := hmemW o ho hp tc htc'
      obtain ⟨l1, w, l2, hsplit, hwk, hl2⟩ := last_split _ (tc.1, o.pk) ⟨_, hw, rfl⟩
      have hw2 : w ∈ allWrites cfg ops := by rw [hsplit]; simp
      have hwe := (huniq w hw2 hwk).2
      constructor
      · rw [has_wrs]; exact Or.inr ⟨rfl, _, hw, rfl⟩
      · intro r hr hk ht
        rw [hsplit] at hr
        have := row_wrs_last cfg.strategy T l1 l2 w V (by rw [hwk]; exact hl2) r hr
          (by rw [hwk]; exact hk) ht
        rw [hwe] at this
        exact this
    | true =>
      obtain ⟨T', hT', hhas, hdata⟩ := h.done o ho hp tc htc'
      have hTT : T' = T := (Option.some.inj hT').symm
      subst hTT
      have hnone : ∀ w ∈ allWrites cfg ops, w.key ≠ (tc.1, o.pk) := by
        intro w hw hk
        have := (huniq w hw hk).1
        rw [hp] at this; cases this
      constructor
      · rw [has_wrs]; exact Or.inl hhas
      · intro r hr hk ht
        obtain ⟨a, ha, h1, h2, h3, h4⟩ := row_wrs_ne cfg.strategy T' _ V _ hnone r hr hk
        have := hdata a ha (h1.trans hk) (h2.trans ht)
        rw [← h3, ← h4]
        exact this

end Continuum
