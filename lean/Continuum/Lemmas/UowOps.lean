import Continuum.Lemmas.UowInvDef
import Continuum.Lemmas.Chain

/-!
# How the unit of work's operations relate to the tracked events (lemmas for C11 / C17)

Part 1: what one write / one `afterFlush` does to the rows, up to the end column.
Part 2: the invariant `Rel` between the events delivered since the last boundary and the state.
-/

namespace Continuum
namespace UowOps

/-! ## Part 1: writes -/

section Generic
variable {K : Type} [DecidableEq K]

/-- there is a row `(k, n)` with exactly this operation, values and flags -/
def RowIs (V : VTable K) (k : K) (n : Nat) (op : Op) (vals : List Val) (mods : List Bool) : Prop :=
  ∃ r ∈ V, r.key = k ∧ r.tx = n ∧ r.op = op ∧ r.vals = vals ∧ r.mods = mods

omit [DecidableEq K] in
theorem RowIs.has {V : VTable K} {k n op vals mods} (h : RowIs V k n op vals mods) : Has V k n := by
  obtain ⟨r, hr, h1, h2, _⟩ := h
  exact ⟨r, hr, h1, h2⟩

omit [DecidableEq K] in
theorem rowIs_of_mem {V : VTable K} {r : VRow K} (h : r ∈ V) : RowIs V r.key r.tx r.op r.vals r.mods :=
  ⟨r, h, rfl, rfl, rfl, rfl, rfl⟩

theorem closePrev_rowIs {t : VTable K} {k : K} {T : Nat} {k' n op vals mods} :
    RowIs (closePrev t k T) k' n op vals mods ↔ RowIs t k' n op vals mods := by
  unfold closePrev
  split
  · rfl
  · unfold RowIs
    simp only [List.mem_map]
    constructor
    · rintro ⟨r, ⟨a, ha, rfl⟩, h⟩
      refine ⟨a, ha, ?_⟩
      split at h <;> simpa using h
    · rintro ⟨r, hr, h⟩
      refine ⟨_, ⟨r, hr, rfl⟩, ?_⟩
      split <;> simpa using h

theorem upsert_frame {t : VTable K} {k : K} {T : Nat} {o2 : Op} {v2 m2} {k' n op vals mods}
    (h : RowIs t k' n op vals mods) (hne : ¬ (k' = k ∧ n = T)) :
    RowIs (upsert t k T o2 v2 m2) k' n op vals mods := by
  obtain ⟨r, hr, h1, h2, h3⟩ := h
  unfold upsert
  split
  · refine ⟨_, List.mem_map.2 ⟨r, hr, rfl⟩, ?_⟩
    have : ¬ (r.key = k ∧ r.tx = T) := by rw [h1, h2]; exact hne
    simp only [this, ↓reduceIte]
    exact ⟨h1, h2, h3⟩
  · exact ⟨r, List.mem_append_left _ hr, h1, h2, h3⟩

theorem upsert_hit {t : VTable K} {k : K} {T : Nat} {o2 : Op} {v2 m2} {op vals mods}
    (h : RowIs t k T op vals mods) :
    RowIs (upsert t k T o2 v2 m2) k T o2 v2 (orFlags mods m2) := by
  obtain ⟨r, hr, h1, h2, _, _, h5⟩ := h
  have hany : (t.any fun r => decide (r.key = k ∧ r.tx = T)) = true := by
    simp only [List.any_eq_true, decide_eq_true_eq]; exact ⟨r, hr, h1, h2⟩
  unfold upsert
  rw [if_pos hany]
  refine ⟨_, List.mem_map.2 ⟨r, hr, rfl⟩, ?_⟩
  simp [h1, h2, h5]

theorem upsert_miss {t : VTable K} {k : K} {T : Nat} {o2 : Op} {v2 m2}
    (h : ¬ Has t k T) : RowIs (upsert t k T o2 v2 m2) k T o2 v2 m2 := by
  have hany : ¬ (t.any fun r => decide (r.key = k ∧ r.tx = T)) = true := by
    simp only [List.any_eq_true, decide_eq_true_eq]
    rintro ⟨r0, hr0, h1, h2⟩; exact h ⟨r0, hr0, h1, h2⟩
  unfold upsert
  rw [if_neg hany]
  exact ⟨_, List.mem_append_right _ (List.mem_singleton.2 rfl), rfl, rfl, rfl, rfl, rfl⟩

end Generic

/-- key / values / flags written by `writeTable` -/
def wKey (w : OpEntry × (Nat × List (Option Nat))) : TKey := (w.2.1, w.1.pk)

def wVals (cfg : Cfg) (w : OpEntry × (Nat × List (Option Nat))) : List Val :=
  if cfg.nullDelete && w.1.op = .delete then nullVals cfg w.2.1 w.2.2 w.1.vals else tableVals w.2.2 w.1.vals

def wMods (cfg : Cfg) (w : OpEntry × (Nat × List (Option Nat))) : List Bool :=
  if cfg.modTracker then tableFlags w.2.2 w.1.changed (w.1.op = .delete) else []

theorem writeTable_has (cfg : Cfg) (V : VTable TKey) (T : Nat) (w : OpEntry × (Nat × List (Option Nat)))
    (k : TKey) (n : Nat) :
    Has (writeTable cfg V T w.1 w.2) k n ↔ Has V k n ∨ (k = wKey w ∧ n = T) := by
  unfold writeTable
  cases cfg.strategy
  · simp only [writeVersion]; rw [has_closePrev, has_upsert]; rfl
  · simp only [writeVersionSub]; rw [has_upsert]; rfl

theorem writeTable_frame (cfg : Cfg) (V : VTable TKey) (T : Nat) (w : OpEntry × (Nat × List (Option Nat)))
    {k n op vals mods} (h : RowIs V k n op vals mods) (hne : ¬ (k = wKey w ∧ n = T)) :
    RowIs (writeTable cfg V T w.1 w.2) k n op vals mods := by
  unfold writeTable
  cases cfg.strategy
  · simp only [writeVersion]; rw [closePrev_rowIs]; exact upsert_frame h hne
  · simp only [writeVersionSub]; exact upsert_frame h hne

theorem writeTable_hit (cfg : Cfg) (V : VTable TKey) (T : Nat) (w : OpEntry × (Nat × List (Option Nat)))
    {op vals mods} (h : RowIs V (wKey w) T op vals mods) :
    RowIs (writeTable cfg V T w.1 w.2) (wKey w) T w.1.op (wVals cfg w) (orFlags mods (wMods cfg w)) := by
  unfold writeTable
  cases cfg.strategy
  · simp only [writeVersion]; rw [closePrev_rowIs]; exact upsert_hit h
  · simp only [writeVersionSub]; exact upsert_hit h

theorem writeTable_miss (cfg : Cfg) (V : VTable TKey) (T : Nat) (w : OpEntry × (Nat × List (Option Nat)))
    (h : ¬ Has V (wKey w) T) :
    RowIs (writeTable cfg V T w.1 w.2) (wKey w) T w.1.op (wVals cfg w) (wMods cfg w) := by
  unfold writeTable
  cases cfg.strategy
  · simp only [writeVersion]; rw [closePrev_rowIs]; exact upsert_miss h
  · simp only [writeVersionSub]; exact upsert_miss h

/-- the writes one `afterFlush` performs, in order -/
def writes (cfg : Cfg) (ops : List OpEntry) : List (OpEntry × (Nat × List (Option Nat))) :=
  (ops.filter (fun e => !e.processed)).flatMap (fun e => (cfg.cls e.cls).tables.map (fun tc => (e, tc)))

def applyW (cfg : Cfg) (T : Nat) (V : VTable TKey) (ws : List (OpEntry × (Nat × List (Option Nat)))) :
    VTable TKey :=
  ws.foldl (fun V w => writeTable cfg V T w.1 w.2) V

theorem processOps_eq (cfg : Cfg) (T : Nat) (ops : List OpEntry) (V : VTable TKey) :
    processOps cfg V T ops = applyW cfg T V (writes cfg ops) := by
  induction ops generalizing V with
  | nil => rfl
  | cons o ops ih =>
    unfold processOps at ih ⊢
    simp only [List.foldl_cons]
    rw [ih]
    unfold writes applyW
    by_cases hp : o.processed = true
    · simp [hp]
    · simp only [hp, Bool.false_eq_true, ↓reduceIte, Bool.not_false, List.filter_cons_of_pos,
        List.flatMap_cons, List.foldl_append, List.foldl_map, processOp]

theorem applyW_has (cfg : Cfg) (T : Nat) (ws : List (OpEntry × (Nat × List (Option Nat))))
    (V : VTable TKey) (k : TKey) (n : Nat) :
    Has (applyW cfg T V ws) k n ↔ Has V k n ∨ (n = T ∧ ∃ w ∈ ws, wKey w = k) := by
  induction ws generalizing V with
  | nil => simp [applyW]
  | cons w ws ih =>
    unfold applyW at ih ⊢
    simp only [List.foldl_cons]
    rw [ih, writeTable_has]
    simp only [List.mem_cons, exists_eq_or_imp]
    constructor
    · rintro ((h | ⟨h1, h2⟩) | ⟨h1, h2⟩)
      · exact Or.inl h
      · exact Or.inr ⟨h2, Or.inl h1.symm⟩
      · exact Or.inr ⟨h1, Or.inr h2⟩
    · rintro (h | ⟨h1, (h2 | h2)⟩)
      · exact Or.inl (Or.inl h)
      · exact Or.inl (Or.inr ⟨h2.symm, h1⟩)
      · exact Or.inr ⟨h1, h2⟩

theorem applyW_frame (cfg : Cfg) (T : Nat) (ws : List (OpEntry × (Nat × List (Option Nat))))
    (V : VTable TKey) {k n op vals mods} (h : RowIs V k n op vals mods)
    (hne : ∀ w ∈ ws, ¬ (k = wKey w ∧ n = T)) :
    RowIs (applyW cfg T V ws) k n op vals mods := by
  induction ws generalizing V with
  | nil => exact h
  | cons w ws ih =>
    unfold applyW at ih ⊢
    simp only [List.foldl_cons]
    apply ih
    · exact writeTable_frame cfg V T w h (hne w (List.mem_cons_self ..))
    · intro w' hw'; exact hne w' (List.mem_cons_of_mem _ hw')

theorem applyW_append (cfg : Cfg) (T : Nat) (V : VTable TKey) (a b) :
    applyW cfg T V (a ++ b) = applyW cfg T (applyW cfg T V a) b := by
  unfold applyW; rw [List.foldl_append]

/-- the write `w` is the only one of this flush on its key, and the row was there -/
theorem applyW_hit (cfg : Cfg) (T : Nat) (l1 l2 : List (OpEntry × (Nat × List (Option Nat))))
    (w : OpEntry × (Nat × List (Option Nat))) (V : VTable TKey)
    (hu : ∀ w' ∈ l1 ++ l2, wKey w' ≠ wKey w) {op vals mods} (h : RowIs V (wKey w) T op vals mods) :
    RowIs (applyW cfg T V (l1 ++ w :: l2)) (wKey w) T w.1.op (wVals cfg w)
      (orFlags mods (wMods cfg w)) := by
  rw [applyW_append]
  have h1 := applyW_frame cfg T l1 V h
    (fun w' hw' hc => hu w' (List.mem_append_left _ hw') hc.1.symm)
  have h2 := writeTable_hit cfg _ T w h1
  show RowIs (applyW cfg T (writeTable cfg _ T w.1 w.2) l2) _ _ _ _ _
  exact applyW_frame cfg T l2 _ h2
    (fun w' hw' hc => hu w' (List.mem_append_right _ hw') hc.1.symm)

/-- the write `w` is the only one of this flush on its key, and there was no row -/
theorem applyW_miss (cfg : Cfg) (T : Nat) (l1 l2 : List (OpEntry × (Nat × List (Option Nat))))
    (w : OpEntry × (Nat × List (Option Nat))) (V : VTable TKey)
    (hu : ∀ w' ∈ l1 ++ l2, wKey w' ≠ wKey w) (h : ¬ Has V (wKey w) T) :
    RowIs (applyW cfg T V (l1 ++ w :: l2)) (wKey w) T w.1.op (wVals cfg w) (wMods cfg w) := by
  rw [applyW_append]
  have h1 : ¬ Has (applyW cfg T V l1) (wKey w) T := by
    rw [applyW_has]
    rintro (hh | ⟨_, w', hw', hk⟩)
    · exact h hh
    · exact hu w' (List.mem_append_left _ hw') hk
  have h2 := writeTable_miss cfg _ T w h1
  show RowIs (applyW cfg T (writeTable cfg _ T w.1 w.2) l2) _ _ _ _ _
  exact applyW_frame cfg T l2 _ h2
    (fun w' hw' hc => hu w' (List.mem_append_right _ hw') hc.1.symm)


theorem mem_writes (cfg : Cfg) (ops : List OpEntry) (w : OpEntry × (Nat × List (Option Nat))) :
    w ∈ writes cfg ops ↔ w.1 ∈ ops ∧ w.1.processed = false ∧ w.2 ∈ (cfg.cls w.1.cls).tables := by
  unfold writes
  simp only [List.mem_flatMap, List.mem_filter, List.mem_map, Bool.not_eq_eq_eq_not, Bool.not_true]
  constructor
  · rintro ⟨o, ⟨ho, hp⟩, tc, htc, rfl⟩
    exact ⟨ho, hp, htc⟩
  · rintro ⟨ho, hp, htc⟩
    exact ⟨w.1, ⟨ho, hp⟩, w.2, htc, rfl⟩

/-! ## Part 2: small facts about the specification functions -/

theorem entityEvents_snoc_other (cfg : Cfg) (es : List Ev) (e : Ev) (c : Nat) (pk : List Int)
    (h : e.tracked cfg = false ∨ e.entity ≠ some (c, pk)) :
    entityEvents cfg (es ++ [e]) c pk = entityEvents cfg es c pk := by
  unfold entityEvents
  rw [List.filter_append]
  have : ([e].filter fun e => e.tracked cfg && e.entity == some (c, pk)) = [] := by
    rcases h with h | h
    · simp [h]
    · simp [h]
  rw [this, List.append_nil]

theorem entityEvents_snoc_self (cfg : Cfg) (es : List Ev) (e : Ev) (c : Nat) (pk : List Int)
    (ht : e.tracked cfg = true) (he : e.entity = some (c, pk)) :
    entityEvents cfg (es ++ [e]) c pk = entityEvents cfg es c pk ++ [e] := by
  unfold entityEvents
  rw [List.filter_append]
  simp [ht, he]

theorem orFlags_nil_left (b : List Bool) : orFlags [] b = b := by
  cases b <;> rfl

theorem accFlags_nil (cols : List (Option Nat)) : accFlags cols [] = [] := rfl

theorem accFlags_snoc (cols : List (Option Nat)) (init : List Ev) (last : Ev) :
    accFlags cols (init ++ [last]) =
      orFlags (accFlags cols init) (tableFlags cols last.changed last.isDel) := by
  unfold accFlags
  rw [List.foldl_append]
  rfl

theorem specOp_single_ins (c pk v ch) : specOp [Ev.ins c pk v ch] = some .insert := rfl

theorem specOp_single_upd (c pk v a b d e) : specOp [Ev.upd c pk v a b d e] = some .update := rfl

theorem specOp_snoc_ins' (l : List Ev) (h : l ≠ []) (c pk v ch) :
    specOp (l ++ [Ev.ins c pk v ch]) = some .update := by
  cases l with
  | nil => exact absurd rfl h
  | cons a l => simp [specOp, List.foldl_append]

theorem specOp_snoc_upd (l : List Ev) (h : l ≠ []) (c pk v a b d e) :
    specOp (l ++ [Ev.upd c pk v a b d e]) = some .update := by
  cases l with
  | nil => exact absurd rfl h
  | cons a l => simp [specOp, List.foldl_append]

theorem specOp_snoc_del' (l : List Ev) (c pk v) : specOp (l ++ [Ev.del c pk v]) = some .delete := by
  cases l with
  | nil => rfl
  | cons a l => simp [specOp, List.foldl_append]

theorem pairwise_eq_or {α : Type} {R : α → α → Prop} {l : List α} (h : l.Pairwise R)
    (hs : ∀ a b, R a b → R b a) {a b : α} (ha : a ∈ l) (hb : b ∈ l) : a = b ∨ R a b := by
  induction l with
  | nil => cases ha
  | cons x l ih =>
    rw [List.pairwise_cons] at h
    rcases List.mem_cons.1 ha with rfl | ha' <;> rcases List.mem_cons.1 hb with rfl | hb'
    · exact Or.inl rfl
    · exact Or.inr (h.1 _ hb')
    · exact Or.inr (hs _ _ (h.1 _ ha'))
    · exact ih h.2 ha' hb'

theorem pairwise_split {α : Type} {R : α → α → Prop} {l : List α} (h : l.Pairwise R)
    (hs : ∀ a b, R a b → R b a) {a : α} (ha : a ∈ l) :
    ∃ l1 l2, l = l1 ++ a :: l2 ∧ ∀ b ∈ l1 ++ l2, R b a := by
  obtain ⟨l1, l2, rfl⟩ := List.append_of_mem ha
  refine ⟨l1, l2, rfl, ?_⟩
  rw [List.pairwise_append, List.pairwise_cons] at h
  intro b hb
  rcases List.mem_append.1 hb with hb | hb
  · exact h.2.2 b hb a (List.mem_cons_self ..)
  · exact hs _ _ (h.2.1.1 b hb)

theorem wVals_eq (cfg : Cfg) (o : OpEntry) (tc : Nat × List (Option Nat)) (last : Ev)
    (hv : o.vals = last.vals) (hd : decide (o.op = .delete) = last.isDel) :
    wVals cfg (o, tc) = expectedVals cfg ((tc.1, o.pk), tc.2) last := by
  unfold wVals expectedVals
  simp only
  rw [hv, hd]

theorem wMods_eq (cfg : Cfg) (o : OpEntry) (tc : Nat × List (Option Nat)) (last : Ev)
    (hm : cfg.modTracker = true)
    (hc : o.changed = last.changed) (hd : decide (o.op = .delete) = last.isDel) :
    wMods cfg (o, tc) = tableFlags tc.2 last.changed last.isDel := by
  unfold wMods
  simp only [hm, ↓reduceIte]
  rw [hc, hd]

/-! ## Part 2: the relation between the tracked events and the state -/

/-- the row of table key `k` (columns `cols`) stamped `T` reflects the tracked events `w`
(no row if there are none) -/
def RowOK (cfg : Cfg) (V : VTable TKey) (T : Nat) (k : TKey) (cols : List (Option Nat))
    (w : List Ev) : Prop :=
  (w = [] → ¬ Has V k T) ∧
  (w ≠ [] → ∃ r ∈ V, r.key = k ∧ r.tx = T ∧ some r.op = specOp w ∧
      (∀ e ∈ w.getLast?.toList, r.vals = expectedVals cfg (k, cols) e) ∧
      (cfg.modTracker = true → r.mods = accFlags cols w))

/-- the version tables of one class' hierarchy are pairwise different tables -/
def TablesOK (cfg : Cfg) : Prop := ∀ c, ((cfg.cls c).tables.map (·.1)).Nodup

/-- the operation `o` reflects the tracked events of its entity; the rows reflect all of them if
`o` is processed, all but the last otherwise (the statement about rows needs `TablesOK`; it is kept
as a premise here so that the bookkeeping half of the relation is available without it, for C17) -/
def EntryOK (cfg : Cfg) (es : List Ev) (V : VTable TKey) (T : Nat) (o : OpEntry) : Prop :=
  ∃ init last, entityEvents cfg es o.cls o.pk = init ++ [last] ∧
    some o.op = specOp (init ++ [last]) ∧ o.vals = last.vals ∧ o.changed = last.changed ∧
    decide (o.op = .delete) = last.isDel ∧
    (TablesOK cfg → ∀ tc ∈ (cfg.cls o.cls).tables,
      RowOK cfg V T (tc.1, o.pk) tc.2 (if o.processed = true then init ++ [last] else init))

structure RelC (cfg : Cfg) (es : List Ev) (cur : Option Nat) (ops : List OpEntry)
    (V : VTable TKey) : Prop where
  entries : ∀ o ∈ ops, ∃ T, cur = some T ∧ EntryOK cfg es V T o
  covered : ∀ c pk, entityEvents cfg es c pk ≠ [] → ∃ o ∈ ops, o.cls = c ∧ o.pk = pk
  owner : ∀ r ∈ V, cur = some r.tx →
    ∃ o ∈ ops, o.pk = r.key.2 ∧ ∃ tc ∈ (cfg.cls o.cls).tables, tc.1 = r.key.1
  disj : ∀ o ∈ ops, ∀ o' ∈ ops, o.pk = o'.pk → o.cls ≠ o'.cls →
    ∀ tc ∈ (cfg.cls o.cls).tables, ∀ tc' ∈ (cfg.cls o'.cls).tables, tc.1 ≠ tc'.1
  uniq : ops.Pairwise (fun a b => ¬ (a.cls = b.cls ∧ a.pk = b.pk))

theorem rowOK_after_write (cfg : Cfg) (V V' : VTable TKey) (T : Nat) (o : OpEntry)
    (tc : Nat × List (Option Nat)) (init : List Ev) (last : Ev)
    (hop : some o.op = specOp (init ++ [last])) (hv : o.vals = last.vals)
    (hc : o.changed = last.changed) (hd : decide (o.op = .delete) = last.isDel)
    (hpre : RowOK cfg V T (tc.1, o.pk) tc.2 init)
    (hhit : ∀ op vals mods, RowIs V (tc.1, o.pk) T op vals mods →
      RowIs V' (tc.1, o.pk) T o.op (wVals cfg (o, tc)) (orFlags mods (wMods cfg (o, tc))))
    (hmiss : ¬ Has V (tc.1, o.pk) T →
      RowIs V' (tc.1, o.pk) T o.op (wVals cfg (o, tc)) (wMods cfg (o, tc))) :
    RowOK cfg V' T (tc.1, o.pk) tc.2 (init ++ [last]) := by
  refine ⟨fun h => absurd h (by simp), fun _ => ?_⟩
  have hlast : ∀ e ∈ (init ++ [last]).getLast?.toList, e = last := by
    intro e he
    simpa using he
  by_cases hi : init = []
  · obtain ⟨r, hr, hk, ht, hop', hvals, hmods⟩ := hmiss (hpre.1 hi)
    refine ⟨r, hr, hk, ht, ?_, ?_, ?_⟩
    · rw [hop']; exact hop
    · intro e he
      rw [hlast e he, hvals]
      exact wVals_eq cfg o tc last hv hd
    · intro hm
      rw [hmods, wMods_eq cfg o tc last hm hc hd, accFlags_snoc, hi, accFlags_nil, orFlags_nil_left]
  · obtain ⟨r0, hr0, hk0, ht0, _, _, hmods0⟩ := hpre.2 hi
    have h0 := rowIs_of_mem hr0
    rw [hk0, ht0] at h0
    obtain ⟨r, hr, hk, ht, hop', hvals, hmods⟩ := hhit _ _ _ h0
    refine ⟨r, hr, hk, ht, ?_, ?_, ?_⟩
    · rw [hop']; exact hop
    · intro e he
      rw [hlast e he, hvals]
      exact wVals_eq cfg o tc last hv hd
    · intro hm
      rw [hmods, wMods_eq cfg o tc last hm hc hd, accFlags_snoc, hmods0 hm]


theorem relC_untracked {cfg : Cfg} {es : List Ev} {cur ops V} (e : Ev) (ht : e.tracked cfg = false)
    (h : RelC cfg es cur ops V) : RelC cfg (es ++ [e]) cur ops V := by
  have hee : ∀ c pk, entityEvents cfg (es ++ [e]) c pk = entityEvents cfg es c pk :=
    fun c pk => entityEvents_snoc_other cfg es e c pk (Or.inl ht)
  refine ⟨?_, ?_, h.owner, h.disj, h.uniq⟩
  · intro o ho
    obtain ⟨T, hT, init, last, h1, h2⟩ := h.entries o ho
    exact ⟨T, hT, init, last, by rw [hee]; exact h1, h2⟩
  · intro c pk hne
    rw [hee] at hne
    exact h.covered c pk hne

theorem relC_ops_nil {cfg : Cfg} {es : List Ev} {ops V} (h : RelC cfg es none ops V) : ops = [] := by
  cases ops with
  | nil => rfl
  | cons o ops =>
    obtain ⟨T, hT, _⟩ := h.entries o (List.mem_cons_self ..)
    cases hT

theorem relC_newcur {cfg : Cfg} {es : List Ev} {ops V} (N : Nat) (h : RelC cfg es none ops V)
    (hN : ∀ r ∈ V, r.tx ≠ N) : RelC cfg es (some N) ops V := by
  have hnil := relC_ops_nil h
  subst hnil
  refine ⟨?_, h.covered, ?_, ?_, h.uniq⟩
  · intro o ho; cases ho
  · intro r hr hc
    exact absurd (Option.some.inj hc).symm (hN r hr)
  · intro o ho; cases ho

theorem mem_opsAdd (ops : List OpEntry) (e o : OpEntry) :
    o ∈ opsAdd ops e ↔ (o ∈ ops ∧ ¬ (o.cls = e.cls ∧ o.pk = e.pk)) ∨ o = e := by
  unfold opsAdd
  split
  · rename_i hany
    simp only [List.any_eq_true, decide_eq_true_eq] at hany
    obtain ⟨o0, ho0, hm0⟩ := hany
    simp only [List.mem_map]
    constructor
    · rintro ⟨a, ha, rfl⟩
      by_cases hm : a.cls = e.cls ∧ a.pk = e.pk
      · right; simp [hm]
      · left; rw [if_neg hm]; exact ⟨ha, hm⟩
    · rintro (⟨ho, hm⟩ | rfl)
      · exact ⟨o, ho, by simp [hm]⟩
      · exact ⟨o0, ho0, by simp [hm0]⟩
  · rename_i hany
    simp only [List.any_eq_true, decide_eq_true_eq, not_exists, not_and] at hany
    simp only [List.mem_append, List.mem_singleton]
    constructor
    · rintro (h | h)
      · exact Or.inl ⟨h, fun hm => hany o h hm.1 hm.2⟩
      · exact Or.inr h
    · rintro (⟨h, _⟩ | h)
      · exact Or.inl h
      · exact Or.inr h

theorem opsAdd_uniq (ops : List OpEntry) (e : OpEntry)
    (h : ops.Pairwise (fun a b => ¬ (a.cls = b.cls ∧ a.pk = b.pk))) :
    (opsAdd ops e).Pairwise (fun a b => ¬ (a.cls = b.cls ∧ a.pk = b.pk)) := by
  unfold opsAdd
  split
  · rw [List.pairwise_map]
    refine h.imp ?_
    intro a b hab
    by_cases ha : a.cls = e.cls ∧ a.pk = e.pk <;> by_cases hb : b.cls = e.cls ∧ b.pk = e.pk
    · exact absurd ⟨ha.1.trans hb.1.symm, ha.2.trans hb.2.symm⟩ hab
    · rw [if_pos ha, if_neg hb]
      intro hc; exact hb ⟨hc.1.symm, hc.2.symm⟩
    · rw [if_neg ha, if_pos hb]
      exact ha
    · rw [if_neg ha, if_neg hb]
      exact hab
  · rename_i hany
    simp only [List.any_eq_true, decide_eq_true_eq, not_exists, not_and] at hany
    rw [List.pairwise_append]
    refine ⟨h, List.pairwise_singleton _ _, ?_⟩
    intro a ha b hb
    rw [List.mem_singleton.1 hb]
    intro hc; exact hany a ha hc.1 hc.2

/-- a tracked event of entity `(e.cls, e.pk)` replaces / creates the entity's operation -/
theorem relC_track {cfg : Cfg} {es : List Ev} {T : Nat} {ops V} (ev : Ev) (e : OpEntry)
    (h : RelC cfg es (some T) ops V)
    (htr : ev.tracked cfg = true) (hent : ev.entity = some (e.cls, e.pk))
    (hproc : ∀ o ∈ ops, o.cls = e.cls → o.pk = e.pk → o.processed = true)
    (hns : ∀ o ∈ ops, o.pk = e.pk → o.cls ≠ e.cls →
      ∀ tc ∈ (cfg.cls e.cls).tables, ∀ tc' ∈ (cfg.cls o.cls).tables, tc.1 ≠ tc'.1)
    (hunp : e.processed = false)
    (hop : some e.op = specOp (entityEvents cfg es e.cls e.pk ++ [ev]))
    (hv : e.vals = ev.vals) (hc : e.changed = ev.changed)
    (hd : decide (e.op = .delete) = ev.isDel) :
    RelC cfg (es ++ [ev]) (some T) (opsAdd ops e) V := by
  have hself := entityEvents_snoc_self cfg es ev e.cls e.pk htr hent
  have hother : ∀ c pk, ¬ (c = e.cls ∧ pk = e.pk) →
      entityEvents cfg (es ++ [ev]) c pk = entityEvents cfg es c pk := by
    intro c pk hne
    apply entityEvents_snoc_other
    right
    rw [hent]
    intro heq
    injection heq with heq
    injection heq with h1 h2
    exact hne ⟨h1.symm, h2.symm⟩
  refine ⟨?_, ?_, ?_, ?_, opsAdd_uniq ops e h.uniq⟩
  · intro o ho
    rw [mem_opsAdd] at ho
    rcases ho with ⟨ho, hne⟩ | rfl
    · obtain ⟨T', hT', init, last, h1, h2⟩ := h.entries o ho
      exact ⟨T', hT', init, last, by rw [hother o.cls o.pk hne]; exact h1, h2⟩
    · refine ⟨T, rfl, entityEvents cfg es o.cls o.pk, ev, hself, hop, hv, hc, hd, ?_⟩
      intro hP tc htc
      simp only [hunp, Bool.false_eq_true, ↓reduceIte]
      by_cases hex : ∃ o' ∈ ops, o'.cls = o.cls ∧ o'.pk = o.pk
      · obtain ⟨o', ho', hc', hp'⟩ := hex
        obtain ⟨T', hT', init, last, h1, _, _, _, _, h6⟩ := h.entries o' ho'
        cases hT'
        have hpr := hproc o' ho' hc' hp'
        have := h6 hP tc (by rw [hc']; exact htc)
        rw [hpr, if_pos rfl, ← h1, hc', hp'] at this
        exact this
      · have hnil : entityEvents cfg es o.cls o.pk = [] := by
          apply Classical.byContradiction
          intro hne
          obtain ⟨o', ho', hc', hp'⟩ := h.covered _ _ hne
          exact hex ⟨o', ho', hc', hp'⟩
        rw [hnil]
        refine ⟨fun _ => ?_, fun hh => absurd rfl hh⟩
        rintro ⟨r, hr, hk, ht⟩
        obtain ⟨o', ho', hp', tc', htc', hk'⟩ := h.owner r hr (by rw [ht])
        rw [hk] at hp' hk'
        by_cases hcc : o'.cls = o.cls
        · exact hex ⟨o', ho', hcc, hp'⟩
        · exact hns o' ho' hp' hcc tc htc tc' htc' hk'.symm
  · intro c pk hne
    by_cases hcp : c = e.cls ∧ pk = e.pk
    · exact ⟨e, (mem_opsAdd ops e e).2 (Or.inr rfl), hcp.1.symm, hcp.2.symm⟩
    · rw [hother c pk hcp] at hne
      obtain ⟨o, ho, h1, h2⟩ := h.covered c pk hne
      refine ⟨o, (mem_opsAdd ops e o).2 (Or.inl ⟨ho, ?_⟩), h1, h2⟩
      rw [h1, h2]; exact hcp
  · intro r hr hcur
    obtain ⟨o, ho, hp, tc, htc, hk⟩ := h.owner r hr hcur
    by_cases hm : o.cls = e.cls ∧ o.pk = e.pk
    · refine ⟨e, (mem_opsAdd ops e e).2 (Or.inr rfl), by rw [← hm.2]; exact hp, tc, ?_, hk⟩
      rw [← hm.1]; exact htc
    · exact ⟨o, (mem_opsAdd ops e o).2 (Or.inl ⟨ho, hm⟩), hp, tc, htc, hk⟩
  · intro o ho o' ho' hpk hcls tc htc tc' htc'
    rw [mem_opsAdd] at ho ho'
    rcases ho with ⟨ho, _⟩ | rfl <;> rcases ho' with ⟨ho', _⟩ | rfl
    · exact h.disj o ho o' ho' hpk hcls tc htc tc' htc'
    · exact fun hh => hns o ho hpk hcls tc' htc' tc htc hh.symm
    · exact hns o' ho' hpk.symm (fun hh => hcls hh.symm) tc htc tc' htc'
    · exact absurd rfl hcls


theorem tablesOK_of {cfg : Cfg} (hcfg : ∀ c ∈ cfg.classes, (c.tables.map (·.1)).Nodup) :
    TablesOK cfg := by
  intro c
  unfold Cfg.cls
  cases h : cfg.classes[c]? with
  | none => exact List.nodup_nil
  | some cc => exact hcfg cc (List.mem_of_getElem? h)

/-- two operations of one unit of work never write the same table key -/
theorem relC_key_owner {cfg : Cfg} {es : List Ev} {cur ops V} (h : RelC cfg es cur ops V)
    {o o2 : OpEntry} (ho : o ∈ ops) (ho2 : o2 ∈ ops) {tc tc2 : Nat × List (Option Nat)}
    (htc : tc ∈ (cfg.cls o.cls).tables) (htc2 : tc2 ∈ (cfg.cls o2.cls).tables)
    (hk : (tc.1, o.pk) = (tc2.1, o2.pk)) : o = o2 := by
  injection hk with h1 h2
  rcases pairwise_eq_or h.uniq
    (fun a b hab hc => hab ⟨hc.1.symm, hc.2.symm⟩) ho ho2 with heq | hne
  · exact heq
  · by_cases hc : o.cls = o2.cls
    · exact absurd ⟨hc, h2⟩ hne
    · exact absurd h1 (h.disj o ho o2 ho2 h2 hc tc htc tc2 htc2)

theorem writes_pairwise {cfg : Cfg} {es : List Ev} {cur ops V}
    (hcfg : TablesOK cfg) (h : RelC cfg es cur ops V) :
    (writes cfg ops).Pairwise (fun a b => wKey a ≠ wKey b) := by
  unfold writes
  rw [List.pairwise_flatMap]
  constructor
  · intro o _
    rw [List.pairwise_map]
    have := hcfg o.cls
    unfold List.Nodup at this
    rw [List.pairwise_map] at this
    refine this.imp ?_
    intro a b hab hk
    have : (wKey (o, a)).1 = (wKey (o, b)).1 := by rw [hk]
    exact hab this
  · apply List.Pairwise.filter
    refine List.Pairwise.imp_of_mem ?_ h.uniq
    intro a b ha hb hab x hx y hy hk
    simp only [List.mem_map] at hx hy
    obtain ⟨tc, htc, rfl⟩ := hx
    obtain ⟨tc2, htc2, rfl⟩ := hy
    have := relC_key_owner h ha hb htc htc2 hk
    subst this
    exact hab ⟨rfl, rfl⟩

/-- `afterFlush` with a current transaction: every operation becomes processed and its rows
reflect all tracked events of its entity -/
theorem relC_flush {cfg : Cfg} {es : List Ev} {T : Nat} {ops V}
    (h : RelC cfg es (some T) ops V) :
    RelC cfg es (some T) (ops.map (fun e => { e with processed := true }))
      (processOps cfg V T ops) := by
  rw [processOps_eq]
  refine ⟨?_, ?_, ?_, ?_, ?_⟩
  · intro o' ho'
    obtain ⟨o, ho, rfl⟩ := List.mem_map.1 ho'
    obtain ⟨T', hT', init, last, h1, h2, h3, h4, h5, h6⟩ := h.entries o ho
    cases hT'
    refine ⟨T, rfl, init, last, h1, h2, h3, h4, h5, ?_⟩
    intro hcfg tc htc
    have hpw := writes_pairwise hcfg h
    have hpre := h6 hcfg tc htc
    show RowOK cfg _ T (tc.1, o.pk) tc.2 (if true = true then init ++ [last] else init)
    rw [if_pos rfl]
    by_cases hp : o.processed = true
    · rw [if_pos hp] at hpre
      obtain ⟨r, hr, hk, ht, hrest⟩ := hpre.2 (by simp)
      refine ⟨fun hh => absurd hh (by simp), fun _ => ?_⟩
      have h0 := rowIs_of_mem hr
      have hfr : ∀ w ∈ writes cfg ops, ¬ (r.key = wKey w ∧ r.tx = T) := by
        intro w hw hc
        rw [mem_writes] at hw
        rw [hk] at hc
        have := relC_key_owner h ho hw.1 htc hw.2.2 hc.1
        subst this
        rw [hp] at hw
        exact absurd hw.2.1 (by simp)
      obtain ⟨r', hr', hk', ht', ho', hv', hm'⟩ := applyW_frame cfg T (writes cfg ops) V h0 hfr
      refine ⟨r', hr', hk'.trans hk, ht'.trans ht, ?_, ?_, ?_⟩
      · rw [ho']; exact hrest.1
      · intro e he; rw [hv']; exact hrest.2.1 e he
      · intro hm; rw [hm']; exact hrest.2.2 hm
    · have hp' : o.processed = false := by simpa using hp
      rw [if_neg hp] at hpre
      have hw : (o, tc) ∈ writes cfg ops := (mem_writes cfg ops (o, tc)).2 ⟨ho, hp', htc⟩
      obtain ⟨l1, l2, hl, hu⟩ := pairwise_split hpw (fun a b hab => Ne.symm hab) hw
      rw [hl]
      exact rowOK_after_write cfg V _ T o tc init last h2 h3 h4 h5 hpre
        (fun op vals mods hh => applyW_hit cfg T l1 l2 (o, tc) V hu hh)
        (fun hh => applyW_miss cfg T l1 l2 (o, tc) V hu hh)
  · intro c pk hne
    obtain ⟨o, ho, h1, h2⟩ := h.covered c pk hne
    exact ⟨_, List.mem_map.2 ⟨o, ho, rfl⟩, h1, h2⟩
  · intro r hr hcur
    have hh : Has (applyW cfg T V (writes cfg ops)) r.key r.tx := ⟨r, hr, rfl, rfl⟩
    rw [applyW_has] at hh
    rcases hh with ⟨r0, hr0, hk0, ht0⟩ | ⟨_, w, hw, hk⟩
    · obtain ⟨o, ho, hp, tc, htc, hk⟩ := h.owner r0 hr0 (by rw [ht0]; exact hcur)
      exact ⟨_, List.mem_map.2 ⟨o, ho, rfl⟩, by rw [← hk0]; exact hp, tc, htc,
        by rw [← hk0]; exact hk⟩
    · rw [mem_writes] at hw
      exact ⟨_, List.mem_map.2 ⟨w.1, hw.1, rfl⟩, by rw [← hk]; rfl, w.2, hw.2.2,
        by rw [← hk]; rfl⟩
  · intro o' ho' o2' ho2'
    obtain ⟨o, ho, rfl⟩ := List.mem_map.1 ho'
    obtain ⟨o2, ho2, rfl⟩ := List.mem_map.1 ho2'
    exact h.disj o ho o2 ho2
  · rw [List.pairwise_map]
    exact h.uniq


/-! ## Part 3: every well-formed event preserves the relation -/

/-- `es` are the events delivered since the last boundary, `s` the state they led to -/
def Rel (cfg : Cfg) (es : List Ev) (s : St) : Prop :=
  RelC cfg es s.uowD.cur s.uowD.ops s.db.versions

theorem uowD_mk_some (d c : Db) (u : Uow) (sp : List (Db × Option Uow)) (er : Bool) :
    St.uowD { db := d, committed := c, uow := some u, sps := sp, err := er } = u := rfl

theorem uowD_mk_same (s : St) (d c : Db) (sp : List (Db × Option Uow)) (er : Bool) :
    St.uowD { db := d, committed := c, uow := s.uow, sps := sp, err := er } = s.uowD := rfl

theorem opsFind_isSome (ops : List OpEntry) (c : Nat) (pk : List Int) :
    (opsFind ops c pk).isSome = true ↔ ∃ o ∈ ops, o.cls = c ∧ o.pk = pk := by
  unfold opsFind
  rw [List.find?_isSome]
  simp

theorem relC_events_ne_iff {cfg : Cfg} {es : List Ev} {cur ops V} (h : RelC cfg es cur ops V)
    (c : Nat) (pk : List Int) :
    entityEvents cfg es c pk ≠ [] ↔ ∃ o ∈ ops, o.cls = c ∧ o.pk = pk := by
  constructor
  · exact h.covered c pk
  · rintro ⟨o, ho, rfl, rfl⟩
    obtain ⟨_, _, init, last, h1, _⟩ := h.entries o ho
    rw [h1]; simp

theorem rel_init (cfg : Cfg) (s : St) (hb : Boundary s) : Rel cfg [] s := by
  have hu : s.uowD = {} := by unfold St.uowD; rw [hb.1]; rfl
  unfold Rel
  rw [hu]
  refine ⟨?_, ?_, ?_, ?_, List.Pairwise.nil⟩
  · intro o ho; cases ho
  · intro c pk hne; exact absurd rfl hne
  · intro r _ hc; cases hc
  · intro o ho; cases ho

theorem rel_step (cfg : Cfg) (es : List Ev) (s : St) (e : Ev) (hrel : Rel cfg es s) (hinv : Inv cfg s)
    (hok : EvOK cfg s e) (hne : e.isEnd = false) : Rel cfg (es ++ [e]) (step cfg s e) := by
  have hfresh : ∀ N, (∀ x ∈ s.db.txs, x < N) → ∀ r ∈ s.db.versions, r.tx ≠ N := by
    intro N hN r hr hc
    have := hN _ (hinv.db.txs_in r hr)
    omega
  unfold Rel at hrel
  cases e with
  | beforeFlush objs n pm =>
    have hun : Ev.tracked cfg (.beforeFlush objs n pm) = false := rfl
    simp only [step]
    split
    · unfold Rel; simp only [uowD_mk_some]; exact relC_untracked _ hun hrel
    · rename_i hmod
      split
      · unfold Rel; simp only [uowD_mk_some]; exact relC_untracked _ hun hrel
      · rename_i hcur
        simp only [uowD_mk_some] at hcur
        have hcur' : s.uowD.cur = none := by
          cases hc : s.uowD.cur with
          | none => rfl
          | some T => rw [hc] at hcur; simp at hcur
        unfold Rel createTx
        simp only [uowD_mk_some]
        rw [hcur'] at hrel
        simp only [EvOK] at hok
        have hmod' : (objs.any (objModified cfg) || pm) = true := by
          cases hh : (objs.any (objModified cfg) || pm) with
          | true => rfl
          | false => rw [hh] at hmod; exact absurd rfl hmod
        exact relC_newcur n (relC_untracked _ hun hrel) (hfresh n (hok hmod' hcur'))
  | manualTx n =>
    have hun : Ev.tracked cfg (.manualTx n) = false := rfl
    simp only [EvOK] at hok
    simp only [step]
    unfold Rel createTx
    simp only [uowD_mk_some]
    rw [hok.1] at hrel
    exact relC_newcur n (relC_untracked _ hun hrel) (hfresh n hok.2)
  | ins c pk v ch =>
    simp only [step]
    split
    · rename_i hv
      have hun : Ev.tracked cfg (.ins c pk v ch) = false := by simpa [Ev.tracked] using hv
      exact relC_untracked _ hun hrel
    · rename_i hv
      have hv' : (cfg.cls c).versioned = true := by simpa using hv
      simp only [EvOK] at hok
      obtain ⟨hcur, hproc, hns, _⟩ := hok hv'
      unfold Rel
      simp only [uowD_mk_some, uowD_mk_same]
      obtain ⟨T, hT⟩ := Option.isSome_iff_exists.1 hcur
      rw [hT] at hrel ⊢
      refine relC_track (Ev.ins c pk v ch) _ hrel (by simpa [Ev.tracked] using hv') rfl
        (fun o ho h1 h2 => hproc o ho h1 h2) (fun o ho h1 h2 => hns o ho h1 h2) rfl ?_ rfl rfl ?_
      · show some (if (opsFind s.uowD.ops c pk).isSome = true then Op.update else Op.insert) =
          specOp (entityEvents cfg es c pk ++ [Ev.ins c pk v ch])
        by_cases hf : (opsFind s.uowD.ops c pk).isSome = true
        · rw [if_pos hf]
          have := (relC_events_ne_iff hrel c pk).2 ((opsFind_isSome _ _ _).1 hf)
          rw [specOp_snoc_ins' _ this]
        · rw [if_neg hf]
          have : entityEvents cfg es c pk = [] := by
            apply Classical.byContradiction
            intro hne'
            exact hf ((opsFind_isSome _ _ _).2 ((relC_events_ne_iff hrel c pk).1 hne'))
          rw [this]; rfl
      · show decide ((if (opsFind s.uowD.ops c pk).isSome = true then Op.update else Op.insert) =
          Op.delete) = false
        split <;> rfl
  | upd c pk v cc rc kc kr =>
    simp only [step]
    split
    · rename_i hv
      have hun : Ev.tracked cfg (.upd c pk v cc rc kc kr) = false := by
        simp only [Bool.not_eq_eq_eq_not, Bool.not_true] at hv
        simp [Ev.tracked, hv]
      exact relC_untracked _ hun hrel
    · rename_i hv
      have hv' : (cfg.cls c).versioned = true := by simpa using hv
      split
      · rename_i hm
        have hun : Ev.tracked cfg (.upd c pk v cc rc kc kr) = false := by
          simp only [Bool.not_eq_eq_eq_not, Bool.not_true] at hm
          simp [Ev.tracked, hm]
        unfold Rel
        exact relC_untracked _ hun hrel
      · rename_i hm
        have hm' : isModified (cfg.cls c) cc rc = true := by simpa using hm
        split
        · rename_i hk
          have hun : Ev.tracked cfg (.upd c pk v cc rc kc kr) = false := by
            simp only [Bool.not_eq_eq_eq_not, Bool.not_true] at hk
            simp [Ev.tracked, hk]
          unfold Rel
          exact relC_untracked _ hun hrel
        · rename_i hk
          have hk' : committedNonEmpty (cfg.cls c) kc kr = true := by simpa using hk
          have htr : Ev.tracked cfg (.upd c pk v cc rc kc kr) = true := by
            simp [Ev.tracked, hv', hm', hk']
          simp only [EvOK] at hok
          obtain ⟨h1, hns, _⟩ := hok hv'
          obtain ⟨hcur, hproc⟩ := h1 htr
          unfold Rel
          simp only [uowD_mk_some, uowD_mk_same]
          obtain ⟨T, hT⟩ := Option.isSome_iff_exists.1 hcur
          rw [hT] at hrel ⊢
          refine relC_track (Ev.upd c pk v cc rc kc kr) _ hrel htr rfl
            (fun o ho h1 h2 => hproc o ho h1 h2) (fun o ho h1 h2 => hns o ho h1 h2) rfl ?_ rfl rfl rfl
          show some Op.update = specOp (entityEvents cfg es c pk ++ [Ev.upd c pk v cc rc kc kr])
          by_cases hl : entityEvents cfg es c pk = []
          · rw [hl]; rfl
          · rw [specOp_snoc_upd _ hl]
  | del c pk v =>
    simp only [step]
    split
    · rename_i hv
      have hun : Ev.tracked cfg (.del c pk v) = false := by simpa [Ev.tracked] using hv
      exact relC_untracked _ hun hrel
    · rename_i hv
      have hv' : (cfg.cls c).versioned = true := by simpa using hv
      simp only [EvOK] at hok
      obtain ⟨hcur, hproc, hns, _⟩ := hok hv'
      unfold Rel
      simp only [uowD_mk_some, uowD_mk_same]
      obtain ⟨T, hT⟩ := Option.isSome_iff_exists.1 hcur
      rw [hT] at hrel ⊢
      refine relC_track (Ev.del c pk v) _ hrel (by simpa [Ev.tracked] using hv') rfl
        (fun o ho h1 h2 => hproc o ho h1 h2) (fun o ho h1 h2 => hns o ho h1 h2) rfl ?_ rfl rfl rfl
      show some Op.delete = specOp (entityEvents cfg es c pk ++ [Ev.del c pk v])
      rw [specOp_snoc_del']
  | assoc tbl op links =>
    have hun : Ev.tracked cfg (.assoc tbl op links) = false := rfl
    simp only [step]
    split
    · exact relC_untracked _ hun hrel
    · unfold Rel; simp only [uowD_mk_some]; exact relC_untracked _ hun hrel
  | afterFlush =>
    have hun : Ev.tracked cfg .afterFlush = false := rfl
    simp only [step, uowD_mk_some]
    split
    · unfold Rel; simp only [uowD_mk_some]; exact relC_untracked _ hun hrel
    · rename_i T hT
      unfold Rel
      simp only [uowD_mk_some]
      rw [hT] at hrel ⊢
      exact relC_untracked _ hun (relC_flush hrel)
  | commit => cases hne
  | rollback => cases hne
  | spBegin => exact relC_untracked _ rfl hrel
  | spCommit => exact relC_untracked _ rfl hrel
  | spRollback => exact absurd hok (by simp [EvOK])


/-! ## Part 4: the `transaction_changes` table (C17) -/

theorem mem_addChanges (ch : List (Nat × Nat)) (T : Nat) (ops : List OpEntry) (p : Nat × Nat) :
    p ∈ addChanges ch T ops ↔ p ∈ ch ∨ ∃ o ∈ ops, p = (T, o.cls) := by
  induction ops generalizing ch with
  | nil => simp [addChanges]
  | cons o ops ih =>
    unfold addChanges at ih ⊢
    simp only [List.foldl_cons]
    rw [ih]
    simp only [List.mem_cons, exists_eq_or_imp]
    by_cases hc : ch.contains (T, o.cls) = true
    · rw [if_pos hc]
      constructor
      · rintro (h | h)
        · exact Or.inl h
        · exact Or.inr (Or.inr h)
      · rintro (h | h | h)
        · exact Or.inl h
        · left; rw [h]; exact List.contains_iff_mem.1 hc
        · exact Or.inr h
    · rw [if_neg hc]
      simp only [List.mem_append, List.mem_singleton]
      constructor
      · rintro ((h | h) | h)
        · exact Or.inl h
        · exact Or.inr (Or.inl h)
        · exact Or.inr (Or.inr h)
      · rintro (h | h | h)
        · exact Or.inl (Or.inl h)
        · exact Or.inl (Or.inr h)
        · exact Or.inr h

theorem nodup_addChanges (ch : List (Nat × Nat)) (T : Nat) (ops : List OpEntry) (h : ch.Nodup) :
    (addChanges ch T ops).Nodup := by
  induction ops generalizing ch with
  | nil => exact h
  | cons o ops ih =>
    unfold addChanges at ih ⊢
    simp only [List.foldl_cons]
    apply ih
    by_cases hc : ch.contains (T, o.cls) = true
    · rw [if_pos hc]; exact h
    · rw [if_neg hc]
      rw [List.nodup_append]
      refine ⟨h, by simp, ?_⟩
      intro a ha b hb hab
      rw [List.mem_singleton.1 hb] at hab
      rw [hab] at ha
      exact hc (List.contains_iff_mem.2 ha)

/-- what the state says about `transaction_changes`, relative to its content `base` at the
last boundary -/
structure ChgC (cfg : Cfg) (base : List (Nat × Nat)) (cur : Option Nat) (ops : List OpEntry)
    (ch : List (Nat × Nat)) : Prop where
  keep : ∀ p ∈ base, p ∈ ch
  new : ∀ p ∈ ch, p ∉ base → cur = some p.1 ∧ ∃ o ∈ ops, o.cls = p.2
  nodup : base.Nodup → ch.Nodup
  done : cfg.txChanges = true → ∀ o ∈ ops, o.processed = true → ∀ T, cur = some T → (T, o.cls) ∈ ch

def ChgRel (cfg : Cfg) (base : List (Nat × Nat)) (s : St) : Prop :=
  ChgC cfg base s.uowD.cur s.uowD.ops s.db.changes

theorem chgC_newcur {cfg : Cfg} {base ch} (N : Nat) (h : ChgC cfg base none [] ch) :
    ChgC cfg base (some N) [] ch := by
  refine ⟨h.keep, ?_, h.nodup, ?_⟩
  · intro p hp hb
    have := (h.new p hp hb).1
    cases this
  · intro _ o ho; cases ho

theorem chgC_track {cfg : Cfg} {base cur ops ch} (e : OpEntry) (he : e.processed = false)
    (h : ChgC cfg base cur ops ch) : ChgC cfg base cur (opsAdd ops e) ch := by
  refine ⟨h.keep, ?_, h.nodup, ?_⟩
  · intro p hp hb
    obtain ⟨h1, o, ho, hc⟩ := h.new p hp hb
    refine ⟨h1, ?_⟩
    by_cases hm : o.cls = e.cls ∧ o.pk = e.pk
    · exact ⟨e, (mem_opsAdd ops e e).2 (Or.inr rfl), by rw [← hm.1]; exact hc⟩
    · exact ⟨o, (mem_opsAdd ops e o).2 (Or.inl ⟨ho, hm⟩), hc⟩
  · intro htc o ho hp T hT
    rw [mem_opsAdd] at ho
    rcases ho with ⟨ho, _⟩ | rfl
    · exact h.done htc o ho hp T hT
    · rw [he] at hp; cases hp

theorem chgC_flush {cfg : Cfg} {base ops ch} (T : Nat) (h : ChgC cfg base (some T) ops ch) :
    ChgC cfg base (some T) (ops.map (fun e => { e with processed := true }))
      (if (cfg.txChanges && !ops.isEmpty) = true then addChanges ch T ops else ch) := by
  by_cases hc : (cfg.txChanges && !ops.isEmpty) = true
  · rw [if_pos hc]
    refine ⟨?_, ?_, ?_, ?_⟩
    · intro p hp
      exact (mem_addChanges ch T ops p).2 (Or.inl (h.keep p hp))
    · intro p hp hb
      rcases (mem_addChanges ch T ops p).1 hp with hp | ⟨o, ho, rfl⟩
      · obtain ⟨h1, o, ho, h2⟩ := h.new p hp hb
        exact ⟨h1, _, List.mem_map.2 ⟨o, ho, rfl⟩, h2⟩
      · exact ⟨rfl, _, List.mem_map.2 ⟨o, ho, rfl⟩, rfl⟩
    · intro hb
      exact nodup_addChanges ch T ops (h.nodup hb)
    · intro _ o' ho' _ T' hT'
      obtain ⟨o, ho, rfl⟩ := List.mem_map.1 ho'
      cases hT'
      exact (mem_addChanges ch T ops _).2 (Or.inr ⟨o, ho, rfl⟩)
  · rw [if_neg hc]
    refine ⟨h.keep, ?_, h.nodup, ?_⟩
    · intro p hp hb
      obtain ⟨h1, o, ho, h2⟩ := h.new p hp hb
      exact ⟨h1, _, List.mem_map.2 ⟨o, ho, rfl⟩, h2⟩
    · intro htc o' ho'
      obtain ⟨o, ho, rfl⟩ := List.mem_map.1 ho'
      rw [htc] at hc
      cases ops with
      | nil => cases ho
      | cons a l => simp at hc

theorem chg_init (cfg : Cfg) (s : St) (hb : Boundary s) : ChgRel cfg s.db.changes s := by
  have hu : s.uowD = {} := by unfold St.uowD; rw [hb.1]; rfl
  unfold ChgRel
  rw [hu]
  refine ⟨fun p hp => hp, fun p hp hn => absurd hp hn, fun h => h, ?_⟩
  intro _ o ho; cases ho

theorem chg_step (cfg : Cfg) (base : List (Nat × Nat)) (es : List Ev) (s : St) (e : Ev)
    (hrel : Rel cfg es s) (h : ChgRel cfg base s)
    (hok : EvOK cfg s e) (hne : e.isEnd = false) : ChgRel cfg base (step cfg s e) := by
  unfold Rel at hrel
  unfold ChgRel at h
  cases e with
  | beforeFlush objs n pm =>
    simp only [step]
    split
    · exact h
    · split
      · exact h
      · rename_i hcur
        simp only [uowD_mk_some] at hcur
        have hcur' : s.uowD.cur = none := by
          cases hc : s.uowD.cur with
          | none => rfl
          | some T => rw [hc] at hcur; simp at hcur
        unfold ChgRel createTx
        simp only [uowD_mk_some]
        rw [hcur'] at hrel h
        have hnil := relC_ops_nil hrel
        rw [hnil] at h ⊢
        exact chgC_newcur n h
  | manualTx n =>
    simp only [EvOK] at hok
    simp only [step]
    unfold ChgRel createTx
    simp only [uowD_mk_some]
    rw [hok.1] at hrel h
    have hnil := relC_ops_nil hrel
    rw [hnil] at h ⊢
    exact chgC_newcur n h
  | ins c pk v ch =>
    simp only [step]
    split
    · exact h
    · unfold ChgRel
      simp only [uowD_mk_some, uowD_mk_same]
      exact chgC_track _ rfl h
  | upd c pk v cc rc kc kr =>
    simp only [step]
    split
    · exact h
    · split
      · exact h
      · split
        · exact h
        · unfold ChgRel
          simp only [uowD_mk_some, uowD_mk_same]
          exact chgC_track _ rfl h
  | del c pk v =>
    simp only [step]
    split
    · exact h
    · unfold ChgRel
      simp only [uowD_mk_some, uowD_mk_same]
      exact chgC_track _ rfl h
  | assoc tbl op links =>
    simp only [step]
    split
    · exact h
    · exact h
  | afterFlush =>
    simp only [step, uowD_mk_some]
    split
    · exact h
    · rename_i T hT
      unfold ChgRel
      simp only [uowD_mk_some]
      rw [hT] at h ⊢
      exact chgC_flush T h
  | commit => cases hne
  | rollback => cases hne
  | spBegin => exact h
  | spCommit => exact h
  | spRollback => exact absurd hok (by simp [EvOK])

/-! ## Part 5: along a run -/

theorem step_committed (cfg : Cfg) (s : St) (e : Ev) (hne : e.isEnd = false) :
    (step cfg s e).committed = s.committed := by
  cases e with
  | commit => cases hne
  | rollback => cases hne
  | spRollback => simp only [step]; split <;> rfl
  | afterFlush => simp only [step]; split <;> rfl
  | upd =>
    simp only [step]
    split
    · rfl
    · split
      · rfl
      · split <;> rfl
  | beforeFlush =>
    simp only [step, createTx]
    split
    · rfl
    · split <;> rfl
  | manualTx => rfl
  | spBegin => rfl
  | spCommit => rfl
  | ins => simp only [step]; split <;> rfl
  | del => simp only [step]; split <;> rfl
  | assoc => simp only [step]; split <;> rfl

theorem run_snoc (cfg : Cfg) (s : St) (pre : List Ev) (e : Ev) :
    run cfg s (pre ++ [e]) = step cfg (run cfg s pre) e := by
  unfold run; rw [List.foldl_append]; rfl

theorem wf_at (cfg : Cfg) (s : St) (pre : List Ev) (e : Ev) (rest : List Ev)
    (h : WF cfg s (pre ++ e :: rest)) : EvOK cfg (run cfg s pre) e := by
  induction pre generalizing s with
  | nil => exact h.1
  | cons a pre ih => exact ih (step cfg s a) h.2

/-- the three facts carried along a run from a boundary state -/
def Good (cfg : Cfg) (s0 : St) (pre : List Ev) (st : St) : Prop :=
  Rel cfg pre st ∧ ChgRel cfg s0.db.changes st ∧ st.committed = s0.committed

theorem good_run_aux (cfg : Cfg) (s : St) (evs tl : List Ev)
    (hinv : ∀ pre, pre <+: (evs ++ tl) → Inv cfg (run cfg s pre))
    (hne : ∀ e ∈ evs, e.isEnd = false) (hwf : WF cfg s (evs ++ tl)) :
    ∀ rest pre, pre ++ rest = evs → Good cfg s pre (run cfg s pre) →
      Good cfg s evs (run cfg s evs) := by
  intro rest
  induction rest with
  | nil => intro pre hpre hg; rw [List.append_nil] at hpre; subst hpre; exact hg
  | cons e rest ih =>
    intro pre hpre hg
    apply ih (pre ++ [e]) (by rw [List.append_assoc]; exact hpre)
    have hmem : e ∈ evs := by rw [← hpre]; simp
    have hend := hne e hmem
    have hI : Inv cfg (run cfg s pre) := by
      apply hinv
      rw [← hpre, List.append_assoc]
      exact List.prefix_append _ _
    have hok : EvOK cfg (run cfg s pre) e := by
      apply wf_at cfg s pre e (rest ++ tl)
      rw [← hpre, List.append_assoc] at hwf
      exact hwf
    rw [run_snoc]
    obtain ⟨h1, h2, h3⟩ := hg
    exact ⟨rel_step cfg pre _ e h1 hI hok hend, chg_step cfg _ pre _ e h1 h2 hok hend,
      by rw [step_committed cfg _ e hend]; exact h3⟩

theorem good_run (cfg : Cfg) (s : St) (evs tl : List Ev) (hb : Boundary s)
    (hinv : ∀ pre, pre <+: (evs ++ tl) → Inv cfg (run cfg s pre))
    (hne : ∀ e ∈ evs, e.isEnd = false) (hwf : WF cfg s (evs ++ tl)) :
    Good cfg s evs (run cfg s evs) :=
  good_run_aux cfg s evs tl hinv hne hwf evs [] rfl
    ⟨rel_init cfg s hb, chg_init cfg s hb, rfl⟩

theorem mem_trackedEntities (cfg : Cfg) (evs : List Ev) (ent : Nat × List Int) :
    ent ∈ trackedEntities cfg evs ↔ entityEvents cfg evs ent.1 ent.2 ≠ [] := by
  unfold trackedEntities entityEvents
  rw [List.mem_eraseDups, List.mem_filterMap, Ne, List.filter_eq_nil_iff]
  constructor
  · rintro ⟨e, he, h⟩ hall
    apply hall e he
    by_cases ht : e.tracked cfg = true
    · rw [if_pos ht] at h
      simp [ht, h]
    · rw [if_neg ht] at h; cases h
  · intro h
    apply Classical.byContradiction
    intro hno
    apply h
    intro e he hc
    simp only [Bool.and_eq_true, beq_iff_eq] at hc
    exact hno ⟨e, he, by rw [if_pos hc.1]; exact hc.2⟩

/-! ## Part 6: decision procedures (used to machine-check concrete traces) -/

def wfDec (cfg : Cfg) : (s : St) → (l : List Ev) → Decidable (WF cfg s l)
  | _, [] => isTrue trivial
  | s, e :: es => @instDecidableAnd _ _ (uowDecEvOK cfg s e) (wfDec cfg (step cfg s e) es)

def dbInvDec (cfg : Cfg) (d : Db) : Decidable (DbInv cfg d) :=
  decidable_of_iff
    ((∀ r ∈ d.versions, r.tx ∈ d.txs) ∧ (∀ a ∈ d.assoc, a.tx ∈ d.txs) ∧ PKUnique d.versions ∧
      (cfg.strategy = .validity → Chain d.versions))
    ⟨fun h => ⟨h.1, h.2.1, h.2.2.1, h.2.2.2⟩, fun h => ⟨h.txs_in, h.atxs_in, h.pk, h.chain⟩⟩

def invDec (cfg : Cfg) (s : St) : Decidable (Inv cfg s) :=
  have := dbInvDec cfg s.db
  have := dbInvDec cfg s.committed
  decidable_of_iff
    (DbInv cfg s.db ∧ DbInv cfg s.committed ∧
      (∀ T ∈ s.uowD.cur.toList, T ∈ s.db.txs ∧ (∀ x ∈ s.db.txs, x ≤ T) ∧ T ∉ s.committed.txs) ∧
      (∀ x ∈ s.committed.txs, x ∈ s.db.txs) ∧
      (∀ x ∈ s.db.txs, x ∉ s.committed.txs → s.uowD.cur = some x) ∧
      (∀ r ∈ s.db.versions,
        (∃ r' ∈ s.committed.versions, r'.key = r.key ∧ r'.tx = r.tx) ∨ s.uowD.cur = some r.tx) ∧
      (∀ a ∈ s.db.assoc, a ∈ s.committed.assoc ∨ s.uowD.cur = some a.tx) ∧
      (∀ r' ∈ s.committed.versions, ∃ r ∈ s.db.versions,
        r.key = r'.key ∧ r.tx = r'.tx ∧ r.op = r'.op ∧ r.vals = r'.vals))
    ⟨fun h => ⟨h.1, h.2.1, fun T hT => h.2.2.1 T (Option.mem_toList.2 hT), h.2.2.2.1, h.2.2.2.2.1,
        h.2.2.2.2.2.1, h.2.2.2.2.2.2.1, h.2.2.2.2.2.2.2⟩,
     fun h => ⟨h.db, h.committed, fun T hT => h.cur_in T (Option.mem_toList.1 hT), h.grow, h.fresh,
        h.rows_old_or_cur, h.assoc_old_or_cur, h.past⟩⟩

instance wfDecI (cfg : Cfg) (s : St) (l : List Ev) : Decidable (WF cfg s l) := wfDec cfg s l
instance invDecI (cfg : Cfg) (s : St) : Decidable (Inv cfg s) := invDec cfg s

theorem inv_prefixes (cfg : Cfg) (s : St) (l : List Ev)
    (h : ∀ n ∈ List.range (l.length + 1), Inv cfg (run cfg s (l.take n))) :
    ∀ pre, pre <+: l → Inv cfg (run cfg s pre) := by
  intro pre hpre
  have hlen := hpre.length_le
  rw [List.prefix_iff_eq_take.1 hpre]
  exact h _ (List.mem_range.2 (by omega))

end UowOps
end Continuum
